package props

import (
	"fmt"
	"go/ast"
	"go/token"
	"go/types"
	"sort"
	"strings"

	"siotcheck/kit"
)

// C10/R10: the working containers of the codec belong to the call.
//
// Encode, Decode, DiffPoints and Merge are functions of their arguments: the
// lookup tables they build on the way (points of a group by key, valid fields,
// deleted indexes, keys to delete) must hold nothing but what this call put
// there.  A container is
//   - fresh: every definition is make / a literal / new / nil, or
//   - taken from storage that outlives the call (sync.Pool): then it must be
//     empty when its content is first read.  That holds if it is emptied
//     between Get and the first read on every path, or if the pool only ever
//     receives empty containers: New returns a fresh one and every Put — the
//     deferred ones at every return — hands back a container that was emptied
//     after its last write.  A batch that is rejected half way (an early
//     `return err`) is the path that matters: what it leaves in the container
//     is read by the next call as if it were part of the next batch, and a diff
//     names only the keys that changed, so the stale entries are written into
//     the fields the diff does not mention.
//
// Container states along a path: E empty, D written since it was empty,
// G as received from the pool, GD written on top of G, R handed back.
// Helpers of the package are summarised one level deep (a release helper that
// empties its parameter, an acquire helper that returns the pooled container,
// a reset method).

const (
	c10PoolGet = "sync.(*Pool).Get"
	c10PoolPut = "sync.(*Pool).Put"
)

type c10PutEvent struct {
	f      *kit.Func
	node   ast.Node
	state  string
	exit   ast.Node // deferred Put: the return that runs it
	v      types.Object
	pool   types.Object
	undWhy string
}

type c10RawRead struct {
	f       *kit.Func
	node    ast.Node
	v       types.Object
	unknown bool // after a callee that may or may not have emptied it
}

// c10FnSum summarises what a helper does to its i-th parameter (-1: receiver)
// when entered with a written container.
type c10FnSum struct {
	final   string // state at every return ("" = differs between returns)
	putsRaw bool   // hands the parameter to a pool in the state the caller passes
	pool    types.Object
	putNode ast.Node
}

type c10Fresh struct {
	c     *kit.Ctx
	fns   []*kit.Func
	puts  []c10PutEvent
	raws  []c10RawRead
	seenP map[string]bool
	seenR map[ast.Node]bool
	sums  map[string]*c10FnSum
	busy  map[string]bool
	acq   map[*kit.Func]*c10Acq
}

// c10Acq: a helper that returns a container taken from a pool.
type c10Acq struct {
	pool  types.Object
	state string
}

func c10PoolOf(info *types.Info, call *ast.CallExpr) types.Object {
	sel, ok := ast.Unparen(call.Fun).(*ast.SelectorExpr)
	if !ok {
		return nil
	}
	x := ast.Unparen(sel.X)
	if u, ok := x.(*ast.UnaryExpr); ok && u.Op == token.AND {
		x = ast.Unparen(u.X)
	}
	return kit.ObjOf(info, x)
}

// c10GetExpr recognises P.Get() / P.Get().(T).
func c10GetExpr(info *types.Info, e ast.Expr) (types.Object, bool) {
	e = ast.Unparen(e)
	if ta, ok := e.(*ast.TypeAssertExpr); ok {
		e = ast.Unparen(ta.X)
	}
	call, ok := e.(*ast.CallExpr)
	if !ok || !kit.CallIs(info, call, c10PoolGet) {
		return nil, false
	}
	return c10PoolOf(info, call), true
}

func c10FreshExpr(info *types.Info, e ast.Expr) bool {
	e = ast.Unparen(e)
	if kit.IsNilIdent(info, e) {
		return true
	}
	if u, ok := e.(*ast.UnaryExpr); ok && u.Op == token.AND {
		e = ast.Unparen(u.X)
	}
	switch x := e.(type) {
	case *ast.CompositeLit:
		return true
	case *ast.CallExpr:
		if tv, ok := info.Types[x.Fun]; ok && tv.IsType() && len(x.Args) == 1 {
			return c10FreshExpr(info, x.Args[0])
		}
		if b, ok := kit.Callee(info, x).(*types.Builtin); ok {
			switch b.Name() {
			case "make", "new":
				return true
			case "append":
				return c10FreshExpr(info, x.Args[0])
			}
		}
	}
	return false
}

// c10PkgContainer: e names a package-level variable of map or slice type
// declared in the analysed module (possibly cut as v[a:b]).
func c10PkgContainer(info *types.Info, e ast.Expr) *types.Var {
	e = ast.Unparen(e)
	if sl, ok := e.(*ast.SliceExpr); ok {
		e = ast.Unparen(sl.X)
	}
	if _, isId := e.(*ast.Ident); !isId {
		if sel, ok := e.(*ast.SelectorExpr); !ok || info.Selections[sel] != nil {
			return nil
		}
	}
	v, ok := kit.ObjOf(info, e).(*types.Var)
	if !ok || v.IsField() || v.Pkg() == nil || v.Parent() != v.Pkg().Scope() || !strings.HasPrefix(v.Pkg().Path(), kit.ModPath) || !c10IsContainer(v.Type()) {
		return nil
	}
	return v
}

// c10TypeKeyed: the key of a memo access speaks about a reflect.Type (R7 judges those).
func c10TypeKeyed(f *kit.Func, key ast.Expr) bool {
	info := f.Info()
	hit := false
	ast.Inspect(c10ResolveLocal(f, key), func(n ast.Node) bool {
		switch x := n.(type) {
		case *ast.CallExpr:
			switch kit.RCallName(info, x) {
			case "Type.Name", "Type.PkgPath", "Type.String":
				hit = true
			}
		case *ast.Ident:
			if kit.RType(info.TypeOf(x)) == "Type" {
				hit = true
			}
		}
		return true
	})
	return hit
}

func c10IsContainer(t types.Type) bool {
	switch t.Underlying().(type) {
	case *types.Map, *types.Slice:
		return true
	}
	return false
}

func c10RootIdent(e ast.Expr) *ast.Ident {
	for {
		switch x := ast.Unparen(e).(type) {
		case *ast.Ident:
			return x
		case *ast.SelectorExpr:
			e = x.X
		case *ast.IndexExpr:
			e = x.X
		case *ast.StarExpr:
			e = x.X
		case *ast.SliceExpr:
			e = x.X
		default:
			return nil
		}
	}
}

// c10ClearLoop: `for k := range x { delete(x, k) }`.
func c10ClearLoop(info *types.Info, rs *ast.RangeStmt) types.Object {
	if rs.Key == nil || len(rs.Body.List) != 1 {
		return nil
	}
	es, ok := rs.Body.List[0].(*ast.ExprStmt)
	if !ok {
		return nil
	}
	call, ok := es.X.(*ast.CallExpr)
	if !ok || len(call.Args) != 2 {
		return nil
	}
	if b, ok := kit.Callee(info, call).(*types.Builtin); !ok || b.Name() != "delete" {
		return nil
	}
	if !kit.SameExpr(info, call.Args[0], rs.X) || kit.ObjOf(info, call.Args[1]) == nil || kit.ObjOf(info, call.Args[1]) != kit.ObjOf(info, rs.Key) {
		return nil
	}
	if _, isId := ast.Unparen(rs.X).(*ast.Ident); !isId {
		return nil
	}
	return kit.ObjOf(info, rs.X)
}

// ---- flow over one function ---------------------------------------------------

type c10FlowRun struct {
	fr      *c10Fresh
	f       *kit.Func
	info    *types.Info
	tracked map[types.Object]types.Object // variable -> pool it was taken from (nil: parameter of a summarised helper)
	quiet   bool                          // summary run: events are not recorded
	sumPut  *c10FnSum
}

func c10After(state string, op string) string {
	switch op {
	case "write":
		switch state {
		case "G", "GD":
			return "GD"
		case "R", "U":
			return state
		}
		return "D"
	case "clear":
		return "E"
	}
	return state
}

func (r *c10FlowRun) key(v types.Object) string { return "o:" + kit.VarID(v) }

func (r *c10FlowRun) read(s kit.S, v types.Object, at ast.Node) {
	if st := s.Get(r.key(v)); (st == "G" || st == "GD" || st == "U") && !r.quiet && !r.fr.seenR[at] {
		r.fr.seenR[at] = true
		r.fr.raws = append(r.fr.raws, c10RawRead{r.f, at, v, st == "U"})
	}
}

// handed records that a function this analysis does not follow gets the
// container: it reads it and may write to it; a slice keeps its length
// whatever the callee does, a map or pointer may come back emptied.
func (r *c10FlowRun) handed(s kit.S, v types.Object, at ast.Node) kit.S {
	r.read(s, v, at)
	if _, isSlice := v.Type().Underlying().(*types.Slice); isSlice {
		return s.Set(r.key(v), c10After(s.Get(r.key(v)), "write"))
	}
	return s.Set(r.key(v), "U")
}

func (r *c10FlowRun) put(s kit.S, v types.Object, pool types.Object, at ast.Node, exit ast.Node) {
	st := s.Get(r.key(v))
	if r.tracked[v] == nil && r.sumPut != nil {
		// parameter of a helper under summary
		r.sumPut.pool, r.sumPut.putNode = pool, at
		if st != "E" {
			r.sumPut.putsRaw = true
		}
		return
	}
	if r.quiet {
		return
	}
	k := fmt.Sprintf("%d/%s/%d", at.Pos(), st, func() token.Pos {
		if exit != nil {
			return exit.Pos()
		}
		return 0
	}())
	if r.fr.seenP[k] {
		return
	}
	r.fr.seenP[k] = true
	r.fr.puts = append(r.fr.puts, c10PutEvent{f: r.f, node: at, state: st, exit: exit, v: v, pool: pool})
}

// apply is the transfer function of one statement or expression.
func (r *c10FlowRun) apply(n ast.Node, s kit.S, exit ast.Node) kit.S {
	info := r.info
	if len(r.tracked) == 0 {
		return s
	}
	set := func(v types.Object, st string) { s = s.Set(r.key(v), st) }
	trk := func(e ast.Expr) types.Object {
		id := c10RootIdent(e)
		if id == nil {
			return nil
		}
		o := kit.ObjOf(info, id)
		if _, ok := r.tracked[o]; ok {
			return o
		}
		return nil
	}
	if e, isExpr := n.(ast.Expr); isExpr {
		// the range expression of an emptying loop does not read the content
		if rs, ok := r.f.Prog.Parent(r.f.File, e).(*ast.RangeStmt); ok && rs.X == e && c10ClearLoop(info, rs) != nil {
			return s
		}
	}
	handled := map[*ast.Ident]bool{}
	mark := func(e ast.Expr) {
		ast.Inspect(e, func(x ast.Node) bool {
			if id, ok := x.(*ast.Ident); ok {
				handled[id] = true
			}
			return true
		})
	}
	switch x := n.(type) {
	case *ast.DeferStmt:
		return s.Set(fmt.Sprintf("defer:%010d", x.Pos()), "1")
	case *ast.RangeStmt:
		return s // the range expression is handled at the branch
	case *ast.AssignStmt:
		for i, l := range x.Lhs {
			v := trk(l)
			if v == nil {
				continue
			}
			_, plain := ast.Unparen(l).(*ast.Ident)
			var rhs ast.Expr
			if len(x.Lhs) == len(x.Rhs) {
				rhs = x.Rhs[i]
			} else if len(x.Rhs) == 1 && i == 0 {
				rhs = x.Rhs[0]
			}
			mark(l)
			switch {
			case !plain:
				// x[k] = …, x.f = …, *x = T{}
				if st, ok := ast.Unparen(l).(*ast.StarExpr); ok && rhs != nil && c10FreshExpr(info, rhs) && trk(st.X) == v {
					set(v, "E")
				} else {
					set(v, c10After(s.Get(r.key(v)), "write"))
				}
			case rhs == nil:
			default:
				if _, isGet := c10GetExpr(info, rhs); isGet {
					set(v, "G")
					mark(rhs)
					break
				}
				if call, ok := ast.Unparen(rhs).(*ast.CallExpr); ok {
					if a := r.fr.acq[r.f.CalleeFunc(call)]; a != nil {
						set(v, a.state)
						break
					}
				}
				if c10FreshExpr(info, rhs) {
					set(v, "E")
					break
				}
				if pv := c10PkgContainer(info, rhs); pv != nil && r.tracked[v] == types.Object(pv) {
					set(v, "G") // whatever the last call left in the package-level container
					if sl, ok := ast.Unparen(rhs).(*ast.SliceExpr); ok && sl.Low == nil && sl.High != nil {
						if c, ok := kit.ConstInt(info, sl.High); ok && c == 0 {
							set(v, "E")
						}
					}
					break
				}
				// x = append(x, …) / x = x[:0]
				if call, ok := ast.Unparen(rhs).(*ast.CallExpr); ok {
					if b, ok := kit.Callee(info, call).(*types.Builtin); ok && b.Name() == "append" && trk(call.Args[0]) == v {
						set(v, c10After(s.Get(r.key(v)), "write"))
						mark(call.Args[0])
						break
					}
				}
				if sl, ok := ast.Unparen(rhs).(*ast.SliceExpr); ok && trk(sl.X) == v && sl.Low == nil && sl.High != nil {
					if c, ok := kit.ConstInt(info, sl.High); ok && c == 0 {
						set(v, "E")
						mark(sl.X)
						break
					}
				}
				set(v, "D") // defined from something else
			}
		}
	}
	// calls
	for _, call := range kit.CallsIn(n) {
		if kit.CallIs(info, call, c10PoolPut) && len(call.Args) == 1 {
			if v := trk(call.Args[0]); v != nil {
				if _, plain := ast.Unparen(call.Args[0]).(*ast.Ident); plain {
					r.put(s, v, c10PoolOf(info, call), call, exit)
					set(v, "R")
					mark(call.Args[0])
					continue
				}
			}
		}
		if b, ok := kit.Callee(info, call).(*types.Builtin); ok {
			switch b.Name() {
			case "delete":
				mark(call.Args[0])
			case "clear":
				if v := trk(call.Args[0]); v != nil {
					if _, plain := ast.Unparen(call.Args[0]).(*ast.Ident); plain {
						set(v, "E")
						mark(call.Args[0])
					}
				}
			}
			continue
		}
		if q := kit.QualName(kit.Callee(info, call)); q == "golang.org/x/exp/maps.Clear" || q == "maps.Clear" {
			if v := trk(call.Args[0]); v != nil {
				set(v, "E")
				mark(call.Args[0])
			}
			continue
		}
		// the container handed to a function
		g := r.f.CalleeFunc(call)
		args := append([]ast.Expr(nil), call.Args...)
		idx := make([]int, len(args))
		for i := range idx {
			idx[i] = i
		}
		if sel, ok := ast.Unparen(call.Fun).(*ast.SelectorExpr); ok {
			if _, isMethod := info.Selections[sel]; isMethod {
				args, idx = append(args, sel.X), append(idx, -1)
			}
		}
		for i, a := range args {
			v := trk(a)
			if v == nil {
				continue
			}
			if _, plain := ast.Unparen(a).(*ast.Ident); !plain || g == nil || g.Pkg != r.f.Pkg || r.sumPut != nil {
				s = r.handed(s, v, call)
				mark(a)
				continue
			}
			sum := r.fr.summary(g, idx[i])
			mark(a)
			switch {
			case sum == nil:
				s = r.handed(s, v, call)
			case sum.putNode != nil:
				if sum.putsRaw {
					r.put(s, v, sum.pool, call, exit)
				}
				set(v, "R")
			case sum.final == "E":
				set(v, "E")
			default:
				r.read(s, v, call)
				set(v, c10After(s.Get(r.key(v)), "write"))
				if sum.final == "" {
					set(v, "U")
				}
			}
		}
	}
	// every other mention reads the content
	ast.Inspect(n, func(x ast.Node) bool {
		switch y := x.(type) {
		case *ast.FuncLit:
			return false
		case *ast.Ident:
			if handled[y] {
				return true
			}
			if o := info.Uses[y]; o != nil {
				if _, ok := r.tracked[o]; ok {
					r.read(s, o, n)
				}
			}
		}
		return true
	})
	return s
}

// atExit runs the deferred calls registered on the path.
func (r *c10FlowRun) atExit(s kit.S, exit ast.Node) (kit.S, string) {
	var ds []string
	for _, k := range s.Keys() {
		if strings.HasPrefix(k, "defer:") {
			ds = append(ds, k)
		}
	}
	sort.Sort(sort.Reverse(sort.StringSlice(ds)))
	byPos := map[string]*ast.DeferStmt{}
	ast.Inspect(r.f.Body, func(n ast.Node) bool {
		if d, ok := n.(*ast.DeferStmt); ok {
			byPos[fmt.Sprintf("defer:%010d", d.Pos())] = d
		}
		return true
	})
	for _, k := range ds {
		d := byPos[k]
		if d == nil {
			continue
		}
		if lit, ok := ast.Unparen(d.Call.Fun).(*ast.FuncLit); ok {
			for _, st := range lit.Body.List {
				switch y := st.(type) {
				case *ast.ExprStmt, *ast.AssignStmt:
					s = r.apply(y, s, exit)
				case *ast.RangeStmt:
					if v := c10ClearLoop(r.info, y); v != nil {
						if _, ok := r.tracked[v]; ok {
							s = s.Set(r.key(v), "E")
						}
						continue
					}
					return s, "deferred function at " + r.f.At(d) + " contains a loop"
				default:
					mentions := false
					ast.Inspect(st, func(x ast.Node) bool {
						if id, ok := x.(*ast.Ident); ok {
							if _, t := r.tracked[r.info.Uses[id]]; t {
								mentions = true
							}
						}
						return true
					})
					if mentions {
						return s, "deferred function at " + r.f.At(d) + " handles the container under control flow"
					}
				}
			}
			continue
		}
		s = r.apply(&ast.ExprStmt{X: d.Call}, s, exit)
	}
	return s, ""
}

// run propagates the container states through f; init gives the state of
// parameters under summary.  It returns the states at the returns.
func (r *c10FlowRun) run(init kit.S) (finals map[string]map[string]bool, und string) {
	f := r.f
	g := r.fr.c.P.Graph(f)
	finals = map[string]map[string]bool{}
	cl := kit.Client{
		Node: func(n ast.Node, s kit.S) []kit.S { return []kit.S{r.apply(n, s, nil)} },
		Cond: func(e ast.Expr, s kit.S) (t, fl []kit.S) {
			s = r.apply(e, s, nil)
			return []kit.S{s}, []kit.S{s}
		},
		Other: func(br kit.Branch, s kit.S) (t, fl []kit.S) {
			switch {
			case br.Kind == kit.BrRange:
				if v := c10ClearLoop(r.info, br.Range); v != nil {
					if _, ok := r.tracked[v]; ok {
						return []kit.S{s}, []kit.S{s.Set(r.key(v), "E")}
					}
				}
				s = r.apply(br.Range.X, s, nil)
			case br.Tag != nil:
				s = r.apply(br.Case, s, nil)
			}
			return []kit.S{s}, []kit.S{s}
		},
		MaxStates: 50000,
	}
	res := g.Run(init, cl)
	if res.Overflow {
		return nil, "state bound exceeded in " + f.Name
	}
	hasResults := f.Type.Results != nil && len(f.Type.Results.List) > 0
	for _, e := range res.Exits {
		if e.Return == nil && hasResults {
			continue // panic
		}
		var at ast.Node = f.Body
		if e.Return != nil {
			at = e.Return
		}
		s, why := r.atExit(e.State, at)
		if why != "" {
			return nil, why
		}
		// a package-level container stays where the next call finds it
		for v, pool := range r.tracked {
			if pv, ok := pool.(*types.Var); ok && pv != nil && pv.Parent() == pv.Pkg().Scope() && c10IsContainer(pv.Type()) && s.Has(r.key(v)) && s.Get(r.key(v)) != "R" {
				r.put(s, v, pool, at, at)
			}
		}
		for v := range r.tracked {
			k := r.key(v)
			if finals[k] == nil {
				finals[k] = map[string]bool{}
			}
			finals[k][s.Get(k)] = true
		}
	}
	return finals, ""
}

// summary of helper g for its i-th parameter (-1: receiver).
func (fr *c10Fresh) summary(g *kit.Func, i int) *c10FnSum {
	key := fmt.Sprintf("%s/%d", g.Name, i)
	if s, ok := fr.sums[key]; ok {
		return s
	}
	if fr.busy[key] || g.Body == nil || g.Decl == nil {
		return nil
	}
	fr.busy[key] = true
	defer delete(fr.busy, key)
	var p types.Object
	if i == -1 {
		if g.Decl.Recv != nil && len(g.Decl.Recv.List) == 1 && len(g.Decl.Recv.List[0].Names) == 1 {
			p = g.Info().Defs[g.Decl.Recv.List[0].Names[0]]
		}
	} else if ps := g.Params(); i < len(ps) {
		p = ps[i]
	}
	if p == nil {
		fr.sums[key] = nil
		return nil
	}
	sum := &c10FnSum{}
	run := &c10FlowRun{fr: fr, f: g, info: g.Info(), tracked: map[types.Object]types.Object{p: nil}, quiet: true, sumPut: sum}
	finals, und := run.run(kit.NewS().Set(run.key(p), "D"))
	if und != "" {
		fr.sums[key] = nil
		return nil
	}
	if fs := finals[run.key(p)]; len(fs) == 1 {
		for st := range fs {
			sum.final = st
		}
	}
	fr.sums[key] = sum
	return sum
}

// ---- the rule -----------------------------------------------------------------

type c10Container struct {
	f      *kit.Func
	v      *types.Var
	decl   ast.Node
	fresh  []ast.Node
	pooled []ast.Node
	pool   types.Object
	other  bool

	pkgLevel bool // the storage is a package-level variable
	direct   bool // … used without a local alias
}

func c10R10(c *kit.Ctx, m *c10Model) {
	r10 := c.Rule("R10", "working containers of the codec are fresh per call or empty when taken from a pool", 5)
	all := c.P.Funcs("data")
	// functions connected with the codec through calls inside the package
	callees := map[*kit.Func][]*kit.Func{}
	var decls []*kit.Func
	for _, f := range all {
		if f.Body == nil || f.Decl == nil {
			continue
		}
		decls = append(decls, f)
		for _, call := range f.AllCalls(true) {
			if g := f.CalleeFunc(call); g != nil && g.Pkg == f.Pkg && g.Decl != nil {
				callees[f] = append(callees[f], g)
			}
		}
	}
	model := map[*kit.Func]bool{m.encF: true, m.decF: true, m.appender.f: true, m.setter.f: true, m.differ.f: true}
	reaches := map[*kit.Func]bool{}
	for f := range model {
		reaches[f] = true
	}
	for changed := true; changed; {
		changed = false
		for _, f := range decls {
			if reaches[f] {
				continue
			}
			for _, g := range callees[f] {
				if reaches[g] {
					reaches[f], changed = true, true
					break
				}
			}
		}
	}
	scope := map[*kit.Func]bool{}
	var down func(f *kit.Func)
	down = func(f *kit.Func) {
		if scope[f] {
			return
		}
		scope[f] = true
		for _, g := range callees[f] {
			down(g)
		}
	}
	for _, f := range decls {
		if reaches[f] {
			down(f)
		}
	}
	fr := &c10Fresh{c: c, fns: decls, seenP: map[string]bool{}, seenR: map[ast.Node]bool{}, sums: map[string]*c10FnSum{}, busy: map[string]bool{}, acq: map[*kit.Func]*c10Acq{}}

	// acquire helpers: every return hands out what Get returned (or a local holding it)
	usesPool := func(f *kit.Func) bool {
		for _, call := range f.AllCalls(true) {
			if kit.CallIs(f.Info(), call, c10PoolGet, c10PoolPut) {
				return true
			}
		}
		return false
	}
	var undGlobal []string
	collect := func(f *kit.Func) []*c10Container {
		info := f.Info()
		byVar := map[*types.Var]*c10Container{}
		var order []*c10Container
		params := map[types.Object]bool{}
		for _, p := range f.Params() {
			params[p] = true
		}
		def := func(l ast.Expr, rhs ast.Expr, at ast.Node, noValue bool) {
			id, ok := ast.Unparen(l).(*ast.Ident)
			if !ok || id.Name == "_" {
				return
			}
			v, ok := kit.ObjOf(info, id).(*types.Var)
			if !ok || v.IsField() || params[v] || v.Pkg() == nil || v.Parent() == v.Pkg().Scope() {
				return
			}
			ct := byVar[v]
			if ct == nil {
				ct = &c10Container{f: f, v: v, decl: at}
				byVar[v] = ct
				order = append(order, ct)
			}
			switch {
			case noValue:
				ct.fresh = append(ct.fresh, at)
			case rhs == nil:
				ct.other = true
			default:
				if pool, isGet := c10GetExpr(info, rhs); isGet {
					ct.pooled, ct.pool = append(ct.pooled, at), pool
					return
				}
				if call, ok := ast.Unparen(rhs).(*ast.CallExpr); ok {
					if a := fr.acq[f.CalleeFunc(call)]; a != nil {
						ct.pooled, ct.pool = append(ct.pooled, at), a.pool
						return
					}
					// derived from itself: x = append(x, …)
					if b, ok := kit.Callee(info, call).(*types.Builtin); ok && b.Name() == "append" && kit.ObjOf(info, call.Args[0]) == types.Object(v) {
						return
					}
				}
				if sl, ok := ast.Unparen(rhs).(*ast.SliceExpr); ok && kit.ObjOf(info, sl.X) == types.Object(v) {
					return
				}
				if c10FreshExpr(info, rhs) {
					ct.fresh = append(ct.fresh, at)
					return
				}
				if pv := c10PkgContainer(info, rhs); pv != nil && c10IsContainer(v.Type()) {
					ct.pooled, ct.pool, ct.pkgLevel = append(ct.pooled, at), pv, true
					return
				}
				ct.other = true
			}
		}
		// package-level containers the function works on directly
		direct := map[*types.Var]*c10Container{}
		ast.Inspect(f.Body, func(n ast.Node) bool {
			id, ok := n.(*ast.Ident)
			if !ok {
				return true
			}
			if pv := c10PkgContainer(info, id); pv != nil && direct[pv] == nil {
				ct := &c10Container{f: f, v: pv, decl: id, pooled: []ast.Node{id}, pool: pv, pkgLevel: true, direct: true}
				direct[pv] = ct
				order = append(order, ct)
			}
			return true
		})
		filter := func() {
			// keep only those that are written here by something else than a
			// type-keyed memo access (R7 judges those)
			keep := order[:0]
			for _, ct := range order {
				if !ct.pkgLevel {
					keep = append(keep, ct)
					continue
				}
				written, memo := false, false
				ast.Inspect(f.Body, func(n ast.Node) bool {
					root := func(e ast.Expr) bool {
						id := c10RootIdent(e)
						return id != nil && kit.ObjOf(info, id) == types.Object(ct.v)
					}
					switch x := n.(type) {
					case *ast.AssignStmt:
						for i, l := range x.Lhs {
							if !root(l) {
								continue
							}
							if ix, ok := ast.Unparen(l).(*ast.IndexExpr); ok {
								written = true
								if c10TypeKeyed(f, ix.Index) {
									memo = true
								}
							} else if i < len(x.Rhs) && !ct.direct {
								if call, ok := ast.Unparen(x.Rhs[i]).(*ast.CallExpr); ok {
									if b, ok := kit.Callee(info, call).(*types.Builtin); ok && b.Name() == "append" {
										written = true
									}
								}
							} else if ct.direct {
								written = true
							}
						}
					case *ast.CallExpr:
						if b, ok := kit.Callee(info, x).(*types.Builtin); ok && (b.Name() == "delete" || b.Name() == "clear") && len(x.Args) > 0 && root(x.Args[0]) {
							written = true
						}
					}
					return true
				})
				if written && !memo {
					keep = append(keep, ct)
				}
			}
			order = keep
		}
		ast.Inspect(f.Body, func(n ast.Node) bool {
			switch x := n.(type) {
			case *ast.FuncLit:
				return false
			case *ast.AssignStmt:
				if x.Tok != token.ASSIGN && x.Tok != token.DEFINE {
					return true
				}
				for i, l := range x.Lhs {
					switch {
					case len(x.Lhs) == len(x.Rhs):
						def(l, x.Rhs[i], x, false)
					case len(x.Rhs) == 1 && i == 0:
						def(l, x.Rhs[0], x, false) // v, ok := P.Get().(T)
					default:
						def(l, nil, x, false)
					}
				}
			case *ast.ValueSpec:
				for i, nm := range x.Names {
					switch {
					case len(x.Values) == 0:
						def(nm, nil, x, true)
					case len(x.Values) == len(x.Names):
						def(nm, x.Values[i], x, false)
					default:
						def(nm, nil, x, false)
					}
				}
			case *ast.RangeStmt:
				if x.Key != nil {
					def(x.Key, nil, x, false)
				}
				if x.Value != nil {
					def(x.Value, nil, x, false)
				}
			}
			return true
		})
		filter()
		return order
	}
	for _, f := range decls {
		if !usesPool(f) || len(f.Params()) != 0 {
			continue
		}
		// candidate acquire helper: a single container local taken from a pool, returned by every return
		var pooled *c10Container
		for _, ct := range collect(f) {
			if len(ct.pooled) > 0 {
				pooled = ct
			}
		}
		info := f.Info()
		direct, viaVar, bad := 0, 0, 0
		var pool types.Object
		ast.Inspect(f.Body, func(n ast.Node) bool {
			if _, ok := n.(*ast.FuncLit); ok {
				return false
			}
			if ret, ok := n.(*ast.ReturnStmt); ok && len(ret.Results) == 1 {
				if p, isGet := c10GetExpr(info, ret.Results[0]); isGet {
					direct++
					pool = p
				} else if pooled != nil && kit.ObjOf(info, ret.Results[0]) == types.Object(pooled.v) {
					viaVar++
					pool = pooled.pool
				} else if !c10FreshExpr(info, ret.Results[0]) {
					bad++
				}
			}
			return true
		})
		if bad > 0 || direct+viaVar == 0 {
			continue
		}
		a := &c10Acq{pool: pool, state: "G"}
		if viaVar > 0 {
			run := &c10FlowRun{fr: fr, f: f, info: info, tracked: map[types.Object]types.Object{pooled.v: pooled.pool}, quiet: true}
			finals, und := run.run(kit.NewS())
			if und != "" {
				undGlobal = append(undGlobal, und)
				continue
			}
			a.state = ""
			for st := range finals[run.key(pooled.v)] {
				if a.state != "" && a.state != st {
					a.state = "GD"
				} else if a.state == "" {
					a.state = st
				}
			}
		}
		fr.acq[f] = a
	}

	// containers and flows
	var conts []*c10Container
	for _, f := range decls {
		if !scope[f] && !usesPool(f) {
			continue
		}
		cs := collect(f)
		tracked := map[types.Object]types.Object{}
		for _, ct := range cs {
			if len(ct.pooled) > 0 {
				tracked[ct.v] = ct.pool
				if ct.pool == nil {
					undGlobal = append(undGlobal, "pool of "+ct.v.Name()+" in "+f.Name+" is not a variable")
				}
			}
			if scope[f] && (len(ct.pooled) > 0 || c10IsContainer(ct.v.Type()) && len(ct.fresh) > 0 && !ct.other) {
				conts = append(conts, ct)
			}
		}
		if !usesPool(f) && len(tracked) == 0 {
			continue
		}
		// Put of something that is not a tracked local
		info := f.Info()
		for _, call := range f.AllCalls(true) {
			if !kit.CallIs(info, call, c10PoolPut) || len(call.Args) != 1 {
				continue
			}
			o := kit.ObjOf(info, call.Args[0])
			if _, ok := tracked[o]; ok {
				continue
			}
			isParam := false
			for i, p := range f.Params() {
				if types.Object(p) == o {
					isParam = true
					// judged at the call sites through the summary
					if sum := fr.summary(f, i); sum == nil {
						fr.puts = append(fr.puts, c10PutEvent{f: f, node: call, pool: c10PoolOf(info, call), undWhy: "the helper could not be summarised"})
					}
				}
			}
			if !isParam {
				fr.puts = append(fr.puts, c10PutEvent{f: f, node: call, pool: c10PoolOf(info, call), undWhy: "what is handed back is not a local taken from the pool"})
			}
		}
		if len(tracked) == 0 {
			continue
		}
		run := &c10FlowRun{fr: fr, f: f, info: info, tracked: tracked}
		init := kit.NewS()
		for _, ct := range cs {
			if ct.direct {
				init = init.Set(run.key(ct.v), "G")
			}
		}
		if _, und := run.run(init); und != "" {
			undGlobal = append(undGlobal, und)
		}
		c.AddValuations(1)
	}

	// pool discipline
	type poolVerdict struct {
		bad []c10PutEvent
		und []string
		n   int
	}
	pools := map[types.Object]*poolVerdict{}
	pv := func(p types.Object) *poolVerdict {
		if pools[p] == nil {
			pools[p] = &poolVerdict{}
		}
		return pools[p]
	}
	for _, ev := range fr.puts {
		v := pv(ev.pool)
		v.n++
		switch {
		case ev.undWhy != "":
			v.und = append(v.und, fmt.Sprintf("Put at %s: %s", ev.f.At(ev.node), ev.undWhy))
		case ev.state == "E" || ev.state == "G":
		case ev.state == "D" || ev.state == "GD":
			v.bad = append(v.bad, ev)
		default:
			v.und = append(v.und, fmt.Sprintf("Put at %s: state of the container not determined", ev.f.At(ev.node)))
		}
	}
	newOf := func(pool types.Object) (ok bool, why string) {
		if pool == nil {
			return false, "pool is not a variable"
		}
		ok = true
		check := func(f *kit.Func, lit *ast.FuncLit) {
			ast.Inspect(lit.Body, func(n ast.Node) bool {
				if inner, isLit := n.(*ast.FuncLit); isLit && inner != lit {
					return false
				}
				if ret, isRet := n.(*ast.ReturnStmt); isRet {
					for _, r := range ret.Results {
						if !c10FreshExpr(f.Info(), r) {
							ok, why = false, "New of the pool returns `"+f.Str(r)+"`, which is not a fresh container"
						}
					}
				}
				return true
			})
		}
		pkg := c.P.MustPkg("data")
		for _, file := range pkg.Syntax {
			ast.Inspect(file, func(n ast.Node) bool {
				kv, isKV := n.(*ast.KeyValueExpr)
				if !isKV {
					return true
				}
				id, isId := kv.Key.(*ast.Ident)
				if !isId || id.Name != "New" {
					return true
				}
				lit, isLit := ast.Unparen(kv.Value).(*ast.FuncLit)
				if fld, isVar := pkg.TypesInfo.Uses[id].(*types.Var); !isVar || !fld.IsField() || fld.Pkg() == nil || fld.Pkg().Path() != "sync" {
					return true
				}
				// the literal belongs to this pool if it initialises the pool variable
				owner := false
				for _, f2 := range pkg.Syntax {
					ast.Inspect(f2, func(x ast.Node) bool {
						if vs, isVS := x.(*ast.ValueSpec); isVS {
							for i, nm := range vs.Names {
								if pkg.TypesInfo.Defs[nm] == pool && i < len(vs.Values) && c10Within(kv, vs.Values[i]) {
									owner = true
								}
							}
						}
						return true
					})
				}
				if !owner {
					return true
				}
				if !isLit {
					ok, why = false, "New of the pool is not a function literal"
					return true
				}
				for _, f := range all {
					if f.Lit == lit {
						check(f, lit)
						return true
					}
				}
				if len(decls) > 0 {
					check(decls[0], lit) // package-level literal: same package info
				}
				return true
			})
		}
		return
	}

	sort.SliceStable(conts, func(i, j int) bool { return conts[i].decl.Pos() < conts[j].decl.Pos() })
	for _, ct := range conts {
		f := ct.f
		if len(ct.pooled) == 0 {
			o := r10.Ob(f, ct.decl, "container "+ct.v.Name(), "holds only what this call puts into it")
			o.OK("fresh per call: %d definition(s), each make / literal / nil", len(ct.fresh))
			continue
		}
		from := "pool " + c10ObjName(ct.pool)
		switch {
		case ct.direct:
			from = "the package-level variable itself"
		case ct.pkgLevel:
			from = "package-level variable " + c10ObjName(ct.pool)
		}
		o := r10.Ob(f, ct.pooled[0], "container "+ct.v.Name()+" taken from "+from, "is empty when its content is first read")
		if len(undGlobal) > 0 {
			o.Undecided("%s", strings.Join(undGlobal, "; "))
			continue
		}
		var raw *c10RawRead
		for i := range fr.raws {
			if fr.raws[i].v == types.Object(ct.v) && (raw == nil || raw.unknown && !fr.raws[i].unknown || raw.unknown == fr.raws[i].unknown && fr.raws[i].node.Pos() < raw.node.Pos()) {
				raw = &fr.raws[i]
			}
		}
		if raw == nil {
			o.OK("emptied (or replaced by a fresh one) between Get and the first read on every path")
			continue
		}
		if raw.unknown {
			o.Undecided("cannot tell whether %s still holds what came out of the pool when it is read at %s: it was handed to a function that is not followed", ct.v.Name(), f.At(raw.node))
			continue
		}
		v := pv(ct.pool)
		newOK, newWhy := newOf(ct.pool)
		switch {
		case len(v.bad) > 0:
			ev := v.bad[0]
			how := fmt.Sprintf("Put at %s", ev.f.At(ev.node))
			switch {
			case ev.exit != nil && ev.exit == ev.node:
				how = fmt.Sprintf("return of %s at %s (`%s`)", ev.f.Name, ev.f.At(ev.exit), c10OneLine(ev.f, ev.exit))
			case ev.exit != nil:
				how = fmt.Sprintf("deferred Put (%s) when %s returns at %s (`%s`)", ev.f.At(ev.node), ev.f.Name, ev.f.At(ev.exit), c10OneLine(ev.f, ev.exit))
			}
			o.Violation("%s is read at %s as it was left there, but the storage it comes from does not only hold empty containers: the %s leaves %s still holding what that call wrote (no emptying between the last write and that point; %d such path(s)). "+
				"The next call that gets this container reads the entries of the earlier — e.g. rejected — batch as if they belonged to its own: a diff names only the changed keys, so the stale entries are written into the fields it does not mention and decode(before)+diff(before,after) differs from after. "+
				"Empty the container on every path before it is handed back (in a deferred function) or right after taking it",
				ct.v.Name(), f.At(raw.node), how, ev.v.Name(), len(v.bad))
		case len(v.und) > 0:
			o.Undecided("%s", strings.Join(v.und, "; "))
		case !newOK:
			o.Undecided("%s", newWhy)
		default:
			o.OK("the pool only holds empty containers: New returns a fresh one and each of the %d Put path(s) hands back an emptied or untouched container", v.n)
		}
	}
}

func c10OneLine(f *kit.Func, n ast.Node) string {
	if _, isBlock := n.(*ast.BlockStmt); isBlock {
		return "end of function"
	}
	return strings.Join(strings.Fields(f.Str(n)), " ")
}

func c10ObjName(o types.Object) string {
	if o == nil {
		return "?"
	}
	return o.Name()
}
