package props

import (
	"go/ast"
	"go/constant"
	"go/token"
	"go/types"
	"strconv"
	"strings"

	"siotcheck/kit"
)

func init() {
	kit.Register(&kit.Prop{
		ID:    "C06",
		Title: "Every accepted change is rebroadcast to every live ancestor",
		Explanation: "Structural necessary conditions of the rebroadcast (DESIGN.md §3/C06): R1 on the success edge of each point writer the bus handler calls the upstream walker with the decoded ids and the very slice decoded from the message, before acknowledging; " +
			"R2 each walker publishes up.<ancestor>.<node>[.<parent>] with its points parameter on every entry, obtains the parents of the ancestor with includeDeleted=false (node points) / true (edge points) and recurses once per parent with the remaining parameters unchanged; recursion started with `go` in the loop does not read a loop variable shared by all iterations (language version of the file < 1.22) and is waited for (sync.WaitGroup Add/Done/Wait) before every return; " +
			"R3 the parent lookup returns the upper end of every edge into the node iff includeDeleted or the edge's tombstone value is even (enumerated over includeDeleted x tombstone in {0,1}); " +
			"R4 the subject layout written by the walkers is the layout read by the subject decoders; " +
			"R5 the list the parent lookup returns is not backed by a receiver/parameter field or a package-level variable (traced through locals, slicing, append and store helpers) unless every walker copies it before it recurses inside its loop over it. NATS delivery and graph content are not decided.",
		Assumptions: []string{
			"NATS delivers published messages to matching subscribers at least once",
			"tombstone edge points carry the documented values (even = live, odd = deleted); enumerated at 0 and 1",
			"the graph is acyclic (C05) so the upward recursion terminates",
		},
		Run: runC06,
	})
}

type walker struct {
	f        *kit.Func
	verbs    int           // number of id tokens in the subject
	sprintf  ast.Expr      // the subject expression (anchor)
	pubCall  *ast.CallExpr // the publishing call that carries it
	tokens   []subjPart    // subject split at '.'
	strs     []*types.Var  // string params in order
	points   *types.Var
	ancestor *types.Var
	// shared recursion: f is a thin wrapper that calls rec (the self-recursive
	// function) with a subject-building function value and, possibly, the
	// includeDeleted flag; nil when f recurses itself
	rec      *kit.Func
	recCall  *ast.CallExpr             // f's call of rec
	otherIDs []*types.Var              // f's id parameters that appear in the subject (in token order)
	bind     map[types.Object]ast.Expr // rec's parameters and receiver fields -> what f supplies
}

// isBusSend: a call that publishes on the bus (nc.Publish*, or a client.* helper taking the connection).
func isBusSend(info *types.Info, call *ast.CallExpr) bool {
	obj := kit.Callee(info, call)
	q := kit.QualName(obj)
	if strings.HasPrefix(q, natsPkg+".(*Conn).Publish") {
		return true
	}
	if fn, ok := obj.(*types.Func); ok && fn.Pkg() != nil && fn.Pkg().Path() == clientPkg {
		sig := fn.Type().(*types.Signature)
		for i := 0; i < sig.Params().Len(); i++ {
			if kit.IsNamedType(sig.Params().At(i).Type(), natsPkg, "Conn") {
				return true
			}
		}
	}
	return false
}

// findWalkers: self-recursive store functions that publish on a subject whose
// first token is the literal "up" (however the subject string is put together).
func findWalkers(c *kit.Ctx) []*walker {
	var out []*walker
	for _, f := range c.P.Funcs("store") {
		if f.Decl == nil || f.Body == nil {
			continue
		}
		// the recursive call may sit in a function literal of the loop body
		// (`go func() { … }()`); how such a literal is run is judged in R2
		if !c06SelfRecursive(f) {
			continue
		}
		var w *walker
		for _, call := range f.AllCalls(false) {
			if !isBusSend(f.Info(), call) {
				continue
			}
			for _, a := range call.Args {
				if b, ok := f.Info().TypeOf(a).Underlying().(*types.Basic); !ok || b.Kind() != types.String {
					continue
				}
				parts, ok := subjectParts(f, a, nil, 0)
				if !ok {
					continue
				}
				toks, ok := subjectLayout(parts)
				if !ok || len(toks) == 0 || toks[0].obj != nil || toks[0].lit != "up" {
					continue
				}
				w = &walker{f: f, sprintf: a, pubCall: call, tokens: toks}
				for _, t := range toks[1:] {
					if t.obj != nil {
						w.verbs++
					}
				}
			}
		}
		if w == nil {
			continue
		}
		for _, p := range f.Params() {
			if b, ok := p.Type().Underlying().(*types.Basic); ok && b.Kind() == types.String {
				w.strs = append(w.strs, p)
			} else if kit.IsNamedType(p.Type(), dataPkg, "Points") {
				w.points = p
			} else if sl, ok := p.Type().Underlying().(*types.Slice); ok && kit.IsNamedType(sl.Elem(), dataPkg, "Point") {
				w.points = p
			}
		}
		out = append(out, w)
	}
	direct := map[*kit.Func]bool{}
	for _, w := range out {
		direct[w.f] = true
	}
	out = append(out, findSharedWalkers(c, direct)...)
	return out
}

// findSharedWalkers: the two walkers merged behind one recursive helper — a
// function that takes the subject as a function value (`rebroadcast(up,
// includeDeleted, subjectFor, points)`), or a method of a small type whose fields
// carry the rest of the subject, the points and the flag (`upstreamPublisher{…}.
// publish(up)`).  Each non-recursive caller that makes the helper publish on an
// "up.…" subject is one walker; what the helper reads from a parameter or a
// receiver field is resolved to what that caller supplied.
func findSharedWalkers(c *kit.Ctx, direct map[*kit.Func]bool) []*walker {
	var out []*walker
	for _, rec := range c.P.Funcs("store") {
		if rec.Decl == nil || rec.Body == nil || direct[rec] {
			continue
		}
		info := rec.Info()
		if !c06SelfRecursive(rec) {
			continue
		}
		var pub *ast.CallExpr
		var subj ast.Expr
		for _, call := range rec.AllCalls(false) {
			if !isBusSend(info, call) {
				continue
			}
			for _, a := range call.Args {
				if b, ok := info.TypeOf(a).Underlying().(*types.Basic); ok && b.Kind() == types.String {
					pub, subj = call, a
				}
			}
		}
		if pub == nil {
			continue
		}
		var recvObj types.Object
		if rec.Decl.Recv != nil && len(rec.Decl.Recv.List) > 0 && len(rec.Decl.Recv.List[0].Names) > 0 {
			recvObj = info.Defs[rec.Decl.Recv.List[0].Names[0]]
		}
		for _, g := range c.P.Funcs("store") {
			if g.Decl == nil || g.Body == nil || g == rec {
				continue
			}
			ginfo := g.Info()
			for _, call := range g.AllCalls(false) {
				if g.CalleeFunc(call) != rec {
					continue
				}
				w := &walker{f: g, rec: rec, recCall: call, pubCall: pub, sprintf: subj, bind: map[types.Object]ast.Expr{}}
				env := map[types.Object][]subjPart{}
				// parameters: function values and non-string values are bound to the caller's arguments
				for i, p := range rec.Params() {
					if i >= len(call.Args) {
						break
					}
					w.bind[p] = call.Args[i]
					if _, isSig := p.Type().Underlying().(*types.Signature); isSig {
						var lit *kit.Func
						if fl, ok := ast.Unparen(call.Args[i]).(*ast.FuncLit); ok {
							lit = c.P.LitFunc("store", fl)
						} else if v, ok := kit.ObjOf(ginfo, call.Args[i]).(*types.Var); ok {
							lit = g.LocalClosure(v)
						}
						if lit != nil {
							env[p] = []subjPart{{fn: lit}}
						}
					}
				}
				// receiver fields: from the composite literal the caller builds the receiver with
				if recvObj != nil {
					if sel, ok := ast.Unparen(call.Fun).(*ast.SelectorExpr); ok {
						if lit := compositeOf(g, sel.X, 0); lit != nil {
							if stt, ok := ginfo.TypeOf(lit).Underlying().(*types.Struct); ok {
								for i, el := range lit.Elts {
									var fld *types.Var
									val := el
									if kv, ok := el.(*ast.KeyValueExpr); ok {
										val = kv.Value
										if id, ok := kv.Key.(*ast.Ident); ok {
											for j := 0; j < stt.NumFields(); j++ {
												if stt.Field(j).Name() == id.Name {
													fld = stt.Field(j)
												}
											}
										}
									} else if i < stt.NumFields() {
										fld = stt.Field(i)
									}
									if fld == nil {
										continue
									}
									w.bind[fld] = val
									if b, ok := fld.Type().Underlying().(*types.Basic); ok && b.Kind() == types.String {
										if ps, ok := subjectParts(g, val, nil, 0); ok {
											env[fld] = ps
										}
									}
								}
							}
						}
					}
				}
				parts, ok := subjectParts(rec, subj, env, 0)
				if !ok {
					continue
				}
				toks, ok := subjectLayout(parts)
				if !ok || len(toks) == 0 || toks[0].obj != nil || toks[0].lit != "up" {
					continue
				}
				w.tokens = toks
				recParam := map[types.Object]bool{}
				for _, p := range rec.Params() {
					recParam[p] = true
				}
				for _, t := range toks[1:] {
					if t.obj != nil {
						w.verbs++
						if v, ok := t.obj.(*types.Var); ok && !recParam[t.obj] {
							w.otherIDs = append(w.otherIDs, v)
						}
					}
				}
				for _, p := range rec.Params() {
					if b, ok := p.Type().Underlying().(*types.Basic); ok && b.Kind() == types.String {
						w.strs = append(w.strs, p)
					}
				}
				// the points: a parameter of the helper, or a receiver field the caller filled
				for _, a := range pub.Args {
					t := info.TypeOf(a)
					isPts := kit.IsNamedType(t, dataPkg, "Points")
					if sl, ok := t.Underlying().(*types.Slice); ok && kit.IsNamedType(sl.Elem(), dataPkg, "Point") {
						isPts = true
					}
					if isPts {
						if v, ok := kit.ObjOf(info, a).(*types.Var); ok {
							w.points = v
						}
					}
				}
				out = append(out, w)
			}
		}
	}
	return out
}

// compositeOf returns the struct literal e denotes in f: the literal itself
// (possibly behind &), or a local defined once as one.
func compositeOf(f *kit.Func, e ast.Expr, depth int) *ast.CompositeLit {
	info := f.Info()
	e = ast.Unparen(e)
	if u, ok := e.(*ast.UnaryExpr); ok && u.Op == token.AND {
		e = ast.Unparen(u.X)
	}
	if cl, ok := e.(*ast.CompositeLit); ok {
		return cl
	}
	if o := kit.ObjOf(info, e); o != nil && depth < 2 {
		var def ast.Expr
		n := 0
		ast.Inspect(f.Body, func(x ast.Node) bool {
			if as, ok := x.(*ast.AssignStmt); ok && len(as.Lhs) == len(as.Rhs) {
				for i, l := range as.Lhs {
					if kit.ObjOf(info, l) == o {
						n++
						def = as.Rhs[i]
					}
				}
			}
			return true
		})
		if n == 1 && def != nil {
			return compositeOf(f, def, depth+1)
		}
	}
	return nil
}

// inWrapper resolves an expression of the shared helper to what the wrapper
// supplied for it: a parameter to the wrapper's argument, a receiver field to the
// value the wrapper's literal gives it.
func (w *walker) inWrapper(e ast.Expr) (ast.Expr, *kit.Func) {
	if w.rec == nil {
		return e, w.f
	}
	if o := kit.ObjOf(w.rec.Info(), e); o != nil {
		if x, ok := w.bind[o]; ok {
			return x, w.f
		}
	}
	return e, w.rec
}

// upFuncs: store functions (string, bool) -> ([]string, error) that read edges WHERE down.
func findUpFunc(c *kit.Ctx, m *storeModel) *kit.Func {
	var found *kit.Func
	for _, f := range c.P.Funcs("store") {
		if f.Decl == nil || f.Type.Results == nil || len(f.Type.Results.List) != 2 {
			continue
		}
		rt := f.Info().TypeOf(f.Type.Results.List[0].Type)
		sl, ok := rt.Underlying().(*types.Slice)
		if !ok {
			continue
		}
		if b, ok := sl.Elem().Underlying().(*types.Basic); !ok || b.Kind() != types.String {
			continue
		}
		ps := f.Params()
		if len(ps) != 2 {
			continue
		}
		if b, ok := ps[1].Type().Underlying().(*types.Basic); !ok || b.Kind() != types.Bool {
			continue
		}
		for _, s := range m.sql.Sites {
			if s.F == f && s.HasVerb("SELECT", "edges") {
				found = f
			}
		}
	}
	return found
}

func runC06(c *kit.Ctx) {
	m := newStoreModel(c)
	r1 := c.Rule("R1", "handler: walker with decoded arguments before the ack", 4)
	r2 := c.Rule("R2", "walker shape: publish, parents, recursion", 10)
	r3 := c.Rule("R3", "parent lookup filter truth table", 5)
	r4 := c.Rule("R4", "subject layout agreement", 6)
	r5 := c.Rule("R5", "parents list has storage of its own", 1)

	walkers := findWalkers(c)
	if len(walkers) < 2 {
		c.Fatalf("found %d upstream walkers (self-recursive store functions publishing on a constant \"up.\" format), floor is 2", len(walkers))
	}
	upf := findUpFunc(c, m)
	if upf == nil {
		c.Fatalf("parent lookup function (string, bool) -> ([]string, error) reading edges not found")
	}
	c.Analysed(upf)

	// ---- R1
	checkHandlers(c, m, nil, nil, r1)
	c06HandlerArgs(c, m, r1, walkers)

	// ---- R2
	var loops []*walkLoop
	for _, w := range walkers {
		c.Analysed(w.f)
		loops = append(loops, c06WalkerShape(c, m, r2, w, upf))
	}
	// ---- R3
	c06UpTable(c, m, r3, upf)
	// ---- R4
	c06Subjects(c, r4, walkers)
	// ---- R5
	c06SharedParents(c, r5, upf, loops)
}

// c06HandlerArgs: the walker call in each handler passes (id, id[, parent], points)
// with the objects decoded from the message, which are also what the writer got,
// and none of them is reassigned in the handler.
func c06HandlerArgs(c *kit.Ctx, m *storeModel, r1 *kit.Rule, walkers []*walker) {
	for _, f := range c.P.Funcs("store") {
		if f.Body == nil || msgParam(f) == nil {
			continue
		}
		wcall, w := findWriterCall(m, f, 0)
		if w == nil {
			continue
		}
		o := r1.Ob(f, wcall, "walker arguments after "+w.Table+" writer", "walker receives (id, id[, parent], points) = the values decoded from the message and written to the store")
		// h: the function that directly contains the writer call (the handler itself, or
		// the helper it delegates the write to)
		h := f
		var hcall *ast.CallExpr // call of h in the handler, when h != f
		if !directlyContains(f, wcall) {
			h = nil
			for _, call := range f.AllCalls(false) {
				if cf := f.CalleeFunc(call); cf != nil && cf.PkgRel() == "store" && directlyContains(cf, wcall) {
					h, hcall = cf, call
				}
			}
			if h == nil {
				o.Undecided("the writer call is more than one helper away from the handler")
				continue
			}
			c.Analysed(h)
		}
		info := h.Info()
		var up *ast.CallExpr
		var wk *walker
		for _, call := range h.AllCalls(false) {
			for _, x := range walkers {
				if h.CalleeFunc(call) == x.f {
					up, wk = call, x
				}
			}
		}
		if up == nil {
			o.Violation("the function that writes %s (%s) never calls an upstream walker", w.Table, h.Name)
			continue
		}
		wantVerbs := 2
		if w.Table == "edge_points" {
			wantVerbs = 3
		}
		if wk.verbs != wantVerbs {
			o.Violation("handler of the %s writer calls the walker publishing %d subject tokens (expected %d)", w.Table, wk.verbs, wantVerbs)
			continue
		}
		var wobjs []types.Object
		okArgs := true
		for _, a := range wcall.Args {
			ob := kit.ObjOf(info, a)
			if ob == nil {
				okArgs = false
			}
			wobjs = append(wobjs, ob)
		}
		if !okArgs || len(up.Args) != len(wcall.Args)+1 {
			o.Undecided("writer/walker arguments are not plain variables")
			continue
		}
		exp := append([]types.Object{wobjs[0]}, wobjs...)
		bad := ""
		for i, a := range up.Args {
			if kit.ObjOf(info, a) != exp[i] {
				bad = "argument " + strconv.Itoa(i+1) + " of the walker call is `" + h.Str(a) + "`, expected `" + exp[i].Name() + "`"
				break
			}
		}
		// provenance: each written value is decoded from the message exactly once and never
		// reassigned; through a helper, the helper's parameters are never reassigned and
		// the handler passes them the decoded values
		assignedOnceFromMsg := func(fn *kit.Func, ob types.Object) (n int, fromDecode bool) {
			finfo := fn.Info()
			ast.Inspect(fn.Body, func(x ast.Node) bool {
				switch as := x.(type) {
				case *ast.AssignStmt:
					for _, l := range as.Lhs {
						if kit.ObjOf(finfo, l) == ob {
							n++
							if len(as.Rhs) == 1 {
								if call, ok := ast.Unparen(as.Rhs[0]).(*ast.CallExpr); ok {
									for _, a := range call.Args {
										if kit.ObjOf(finfo, a) == types.Object(msgParam(f)) {
											fromDecode = true
										}
									}
								}
							}
						}
					}
				case *ast.IncDecStmt:
					if kit.ObjOf(finfo, as.X) == ob {
						n++
					}
				}
				return true
			})
			return
		}
		if bad == "" {
			for _, ob := range wobjs {
				if h == f {
					if n, fromDecode := assignedOnceFromMsg(f, ob); n != 1 || !fromDecode {
						bad = "`" + ob.Name() + "` is not assigned exactly once from the decoded message"
					}
					continue
				}
				// parameter of the helper: never reassigned there
				pi := -1
				for i, p := range h.Params() {
					if types.Object(p) == ob {
						pi = i
					}
				}
				if pi < 0 || pi >= len(hcall.Args) {
					bad = "`" + ob.Name() + "` in " + h.Name + " is not a parameter handed in by the handler"
					continue
				}
				if n, _ := assignedOnceFromMsg(h, ob); n != 0 {
					bad = "parameter `" + ob.Name() + "` is reassigned in " + h.Name
					continue
				}
				ho := kit.ObjOf(f.Info(), hcall.Args[pi])
				if ho == nil {
					bad = "the handler passes `" + f.Str(hcall.Args[pi]) + "` to " + h.Name + ", not a decoded variable"
					continue
				}
				if n, fromDecode := assignedOnceFromMsg(f, ho); n != 1 || !fromDecode {
					bad = "`" + ho.Name() + "` is not assigned exactly once from the decoded message"
				}
			}
		}
		if bad != "" {
			o.Violation("%s", bad)
		} else {
			o.OK("%s(%s)", wk.f.Name, h.Str(up))
		}
	}
}

func directlyContains(f *kit.Func, target *ast.CallExpr) bool {
	for _, call := range f.AllCalls(false) {
		if call == target {
			return true
		}
	}
	return false
}

// c06WalkerShape judges one walker (R2) and reports what it found out about the
// walker's loop over the parents (for R5).
func c06WalkerShape(c *kit.Ctx, m *storeModel, r2 *kit.Rule, w *walker, upf *kit.Func) *walkLoop {
	wrapper := w.f
	f := w.f
	if w.rec != nil {
		// the recursion lives in the shared helper; obligations stay keyed by the wrapper
		f = w.rec
		c.Analysed(w.rec)
	}
	wl := &walkLoop{w: w, f: f}
	info := f.Info()
	kind := "node-points"
	wantDel := false
	if w.verbs == 3 {
		kind, wantDel = "edge-points", true
	}
	oPub := r2.Ob(wrapper, w.sprintf, kind+" walker: publish", "publishes Sprintf(up-format, ancestor, remaining ids…) with the points parameter before any return")
	oUp := r2.Ob(wrapper, w.sprintf, kind+" walker: parents", "parents of the ancestor come from the parent lookup with includeDeleted="+strconv.FormatBool(wantDel))
	oRec := r2.Ob(wrapper, w.sprintf, kind+" walker: recursion", "every parent is visited: one self-call per loop iteration with (parent, remaining parameters unchanged)")

	if w.points == nil || (w.rec == nil && len(w.strs) != w.verbs) || (w.rec != nil && len(w.otherIDs)+1 != w.verbs) {
		oPub.Undecided("walker has %d string parameters for %d subject tokens, points parameter found=%v", len(w.strs), w.verbs, w.points != nil)
		return wl
	}
	// ancestor role: the string parameter passed to the parent lookup
	var upCall *ast.CallExpr
	for _, call := range f.AllCalls(false) {
		if f.CalleeFunc(call) == upf {
			upCall = call
		}
	}
	if upCall == nil || len(upCall.Args) != 2 {
		oUp.Violation("walker never asks the parent lookup %s for the parents of the current ancestor", upf.Name)
		return wl
	}
	for _, p := range w.strs {
		if kit.ObjOf(info, upCall.Args[0]) == p {
			w.ancestor = p
		}
	}
	if w.ancestor == nil {
		oUp.Violation("parent lookup is called with `%s`, not with a parameter of the walker", f.Str(upCall.Args[0]))
		return wl
	}
	// includeDeleted handed through from the wrapper (argument or receiver field): its value is what the wrapper supplies
	inclExpr, inclF := w.inWrapper(upCall.Args[1])
	inclInfo := inclF.Info()
	if v, ok := inclInfo.Types[inclExpr]; ok && v.Value != nil && v.Value.Kind() == constant.Bool && inclF != f {
		if constant.BoolVal(v.Value) != wantDel {
			oUp.Violation("%s walker hands includeDeleted=%v to %s: %s", kind, constant.BoolVal(v.Value), f.Name,
				map[bool]string{true: "node points would be announced above deleted edges", false: "a deletion would not be announced above the deleted edge"}[constant.BoolVal(v.Value)])
		} else {
			oUp.OK("%s with includeDeleted=%v from %s", f.Str(upCall), wantDel, wrapper.Name)
		}
	} else if v, ok := info.Types[upCall.Args[1]]; !ok || v.Value == nil || v.Value.Kind() != constant.Bool {
		// an argument that depends on the walker's own parameters changes along the
		// walk (the first hop passes other values than later hops): for some
		// position it differs from the required constant
		dep := false
		ast.Inspect(upCall.Args[1], func(n ast.Node) bool {
			if id, ok := n.(*ast.Ident); ok {
				for _, p := range f.Params() {
					if kit.ObjOf(info, id) == types.Object(p) {
						dep = true
					}
				}
			}
			return true
		})
		if dep {
			oUp.Violation("%s walker passes includeDeleted=`%s`, which depends on the position in the walk instead of being the constant %v: on some hops %s", kind, f.Str(upCall.Args[1]), wantDel,
				map[bool]string{true: "a deletion is not announced above a tombstoned edge", false: "node points are announced above deleted edges"}[wantDel])
		} else {
			oUp.Undecided("includeDeleted argument `%s` is not a constant", f.Str(upCall.Args[1]))
		}
	} else if constant.BoolVal(v.Value) != wantDel {
		oUp.Violation("%s walker calls the parent lookup with includeDeleted=%v: %s", kind, constant.BoolVal(v.Value),
			map[bool]string{true: "node points would be announced above deleted edges", false: "a deletion would not be announced above the deleted edge"}[constant.BoolVal(v.Value)])
	} else {
		oUp.OK("%s", f.Str(upCall))
	}
	// subject tokens: "up", the ancestor, then the other string params in order
	exp := []*types.Var{w.ancestor}
	for _, p := range w.strs {
		if p != w.ancestor {
			exp = append(exp, p)
		}
	}
	if w.rec != nil {
		// the other ids are the wrapper's own id parameters, in the wrapper's order, minus its start
		exp = []*types.Var{w.ancestor}
		var startObj types.Object
		for i, p := range f.Params() {
			if p == w.ancestor && i < len(w.recCall.Args) {
				startObj = kit.ObjOf(wrapper.Info(), w.recCall.Args[i])
			}
		}
		first := true
		for _, p := range wrapper.Params() {
			if b, ok := p.Type().Underlying().(*types.Basic); ok && b.Kind() == types.String {
				if first && types.Object(p) != startObj {
					oPub.Violation("%s starts the walk at `%v`, expected its first id parameter `%s`", wrapper.Name, startObj, p.Name())
					return wl
				}
				if !first {
					exp = append(exp, p)
				}
				first = false
			}
		}
	}
	ids := w.tokens[1:]
	if len(ids) != len(exp) {
		oPub.Violation("subject has %d tokens after \"up\", walker has %d id parameters", len(ids), len(exp))
		return wl
	}
	for i, t := range ids {
		if t.obj != types.Object(exp[i]) {
			got := t.lit
			if t.obj != nil {
				got = t.obj.Name()
			}
			oPub.Violation("subject token %d is `%s`, expected parameter `%s`", i+1, got, exp[i].Name())
			return wl
		}
	}
	isPublish := func(call *ast.CallExpr) bool {
		if call != w.pubCall {
			return false
		}
		for _, a := range call.Args {
			if kit.ObjOf(info, a) == types.Object(w.points) {
				if w.rec == nil {
					return true
				}
				// through the shared helper: what it sends is the wrapper's own points parameter
				x, xf := w.inWrapper(a)
				for _, p := range wrapper.Params() {
					if xf == wrapper && kit.ObjOf(wrapper.Info(), x) == types.Object(p) {
						return true
					}
				}
			}
		}
		return false
	}
	// flow: publish before any return; loop iterations each self-call
	var upsVar types.Object
	var upAssign ast.Node
	if as, ok := c.P.Parent(f.File, upCall).(*ast.AssignStmt); ok && len(as.Lhs) > 0 {
		upsVar, upAssign = kit.ObjOf(info, as.Lhs[0]), as
	}
	// the loop may run over a private copy of the list (append([]string(nil), ups...), slices.Clone)
	pl := c06Parents(f, upsVar, upAssign)
	for _, rs := range f.SliceLoops(f.Body) {
		if ok, copied := pl.ranges(rs); ok {
			wl.loop, wl.copied = rs, copied
		}
	}
	// recursion in function literals: run in place (`func(){…}()`, part of the loop
	// body), started with `go` (followed below), or out of reach (stored, handed on, deferred)
	sites := c06RecSites(f)
	outOfReach := ""
	for _, s := range sites {
		if wl.loop != nil && wl.loop.Body.Pos() <= s.call.Pos() && s.call.End() <= wl.loop.Body.End() {
			wl.recInLoop = true
		}
		for _, l := range s.lits {
			if l.how != "call" && l.how != "go" {
				outOfReach = "the recursive call at " + f.At(s.call) + " sits in a function literal that is " + map[string]string{"defer": "deferred", "value": "stored or handed on"}[l.how] + "; when it runs is not followed"
			}
		}
	}
	var loopAt ast.Node = w.sprintf
	if wl.loop != nil {
		loopAt = wl.loop
	}
	oIter := r2.Ob(wrapper, loopAt, kind+" walker: parent of the iteration", "each iteration's recursion uses that iteration's parent (no goroutine reads a loop variable that is shared by all iterations)")
	oJoin := r2.Ob(wrapper, loopAt, kind+" walker: done before return", "the ancestors are told before the walker returns (and the handler acks): recursion started in goroutines is waited for on every path")

	st := &kit.Std{F: f}
	loops := map[string]*ast.RangeStmt{}
	var missedIter, badSelf string
	// parameters of a literal run in place or started with `go` stand for the arguments given to it
	litBind := map[types.Object]ast.Expr{}
	// copyOf: what a local of f that is assigned exactly once, from a plain variable, is a copy of
	copyOf := func(o types.Object) ast.Expr {
		var def ast.Expr
		n := 0
		ast.Inspect(f.Body, func(x ast.Node) bool {
			if as, ok := x.(*ast.AssignStmt); ok {
				for i, l := range as.Lhs {
					if kit.ObjOf(info, l) == o {
						n++
						if len(as.Lhs) == len(as.Rhs) {
							def = as.Rhs[i]
						}
					}
				}
			}
			return true
		})
		if id, ok := ast.Unparen(def).(*ast.Ident); ok && n == 1 && kit.ObjOf(info, id) != o {
			return id
		}
		return nil
	}
	resolve := func(e ast.Expr) ast.Expr {
		for i := 0; i < 6; i++ {
			o := kit.ObjOf(info, e)
			if o == nil {
				break
			}
			if a, ok := litBind[o]; ok {
				e = a
			} else if a := copyOf(o); a != nil && litBind[kit.ObjOf(info, a)] != nil {
				// q := p inside the literal, p its parameter
				e = a
			} else {
				break
			}
		}
		return e
	}
	selfCall := func(call *ast.CallExpr, s kit.S) {
		// args: (rangevar, other params unchanged, points)
		params := f.Params()
		if len(call.Args) != len(params) {
			badSelf = "self-call has a different arity"
			return
		}
		for i, p := range params {
			arg := resolve(call.Args[i])
			ao := kit.ObjOf(info, arg)
			if p == w.ancestor {
				lp := loops[s.Get("rv")]
				if lp == nil || !(kit.LoopElem(info, lp, arg) || (ao != nil && kit.ElemAliases(info, lp)[ao])) {
					badSelf = "self-call does not pass the current parent (element of the loop over the parents) as ancestor, got `" + f.Str(call.Args[i]) + "`"
				}
			} else if ao != p {
				badSelf = "self-call passes `" + f.Str(call.Args[i]) + "` for parameter `" + p.Name() + "` (must be forwarded unchanged)"
			}
		}
	}
	// goroutines: which WaitGroup they are registered with, signal and are waited for
	var joinBad, joinUndec string
	goSeen, outlive := false, false
	wgName := ""
	wgID := func(call *ast.CallExpr) string {
		o := c06WaitGroupOf(info, call, resolve)
		if o == nil {
			joinUndec = "`" + f.Str(call) + "` works on a WaitGroup that is not a local variable of the walker"
			return ""
		}
		wgName = o.Name()
		return kit.VarID(o)
	}
	var runLit func(lit *ast.FuncLit, call *ast.CallExpr, s kit.S) []kit.S
	runLit = func(lit *ast.FuncLit, call *ast.CallExpr, s kit.S) []kit.S {
		lf := c.P.LitFunc(f.PkgRel(), lit)
		if lf == nil {
			return nil
		}
		for i, p := range lf.Params() {
			if i < len(call.Args) {
				litBind[p] = call.Args[i]
			}
		}
		res := c.P.Graph(lf).Run(s, st.Client())
		if res.Overflow {
			c.Fatalf("R2 overflow in %s", lf.Name)
		}
		var out []kit.S
		for _, e := range res.Exits {
			out = append(out, e.State)
		}
		return out
	}
	startGo := func(gs *ast.GoStmt, s kit.S) []kit.S {
		next := s.Set("jn", "0")
		lit, isLit := ast.Unparen(gs.Call.Fun).(*ast.FuncLit)
		if !isLit {
			if f.CalleeFunc(gs.Call) != f {
				return []kit.S{s}
			}
			goSeen = true
			// go st.walker(parent, …): nothing tells the walker when it is done
			selfCall(gs.Call, s)
			joinBad = "`" + f.Str(gs) + "` starts the recursion without any way to wait for it"
			if s.Get("iter") == "0" {
				next = next.Set("iter", "1")
			}
			return []kit.S{next}
		}
		rec := false
		for _, x := range sites {
			for _, l := range x.lits {
				if l.lit == lit {
					rec = true
				}
			}
		}
		if !rec {
			return []kit.S{s}
		}
		goSeen = true
		exits := runLit(lit, gs.Call, s.Del("dn"))
		done := ""
		for i, z := range exits {
			if z.Get("iter") == "0" {
				missedIter = "the goroutine started for a parent at " + f.At(gs) + " can finish without the recursive call"
			}
			if d := z.Get("dn"); i == 0 || d == done {
				done = d
			} else {
				done = "?"
			}
		}
		switch {
		case (done == "" || done == "?") && joinUndec != "":
			// a WaitGroup the checker does not follow
		case (done == "" || done == "?") && !c06OtherJoin(f):
			joinBad = "the goroutine started at " + f.At(gs) + " never tells the walker that it is done (no (*sync.WaitGroup).Done) and nothing in " + f.Name + " waits"
		case done == "" || done == "?":
			joinUndec = "the goroutine started at " + f.At(gs) + " does not signal through (*sync.WaitGroup).Done on every path; other ways of waiting (channels, errgroup) are not followed"
		case s.Get("wa:"+done) != "it" && s.Get("wa:"+done) != "pre":
			joinBad = "no " + wgName + ".Add before the go statement at " + f.At(gs) + ": " + wgName + ".Wait() does not cover this goroutine"
		default:
			next = next.Set("gw", done)
			if s.Get("wa:"+done) == "it" {
				next = next.Set("wa:"+done, "used")
			}
		}
		if s.Get("iter") == "0" {
			next = next.Set("iter", "1")
		}
		return []kit.S{next}
	}
	st.OnCall = func(call *ast.CallExpr, n ast.Node, s kit.S) []kit.S {
		if isPublish(call) {
			return []kit.S{s.Set("pub", "1")}
		}
		if lit, ok := ast.Unparen(call.Fun).(*ast.FuncLit); ok {
			// func() { … }() is part of the statement it stands in
			return runLit(lit, call, s)
		}
		switch kit.QualName(kit.Callee(info, call)) {
		case "sync.(*WaitGroup).Add":
			if id := wgID(call); id != "" {
				if s.Has("iter") {
					return []kit.S{s.Set("wa:"+id, "it")}
				}
				// ahead of the loop: one registration for every parent
				if lc, ok := ast.Unparen(call.Args[0]).(*ast.CallExpr); ok && len(lc.Args) == 1 {
					if b, ok := kit.Callee(info, lc).(*types.Builtin); ok && b.Name() == "len" && upsVar != nil && kit.ObjOf(info, lc.Args[0]) == upsVar {
						return []kit.S{s.Set("wa:"+id, "pre")}
					}
				}
				joinUndec = "`" + f.Str(call) + "` ahead of the loop does not register len(parents) goroutines"
			}
		case "sync.(*WaitGroup).Done":
			if id := wgID(call); id != "" {
				return []kit.S{s.Set("dn", id)}
			}
		case "sync.(*WaitGroup).Wait":
			if id := wgID(call); id != "" && s.Get("gw") == id && s.Get("jn") == "0" {
				return []kit.S{s.Set("jn", "1")}
			}
		}
		if f.CalleeFunc(call) == f {
			selfCall(call, s)
			if s.Get("iter") == "0" {
				return []kit.S{s.Set("iter", "1")}
			}
		}
		return nil
	}
	st.OnNode = func(n ast.Node, s kit.S) []kit.S {
		switch x := n.(type) {
		case *ast.GoStmt:
			return startGo(x, s)
		case *ast.DeferStmt:
			if kit.CallIs(info, x.Call, "sync.(*WaitGroup).Done") {
				if id := wgID(x.Call); id != "" {
					return []kit.S{s.Set("dn", id)}
				}
			}
		}
		return []kit.S{s}
	}
	st.OnBranch = func(br kit.Branch, s kit.S) (t, fl []kit.S, handled bool) {
		if br.Kind != kit.BrRange {
			return nil, nil, false
		}
		if ok, _ := pl.ranges(br.Range); !ok {
			return nil, nil, false
		}
		if s.Get("iter") == "0" {
			missedIter = "an iteration over the parents can finish without the recursive call"
		}
		if s.Has("iter") && s.Get("jn") == "0" {
			outlive = true
		}
		rv := strconv.Itoa(int(br.Range.Pos()))
		loops[rv] = br.Range
		return []kit.S{s.Set("iter", "0").Set("rv", rv).Set("lp", "1")}, []kit.S{s.Del("iter").Del("rv").Set("lp", "1")}, true
	}
	// the top-of-tree sentinel test on the ancestor parameter
	st.Eval.Atom = func(e ast.Expr) (string, bool, bool) {
		isAnc := func(x ast.Expr) bool { return w.ancestor != nil && kit.ObjOf(info, x) == types.Object(w.ancestor) }
		isConst := func(x ast.Expr) bool { _, ok := kit.ConstString(info, x); return ok }
		if neg, ok := eqAtom(e, isAnc, isConst); ok {
			return "top", neg, true
		}
		return "", false, false
	}
	res := c.P.Graph(f).Run(kit.NewS(), st.Client())
	if res.Overflow {
		c.Fatalf("R2 overflow in %s", f.Name)
	}
	nopub, notJoined := "", ""
	for _, e := range res.Exits {
		// a successful return before the loop over the parents is only allowed at
		// the top-of-tree sentinel
		if e.Return != nil && e.State.Get("lp") != "1" && st.ReturnsNil(e.Return, e.State) != "nonnil" && e.State.Get("a:top") != "T" {
			missedIter = "the walker can return success at " + f.At(e.Return) + " before visiting the parents of a non-sentinel ancestor: nothing above this node is told"
		}
		if e.State.Get("pub") != "1" {
			nopub = "an exit at " + f.At(e.Block.Nodes[len(e.Block.Nodes)-1]) + " is reachable before the publish"
		}
		if e.State.Get("iter") == "0" {
			missedIter = "the loop over the parents can be left (return) before the recursive call of an iteration"
		}
		if e.State.Has("iter") && e.Return != nil {
			inLoop := false
			for _, rs := range f.SliceLoops(f.Body) {
				if ok, _ := pl.ranges(rs); ok && rs.Body.Pos() <= e.Return.Pos() && e.Return.End() <= rs.Body.End() {
					inLoop = true
				}
			}
			if !inLoop {
				missedIter = "the loop over the parents can be left early (break/goto) so that the remaining parents are not visited"
			}
		}
		if e.State.Get("jn") == "0" {
			at := f.Name
			if e.Return != nil {
				at = f.At(e.Return)
			} else if n := len(e.Block.Nodes); n > 0 {
				at = "the end of " + f.Name + " (" + f.At(e.Block.Nodes[n-1]) + ")"
			}
			notJoined = "the walker can return at " + at + " without waiting for the goroutines it started"
		}
	}
	if nopub != "" {
		oPub.Violation("%s", nopub)
	} else {
		oPub.OK("publish on `%s` with the points parameter dominates every exit", f.Str(w.sprintf))
	}
	switch {
	case wl.loop == nil:
		oRec.Violation("no loop over the result of the parent lookup")
	case outOfReach != "":
		oRec.Undecided("%s", outOfReach)
	case missedIter != "":
		oRec.Violation("%s", missedIter)
	case badSelf != "":
		oRec.Violation("%s", badSelf)
	default:
		oRec.OK("range over parents, unconditional self-call, parameters forwarded")
	}
	ancIdx := -1
	for i, p := range f.Params() {
		if p == w.ancestor {
			ancIdx = i
		}
	}
	if wl.loop != nil {
		c06PerIteration(f, oIter, wl.loop, sites, ancIdx, outlive)
	} else {
		oIter.Undecided("no loop over the result of the parent lookup")
	}
	const acked = ": the walker returns, and the handler acks, while ancestors are still being notified"
	switch {
	case !goSeen:
		oJoin.OK("the recursion runs in the walker's own goroutine")
	case joinBad != "":
		oJoin.Violation("%s%s", joinBad, acked)
	case joinUndec != "":
		oJoin.Undecided("%s", joinUndec)
	case notJoined != "":
		oJoin.Violation("%s%s", notJoined, acked)
	default:
		oJoin.OK("every goroutine is registered with %s.Add before it starts, calls %s.Done on every way out, and %s.Wait() precedes every return", wgName, wgName, wgName)
	}
	return wl
}

// c06UpTable enumerates includeDeleted x tombstone in {0,1}.
func c06UpTable(c *kit.Ctx, m *storeModel, r3 *kit.Rule, upf *kit.Func) {
	f := upf
	info := f.Info()
	ps := f.Params()
	idp, incl := ps[0], ps[1]
	tomb := dataConst(c, "PointTypeTombstone")
	// SQL unfiltered
	oq := r3.Ob(f, nil, "edge query", "SELECT … FROM edges WHERE down = <id parameter> with no further filter")
	var q *kit.SQLSite
	for _, s := range m.sql.Sites {
		if s.F == f && s.HasVerb("SELECT", "edges") {
			q = s
		}
	}
	if q == nil || len(q.Stmts) != 1 {
		oq.Undecided("edge query not found")
		return
	}
	if len(q.Stmts[0].Where) != 1 || q.Stmts[0].Where[0] != "down" || len(q.Args) != 1 || kit.ObjOf(info, q.Args[0]) != idp {
		oq.Violation("the parent lookup filters its edge query: WHERE %v args %d", q.Stmts[0].Where, len(q.Args))
	} else {
		oq.OK("%s", q.Stmts[0].Raw)
	}
	// edges result variable and result slice
	var edgesVar types.Object
	if as, ok := c.P.Parent(f.File, q.Call).(*ast.AssignStmt); ok && len(as.Lhs) > 0 {
		edgesVar = kit.ObjOf(info, as.Lhs[0])
	}
	if edgesVar == nil {
		c.Fatalf("R3: edges result variable not found in %s", f.Name)
	}
	var lp *ast.RangeStmt
	findLoop := func() {
		lp = nil
		for _, rs := range f.SliceLoops(f.Body) {
			if kit.ObjOf(info, rs.X) == edgesVar {
				lp = rs
			}
		}
	}
	findLoop()
	if lp == nil {
		// the filter may live in a helper that receives the queried edges and the flag
		// (`return upstreamIDs(edges, includeDeleted), nil`): it is judged there
		for _, call := range f.AllCalls(false) {
			cf := f.CalleeFunc(call)
			if cf == nil || cf.Body == nil || cf.Pkg != f.Pkg || cf == f {
				continue
			}
			var ep, ip *types.Var
			for i, a := range call.Args {
				if i >= len(cf.Params()) {
					break
				}
				if kit.ObjOf(info, a) == edgesVar {
					ep = cf.Params()[i]
				}
				if kit.ObjOf(info, a) == types.Object(incl) {
					ip = cf.Params()[i]
				}
			}
			if ep != nil && ip != nil {
				f, info, edgesVar, incl = cf, cf.Info(), ep, ip
				c.Analysed(cf)
				findLoop()
				break
			}
		}
	}
	if lp == nil {
		c.Fatalf("R3: no loop over the edges in %s", f.Name)
	}
	aliases := kit.ElemAliases(info, lp)
	for _, inclV := range []bool{false, true} {
		for _, tv := range []float64{0, 1} {
			st := &kit.Std{F: f}
			// predicates on the edge (edgeIsDeleted(e)) are evaluated inline
			st.ShouldInline = func(cf *kit.Func, call *ast.CallExpr) bool { return txParamOf(cf) == nil }
			isElem := func(e ast.Expr) bool {
				e = ast.Unparen(st.Resolve(e))
				if kit.LoopElem(info, lp, e) {
					return true
				}
				o := kit.ObjOf(info, e)
				return o != nil && aliases[o]
			}
			// variables holding the edge's tombstone point: p, _ := e.Points.Find(tombstone, …)
			tombVars := map[types.Object]bool{}
			st.OnNode = func(n ast.Node, s kit.S) []kit.S {
				as, ok := n.(*ast.AssignStmt)
				if !ok || len(as.Rhs) != 1 {
					return []kit.S{s}
				}
				call, ok := ast.Unparen(as.Rhs[0]).(*ast.CallExpr)
				if !ok || !kit.CallIs(info, call, dataPkg+".(*Points).Find", dataPkg+".(Points).Find") || len(call.Args) < 1 {
					return []kit.S{s}
				}
				if cs, ok := kit.ConstString(info, call.Args[0]); !ok || cs != tomb {
					return []kit.S{s}
				}
				sel, ok := ast.Unparen(call.Fun).(*ast.SelectorExpr)
				if !ok {
					return []kit.S{s}
				}
				if inner, ok := ast.Unparen(sel.X).(*ast.SelectorExpr); ok && isElem(inner.X) {
					if o := kit.ObjOf(info, as.Lhs[0]); o != nil {
						tombVars[o] = true
					}
				}
				return []kit.S{s}
			}
			st.Eval.Atom = func(e ast.Expr) (string, bool, bool) {
				if st.ObjOf(e) == types.Object(incl) {
					return "incl", false, true
				}
				return "", false, false
			}
			undec := ""
			st.Fold = func(e ast.Expr, s kit.S) (bool, bool) {
				return foldNumP(c.P, info, e, func(x ast.Expr) (constant.Value, bool) {
					if sel, ok := ast.Unparen(x).(*ast.SelectorExpr); ok && sel.Sel.Name == "Value" {
						if o := kit.ObjOf(info, sel.X); o != nil && tombVars[o] {
							return constant.MakeFloat64(tv), true
						}
					}
					return nil, false
				})
			}
			undecRelated := false
			st.Eval.OnUnknown = func(e ast.Expr) {
				undec = f.Str(e)
				ast.Inspect(e, func(n ast.Node) bool {
					if id, ok := n.(*ast.Ident); ok {
						if o := kit.ObjOf(info, id); o != nil && (tombVars[o] || aliases[o] || isElem(id)) {
							undecRelated = true
						}
					}
					if ix, ok := n.(*ast.IndexExpr); ok && isElem(ix) {
						undecRelated = true
					}
					return true
				})
			}
			appended := map[string]bool{}
			st.OnCall = func(call *ast.CallExpr, n ast.Node, s kit.S) []kit.S {
				if b, ok := kit.Callee(info, call).(*types.Builtin); ok && b.Name() == "append" && len(call.Args) == 2 {
					if sel, ok := ast.Unparen(call.Args[1]).(*ast.SelectorExpr); ok && sel.Sel.Name == "Up" && isElem(sel.X) && s.Get("iter") == "1" {
						return []kit.S{s.Set("app", "1")}
					}
				}
				return nil
			}
			st.OnBranch = func(br kit.Branch, s kit.S) (t, fl []kit.S, handled bool) {
				if br.Kind == kit.BrRange && br.Range == lp {
					if !s.Has("iter") {
						return []kit.S{s.Set("iter", "1")}, nil, true
					}
					// one iteration is enough: leave the loop
					return nil, []kit.S{s.Set("iter", "done")}, true
				}
				return nil, nil, false
			}
			init := kit.NewS().Set("a:incl", map[bool]string{true: "T", false: "F"}[inclV])
			res := c.P.Graph(f).Run(init, st.Client())
			c.AddValuations(1)
			for _, e := range res.Exits {
				if e.Return != nil && st.ReturnsNil(e.Return, e.State) != "nonnil" {
					appended[e.State.Get("app")] = true
				}
			}
			want := inclV || tv == 0
			key := "includeDeleted=" + strconv.FormatBool(inclV) + ", tombstone=" + strconv.Itoa(int(tv))
			o := r3.Ob(f, nil, key, "parent returned iff includeDeleted or the edge is live")
			switch {
			case undecRelated && len(appended) > 1:
				o.Undecided("condition `%s` reads the edge's points in a way the checker does not understand; outcome depends on it", undec)
			case undec != "" && len(appended) > 1:
				o.Violation("for %s the outcome depends on the unrelated condition `%s`: the parent is returned on one branch and skipped on the other (expected always %s)", key, undec, map[bool]string{true: "returned", false: "skipped"}[want])
			case len(appended) != 1:
				o.Undecided("outcome not unique: %v", appended)
			case appended["1"] != want:
				o.Violation("for %s the parent is %s (expected %s)", key, map[bool]string{true: "returned", false: "skipped"}[appended["1"]], map[bool]string{true: "returned", false: "skipped"}[want])
			default:
				o.OK("%s", map[bool]string{true: "returned", false: "skipped"}[want])
			}
		}
	}
}

// foldNum evaluates a boolean leaf over numbers after substitution;
// understands math.Mod, data.FloatToBool and numeric conversions.
func foldNum(info *types.Info, e ast.Expr, subst func(ast.Expr) (constant.Value, bool)) (bool, bool) {
	return foldNumP(nil, info, e, subst)
}

// foldNumP is foldNum with access to the program (module helpers of one
// parameter and a single return are inlined).
func foldNumP(foldProg *kit.Prog, info *types.Info, e ast.Expr, subst func(ast.Expr) (constant.Value, bool)) (bool, bool) {
	used := false
	var ev func(x ast.Expr) (constant.Value, bool)
	ev = func(x ast.Expr) (constant.Value, bool) {
		x = ast.Unparen(x)
		if v, ok := subst(x); ok {
			used = true
			return v, true
		}
		if tv, ok := info.Types[x]; ok && tv.Value != nil {
			return tv.Value, true
		}
		if x == ast.Expr(kit.EmptyStringLit) {
			return constant.MakeString(""), true
		}
		switch y := x.(type) {
		case *ast.BinaryExpr:
			a, ok1 := ev(y.X)
			b, ok2 := ev(y.Y)
			if !ok1 || !ok2 {
				return nil, false
			}
			num := func(v constant.Value) bool { return v.Kind() == constant.Int || v.Kind() == constant.Float }
			switch y.Op {
			case token.EQL, token.NEQ, token.LSS, token.LEQ, token.GTR, token.GEQ:
				if num(a) && num(b) {
					return constant.MakeBool(constant.Compare(a, y.Op, b)), true
				}
			case token.ADD, token.SUB, token.MUL:
				if num(a) && num(b) {
					return constant.BinaryOp(a, y.Op, b), true
				}
			case token.REM:
				if a.Kind() == constant.Int && b.Kind() == constant.Int && constant.Sign(b) != 0 {
					return constant.BinaryOp(a, token.REM, b), true
				}
				af, _ := constant.Float64Val(a)
				bf, _ := constant.Float64Val(b)
				if num(a) && num(b) && bf != 0 && af == float64(int64(af)) && bf == float64(int64(bf)) {
					return constant.MakeInt64(int64(af) % int64(bf)), true
				}
			}
		case *ast.UnaryExpr:
			if y.Op == token.NOT {
				if a, ok := ev(y.X); ok && a.Kind() == constant.Bool {
					return constant.MakeBool(!constant.BoolVal(a)), true
				}
			}
		case *ast.CallExpr:
			q := kit.QualName(kit.Callee(info, y))
			switch {
			case q == "math.Mod" && len(y.Args) == 2:
				a, ok1 := ev(y.Args[0])
				b, ok2 := ev(y.Args[1])
				if ok1 && ok2 {
					af, _ := constant.Float64Val(a)
					bf, _ := constant.Float64Val(b)
					if bf != 0 {
						return constant.MakeFloat64(af - bf*float64(int64(af/bf))), true
					}
				}
			case len(y.Args) == 1 && foldProg != nil && foldProg.FuncOf(kit.Callee(info, y)) != nil:
				if a, ok := ev(y.Args[0]); ok {
					if v, ok := inlineSimpleFunc(foldProg.FuncOf(kit.Callee(info, y)), a); ok {
						return v, true
					}
				}
			case len(y.Args) == 1:
				if tv, ok := info.Types[y.Fun]; ok && tv.IsType() {
					return ev(y.Args[0])
				}
			}
		}
		return nil, false
	}
	v, ok := ev(e)
	if !ok || !used || v.Kind() != constant.Bool {
		return false, false
	}
	return constant.BoolVal(v), true
}

// c06Subjects: decoders of "<prefix>.<a>.<b>[.<c>]" subjects return chunk i+1
// as their i-th string result, after a length guard; the walkers write their
// id parameters in the same positions (R2).
func c06Subjects(c *kit.Ctx, r4 *kit.Rule, walkers []*walker) {
	n := 0
	for _, f := range c.P.Funcs("client") {
		if f.Decl == nil || f.Body == nil || msgParam(f) == nil || f.Type.Results == nil {
			continue
		}
		info := f.Info()
		// result types: k strings, a point slice, error
		var k int
		okShape := true
		res := f.Type.Results.List
		var types_ []types.Type
		for _, r := range res {
			cnt := len(r.Names)
			if cnt == 0 {
				cnt = 1
			}
			for i := 0; i < cnt; i++ {
				types_ = append(types_, info.TypeOf(r.Type))
			}
		}
		if len(types_) < 3 || !isErrorType(types_[len(types_)-1]) {
			continue
		}
		for _, t := range types_[:len(types_)-2] {
			if b, ok := t.Underlying().(*types.Basic); !ok || b.Kind() != types.String {
				okShape = false
			}
			k++
		}
		if !okShape || k == 0 {
			continue
		}
		// chunks variable from strings.Split(msg.Subject, "."), possibly through a shared helper
		chunks := subjectChunksVar(c, f, msgParam(f), 0)
		if chunks == nil {
			continue
		}
		n++
		c.Analysed(f)
		o := r4.Ob(f, nil, "subject decoder with "+strconv.Itoa(k)+" ids", "on success result i is subject token i+1")
		// the success return: the one whose error result is nil
		bad := ""
		found := false
		ast.Inspect(f.Body, func(x ast.Node) bool {
			ret, ok := x.(*ast.ReturnStmt)
			if !ok || len(ret.Results) != k+2 || !kit.IsNilIdent(info, ret.Results[k+1]) {
				return true
			}
			found = true
			for i := 0; i < k; i++ {
				idx, ok := chunkIndexOf(f, ret.Results[i], chunks)
				if !ok {
					bad = "result " + strconv.Itoa(i+1) + " `" + f.Str(ret.Results[i]) + "` is not a subject token"
				} else if idx != i+1 {
					bad = "result " + strconv.Itoa(i+1) + " is subject token " + strconv.Itoa(idx) + ", expected " + strconv.Itoa(i+1)
				}
			}
			return true
		})
		switch {
		case !found:
			o.Undecided("no success return found")
		case bad != "":
			o.Violation("%s", bad)
		default:
			o.OK("tokens 1..%d in order", k)
		}
	}
	if n < 4 {
		r4.Ob(nil, nil, "decoders", "four subject decoders").Undecided("only %d subject decoders found in package client", n)
	}
	for _, w := range walkers {
		o := r4.Ob(w.f, w.sprintf, "walker subject format", "\"up\" followed by one token per id parameter, '.'-separated")
		ok := len(w.tokens) == w.verbs+1 && len(w.tokens) >= 3
		var shown []string
		for i, t := range w.tokens {
			if i > 0 && t.obj == nil {
				ok = false
			}
			if t.obj != nil {
				shown = append(shown, "<"+t.obj.Name()+">")
			} else {
				shown = append(shown, t.lit)
			}
		}
		if ok {
			o.OK("%s", strings.Join(shown, "."))
		} else {
			o.Violation("subject %s is not up.<id>… with one plain token per id", strings.Join(shown, "."))
		}
	}
}

// subjectChunksVar finds the variable of f that holds strings.Split(<msg>.Subject, "."):
// assigned directly, or handed back (on the success return) by a same-package
// helper that receives the message.
func subjectChunksVar(c *kit.Ctx, f *kit.Func, msg *types.Var, depth int) types.Object {
	info := f.Info()
	var chunks types.Object
	for _, call := range f.AllCalls(false) {
		as, ok := c.P.Parent(f.File, call).(*ast.AssignStmt)
		if !ok || len(as.Rhs) != 1 {
			continue
		}
		if kit.CallIs(info, call, "strings.Split") && len(call.Args) == 2 && isMsgField(f, call.Args[0], msg, "Subject") {
			if sep, ok := kit.ConstString(info, call.Args[1]); ok && sep == "." && len(as.Lhs) == 1 {
				chunks = kit.ObjOf(info, as.Lhs[0])
			}
			continue
		}
		cf := f.CalleeFunc(call)
		if cf == nil || cf.Body == nil || cf.Pkg != f.Pkg || depth > 1 {
			continue
		}
		var hmsg *types.Var
		for i, a := range call.Args {
			if kit.ObjOf(info, a) == types.Object(msg) && i < len(cf.Params()) {
				hmsg = cf.Params()[i]
			}
		}
		if hmsg == nil {
			continue
		}
		hc := subjectChunksVar(c, cf, hmsg, depth+1)
		if hc == nil {
			continue
		}
		// the result position that is the helper's chunks on every success return
		pos := -1
		okAll := true
		for _, rs := range returnsOf(cf) {
			if !kit.IsNilIdent(cf.Info(), rs[len(rs)-1]) {
				continue
			}
			found := -1
			for i, r := range rs {
				if kit.ObjOf(cf.Info(), r) == hc {
					found = i
				}
			}
			if found < 0 || (pos >= 0 && pos != found) {
				okAll = false
			}
			pos = found
		}
		if okAll && pos >= 0 && pos < len(as.Lhs) {
			chunks = kit.ObjOf(info, as.Lhs[pos])
			c.Analysed(cf)
		}
	}
	return chunks
}

// chunkIndexOf resolves e (a variable assigned chunks[i], or chunks[i] itself).
func chunkIndexOf(f *kit.Func, e ast.Expr, chunks types.Object) (int, bool) {
	info := f.Info()
	e = ast.Unparen(e)
	if ix, ok := e.(*ast.IndexExpr); ok && kit.ObjOf(info, ix.X) == chunks {
		if v, ok := kit.ConstInt(info, ix.Index); ok {
			return int(v), true
		}
		return 0, false
	}
	o := kit.ObjOf(info, e)
	if o == nil {
		return 0, false
	}
	idx, n := 0, 0
	ast.Inspect(f.Body, func(x ast.Node) bool {
		as, ok := x.(*ast.AssignStmt)
		if !ok || len(as.Lhs) != len(as.Rhs) {
			return true
		}
		for i, l := range as.Lhs {
			if kit.ObjOf(info, l) == o {
				n++
				if ix, ok := ast.Unparen(as.Rhs[i]).(*ast.IndexExpr); ok && kit.ObjOf(info, ix.X) == chunks {
					if v, ok := kit.ConstInt(info, ix.Index); ok {
						idx = int(v)
					}
				}
			}
		}
		return true
	})
	if n == 1 && idx > 0 {
		return idx, true
	}
	return 0, false
}
