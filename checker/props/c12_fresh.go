package props

import (
	"fmt"
	"go/ast"
	"go/token"
	"go/types"
	"strconv"
	"strings"

	"siotcheck/kit"
)

// C12/R5: the message a decoder fills must be empty when it is filled.
//
// proto.Unmarshal (and UnmarshalOptions without Merge) resets its target
// itself, so any target is fine.  With UnmarshalOptions{Merge: true} nothing
// resets it: the target must be a fresh value, or have been Reset on every
// path since it came from somewhere else; a target taken from a sync.Pool is
// empty iff the pool's New returns a fresh message and every Put of that pool
// hands back an empty (or untouched) message on every path, deferred calls
// included.  Otherwise data of an earlier payload is merged into the next one.

const (
	c12PoolGet = "sync.(*Pool).Get"
	c12PoolPut = "sync.(*Pool).Put"
)

// message states: E empty, D holds decoded data, G taken from a pool and
// untouched, U unknown.
type c12MsgEvent struct {
	kind  string // "merge" | "put"
	node  ast.Node
	state string
	pool  types.Object
	exit  *ast.ReturnStmt // put run by a deferred call: the exit that triggers it
	atEnd bool
	why   string // how the message got dirty / unknown
}

type c12MsgFlow struct {
	c      *kit.Ctx
	f      *kit.Func
	m      types.Object
	events []c12MsgEvent
	defers []*ast.DeferStmt
	pools  []types.Object
	merge  func(call *ast.CallExpr) string // "yes" | "no" | "maybe" | "" (not an unmarshal)
}

func c12IsFreshExpr(info *types.Info, e ast.Expr) bool {
	e = ast.Unparen(e)
	if u, ok := e.(*ast.UnaryExpr); ok && u.Op == token.AND {
		e = ast.Unparen(u.X)
	}
	switch x := e.(type) {
	case *ast.CompositeLit:
		return len(x.Elts) == 0
	case *ast.CallExpr:
		if b, ok := kit.Callee(info, x).(*types.Builtin); ok && b.Name() == "new" {
			return true
		}
	}
	return false
}

// c12PoolOfGet recognises `P.Get()` / `P.Get().(*T)` on a package-level pool.
func c12PoolOfGet(info *types.Info, e ast.Expr) types.Object {
	e = ast.Unparen(e)
	if ta, ok := e.(*ast.TypeAssertExpr); ok {
		e = ast.Unparen(ta.X)
	}
	call, ok := e.(*ast.CallExpr)
	if !ok || !kit.CallIs(info, call, c12PoolGet) {
		return nil
	}
	sel, ok := ast.Unparen(call.Fun).(*ast.SelectorExpr)
	if !ok {
		return nil
	}
	x := ast.Unparen(sel.X)
	if u, ok := x.(*ast.UnaryExpr); ok && u.Op == token.AND {
		x = ast.Unparen(u.X)
	}
	return kit.ObjOf(info, x)
}

func (mf *c12MsgFlow) isM(e ast.Expr) bool {
	e = ast.Unparen(e)
	if u, ok := e.(*ast.UnaryExpr); ok && u.Op == token.AND {
		e = ast.Unparen(u.X)
	}
	id, ok := e.(*ast.Ident)
	return ok && kit.ObjOf(mf.f.Info(), id) == mf.m
}

func (mf *c12MsgFlow) mentions(n ast.Node) bool {
	hit := false
	ast.Inspect(n, func(x ast.Node) bool {
		if id, ok := x.(*ast.Ident); ok && kit.ObjOf(mf.f.Info(), id) == mf.m {
			hit = true
		}
		return !hit
	})
	return hit
}

// applyCall is the effect of one call on the message state.
func (mf *c12MsgFlow) applyCall(call *ast.CallExpr, s kit.S, exit *ast.ReturnStmt, atEnd bool) kit.S {
	info := mf.f.Info()
	callee := kit.Callee(info, call)
	q := kit.QualName(callee)
	st := s.Get("m")
	recvIsM := false
	if sel, ok := ast.Unparen(call.Fun).(*ast.SelectorExpr); ok {
		if s2, ok := info.Selections[sel]; ok && s2.Kind() == types.MethodVal && mf.isM(sel.X) {
			recvIsM = true
		}
	}
	argIsM := -1
	for i, a := range call.Args {
		if mf.isM(a) {
			argIsM = i
		}
	}
	if !recvIsM && argIsM < 0 {
		return s
	}
	fn, _ := callee.(*types.Func)
	switch {
	case recvIsM && fn != nil && fn.Name() == "Reset" && len(call.Args) == 0:
		return s.Set("m", "E").Del("why")
	case argIsM == 0 && (q == "google.golang.org/protobuf/proto.Reset" || q == "github.com/golang/protobuf/proto.Reset"):
		return s.Set("m", "E").Del("why")
	case mf.merge(call) != "" && argIsM == 1:
		if mode := mf.merge(call); mode != "no" {
			mf.events = append(mf.events, c12MsgEvent{kind: "merge:" + mode, node: call, state: st, pool: mf.poolOf(s), why: s.Get("why")})
		}
		return s.Set("m", "D").Set("why", fmt.Sprintf("it was filled by %s at %s", mf.f.Str(call.Fun), mf.f.At(call)))
	case q == c12PoolPut && argIsM == 0:
		var pool types.Object
		if sel, ok := ast.Unparen(call.Fun).(*ast.SelectorExpr); ok {
			x := ast.Unparen(sel.X)
			if u, ok := x.(*ast.UnaryExpr); ok && u.Op == token.AND {
				x = ast.Unparen(u.X)
			}
			pool = kit.ObjOf(info, x)
		}
		// a message that came untouched from another pool is as clean as that pool
		mf.events = append(mf.events, c12MsgEvent{kind: "put", node: call, state: st, pool: pool, exit: exit, atEnd: atEnd, why: s.Get("why")})
		return s
	case recvIsM && fn != nil && fn.Pkg() != nil && fn.Pkg().Path() == c12PbPkg:
		return s // generated accessors only read
	case fn != nil && fn.Pkg() != nil && (fn.Pkg().Path() == "fmt" || fn.Pkg().Path() == "log"):
		return s
	case q == "google.golang.org/protobuf/proto.Marshal" || q == "google.golang.org/protobuf/proto.Size" || q == "google.golang.org/protobuf/proto.Equal":
		return s
	}
	return s.Set("m", "U").Set("why", fmt.Sprintf("it is handed to %s at %s", q, mf.f.At(call)))
}

func (mf *c12MsgFlow) poolOf(s kit.S) types.Object {
	id := s.Get("pool")
	if id == "" {
		return nil
	}
	i, _ := strconv.Atoi(id)
	if i < len(mf.pools) {
		return mf.pools[i]
	}
	return nil
}

// applyStmt is the effect of one statement / CFG node.
func (mf *c12MsgFlow) applyStmt(n ast.Node, s kit.S, exit *ast.ReturnStmt, atEnd bool) kit.S {
	info := mf.f.Info()
	for _, call := range kit.CallsIn(n) {
		s = mf.applyCall(call, s, exit, atEnd)
	}
	define := func(lhs, rhs ast.Expr) {
		l := ast.Unparen(lhs)
		if id, ok := l.(*ast.Ident); ok && kit.ObjOf(info, id) == mf.m {
			switch {
			case rhs == nil:
				s = s.Set("m", "U").Set("why", "it is assigned from a multi-value expression")
			case c12IsFreshExpr(info, rhs):
				s = s.Set("m", "E").Del("why")
			case c12PoolOfGet(info, rhs) != nil:
				p := c12PoolOfGet(info, rhs)
				idx := -1
				for i, q := range mf.pools {
					if q == p {
						idx = i
					}
				}
				if idx < 0 {
					mf.pools = append(mf.pools, p)
					idx = len(mf.pools) - 1
				}
				s = s.Set("m", "G").Set("pool", strconv.Itoa(idx)).Del("why")
			default:
				s = s.Set("m", "U").Set("why", fmt.Sprintf("it is taken from %s at %s", mf.f.Str(rhs), mf.f.At(rhs)))
			}
			return
		}
		// field write m.F = …, *m = …
		switch x := l.(type) {
		case *ast.SelectorExpr:
			if mf.isM(x.X) {
				s = s.Set("m", "D").Set("why", fmt.Sprintf("its field %s is written at %s", x.Sel.Name, mf.f.At(x)))
			}
		case *ast.StarExpr:
			if mf.isM(x.X) {
				if rhs != nil && c12IsFreshExpr(info, rhs) {
					s = s.Set("m", "E").Del("why")
				} else {
					s = s.Set("m", "U").Set("why", "it is overwritten through the pointer")
				}
			}
		}
		// the message escapes into another variable
		if rhs != nil && mf.isM(rhs) {
			s = s.Set("m", "U").Set("why", fmt.Sprintf("it is aliased at %s", mf.f.At(rhs)))
		}
	}
	switch y := n.(type) {
	case *ast.AssignStmt:
		for i, l := range y.Lhs {
			if len(y.Lhs) == len(y.Rhs) {
				define(l, y.Rhs[i])
			} else {
				define(l, nil)
			}
		}
	case *ast.ValueSpec:
		for i, nm := range y.Names {
			if info.Defs[nm] == mf.m {
				switch {
				case len(y.Values) == 0:
					s = s.Set("m", "E").Del("why") // zero value
				case i < len(y.Values):
					define(nm, y.Values[i])
				}
			}
		}
	}
	return s
}

// run explores every path of f.
func (mf *c12MsgFlow) run(init string) (overflow bool) {
	g := mf.c.P.Graph(mf.f)
	client := kit.Client{
		Node: func(n ast.Node, s kit.S) []kit.S {
			if d, ok := n.(*ast.DeferStmt); ok {
				// arguments are evaluated now, the call runs at exit
				if mf.mentions(d) {
					idx := len(mf.defers)
					for i, x := range mf.defers {
						if x == d {
							idx = i
						}
					}
					if idx == len(mf.defers) {
						mf.defers = append(mf.defers, d)
					}
					df := s.Get("df")
					if df != "" {
						df += ","
					}
					return []kit.S{s.Set("df", df+strconv.Itoa(idx))}
				}
				return []kit.S{s}
			}
			if _, ok := n.(*ast.GoStmt); ok && mf.mentions(n) {
				return []kit.S{s.Set("m", "U").Set("why", "it is shared with a goroutine")}
			}
			return []kit.S{mf.applyStmt(n, s, nil, false)}
		},
	}
	start := kit.NewS()
	if init != "" {
		start = start.Set("m", init)
	}
	res := g.Run(start, client)
	if res.Overflow {
		return true
	}
	// deferred calls, last registered first
	for _, e := range res.Exits {
		s := e.State
		df := s.Get("df")
		if df == "" {
			continue
		}
		idxs := strings.Split(df, ",")
		for i := len(idxs) - 1; i >= 0; i-- {
			k, _ := strconv.Atoi(idxs[i])
			d := mf.defers[k]
			if lit, ok := ast.Unparen(d.Call.Fun).(*ast.FuncLit); ok {
				straight := true
				for _, stmt := range lit.Body.List {
					switch stmt.(type) {
					case *ast.ExprStmt, *ast.AssignStmt:
					default:
						straight = false
					}
				}
				if !straight {
					s = s.Set("m", "U").Set("why", "a deferred function literal with control flow touches it")
					continue
				}
				for _, stmt := range lit.Body.List {
					s = mf.applyStmt(stmt, s, e.Return, true)
				}
				continue
			}
			s = mf.applyCall(d.Call, s, e.Return, true)
		}
	}
	return false
}

// c12MergeMode classifies a call: "" not an unmarshal; "no" resets its
// target; "yes" merges into it; "maybe" options not decided.
func c12MergeMode(f *kit.Func, call *ast.CallExpr) string {
	info := f.Info()
	if !kit.CallIs(info, call, c12Unmarshal...) || len(call.Args) != 2 {
		return ""
	}
	if !kit.CallIs(info, call, c12UnmarshalOpt) {
		return "no"
	}
	sel, ok := ast.Unparen(call.Fun).(*ast.SelectorExpr)
	if !ok {
		return "maybe"
	}
	recv := ast.Unparen(sel.X)
	fromLit := func(e ast.Expr) string {
		lit, ok := ast.Unparen(e).(*ast.CompositeLit)
		if !ok {
			return "maybe"
		}
		for _, el := range lit.Elts {
			kv, ok := el.(*ast.KeyValueExpr)
			if !ok {
				return "maybe"
			}
			if k, ok := kv.Key.(*ast.Ident); ok && k.Name == "Merge" {
				tv, has := info.Types[kv.Value]
				if !has || tv.Value == nil {
					return "maybe"
				}
				if tv.Value.String() == "true" {
					return "yes"
				}
				return "no"
			}
		}
		return "no"
	}
	if _, ok := recv.(*ast.CompositeLit); ok {
		return fromLit(recv)
	}
	if o := kit.ObjOf(info, recv); o != nil {
		if _, isIdent := recv.(*ast.Ident); isIdent {
			// a local options value: one definition, and no later write of Merge
			written := false
			ast.Inspect(f.Root().Body, func(x ast.Node) bool {
				if as, ok := x.(*ast.AssignStmt); ok {
					for _, l := range as.Lhs {
						if ls, ok := ast.Unparen(l).(*ast.SelectorExpr); ok && kit.ObjOf(info, ls.X) == o {
							written = true
						}
					}
				}
				if u, ok := x.(*ast.UnaryExpr); ok && u.Op == token.AND && kit.ObjOf(info, u.X) == o {
					written = true
				}
				return true
			})
			if def := c12SingleDef(f, o); def != nil && !written {
				return fromLit(def)
			}
		}
	}
	return "maybe"
}

func c12NewFlow(c *kit.Ctx, f *kit.Func, m types.Object) *c12MsgFlow {
	mf := &c12MsgFlow{c: c, f: f, m: m}
	mf.merge = func(call *ast.CallExpr) string { return c12MergeMode(f, call) }
	return mf
}

// c12PoolClean decides whether every message a Get of pool can return is
// empty: New returns a fresh message, and every Put in the module hands back
// an empty or untouched message on every path.
func c12PoolClean(c *kit.Ctx, pool types.Object) (status, msg string) {
	if pool == nil || pool.Pkg() == nil || pool.Parent() != pool.Pkg().Scope() {
		return "undecided", "the pool is not a package-level variable"
	}
	// New
	newOK, newSeen := false, false
	nputs := 0
	var dirty, unknown []string
	for _, rel := range c12Rels(c) {
		pk := c.P.MustPkg(rel)
		if pk.Types == pool.Pkg() {
			for _, file := range pk.Syntax {
				ast.Inspect(file, func(x ast.Node) bool {
					vs, ok := x.(*ast.ValueSpec)
					if !ok {
						return true
					}
					for i, nm := range vs.Names {
						if pk.TypesInfo.Defs[nm] != pool || i >= len(vs.Values) {
							continue
						}
						lit := vs.Values[i]
						if u, ok := ast.Unparen(lit).(*ast.UnaryExpr); ok {
							lit = u.X
						}
						cl, ok := ast.Unparen(lit).(*ast.CompositeLit)
						if !ok {
							continue
						}
						for _, el := range cl.Elts {
							kv, ok := el.(*ast.KeyValueExpr)
							if !ok {
								continue
							}
							if k, ok := kv.Key.(*ast.Ident); ok && k.Name == "New" {
								newSeen = true
								if fl, ok := ast.Unparen(kv.Value).(*ast.FuncLit); ok && len(fl.Body.List) == 1 {
									if rs, ok := fl.Body.List[0].(*ast.ReturnStmt); ok && len(rs.Results) == 1 && c12IsFreshExpr(pk.TypesInfo, rs.Results[0]) {
										newOK = true
									}
								}
							}
						}
					}
					return true
				})
			}
		}
		for _, f := range c.P.Funcs(rel) {
			if f.Body == nil {
				continue
			}
			info := f.Info()
			done := map[types.Object]bool{}
			for _, call := range f.AllCalls(false) {
				if !kit.CallIs(info, call, c12PoolPut) || len(call.Args) != 1 {
					continue
				}
				sel, _ := ast.Unparen(call.Fun).(*ast.SelectorExpr)
				if sel == nil {
					continue
				}
				x := ast.Unparen(sel.X)
				if u, ok := x.(*ast.UnaryExpr); ok && u.Op == token.AND {
					x = ast.Unparen(u.X)
				}
				if kit.ObjOf(info, x) != pool {
					continue
				}
				nputs++
				m := kit.ObjOf(info, call.Args[0])
				if _, isIdent := ast.Unparen(call.Args[0]).(*ast.Ident); !isIdent || m == nil {
					if !c12IsFreshExpr(info, call.Args[0]) {
						unknown = append(unknown, fmt.Sprintf("%s puts %s at %s", f.Name, f.Str(call.Args[0]), f.At(call)))
					}
					continue
				}
				if done[m] {
					continue
				}
				done[m] = true
				f := f
				if f.Lit != nil {
					// a deferred closure of a declared function runs at that function's exits
					outer := f.Outer
					pc, _ := c.P.Parent(f.File, f.Lit).(*ast.CallExpr)
					var ds *ast.DeferStmt
					if pc != nil {
						ds, _ = c.P.Parent(f.File, pc).(*ast.DeferStmt)
					}
					if ds == nil || outer == nil || outer.Decl == nil {
						unknown = append(unknown, fmt.Sprintf("Put inside a function literal at %s", f.At(call)))
						continue
					}
					f = outer
				}
				c.Analysed(f)
				mf := c12NewFlow(c, f, m)
				init := ""
				for _, p := range f.Params() {
					if p == m {
						init = "U"
					}
				}
				if mf.run(init) {
					unknown = append(unknown, "state space overflow in "+f.Name)
					continue
				}
				for _, ev := range mf.events {
					if ev.kind != "put" || ev.pool != pool {
						continue
					}
					where := "at " + f.At(ev.node)
					if ev.atEnd {
						where = "by the deferred call when the function leaves"
						if ev.exit != nil {
							where = fmt.Sprintf("by the deferred call when the function leaves through `%s` (%s)", f.Str(ev.exit), f.At(ev.exit))
						}
					}
					switch ev.state {
					case "E", "G":
					case "D":
						dirty = append(dirty, fmt.Sprintf("%s hands %s back to the pool %s without Reset although %s", f.Name, m.Name(), where, ev.why))
					default:
						unknown = append(unknown, fmt.Sprintf("%s hands %s back to the pool %s in an unknown state (%s)", f.Name, m.Name(), where, ev.why))
					}
				}
			}
		}
	}
	switch {
	case len(dirty) > 0:
		return "violation", strings.Join(c12Uniq(dirty), "; ")
	case len(unknown) > 0:
		return "undecided", strings.Join(c12Uniq(unknown), "; ")
	case !newSeen || !newOK:
		return "undecided", "the pool's New function is missing or does not return a fresh message"
	}
	return "ok", fmt.Sprintf("New returns a fresh message and all %d Put site(s) hand back an empty or untouched message on every path", nputs)
}

func c12CheckFresh(c *kit.Ctx, r *kit.Rule, f *kit.Func, call *ast.CallExpr) {
	info := f.Info()
	mt := kit.NamedStructOf(info.TypeOf(call.Args[1]))
	mname := "message"
	if mt != nil {
		mname = "pb." + mt.Obj().Name()
	}
	o := r.Ob(f, call, "decode target "+mname, "the message is empty when the payload is decoded into it: the decoder resets it, or it is fresh / Reset on every path (a pooled message: every Put returns it empty)")
	mode := c12MergeMode(f, call)
	if mode == "no" {
		o.OK("%s resets its target before decoding", f.Str(call.Fun))
		return
	}
	m := kit.ObjOf(info, call.Args[1])
	if u, ok := ast.Unparen(call.Args[1]).(*ast.UnaryExpr); ok && u.Op == token.AND {
		m = kit.ObjOf(info, u.X)
	}
	if m == nil || f.Lit != nil {
		o.Undecided("merging decode into %s, which is not a local variable of a declared function", f.Str(call.Args[1]))
		return
	}
	mf := c12NewFlow(c, f, m)
	init := ""
	if v, ok := m.(*types.Var); ok && (v.Parent() == nil || v.Pkg() == nil || v.Parent() == v.Pkg().Scope()) {
		init = "U"
	}
	for _, p := range f.Params() {
		if p == m {
			init = "U"
		}
	}
	if mf.run(init) {
		o.Undecided("state space overflow")
		return
	}
	how := "proto.UnmarshalOptions{Merge: true} does not reset its target"
	if mode == "maybe" {
		how = "the UnmarshalOptions used here may have Merge set"
	}
	var oks []string
	seen := false
	for _, ev := range mf.events {
		if ev.node != ast.Node(call) || !strings.HasPrefix(ev.kind, "merge") {
			continue
		}
		seen = true
		switch ev.state {
		case "E":
			oks = append(oks, "the target is fresh or was Reset on every path to the call")
		case "D":
			if mode == "yes" {
				o.Violation("%s, and %s still holds data when it is decoded into: %s; the new payload is merged onto the leftovers", how, m.Name(), ev.why)
			} else {
				o.Undecided("%s and %s still holds data (%s)", how, m.Name(), ev.why)
			}
			return
		case "G":
			st, msg := c12PoolClean(c, ev.pool)
			pn := "the pool"
			if ev.pool != nil {
				pn = "sync.Pool " + ev.pool.Name()
			}
			switch {
			case st == "ok":
				oks = append(oks, fmt.Sprintf("the target comes from %s: %s", pn, msg))
			case st == "violation" && mode == "yes":
				o.Violation("%s and the target %s comes from %s without Reset, but the pool does not only hold empty messages: %s. After such a path the next payload is merged onto the leftovers and decodes to extra (ghost) elements",
					how, m.Name(), pn, msg)
				return
			default:
				o.Undecided("%s and the target comes from %s: %s", how, pn, msg)
				return
			}
		default:
			o.Undecided("%s and the content of %s is unknown at the call: %s (no Reset on this path)", how, m.Name(), ev.why)
			return
		}
	}
	if !seen {
		o.Undecided("the decoding call was not reached by the path engine")
		return
	}
	o.OK("%s; %s", how, strings.Join(c12Uniq(oks), "; "))
}
