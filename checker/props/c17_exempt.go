package props

import (
	"bytes"
	"fmt"
	"go/ast"
	"go/constant"
	"go/token"
	"go/types"
	"strings"

	"siotcheck/kit"
)

// C17/R2 "the checksum exemption is exactly the log subject".  A frame that
// is returned without a checksum comparison must be delivered with the subject
// "log"; a test that is true for more frames than that (a prefix match, a
// comparison of part of the subject field, a case-insensitive comparison, …)
// exempts frames of other subjects, so a checksummed frame whose damaged
// subject passes the test is delivered instead of rejected.
//
// The acceptance table recognises the test by shape (an equality of something
// cut from the packet with "log").  What the shape does not say - which bytes
// are compared, and how much of them - is decided by evaluation: every
// condition leaf of the decoder that reads only the subject field is evaluated
// for a fixed set of probe frames (finite-domain evaluation, K4), the value is
// recorded on the path, and at every exit that accepts without a matching
// checksum the probe frames that take this path are delivered: a probe whose
// delivered subject is not "log" is a concrete counterexample.  Leaves that
// are not equalities by shape and are not refuted stay undecided.

// c17BV is a concrete value of the byte-level evaluator.
type c17BV struct {
	k   byte // 'B' []byte, 'S' string, 'I' integer, 'T' bool
	b   []byte
	off int // index of b[0] in the packet; -1: not the packet's storage
	s   string
	i   int64
	t   bool
}

// c17Conc evaluates side-effect-free expressions of the decoder (and of
// single-return helpers it calls) for one concrete packet.  It knows slicing,
// indexing, conversions between string and []byte, comparison, and the pure
// functions of bytes/strings tabled in call(); anything else makes it give up.
type c17Conc struct {
	pkt   []byte
	reads map[int]bool // packet indices whose content was looked at
	fail  string
	oob   bool // the failure is an index or slice out of range (a panic at run time), not a construct the evaluator does not know
	depth int
	steps int
}

type c17Frame struct {
	f   *kit.Func
	env map[types.Object]c17BV
}

func (ce *c17Conc) giveUp(format string, a ...any) (c17BV, bool) {
	if ce.fail == "" {
		ce.fail = fmt.Sprintf(format, a...)
	}
	return c17BV{}, false
}

// use marks the content of v as read.
func (ce *c17Conc) use(v c17BV) {
	if v.k == 'B' && v.off >= 0 {
		for i := range v.b {
			ce.reads[v.off+i] = true
		}
	}
}

func (ce *c17Conc) eval(fr *c17Frame, e ast.Expr) (c17BV, bool) {
	ce.steps++
	if ce.steps > 5000 {
		return ce.giveUp("evaluation budget exceeded")
	}
	info := fr.f.Info()
	e = ast.Unparen(e)
	if tv, ok := info.Types[e]; ok && tv.Value != nil {
		switch tv.Value.Kind() {
		case constant.String:
			return c17BV{k: 'S', s: constant.StringVal(tv.Value)}, true
		case constant.Bool:
			return c17BV{k: 'T', t: constant.BoolVal(tv.Value)}, true
		case constant.Int:
			if i, exact := constant.Int64Val(tv.Value); exact {
				return c17BV{k: 'I', i: i}, true
			}
		}
		return ce.giveUp("constant %s", tv.Value)
	}
	switch x := e.(type) {
	case *ast.Ident:
		o := kit.ObjOf(info, x)
		if o == nil {
			return ce.giveUp("identifier %s", x.Name)
		}
		if v, ok := fr.env[o]; ok {
			return v, true
		}
		v, isVar := o.(*types.Var)
		if !isVar || v.IsField() {
			return ce.giveUp("identifier %s", x.Name)
		}
		if v.Pkg() != nil && v.Parent() == v.Pkg().Scope() {
			init := c17PkgVarInit(fr.f, v)
			if init == nil {
				return ce.giveUp("package-level variable %s is not a constant table (no single initialiser, or it is written or handed out somewhere in the package)", v.Name())
			}
			return ce.eval(&c17Frame{f: fr.f}, init)
		}
		if def := c12SingleDef(fr.f, o); def != nil {
			return ce.eval(fr, def)
		}
		return ce.giveUp("variable %s has no single definition", x.Name)
	case *ast.SliceExpr:
		if x.Slice3 {
			return ce.giveUp("three-index slice")
		}
		base, ok := ce.eval(fr, x.X)
		if !ok {
			return base, false
		}
		n := int64(len(base.b))
		if base.k == 'S' {
			n = int64(len(base.s))
		} else if base.k != 'B' {
			return ce.giveUp("slice of a non-slice")
		}
		lo, hi := int64(0), n
		if x.Low != nil {
			v, ok := ce.eval(fr, x.Low)
			if !ok || v.k != 'I' {
				return ce.giveUp("slice bound %s", fr.f.Str(x.Low))
			}
			lo = v.i
		}
		if x.High != nil {
			v, ok := ce.eval(fr, x.High)
			if !ok || v.k != 'I' {
				return ce.giveUp("slice bound %s", fr.f.Str(x.High))
			}
			hi = v.i
		}
		if lo < 0 || lo > hi || hi > n {
			ce.oob = ce.fail == ""
			return ce.giveUp("slice [%d:%d] out of range for length %d", lo, hi, n)
		}
		if base.k == 'S' {
			return c17BV{k: 'S', s: base.s[lo:hi]}, true
		}
		off := -1
		if base.off >= 0 {
			off = base.off + int(lo)
		}
		return c17BV{k: 'B', b: base.b[lo:hi], off: off}, true
	case *ast.IndexExpr:
		base, ok := ce.eval(fr, x.X)
		if !ok {
			return base, false
		}
		iv, ok := ce.eval(fr, x.Index)
		if !ok || iv.k != 'I' {
			return ce.giveUp("index %s", fr.f.Str(x.Index))
		}
		switch base.k {
		case 'B':
			if iv.i < 0 || iv.i >= int64(len(base.b)) {
				ce.oob = ce.fail == ""
				return ce.giveUp("index %d out of range", iv.i)
			}
			if base.off >= 0 {
				ce.reads[base.off+int(iv.i)] = true
			}
			return c17BV{k: 'I', i: int64(base.b[iv.i])}, true
		case 'S':
			if iv.i < 0 || iv.i >= int64(len(base.s)) {
				ce.oob = ce.fail == ""
				return ce.giveUp("index %d out of range", iv.i)
			}
			return c17BV{k: 'I', i: int64(base.s[iv.i])}, true
		}
		return ce.giveUp("index of a non-slice")
	case *ast.UnaryExpr:
		v, ok := ce.eval(fr, x.X)
		if !ok {
			return v, false
		}
		switch {
		case x.Op == token.NOT && v.k == 'T':
			return c17BV{k: 'T', t: !v.t}, true
		case x.Op == token.SUB && v.k == 'I':
			return c17BV{k: 'I', i: -v.i}, true
		}
		return ce.giveUp("operator %s", x.Op)
	case *ast.BinaryExpr:
		a, ok := ce.eval(fr, x.X)
		if !ok {
			return a, false
		}
		if (x.Op == token.LAND || x.Op == token.LOR) && a.k == 'T' {
			if a.t == (x.Op == token.LOR) {
				return a, true
			}
			return ce.eval(fr, x.Y)
		}
		b, ok := ce.eval(fr, x.Y)
		if !ok {
			return b, false
		}
		if a.k != b.k {
			return ce.giveUp("operands of %s", x.Op)
		}
		cmp := func(c int) (c17BV, bool) {
			switch x.Op {
			case token.EQL:
				return c17BV{k: 'T', t: c == 0}, true
			case token.NEQ:
				return c17BV{k: 'T', t: c != 0}, true
			case token.LSS:
				return c17BV{k: 'T', t: c < 0}, true
			case token.LEQ:
				return c17BV{k: 'T', t: c <= 0}, true
			case token.GTR:
				return c17BV{k: 'T', t: c > 0}, true
			case token.GEQ:
				return c17BV{k: 'T', t: c >= 0}, true
			}
			return ce.giveUp("operator %s", x.Op)
		}
		switch a.k {
		case 'S':
			if x.Op == token.ADD {
				return c17BV{k: 'S', s: a.s + b.s}, true
			}
			return cmp(strings.Compare(a.s, b.s))
		case 'I':
			switch x.Op {
			case token.ADD:
				return c17BV{k: 'I', i: a.i + b.i}, true
			case token.SUB:
				return c17BV{k: 'I', i: a.i - b.i}, true
			case token.MUL:
				return c17BV{k: 'I', i: a.i * b.i}, true
			case token.AND:
				return c17BV{k: 'I', i: a.i & b.i}, true
			case token.OR:
				return c17BV{k: 'I', i: a.i | b.i}, true
			case token.XOR:
				return c17BV{k: 'I', i: a.i ^ b.i}, true
			}
			switch {
			case a.i < b.i:
				return cmp(-1)
			case a.i > b.i:
				return cmp(1)
			}
			return cmp(0)
		case 'T':
			if x.Op == token.EQL || x.Op == token.NEQ {
				return c17BV{k: 'T', t: (a.t == b.t) == (x.Op == token.EQL)}, true
			}
		}
		return ce.giveUp("operator %s", x.Op)
	case *ast.CompositeLit:
		// []byte{'l', 'o', 'g'}
		if t := info.TypeOf(x); t == nil || !c17IsByteSlice(t) {
			return ce.giveUp("composite literal")
		}
		out := make([]byte, 0, len(x.Elts))
		for _, el := range x.Elts {
			v, ok := ce.eval(fr, el)
			if _, keyed := el.(*ast.KeyValueExpr); keyed || !ok || v.k != 'I' {
				return ce.giveUp("composite literal element")
			}
			out = append(out, byte(v.i))
		}
		return c17BV{k: 'B', b: out, off: -1}, true
	case *ast.CallExpr:
		return ce.call(fr, x)
	}
	return ce.giveUp("expression %s", fr.f.Str(e))
}

func (ce *c17Conc) call(fr *c17Frame, call *ast.CallExpr) (c17BV, bool) {
	info := fr.f.Info()
	if call.Ellipsis.IsValid() {
		return ce.giveUp("variadic call")
	}
	args := make([]c17BV, len(call.Args))
	evalArgs := func() bool {
		for i, a := range call.Args {
			v, ok := ce.eval(fr, a)
			if !ok {
				return false
			}
			args[i] = v
		}
		return true
	}
	// conversion
	if tv, ok := info.Types[call.Fun]; ok && tv.IsType() && len(call.Args) == 1 {
		if !evalArgs() {
			return c17BV{}, false
		}
		a := args[0]
		if c17IsByteSlice(tv.Type) {
			switch a.k {
			case 'B':
				return a, true
			case 'S':
				return c17BV{k: 'B', b: []byte(a.s), off: -1}, true
			}
		}
		if bt, isB := tv.Type.Underlying().(*types.Basic); isB {
			switch {
			case bt.Kind() == types.String && a.k == 'B':
				ce.use(a)
				return c17BV{k: 'S', s: string(a.b)}, true
			case bt.Kind() == types.String && a.k == 'S':
				return a, true
			case bt.Kind() == types.String && a.k == 'I':
				return c17BV{k: 'S', s: string(rune(a.i))}, true
			case bt.Info()&types.IsInteger != 0 && a.k == 'I':
				switch bt.Kind() {
				case types.Uint8:
					a.i &= 0xff
				case types.Uint16:
					a.i &= 0xffff
				case types.Int8, types.Int16, types.Int32, types.Uint32:
					return ce.giveUp("integer conversion to %s", bt.Name())
				}
				return a, true
			}
		}
		return ce.giveUp("conversion %s", fr.f.Str(call))
	}
	callee := kit.Callee(info, call)
	if b, isB := callee.(*types.Builtin); isB {
		if b.Name() == "len" && len(call.Args) == 1 && evalArgs() {
			switch args[0].k {
			case 'B':
				return c17BV{k: 'I', i: int64(len(args[0].b))}, true
			case 'S':
				return c17BV{k: 'I', i: int64(len(args[0].s))}, true
			}
		}
		return ce.giveUp("builtin %s", b.Name())
	}
	q := kit.QualName(callee)
	if strings.HasPrefix(q, "bytes.") || strings.HasPrefix(q, "strings.") {
		if !evalArgs() {
			return c17BV{}, false
		}
		for _, a := range args {
			ce.use(a)
		}
		kinds := ""
		for _, a := range args {
			kinds += string(a.k)
		}
		boolV := func(t bool) (c17BV, bool) { return c17BV{k: 'T', t: t}, true }
		intV := func(i int) (c17BV, bool) { return c17BV{k: 'I', i: int64(i)}, true }
		// a sub-slice of the first argument that starts `skip` bytes in
		sub := func(r []byte, skip int) (c17BV, bool) {
			off := -1
			if args[0].off >= 0 {
				off = args[0].off + skip
			}
			return c17BV{k: 'B', b: r, off: off}, true
		}
		strV := func(s string) (c17BV, bool) { return c17BV{k: 'S', s: s}, true }
		switch q + "/" + kinds {
		case "bytes.Equal/BB":
			return boolV(bytes.Equal(args[0].b, args[1].b))
		case "bytes.EqualFold/BB":
			return boolV(bytes.EqualFold(args[0].b, args[1].b))
		case "bytes.HasPrefix/BB":
			return boolV(bytes.HasPrefix(args[0].b, args[1].b))
		case "bytes.HasSuffix/BB":
			return boolV(bytes.HasSuffix(args[0].b, args[1].b))
		case "bytes.Contains/BB":
			return boolV(bytes.Contains(args[0].b, args[1].b))
		case "bytes.Compare/BB":
			return intV(bytes.Compare(args[0].b, args[1].b))
		case "bytes.Index/BB":
			return intV(bytes.Index(args[0].b, args[1].b))
		case "bytes.IndexByte/BI":
			return intV(bytes.IndexByte(args[0].b, byte(args[1].i)))
		case "bytes.Trim/BS":
			b := args[0].b
			return sub(bytes.Trim(b, args[1].s), len(b)-len(bytes.TrimLeft(b, args[1].s)))
		case "bytes.TrimLeft/BS":
			b := args[0].b
			r := bytes.TrimLeft(b, args[1].s)
			return sub(r, len(b)-len(r))
		case "bytes.TrimRight/BS":
			return sub(bytes.TrimRight(args[0].b, args[1].s), 0)
		case "bytes.TrimPrefix/BB":
			b := args[0].b
			r := bytes.TrimPrefix(b, args[1].b)
			return sub(r, len(b)-len(r))
		case "bytes.TrimSuffix/BB":
			return sub(bytes.TrimSuffix(args[0].b, args[1].b), 0)
		case "bytes.ToLower/B":
			return c17BV{k: 'B', b: bytes.ToLower(args[0].b), off: -1}, true
		case "bytes.ToUpper/B":
			return c17BV{k: 'B', b: bytes.ToUpper(args[0].b), off: -1}, true
		case "strings.EqualFold/SS":
			return boolV(strings.EqualFold(args[0].s, args[1].s))
		case "strings.HasPrefix/SS":
			return boolV(strings.HasPrefix(args[0].s, args[1].s))
		case "strings.HasSuffix/SS":
			return boolV(strings.HasSuffix(args[0].s, args[1].s))
		case "strings.Contains/SS":
			return boolV(strings.Contains(args[0].s, args[1].s))
		case "strings.Compare/SS":
			return intV(strings.Compare(args[0].s, args[1].s))
		case "strings.Index/SS":
			return intV(strings.Index(args[0].s, args[1].s))
		case "strings.IndexByte/SI":
			return intV(strings.IndexByte(args[0].s, byte(args[1].i)))
		case "strings.Trim/SS":
			return strV(strings.Trim(args[0].s, args[1].s))
		case "strings.TrimLeft/SS":
			return strV(strings.TrimLeft(args[0].s, args[1].s))
		case "strings.TrimRight/SS":
			return strV(strings.TrimRight(args[0].s, args[1].s))
		case "strings.TrimPrefix/SS":
			return strV(strings.TrimPrefix(args[0].s, args[1].s))
		case "strings.TrimSuffix/SS":
			return strV(strings.TrimSuffix(args[0].s, args[1].s))
		case "strings.TrimSpace/S":
			return strV(strings.TrimSpace(args[0].s))
		case "strings.ToLower/S":
			return strV(strings.ToLower(args[0].s))
		case "strings.ToUpper/S":
			return strV(strings.ToUpper(args[0].s))
		}
		return ce.giveUp("library function %s", q)
	}
	// a function of the module whose body is local definitions and one return
	cf := fr.f.CalleeFunc(call)
	if cf == nil || cf.Body == nil || cf.Decl == nil || cf.Decl.Recv != nil {
		return ce.giveUp("call of %s", fr.f.Str(call.Fun))
	}
	if ce.depth >= 4 {
		return ce.giveUp("call depth")
	}
	prm := cf.Params()
	sig := cf.Signature()
	if sig == nil || sig.Variadic() || len(prm) != len(call.Args) || sig.Params().Len() != len(prm) || sig.Results().Len() != 1 {
		return ce.giveUp("call of %s", cf.Name)
	}
	var ret *ast.ReturnStmt
	for i, st := range cf.Body.List {
		switch y := st.(type) {
		case *ast.AssignStmt:
			if y.Tok != token.DEFINE {
				return ce.giveUp("%s is not straight-line", cf.Name)
			}
		case *ast.DeclStmt:
		case *ast.ReturnStmt:
			if i != len(cf.Body.List)-1 || len(y.Results) != 1 {
				return ce.giveUp("%s is not straight-line", cf.Name)
			}
			ret = y
		default:
			return ce.giveUp("%s is not straight-line", cf.Name)
		}
	}
	if ret == nil || !evalArgs() {
		return ce.giveUp("%s has no final return", cf.Name)
	}
	env := map[types.Object]c17BV{}
	for i, p := range prm {
		env[p] = args[i]
	}
	ce.depth++
	v, ok := ce.eval(&c17Frame{f: cf, env: env}, ret.Results[0])
	ce.depth--
	return v, ok
}

// c17PkgVarInit: the initialiser of a package-level variable that works as a
// constant: unexported, one initialiser, and every mention of it in the
// package is an operand of a comparison or an argument of a conversion, of
// len, or of a function of bytes/strings (which do not write their operands).
func c17PkgVarInit(f *kit.Func, v *types.Var) ast.Expr {
	if v.Exported() || f.Pkg == nil || f.Pkg.Types != v.Pkg() {
		return nil
	}
	info := f.Info()
	var init ast.Expr
	ok := true
	for _, file := range f.Pkg.Syntax {
		var stack []ast.Node
		ast.Inspect(file, func(n ast.Node) bool {
			if n == nil {
				stack = stack[:len(stack)-1]
				return true
			}
			switch y := n.(type) {
			case *ast.ValueSpec:
				for i, nm := range y.Names {
					if info.Defs[nm] == v {
						if len(y.Values) == len(y.Names) {
							init = y.Values[i]
						} else {
							ok = false
						}
					}
				}
			case *ast.Ident:
				if info.Uses[y] == v && !c17PureUse(info, stack, y) {
					ok = false
				}
			}
			stack = append(stack, n)
			return true
		})
	}
	if !ok {
		return nil
	}
	return init
}

func c17PureUse(info *types.Info, stack []ast.Node, id *ast.Ident) bool {
	var child ast.Node = id
	for i := len(stack) - 1; i >= 0; i-- {
		switch p := stack[i].(type) {
		case *ast.ParenExpr:
			child = p
			continue
		case *ast.BinaryExpr:
			switch p.Op {
			case token.EQL, token.NEQ, token.LSS, token.LEQ, token.GTR, token.GEQ:
				return true
			}
			return false
		case *ast.CallExpr:
			if p.Fun == child {
				return false
			}
			if tv, ok := info.Types[p.Fun]; ok && tv.IsType() {
				return true
			}
			switch c := kit.Callee(info, p).(type) {
			case *types.Builtin:
				return c.Name() == "len"
			case *types.Func:
				return c.Pkg() != nil && (c.Pkg().Path() == "bytes" || c.Pkg().Path() == "strings")
			}
			return false
		default:
			return false
		}
	}
	return false
}

// ---------------------------------------------------------------------------
// probe frames

// c17ProbeSubjects: what the subject field of the probe frames holds (NUL
// padded to the field).  The first is the exempt subject; the others differ
// from it in every way a weakened comparison could overlook: longer with the
// same prefix, same suffix, same letters in another case, one byte changed at
// each position, shorter, shifted, an interior NUL, the documented subjects.
var c17ProbeSubjects = []string{
	"log",
	"logw1", "log.x", "logs", "loga", "log\x00x", "logaaaaaaaaaaaaaaaaaaaaaaaaaaaaaaaaaaa",
	"xlog", "blog", "p.log", "aaaaaaaaaaaaaaaaaaaaaaaaaaaaaaaaaaaaaaaaaalog",
	"LOG", "Log", "lOg", "loG",
	"mog", "lag", "lob", "lo", "l", "",
	"\x00log", "lo\x00g", " log", "log ",
	"p.g", "p.gw1", "p.gw1.root", "ack", "phr", "phrup",
}

// c17Exempt holds what the decoder analysis needs to evaluate subject tests.
type c17Exempt struct {
	f        *kit.Func
	d        types.Object
	lo, hi   int      // the subject field [lo:hi) of the packet, from the encoder
	frames   [][]byte // probe frames
	subjects []string // subject field content of each probe, NUL padding removed
	leaves   []*c17ExemptLeaf
	byKey    map[string]*c17ExemptLeaf
}

type c17ExemptLeaf struct {
	id   int
	expr ast.Expr
	text string
	vals []int8 // value for each probe frame: 1 true, 0 false, -1 the evaluation indexes out of range (such a frame does not come here)
}

// c17NewExempt builds the probe frames from the encoder's layout; nil when
// the encoder's subject field is not known.
func c17NewExempt(dec *c17Decoder, em *c17EncModel) *c17Exempt {
	if em == nil {
		return nil
	}
	off := int64(0)
	field := int64(-1)
	for _, sg := range em.segs {
		if sg.role == "subject" {
			field = sg.size
			break
		}
		if sg.size < 0 {
			return nil
		}
		off += sg.size
	}
	if field <= 0 || field > 64 {
		return nil
	}
	ex := &c17Exempt{f: dec.f, d: dec.d, lo: int(off), hi: int(off + field), byKey: map[string]*c17ExemptLeaf{}}
	seen := map[string]bool{}
	for _, s := range c17ProbeSubjects {
		if int64(len(s)) > field {
			s = s[:field]
		}
		if seen[s] {
			continue
		}
		seen[s] = true
		pkt := make([]byte, 0, int(off+field)+8)
		for i := int64(0); i < off; i++ {
			pkt = append(pkt, 0x5a)
		}
		fld := make([]byte, field)
		copy(fld, s)
		pkt = append(pkt, fld...)
		pkt = append(pkt, 0x0a, 0x04, 0x0a, 0x02, 0x74, 0x31, 0xc3, 0x3c) // payload and trailer: never looked at
		ex.frames = append(ex.frames, pkt)
		ex.subjects = append(ex.subjects, s)
	}
	return ex
}

// evalOn evaluates e in the decoder for probe i; reads is the set of packet
// indices looked at.
func (ex *c17Exempt) evalOn(i int, e ast.Expr) (v c17BV, reads map[int]bool, fail string, oob bool) {
	ce := &c17Conc{pkt: ex.frames[i], reads: map[int]bool{}}
	fr := &c17Frame{f: ex.f, env: map[types.Object]c17BV{ex.d: {k: 'B', b: ex.frames[i], off: 0}}}
	v, ok := ce.eval(fr, e)
	if !ok {
		return v, ce.reads, ce.fail, ce.oob
	}
	return v, ce.reads, "", false
}

// leaf: e as a test of the subject field - a boolean that the evaluator
// understands for every probe, that looks at bytes of the subject field only
// (at least one) and that is not the same for all probes.
func (ex *c17Exempt) leaf(e ast.Expr) *c17ExemptLeaf {
	if ex == nil {
		return nil
	}
	key := fmt.Sprintf("%d:%d", e.Pos(), e.End())
	if l, ok := ex.byKey[key]; ok {
		return l
	}
	ex.byKey[key] = nil
	vals := make([]int8, len(ex.frames))
	nTrue, nFalse := 0, 0
	for i := range ex.frames {
		v, reads, fail, oob := ex.evalOn(i, e)
		for ix := range reads {
			if ix < ex.lo || ix >= ex.hi {
				return nil
			}
		}
		if fail != "" && oob {
			vals[i] = -1
			continue
		}
		if fail != "" || v.k != 'T' || len(reads) == 0 {
			return nil
		}
		if v.t {
			vals[i] = 1
			nTrue++
		} else {
			nFalse++
		}
	}
	if nTrue == 0 || nFalse == 0 {
		return nil
	}
	l := &c17ExemptLeaf{id: len(ex.leaves), expr: e, text: ex.f.Str(e), vals: vals}
	ex.leaves = append(ex.leaves, l)
	ex.byKey[key] = l
	return l
}

// c17Wide: a probe frame that takes the path of state s (it gives every
// subject test on the path the value the path took) and that ret delivers
// with a subject other than "log".
type c17Wide struct {
	subject   string // content of the subject field of the probe
	delivered string
	tests     []string
}

// probesOn: the probes consistent with the subject tests recorded in s.
func (ex *c17Exempt) probesOn(s kit.S) (probes []int, tests []string) {
	if ex == nil {
		return nil, nil
	}
	var on []*c17ExemptLeaf
	for _, l := range ex.leaves {
		if v := s.Get(fmt.Sprintf("w:%d", l.id)); v != "" {
			on = append(on, l)
			tests = append(tests, fmt.Sprintf("`%s` is %v", l.text, v == "T"))
		}
	}
	if len(on) == 0 {
		return nil, nil
	}
	for i := range ex.frames {
		fits := true
		for _, l := range on {
			want := int8(0)
			if s.Get(fmt.Sprintf("w:%d", l.id)) == "T" {
				want = 1
			}
			if l.vals[i] != want {
				fits = false
			}
		}
		if fits {
			probes = append(probes, i)
		}
	}
	return probes, tests
}

// wide looks for a counterexample at an accepting exit without a matching
// checksum.  judged is false when nothing can be said (no subject test on
// the path, or the delivered subject is not computable).
func (ex *c17Exempt) wide(s kit.S, subj ast.Expr) (w *c17Wide, judged bool) {
	probes, tests := ex.probesOn(s)
	if len(probes) == 0 || subj == nil {
		return nil, false
	}
	for _, i := range probes {
		v, _, fail, _ := ex.evalOn(i, subj)
		if fail != "" || v.k != 'S' {
			return nil, false
		}
		if v.s != "log" {
			return &c17Wide{subject: ex.subjects[i], delivered: v.s, tests: tests}, true
		}
	}
	return nil, true
}

// ---------------------------------------------------------------------------
// the shape side: X == K / bytes.Equal(X, K) with K the constant "log" and X
// cut from the packet by slicing, NUL/cutset trimming and conversion only

// c17CutFromPacket: e is built from one slice of the packet d (possibly held
// in single-definition locals) by conversions between string and []byte,
// re-slicing and the Trim family only.
func c17CutFromPacket(f *kit.Func, e ast.Expr, d types.Object, depth int) bool {
	info := f.Info()
	e = ast.Unparen(e)
	if depth > 6 {
		return false
	}
	switch x := e.(type) {
	case *ast.Ident:
		o := kit.ObjOf(info, x)
		if o == nil || o == d {
			return false // the whole packet is not a field of it
		}
		if def := c12SingleDef(f, o); def != nil {
			return c17CutFromPacket(f, def, d, depth+1)
		}
	case *ast.SliceExpr:
		if kit.ObjOf(info, x.X) == d {
			return true
		}
		return c17CutFromPacket(f, x.X, d, depth+1)
	case *ast.CallExpr:
		if tv, ok := info.Types[x.Fun]; ok && tv.IsType() && len(x.Args) == 1 {
			return c17CutFromPacket(f, x.Args[0], d, depth+1)
		}
		if kit.CallIs(info, x, "bytes.Trim", "bytes.TrimRight", "bytes.TrimLeft", "strings.Trim", "strings.TrimRight", "strings.TrimLeft") && len(x.Args) == 2 {
			if _, isConst := kit.ConstString(info, x.Args[1]); isConst {
				return c17CutFromPacket(f, x.Args[0], d, depth+1)
			}
		}
	}
	return false
}

// c17BytesEqualLog: e is bytes.Equal(X, K) (either order) with K a constant
// byte string "log" and X cut from the packet.
func c17BytesEqualLog(f *kit.Func, e ast.Expr, d types.Object) bool {
	info := f.Info()
	call, ok := ast.Unparen(e).(*ast.CallExpr)
	if !ok || !kit.CallIs(info, call, "bytes.Equal") || len(call.Args) != 2 {
		return false
	}
	for _, pair := range [][2]ast.Expr{{call.Args[0], call.Args[1]}, {call.Args[1], call.Args[0]}} {
		if !c17CutFromPacket(f, pair[0], d, 0) {
			continue
		}
		// K must not depend on the packet: evaluate it without one
		ce := &c17Conc{reads: map[int]bool{}}
		v, ok := ce.eval(&c17Frame{f: f}, pair[1])
		if ok && v.k == 'B' && string(v.b) == "log" {
			return true
		}
	}
	return false
}
