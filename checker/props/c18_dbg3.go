//go:build wip_c18

package props

import (
	"fmt"
	"go/types"
	"os"
	"strings"

	"siotcheck/kit"
)

func init() {
	kit.Register(&kit.Prop{ID: "C18DBI", Title: "dbg", Run: func(c *kit.Ctx) {
		c.Rule("R2", "bounds", 0)
		f := c.P.FuncNamed("modbus", os.Getenv("DBG_FUNC"))
		var sc, ln, en int64
		fmt.Sscanf(os.Getenv("DBG_IN"), "%d,%d,%d", &en, &sc, &ln)
		ip := &kit.Interp{P: c.P, F: f}
		ip.Input = func(key string, t types.Type) (kit.IVal, bool) {
			fmt.Println("input", key, t)
			if strings.HasPrefix(key, "elem:") || strings.HasPrefix(key, "call:") {
				return kit.IVal{K: 'i', I: sc}, true
			}
			if _, ok := t.Underlying().(*types.Slice); ok {
				return kit.IVal{K: 's', L: ln, C: ln, Env: true}, true
			}
			if _, ok := t.Underlying().(*types.Basic); ok {
				return kit.IVal{K: 'i', I: en}, true
			}
			return kit.IVal{}, false
		}
		res := ip.Run()
		fmt.Printf("steps=%d crashes=%d exits=%d unsupported=%v overflow=%v\n", res.Steps, len(res.Crashes), len(res.Exits), res.Unsupported, res.Overflow)
		for _, e := range res.Exits {
			if e.Ret != nil {
				fmt.Println("  exit", f.At(e.Ret), f.Str(e.Ret), "tainted", e.Tainted)
			}
		}
		for _, cr := range res.Crashes {
			fmt.Println("  crash", f.At(cr.Node), cr.Msg)
		}
	}})
}
