package props

import (
	"fmt"
	"go/ast"
	"go/token"
	"go/types"
	"sort"
	"strings"

	"siotcheck/kit"
)

// writerLoop is the shared model of the merge loop of a point writer
// (C01/R2-R4, C03/R2): roles of the variables and a per-valuation effect
// summary of one iteration.
type writerLoop struct {
	c      *kit.Ctx
	m      *storeModel
	w      *pointWriter
	f      *kit.Func
	inLoop *ast.RangeStmt
	in     types.Object // incoming point (range value over the batch)
	dbLoop *ast.RangeStmt
	db     types.Object // stored point
	dbIdx  types.Object
	dbPts  types.Object // slice of stored points
	dbIDs  types.Object // slice of stored row ids (discovered from the reuse append)
	wp     types.Object // slice of points to write
	wids   types.Object // slice of row ids to write
	delta  types.Object // accumulated hash delta
	ntype  string
	// searchAnchor is where the stored points are searched (the nested loop, or the
	// statement of the merge loop that hands them to a search helper).
	searchAnchor ast.Node
	hm           *hashModel
	anchor       ast.Node // where reports about the merge are attached
}

func (wl *writerLoop) obj(e ast.Expr) types.Object { return kit.ObjOf(wl.f.Info(), e) }

func newWriterLoop(c *kit.Ctx, m *storeModel, w *pointWriter) *writerLoop {
	wl := &writerLoop{c: c, m: m, w: w, f: w.F, ntype: dataConst(c, "PointTypeNodeType")}
	f := w.F
	info := f.Info()
	// wp: X of the range statement enclosing the Exec
	// The roles below are only anchors for reports and for the structural lock-step
	// rule; the merge outcome itself is computed on values (wsym.go) and does not
	// need them.
	wl.anchor = w.Exec.Call
	// delta: the uint32 local handed to the hash propagation entry
	wl.hm = tryHashModel(c, m)
	for _, g := range []*kit.Func{w.F, w.Body} {
		for _, call := range g.AllCalls(true) {
			if cf := g.CalleeFunc(call); cf != nil && wl.hm.isEntry(cf) {
				for _, a := range call.Args {
					if id, ok := ast.Unparen(a).(*ast.Ident); ok && isUint32(g.Info().TypeOf(id)) {
						if o, ok := kit.ObjOf(g.Info(), id).(*types.Var); ok && !o.IsField() {
							wl.delta = o
						}
					}
				}
			}
		}
	}
	if wl.delta == nil {
		// not handed over as a plain local: the uint32 local that checksums are XORed into
		for _, g := range []*kit.Func{w.F, w.Body} {
			ast.Inspect(g.Body, func(n ast.Node) bool {
				as, ok := n.(*ast.AssignStmt)
				if !ok || as.Tok != token.XOR_ASSIGN || len(as.Lhs) != 1 || len(as.Rhs) != 1 {
					return true
				}
				call, ok := ast.Unparen(as.Rhs[0]).(*ast.CallExpr)
				if !ok || !kit.CallIs(g.Info(), call, dataPkg+".(Point).CRC", dataPkg+".(*Point).CRC") {
					return true
				}
				if o, ok := kit.ObjOf(g.Info(), as.Lhs[0]).(*types.Var); ok && !o.IsField() && isUint32(o.Type()) {
					wl.delta = o
				}
				return true
			})
		}
	}
	rs := f.EnclosingLoop(w.Exec.Call)
	if rs == nil {
		return wl
	}
	wl.wp = wl.obj(rs.X)
	// wids: Exec arg0 is ids[i] or a variable assigned ids[i]
	if len(w.Exec.Args) > 0 {
		e := w.Exec.Args[0]
		for d := 0; d < 3; d++ {
			if ix, ok := ast.Unparen(e).(*ast.IndexExpr); ok {
				wl.wids = wl.obj(ix.X)
				break
			}
			o := wl.obj(e)
			var rhs ast.Expr
			ast.Inspect(rs.Body, func(n ast.Node) bool {
				if as, ok := n.(*ast.AssignStmt); ok && len(as.Lhs) == 1 && len(as.Rhs) == 1 && wl.obj(as.Lhs[0]) == o {
					rhs = as.Rhs[0]
				}
				return true
			})
			if rhs == nil {
				break
			}
			e = rhs
		}
	}
	// inLoop: outermost loop over the batch that appends to wp
	for _, r := range f.SliceLoops(f.Body) {
		if wl.inLoop != nil {
			break
		}
		if wl.obj(r.X) != types.Object(w.Batch) {
			continue
		}
		appends := false
		ast.Inspect(r.Body, func(x ast.Node) bool {
			if as, ok := x.(*ast.AssignStmt); ok && len(as.Lhs) == 1 && wl.obj(as.Lhs[0]) == wl.wp {
				appends = true
			}
			return true
		})
		if appends && kit.LoopElemVar(info, r) != nil {
			wl.inLoop = r
			wl.in = kit.LoopElemVar(info, r)
		}
	}
	if wl.inLoop == nil || wl.wp == nil || wl.wids == nil {
		return wl
	}
	wl.anchor = wl.inLoop
	// dbLoop: loop nested in inLoop over a data.Points variable other than the batch
	for _, r := range f.SliceLoops(wl.inLoop.Body) {
		if wl.dbLoop != nil {
			break
		}
		o := wl.obj(r.X)
		ev := kit.LoopElemVar(info, r)
		if o == nil || o == types.Object(w.Batch) || ev == nil {
			continue
		}
		isPts := kit.IsNamedType(o.Type(), dataPkg, "Points")
		if sl, ok := o.Type().Underlying().(*types.Slice); ok && kit.IsNamedType(sl.Elem(), dataPkg, "Point") {
			isPts = true
		}
		if isPts {
			wl.dbLoop, wl.dbPts, wl.db = r, o, ev
			if r.Key != nil {
				wl.dbIdx = wl.obj(r.Key)
			}
		}
	}
	if wl.dbLoop != nil {
		wl.searchAnchor = wl.dbLoop
	} else {
		// the search may live in a helper (findStoredPoint(stored, p)): the stored points are
		// then the one Points-typed local, other than the batch and the points to write,
		// that the merge loop mentions
		cands := map[types.Object]ast.Node{}
		var order []types.Object
		var stmtOf func(n ast.Node) ast.Node
		stmtOf = func(n ast.Node) ast.Node {
			for n != nil {
				if _, ok := n.(ast.Stmt); ok {
					return n
				}
				n = c.P.Parent(f.File, n)
			}
			return nil
		}
		ast.Inspect(wl.inLoop.Body, func(n ast.Node) bool {
			id, ok := n.(*ast.Ident)
			if !ok {
				return true
			}
			o, ok := info.Uses[id].(*types.Var)
			if !ok || o.IsField() || types.Object(o) == types.Object(w.Batch) || types.Object(o) == wl.wp || types.Object(o) == wl.in {
				return true
			}
			isPts := kit.IsNamedType(o.Type(), dataPkg, "Points")
			if sl, ok := o.Type().Underlying().(*types.Slice); ok && kit.IsNamedType(sl.Elem(), dataPkg, "Point") {
				isPts = true
			}
			if isPts && cands[o] == nil {
				cands[o] = stmtOf(id)
				order = append(order, o)
			}
			return true
		})
		if len(order) != 1 {
			return wl
		}
		wl.dbPts = order[0]
		wl.searchAnchor = cands[order[0]]
		if wl.searchAnchor == nil {
			wl.searchAnchor = wl.inLoop
		}
	}
	_ = info
	return wl
}

// dbIndexMark is the abstract index of the stored row in the merge-loop model.
const dbIndexMark = "7"

// valuation of one merge-loop iteration.
type mergeVal struct {
	rowsV  []mergeRow // per-row valuations when rows > 1
	rows   int        // 0 or 1 stored row
	eqType bool       // meaningful when rows == 1
	eqKey  bool
	order  string // "lt" (stored older), "eq", "gt" (stored newer)
	kempty bool   // incoming key is ""
	isnt   bool   // incoming point is a node-type point
	// second: the batch carries a second, unrelated point IN2 (1: after IN, 2: before IN)
	second int
	// tzero: the incoming point carries the zero time
	tzero bool
}

func (v mergeVal) String() string {
	if v.isnt {
		return "node-type point"
	}
	k := map[bool]string{true: `key ""`, false: "key set"}[v.kempty]
	if v.rows == 0 {
		return "no stored row, " + k
	}
	return fmt.Sprintf("stored row: sameType=%v sameKey=%v stored %s incoming, %s", v.eqType, v.eqKey,
		map[string]string{"lt": "older than", "eq": "same time as", "gt": "newer than"}[v.order], k)
}

type mergeOutcome struct {
	fx       []string // distinct effect multisets seen on success paths, each a sorted "+"-joined list
	rawCmp   bool     // key compared while still "" (not normalised)
	rawWrite bool     // appended while key still ""
	normC    string   // normalisation constant seen
	unknown  []string // unrelated conditions the outcome depended on
	paths    int
	// binds: column of the prepared INSERT -> the values bound to it (symbolic terms)
	binds    map[string]map[string]bool
	execArgs int
	// props: per successful exit "<entry calls>|<terms handed to the entry>|<commit before propagation>|<x: effects>"
	props []string
	// second: per successful exit of a two-point run "<Execs of IN2>|<problem>|<CRC(IN2) folds handed to the entry>|<terms>"
	second []string
	// zeroTest: the writer tested the incoming time for the zero value in a recognised form
	zeroTest bool
}

func tbool(b bool) string {
	if b {
		return "T"
	}
	return "F"
}

// run evaluates the writer under v (symbolically, see wsym.go).
func (wl *writerLoop) run(v mergeVal) *mergeOutcome { return wl.runSym(v) }

// runRoles is the earlier role-based model of one merge-loop iteration (kept for
// reference and differential checks during development).
func (wl *writerLoop) runRoles(v mergeVal) *mergeOutcome {
	f := wl.f
	info := f.Info()
	out := &mergeOutcome{}
	st := &kit.Std{F: f}
	// helpers of the package are evaluated inline: normalisation, the search for the
	// stored point and the time comparison may each live in one
	st.ShouldInline = func(cf *kit.Func, call *ast.CallExpr) bool {
		return txParamOf(cf) == nil && wl.m.writerOf(st.Cur(), call) == nil
	}
	// a by-value copy of the incoming point inside a helper: callee parameter -> true
	deref := func(e ast.Expr) ast.Expr {
		e = ast.Unparen(st.Resolve(e))
		for {
			switch x := e.(type) {
			case *ast.UnaryExpr:
				if x.Op == token.AND {
					e = ast.Unparen(st.Resolve(x.X))
					continue
				}
			case *ast.StarExpr:
				e = ast.Unparen(st.Resolve(x.X))
				continue
			}
			return e
		}
	}
	isIn := func(e ast.Expr) bool { return kit.ObjOf(info, deref(e)) == wl.in }
	dbVars := map[types.Object]bool{}
	dbIdxs := map[types.Object]bool{}
	if wl.db != nil {
		dbVars[wl.db] = true
	}
	if wl.dbIdx != nil {
		dbIdxs[wl.dbIdx] = true
	}
	isDbPts := func(e ast.Expr) bool { return wl.dbPts != nil && kit.ObjOf(info, deref(e)) == wl.dbPts }
	isDb := func(e ast.Expr) bool {
		e = deref(e)
		if o := kit.ObjOf(info, e); o != nil && dbVars[o] {
			return true
		}
		// with at most one stored row in the model, any element of the stored points is that row
		if ix, ok := e.(*ast.IndexExpr); ok && isDbPts(ix.X) {
			return true
		}
		return false
	}
	field := func(e ast.Expr, name string, who func(ast.Expr) bool) bool {
		sel, ok := ast.Unparen(st.Resolve(e)).(*ast.SelectorExpr)
		return ok && sel.Sel.Name == name && who(sel.X)
	}
	// isFirstIdx: the index expression denotes the (only) stored row reached by the search
	isFirstIdx := func(e ast.Expr, s kit.S) bool {
		if s.Get("db") != "1" {
			return false
		}
		if o := kit.ObjOf(info, ast.Unparen(st.Resolve(e))); o != nil && dbIdxs[o] {
			return true
		}
		if v, ok := st.FoldExpr(e, s); ok && v.ExactString() == dbIndexMark {
			return true
		}
		return false
	}
	st.Eval.Atom = func(e ast.Expr) (string, bool, bool) {
		// equality atoms
		if neg, ok := eqAtom(e, func(x ast.Expr) bool { return field(x, "Type", isIn) }, func(x ast.Expr) bool { return field(x, "Type", isDb) }); ok {
			return "eqType", neg, true
		}
		if neg, ok := eqAtom(e, func(x ast.Expr) bool { return field(x, "Key", isIn) }, func(x ast.Expr) bool { return field(x, "Key", isDb) }); ok {
			return "eqKey", neg, true
		}
		if neg, ok := eqAtom(e, func(x ast.Expr) bool { return field(x, "Key", isIn) }, constStringIs(info, "")); ok {
			return "kempty", neg, true
		}
		if neg, ok := eqAtom(e, func(x ast.Expr) bool { return field(x, "Type", isIn) }, constStringIs(info, wl.ntype)); ok {
			return "isnt", neg, true
		}
		// time atoms
		if call, ok := ast.Unparen(e).(*ast.CallExpr); ok && len(call.Args) == 1 {
			if sel, ok := ast.Unparen(call.Fun).(*ast.SelectorExpr); ok {
				recvDb := field(sel.X, "Time", isDb) && field(call.Args[0], "Time", isIn)
				recvIn := field(sel.X, "Time", isIn) && field(call.Args[0], "Time", isDb)
				if recvDb || recvIn {
					switch kit.QualName(kit.Callee(info, call)) {
					case "time.(Time).Before":
						if recvDb {
							return "lt", false, true
						}
						return "gt", false, true
					case "time.(Time).After":
						if recvDb {
							return "gt", false, true
						}
						return "lt", false, true
					case "time.(Time).Equal":
						return "eq", false, true
					}
				}
			}
		}
		return "", false, false
	}
	st.Eval.OnUnknown = func(e ast.Expr) {
		// remember conditions inside the merge loop that are not atoms and not error checks
		if wl.inLoop.Body.Pos() <= e.Pos() && e.End() <= wl.inLoop.Body.End() {
			if _, _, isErr := kit.ErrCheck(info, e); !isErr {
				out.unknown = append(out.unknown, f.Str(e))
			}
		}
	}
	// key typestate via Fold (has access to the state)
	st.Fold = func(e ast.Expr, s kit.S) (bool, bool) {
		if _, ok := eqAtom(e, func(x ast.Expr) bool { return field(x, "Key", isIn) }, func(x ast.Expr) bool { return field(x, "Key", isDb) }); ok {
			if v.kempty && s.Get("kn") == "" {
				out.rawCmp = true
			}
		}
		return false, false
	}
	addFx := func(s kit.S, x string) kit.S {
		cur := s.Get("fx")
		parts := []string{}
		if cur != "" {
			parts = strings.Split(cur, "+")
		}
		if len(parts) > 8 {
			return s
		}
		parts = append(parts, x)
		sort.Strings(parts)
		return s.Set("fx", strings.Join(parts, "+"))
	}
	// crcOperands lists the operands of a XOR tree of <point>.CRC() calls ("" for anything else)
	var crcOperands func(e ast.Expr, s kit.S) []string
	crcOperands = func(e ast.Expr, s kit.S) []string {
		e = ast.Unparen(e)
		if be, ok := e.(*ast.BinaryExpr); ok && be.Op == token.XOR {
			return append(crcOperands(be.X, s), crcOperands(be.Y, s)...)
		}
		if call, ok := e.(*ast.CallExpr); ok && len(call.Args) == 0 {
			if sel, ok := ast.Unparen(call.Fun).(*ast.SelectorExpr); ok && kit.CallIs(info, call, dataPkg+".(Point).CRC", dataPkg+".(*Point).CRC") {
				switch {
				case isIn(sel.X):
					return []string{"x:in"}
				case isDb(sel.X) && s.Get("db") == "1":
					return []string{"x:db"}
				}
			}
		}
		return []string{"x:other"}
	}
	st.OnNode = func(n ast.Node, s kit.S) []kit.S {
		if s.Get("in") != "1" {
			return []kit.S{s}
		}
		inHelper := st.Cur() != f
		if r, ok := n.(*ast.ReturnStmt); ok && inHelper {
			// a helper that normalises a copy of the incoming point and hands it back
			if len(r.Results) == 1 {
				if o := kit.ObjOf(info, r.Results[0]); o != nil && s.Has("knp:"+kit.VarID(o)) {
					return []kit.S{s.Set("knret", s.Get("knp:"+kit.VarID(o)))}
				}
			}
			return []kit.S{s.Del("knret")}
		}
		as, ok := n.(*ast.AssignStmt)
		if !ok || len(as.Lhs) != 1 || len(as.Rhs) != 1 {
			return []kit.S{s}
		}
		lhs := as.Lhs[0]
		// key normalisation: in.Key = "<c>"
		if field(lhs, "Key", isIn) && as.Tok == token.ASSIGN {
			val := "?"
			if cst, ok := kit.ConstString(info, as.Rhs[0]); ok && cst != "" {
				val = cst
			}
			// through a by-value parameter the caller's point changes only if the copy is handed back
			if sel, ok := ast.Unparen(lhs).(*ast.SelectorExpr); ok && inHelper {
				if po, ok := kit.ObjOf(info, sel.X).(*types.Var); ok {
					if _, isPtr := po.Type().Underlying().(*types.Pointer); !isPtr {
						return []kit.S{s.Set("knp:"+kit.VarID(po), val)}
					}
				}
			}
			if val != "?" {
				out.normC = val
			}
			return []kit.S{s.Set("kn", val)}
		}
		// in = normalise(in)
		if !inHelper && isIn(lhs) && as.Tok == token.ASSIGN {
			if _, isCall := ast.Unparen(as.Rhs[0]).(*ast.CallExpr); isCall && s.Has("knret") {
				val := s.Get("knret")
				if val != "?" {
					out.normC = val
				}
				for _, k := range s.Keys() {
					if strings.HasPrefix(k, "knp:") {
						s = s.Del(k)
					}
				}
				return []kit.S{s.Del("knret").Set("kn", val)}
			}
		}
		lo := kit.ObjOf(info, deref(lhs))
		if call, ok := ast.Unparen(as.Rhs[0]).(*ast.CallExpr); ok {
			if b, ok := kit.Callee(info, call).(*types.Builtin); ok && b.Name() == "append" && len(call.Args) >= 2 && kit.ObjOf(info, deref(call.Args[0])) == lo {
				arg := call.Args[1]
				switch lo {
				case wl.wp:
					if isIn(arg) && len(call.Args) == 2 {
						if v.kempty && s.Get("kn") == "" {
							out.rawWrite = true
						}
						s = addFx(s, "wp:in")
					} else {
						s = addFx(s, "wp:other")
					}
				case wl.wids:
					if ix, ok := ast.Unparen(st.Resolve(arg)).(*ast.IndexExpr); ok {
						if isFirstIdx(ix.Index, s) {
							xo := kit.ObjOf(info, deref(ix.X))
							if wl.dbIDs == nil {
								wl.dbIDs = xo
							}
							if xo == wl.dbIDs {
								s = addFx(s, "id:reuse")
							} else {
								s = addFx(s, "id:badindex")
							}
						} else {
							s = addFx(s, "id:badindex")
						}
					} else if _, isCall := ast.Unparen(arg).(*ast.CallExpr); isCall {
						s = addFx(s, "id:new")
					} else {
						s = addFx(s, "id:other")
					}
				}
			}
		}
		if as.Tok == token.XOR_ASSIGN && wl.delta != nil && lo == wl.delta {
			for _, x := range crcOperands(as.Rhs[0], s) {
				s = addFx(s, x)
			}
		}
		return []kit.S{s}
	}
	st.OnBranch = func(br kit.Branch, s kit.S) (t, fl []kit.S, handled bool) {
		if br.Kind != kit.BrRange {
			return nil, nil, false
		}
		enterDb := func() (t, fl []kit.S, handled bool) {
			if s.Get("in") != "1" {
				return nil, []kit.S{s}, true
			}
			if !s.Has("db") && v.rows == 1 {
				s2 := s.Set("db", "1")
				if br.Range.Key != nil {
					if o := kit.ObjOf(info, br.Range.Key); o != nil {
						dbIdxs[o] = true
						// the index of the one stored row is given a value no other counter
						// takes, so that it can be told from them after passing through helpers
						s2 = s2.Set("v:"+kit.VarID(o), dbIndexMark)
					}
				}
				if br.Range.Value != nil {
					if o := kit.ObjOf(info, br.Range.Value); o != nil {
						dbVars[o] = true
					}
				}
				return []kit.S{s2}, nil, true
			}
			return nil, []kit.S{s.Set("db", "done")}, true
		}
		switch {
		case br.Range == wl.inLoop:
			if !s.Has("in") {
				return []kit.S{s.Set("in", "1")}, nil, true
			}
			return nil, []kit.S{s.Set("in", "done").Del("db")}, true
		case br.Range == wl.dbLoop && wl.dbLoop != nil:
			return enterDb()
		case wl.dbLoop == nil && s.Get("in") == "1" && isDbPts(br.Range.X):
			// the search loop, wherever it lives
			return enterDb()
		}
		return nil, nil, false
	}
	init := kit.NewS().Set("a:kempty", tbool(v.kempty)).Set("a:isnt", tbool(v.isnt))
	if v.rows == 1 {
		init = init.Set("a:eqType", tbool(v.eqType)).Set("a:eqKey", tbool(v.eqKey)).
			Set("a:lt", tbool(v.order == "lt")).Set("a:eq", tbool(v.order == "eq")).Set("a:gt", tbool(v.order == "gt"))
	}
	cl := st.Client()
	cl.MaxStates = 400000
	res := wl.c.P.Graph(f).Run(init, cl)
	if res.Overflow {
		wl.c.Fatalf("merge loop of %s: state overflow", f.Name)
	}
	seen := map[string]bool{}
	for _, e := range res.Exits {
		if e.Return == nil || e.State.Get("in") != "done" {
			continue
		}
		if st.ReturnsNil(e.Return, e.State) == "nonnil" {
			continue
		}
		out.paths++
		fx := e.State.Get("fx")
		if !seen[fx] {
			seen[fx] = true
			out.fx = append(out.fx, fx)
		}
	}
	sort.Strings(out.fx)
	out.unknown = uniqStrings(out.unknown)
	return out
}

// mergeValuations enumerates the consistent valuations.
func mergeValuations(edge bool) []mergeVal {
	var out []mergeVal
	for _, ke := range []bool{false, true} {
		out = append(out, mergeVal{rows: 0, kempty: ke})
		for _, et := range []bool{true, false} {
			for _, ek := range []bool{true, false} {
				for _, o := range []string{"lt", "eq", "gt"} {
					out = append(out, mergeVal{rows: 1, eqType: et, eqKey: ek, order: o, kempty: ke})
				}
			}
		}
	}
	if edge {
		out = append(out, mergeVal{rows: 1, eqType: true, eqKey: true, order: "lt", isnt: true})
		out = append(out, mergeVal{rows: 0, isnt: true})
	}
	return out
}

// project keeps the effects with one of the prefixes.
func projectFx(fx string, prefixes ...string) string {
	if fx == "" {
		return ""
	}
	var keep []string
	for _, p := range strings.Split(fx, "+") {
		for _, pre := range prefixes {
			if strings.HasPrefix(p, pre) {
				keep = append(keep, p)
			}
		}
	}
	return strings.Join(keep, "+")
}
