package props

import (
	"fmt"
	"go/ast"
	"go/token"
	"go/types"
	"sort"
	"strings"

	"siotcheck/kit"
)

// writerLoop is the shared model of the merge loop of a point writer
// (C01/R2-R4, C03/R2): roles of the variables and a per-valuation effect
// summary of one iteration.
type writerLoop struct {
	c      *kit.Ctx
	m      *storeModel
	w      *pointWriter
	f      *kit.Func
	inLoop *ast.RangeStmt
	in     types.Object // incoming point (range value over the batch)
	dbLoop *ast.RangeStmt
	db     types.Object // stored point
	dbIdx  types.Object
	dbPts  types.Object // slice of stored points
	dbIDs  types.Object // slice of stored row ids (discovered from the reuse append)
	wp     types.Object // slice of points to write
	wids   types.Object // slice of row ids to write
	delta  types.Object // accumulated hash delta
	ntype  string
}

func (wl *writerLoop) obj(e ast.Expr) types.Object { return kit.ObjOf(wl.f.Info(), e) }

func newWriterLoop(c *kit.Ctx, m *storeModel, w *pointWriter) *writerLoop {
	wl := &writerLoop{c: c, m: m, w: w, f: w.F, ntype: dataConst(c, "PointTypeNodeType")}
	f := w.F
	info := f.Info()
	// wp: X of the range statement enclosing the Exec
	rs, _ := f.Enclosing(w.Exec.Call, func(n ast.Node) bool { _, ok := n.(*ast.RangeStmt); return ok }).(*ast.RangeStmt)
	if rs == nil {
		c.Fatalf("%s: the INSERT Exec is not inside a range loop over the points to write", f.Name)
	}
	wl.wp = wl.obj(rs.X)
	// wids: Exec arg0 is ids[i] or a variable assigned ids[i]
	if len(w.Exec.Args) > 0 {
		e := w.Exec.Args[0]
		for d := 0; d < 3; d++ {
			if ix, ok := ast.Unparen(e).(*ast.IndexExpr); ok {
				wl.wids = wl.obj(ix.X)
				break
			}
			o := wl.obj(e)
			var rhs ast.Expr
			ast.Inspect(rs.Body, func(n ast.Node) bool {
				if as, ok := n.(*ast.AssignStmt); ok && len(as.Lhs) == 1 && len(as.Rhs) == 1 && wl.obj(as.Lhs[0]) == o {
					rhs = as.Rhs[0]
				}
				return true
			})
			if rhs == nil {
				break
			}
			e = rhs
		}
	}
	// inLoop: outermost range over the batch that appends to wp
	ast.Inspect(f.Body, func(n ast.Node) bool {
		r, ok := n.(*ast.RangeStmt)
		if !ok || wl.inLoop != nil {
			return true
		}
		if wl.obj(r.X) != types.Object(w.Batch) || r.Value == nil {
			return true
		}
		appends := false
		ast.Inspect(r.Body, func(x ast.Node) bool {
			if as, ok := x.(*ast.AssignStmt); ok && len(as.Lhs) == 1 && wl.obj(as.Lhs[0]) == wl.wp {
				appends = true
			}
			return true
		})
		if appends {
			wl.inLoop = r
			wl.in = wl.obj(r.Value)
		}
		return true
	})
	if wl.inLoop == nil || wl.wp == nil || wl.wids == nil {
		c.Fatalf("%s: merge loop roles not found (inLoop=%v wp=%v wids=%v)", f.Name, wl.inLoop != nil, wl.wp != nil, wl.wids != nil)
	}
	// dbLoop: range nested in inLoop over a data.Points variable other than the batch
	ast.Inspect(wl.inLoop.Body, func(n ast.Node) bool {
		r, ok := n.(*ast.RangeStmt)
		if !ok || wl.dbLoop != nil {
			return true
		}
		o := wl.obj(r.X)
		if o == nil || o == types.Object(w.Batch) || r.Value == nil {
			return true
		}
		if kit.IsNamedType(o.Type(), dataPkg, "Points") {
			wl.dbLoop, wl.dbPts, wl.db = r, o, wl.obj(r.Value)
			if r.Key != nil {
				wl.dbIdx = wl.obj(r.Key)
			}
		} else if sl, ok := o.Type().Underlying().(*types.Slice); ok && kit.IsNamedType(sl.Elem(), dataPkg, "Point") {
			wl.dbLoop, wl.dbPts, wl.db = r, o, wl.obj(r.Value)
			if r.Key != nil {
				wl.dbIdx = wl.obj(r.Key)
			}
		}
		return true
	})
	if wl.dbLoop == nil {
		c.Fatalf("%s: no loop over the stored points inside the merge loop", f.Name)
	}
	// delta: variable XOR-assigned with <x>.CRC() inside inLoop
	ast.Inspect(wl.inLoop.Body, func(n ast.Node) bool {
		if as, ok := n.(*ast.AssignStmt); ok && as.Tok == token.XOR_ASSIGN && len(as.Lhs) == 1 {
			wl.delta = wl.obj(as.Lhs[0])
		}
		return true
	})
	_ = info
	return wl
}

// valuation of one merge-loop iteration.
type mergeVal struct {
	rows   int  // 0 or 1 stored row
	eqType bool // meaningful when rows == 1
	eqKey  bool
	order  string // "lt" (stored older), "eq", "gt" (stored newer)
	kempty bool   // incoming key is ""
	isnt   bool   // incoming point is a node-type point
}

func (v mergeVal) String() string {
	if v.isnt {
		return "node-type point"
	}
	k := map[bool]string{true: `key ""`, false: "key set"}[v.kempty]
	if v.rows == 0 {
		return "no stored row, " + k
	}
	return fmt.Sprintf("stored row: sameType=%v sameKey=%v stored %s incoming, %s", v.eqType, v.eqKey,
		map[string]string{"lt": "older than", "eq": "same time as", "gt": "newer than"}[v.order], k)
}

type mergeOutcome struct {
	fx       []string // distinct effect multisets seen on success paths, each a sorted "+"-joined list
	rawCmp   bool     // key compared while still "" (not normalised)
	rawWrite bool     // appended while key still ""
	normC    string   // normalisation constant seen
	unknown  []string // unrelated conditions the outcome depended on
	paths    int
}

func tbool(b bool) string {
	if b {
		return "T"
	}
	return "F"
}

// run evaluates one iteration of the merge loop under v.
func (wl *writerLoop) run(v mergeVal) *mergeOutcome {
	f := wl.f
	info := f.Info()
	out := &mergeOutcome{}
	st := &kit.Std{F: f}
	isIn := func(e ast.Expr) bool { return wl.obj(e) == wl.in }
	isDb := func(e ast.Expr) bool { return wl.obj(e) == wl.db }
	field := func(e ast.Expr, name string, who func(ast.Expr) bool) bool {
		sel, ok := ast.Unparen(e).(*ast.SelectorExpr)
		return ok && sel.Sel.Name == name && who(sel.X)
	}
	st.Eval.Atom = func(e ast.Expr) (string, bool, bool) {
		// equality atoms
		if neg, ok := eqAtom(e, func(x ast.Expr) bool { return field(x, "Type", isIn) }, func(x ast.Expr) bool { return field(x, "Type", isDb) }); ok {
			return "eqType", neg, true
		}
		if neg, ok := eqAtom(e, func(x ast.Expr) bool { return field(x, "Key", isIn) }, func(x ast.Expr) bool { return field(x, "Key", isDb) }); ok {
			return "eqKey", neg, true
		}
		if neg, ok := eqAtom(e, func(x ast.Expr) bool { return field(x, "Key", isIn) }, constStringIs(info, "")); ok {
			return "kempty", neg, true
		}
		if neg, ok := eqAtom(e, func(x ast.Expr) bool { return field(x, "Type", isIn) }, constStringIs(info, wl.ntype)); ok {
			return "isnt", neg, true
		}
		// time atoms
		if call, ok := ast.Unparen(e).(*ast.CallExpr); ok && len(call.Args) == 1 {
			if sel, ok := ast.Unparen(call.Fun).(*ast.SelectorExpr); ok {
				recvDb := field(sel.X, "Time", isDb) && field(call.Args[0], "Time", isIn)
				recvIn := field(sel.X, "Time", isIn) && field(call.Args[0], "Time", isDb)
				if recvDb || recvIn {
					switch kit.QualName(kit.Callee(info, call)) {
					case "time.(Time).Before":
						if recvDb {
							return "lt", false, true
						}
						return "gt", false, true
					case "time.(Time).After":
						if recvDb {
							return "gt", false, true
						}
						return "lt", false, true
					case "time.(Time).Equal":
						return "eq", false, true
					}
				}
			}
		}
		return "", false, false
	}
	st.Eval.OnUnknown = func(e ast.Expr) {
		// remember conditions inside the merge loop that are not atoms and not error checks
		if wl.inLoop.Body.Pos() <= e.Pos() && e.End() <= wl.inLoop.Body.End() {
			if _, _, isErr := kit.ErrCheck(info, e); !isErr {
				out.unknown = append(out.unknown, f.Str(e))
			}
		}
	}
	// key typestate via Fold (has access to the state)
	st.Fold = func(e ast.Expr, s kit.S) (bool, bool) {
		if _, ok := eqAtom(e, func(x ast.Expr) bool { return field(x, "Key", isIn) }, func(x ast.Expr) bool { return field(x, "Key", isDb) }); ok {
			if v.kempty && s.Get("kn") == "" {
				out.rawCmp = true
			}
		}
		return false, false
	}
	addFx := func(s kit.S, x string) kit.S {
		cur := s.Get("fx")
		parts := []string{}
		if cur != "" {
			parts = strings.Split(cur, "+")
		}
		if len(parts) > 8 {
			return s
		}
		parts = append(parts, x)
		sort.Strings(parts)
		return s.Set("fx", strings.Join(parts, "+"))
	}
	st.OnNode = func(n ast.Node, s kit.S) []kit.S {
		if s.Get("in") != "1" {
			return []kit.S{s}
		}
		as, ok := n.(*ast.AssignStmt)
		if !ok || len(as.Lhs) != 1 || len(as.Rhs) != 1 {
			return []kit.S{s}
		}
		lhs := as.Lhs[0]
		// key normalisation: in.Key = "<c>"
		if field(lhs, "Key", isIn) && as.Tok == token.ASSIGN {
			if cst, ok := kit.ConstString(info, as.Rhs[0]); ok && cst != "" {
				out.normC = cst
				return []kit.S{s.Set("kn", cst)}
			}
			return []kit.S{s.Set("kn", "?")}
		}
		lo := wl.obj(lhs)
		if call, ok := ast.Unparen(as.Rhs[0]).(*ast.CallExpr); ok {
			if b, ok := kit.Callee(info, call).(*types.Builtin); ok && b.Name() == "append" && len(call.Args) >= 2 && wl.obj(call.Args[0]) == lo {
				arg := call.Args[1]
				switch lo {
				case wl.wp:
					if isIn(arg) && len(call.Args) == 2 {
						if v.kempty && s.Get("kn") == "" {
							out.rawWrite = true
						}
						s = addFx(s, "wp:in")
					} else {
						s = addFx(s, "wp:other")
					}
				case wl.wids:
					if ix, ok := ast.Unparen(arg).(*ast.IndexExpr); ok {
						if wl.dbIdx != nil && wl.obj(ix.Index) == wl.dbIdx && s.Get("db") == "1" {
							if wl.dbIDs == nil {
								wl.dbIDs = wl.obj(ix.X)
							}
							if wl.obj(ix.X) == wl.dbIDs {
								s = addFx(s, "id:reuse")
							} else {
								s = addFx(s, "id:badindex")
							}
						} else {
							s = addFx(s, "id:badindex")
						}
					} else if _, isCall := ast.Unparen(arg).(*ast.CallExpr); isCall {
						s = addFx(s, "id:new")
					} else {
						s = addFx(s, "id:other")
					}
				}
			}
		}
		if as.Tok == token.XOR_ASSIGN && wl.delta != nil && lo == wl.delta {
			x := "x:other"
			if call, ok := ast.Unparen(as.Rhs[0]).(*ast.CallExpr); ok && len(call.Args) == 0 {
				if sel, ok := ast.Unparen(call.Fun).(*ast.SelectorExpr); ok && kit.CallIs(info, call, dataPkg+".(Point).CRC", dataPkg+".(*Point).CRC") {
					switch {
					case isIn(sel.X):
						x = "x:in"
					case isDb(sel.X) && s.Get("db") == "1":
						x = "x:db"
					}
				}
			}
			s = addFx(s, x)
		}
		return []kit.S{s}
	}
	st.OnBranch = func(br kit.Branch, s kit.S) (t, fl []kit.S, handled bool) {
		if br.Kind != kit.BrRange {
			return nil, nil, false
		}
		switch br.Range {
		case wl.inLoop:
			if !s.Has("in") {
				return []kit.S{s.Set("in", "1")}, nil, true
			}
			return nil, []kit.S{s.Set("in", "done").Del("db")}, true
		case wl.dbLoop:
			if s.Get("in") != "1" {
				return nil, []kit.S{s}, true
			}
			if !s.Has("db") && v.rows == 1 {
				return []kit.S{s.Set("db", "1")}, nil, true
			}
			return nil, []kit.S{s.Set("db", "done")}, true
		}
		return nil, nil, false
	}
	init := kit.NewS().Set("a:kempty", tbool(v.kempty)).Set("a:isnt", tbool(v.isnt))
	if v.rows == 1 {
		init = init.Set("a:eqType", tbool(v.eqType)).Set("a:eqKey", tbool(v.eqKey)).
			Set("a:lt", tbool(v.order == "lt")).Set("a:eq", tbool(v.order == "eq")).Set("a:gt", tbool(v.order == "gt"))
	}
	cl := st.Client()
	cl.MaxStates = 400000
	res := wl.c.P.Graph(f).Run(init, cl)
	if res.Overflow {
		wl.c.Fatalf("merge loop of %s: state overflow", f.Name)
	}
	seen := map[string]bool{}
	for _, e := range res.Exits {
		if e.Return == nil || e.State.Get("in") != "done" {
			continue
		}
		if st.ReturnsNil(e.Return, e.State) == "nonnil" {
			continue
		}
		out.paths++
		fx := e.State.Get("fx")
		if !seen[fx] {
			seen[fx] = true
			out.fx = append(out.fx, fx)
		}
	}
	sort.Strings(out.fx)
	out.unknown = uniqStrings(out.unknown)
	return out
}

// mergeValuations enumerates the consistent valuations.
func mergeValuations(edge bool) []mergeVal {
	var out []mergeVal
	for _, ke := range []bool{false, true} {
		out = append(out, mergeVal{rows: 0, kempty: ke})
		for _, et := range []bool{true, false} {
			for _, ek := range []bool{true, false} {
				for _, o := range []string{"lt", "eq", "gt"} {
					out = append(out, mergeVal{rows: 1, eqType: et, eqKey: ek, order: o, kempty: ke})
				}
			}
		}
	}
	if edge {
		out = append(out, mergeVal{rows: 1, eqType: true, eqKey: true, order: "lt", isnt: true})
		out = append(out, mergeVal{rows: 0, isnt: true})
	}
	return out
}

// project keeps the effects with one of the prefixes.
func projectFx(fx string, prefixes ...string) string {
	if fx == "" {
		return ""
	}
	var keep []string
	for _, p := range strings.Split(fx, "+") {
		for _, pre := range prefixes {
			if strings.HasPrefix(p, pre) {
				keep = append(keep, p)
			}
		}
	}
	return strings.Join(keep, "+")
}
