package props

import (
	"go/ast"
	"go/types"

	"siotcheck/kit"
)

// ---------------------------------------------------------------------------
// R4 — a client is started from what the store holds when it is started.
//
// The points delivered to a running client are folded into the configuration
// of that instance only and are never delivered again.  A client that is
// started (again) therefore has to be constructed from a node read from the
// store by the activation that starts it: a node kept from the time an earlier
// instance was constructed (the node field of a client state, any field of
// the manager, a package variable) lacks every foreign point written since.

func c08NodeTyped(t types.Type) bool {
	if t == nil {
		return false
	}
	if sl, ok := t.Underlying().(*types.Slice); ok {
		t = sl.Elem()
	}
	return kit.IsNamedType(t, dataPkg, "NodeEdge")
}

// c08ResultType returns the type of result idx of a call.
func c08ResultType(info *types.Info, call *ast.CallExpr, idx int) types.Type {
	switch t := info.TypeOf(call).(type) {
	case *types.Tuple:
		if idx < t.Len() {
			return t.At(idx).Type()
		}
	default:
		if idx == 0 {
			return t
		}
	}
	return nil
}

func c08R4(c *kit.Ctx, m *cmModel, r *kit.Rule) {
	for _, f := range c.P.Funcs("client") {
		if f.Body == nil {
			continue
		}
		info := f.Info()
		for _, call := range f.AllCalls(false) {
			cf := f.CalleeFunc(call)
			isCtor := false
			for _, x := range m.ctors {
				if x == cf && cf != nil {
					isCtor = true
				}
			}
			if !isCtor {
				continue
			}
			c.Analysed(f)
			o := r.Ob(f, call, "node handed to "+cf.Name, "read from the store by the activation that starts the client, never a node kept from the time an earlier client was constructed")
			var arg ast.Expr
			for _, a := range call.Args {
				if t := info.TypeOf(a); t != nil && kit.IsNamedType(t, dataPkg, "NodeEdge") {
					arg = a
				}
			}
			if arg == nil {
				o.Undecided("the constructor call `%s` has no data.NodeEdge argument", f.Str(call))
				continue
			}
			t := newC08Trace(c)
			t.values = true
			t.onCall = func(g *kit.Func, call *ast.CallExpr, idx int) (c08Leaf, bool) {
				// a function that is handed the bus connection and returns nodes reads them from the store
				sig, ok := g.Info().TypeOf(call.Fun).(*types.Signature)
				if !ok || !c08NodeTyped(c08ResultType(g.Info(), call, idx)) {
					return c08Leaf{}, false
				}
				for i := 0; i < sig.Params().Len(); i++ {
					if kit.IsNamedType(sig.Params().At(i).Type(), natsPkg, "Conn") {
						return c08Leaf{"good", "`" + g.Str(call) + "` in " + g.Name + " reads the node over the bus"}, true
					}
				}
				return c08Leaf{}, false
			}
			t.onField = func(g *kit.Func, sel *ast.SelectorExpr, fv *types.Var) (c08Leaf, bool) {
				owner := cmNamedOrigin(g.Info().TypeOf(sel.X))
				switch {
				case fv == m.csNode:
					return c08Leaf{"bad", "`" + g.Str(sel) + "` in " + g.Name + " is the node kept in a client state, i.e. what the store held when that client was constructed"}, true
				case owner != nil && (owner == m.mgr || owner == m.cs):
					return c08Leaf{"bad", "`" + g.Str(sel) + "` in " + g.Name + " is a field of " + owner.Obj().Name() + " and outlives the activation that fetched it"}, true
				}
				return c08Leaf{}, false
			}
			t.onLit = func(g *kit.Func, lit *ast.CompositeLit) (c08Leaf, bool) {
				switch g.Info().TypeOf(lit).Underlying().(type) {
				case *types.Slice, *types.Array:
					return c08Leaf{}, false
				}
				return c08Leaf{"undecided", "`" + g.Str(lit) + "` in " + g.Name + " is assembled in place"}, true
			}
			t.expr(f, arg, nil, 0)
			switch v, why := t.verdict(); v {
			case "good":
				o.OK("%s", why)
			case "bad":
				o.Violation("the client is constructed from a stale node: %s. The foreign points delivered to the previous client of this node were folded into that client's configuration only and are not delivered again, so the restarted client no longer holds what the store holds for its node", why)
			default:
				o.Undecided("%s", why)
			}
		}
	}
}

// ---------------------------------------------------------------------------
// R5 — the batch handed to the client is storage of its own.
//
// A client keeps the slice it is handed (it passes it on to its Run goroutine
// through a channel) after the handler has returned.  The storage behind the
// slice must therefore be allocated while this message is handled; storage
// that lives longer than one invocation of the handler (a variable the
// handler literal captures, a field, a package variable) is decoded into again
// by the next message, which replaces a batch the client has not folded yet.

func c08R5(c *kit.Ctx, m *cmModel, r *kit.Rule, h *c08Handler) {
	inHandler := func(g *kit.Func) bool {
		for ; g != nil; g = g.Outer {
			if g == h.f {
				return true
			}
		}
		return false
	}
	declaredIn := func(o types.Object) bool {
		n := h.f.Node()
		return n.Pos() <= o.Pos() && o.Pos() < n.End()
	}
	for _, d := range []struct {
		call *ast.CallExpr
		name string
	}{{h.ptsCall, "Points"}, {h.edgCall, "EdgePoints"}} {
		if d.call == nil || len(d.call.Args) == 0 {
			continue
		}
		arg := d.call.Args[len(d.call.Args)-1]
		o := r.Ob(h.f, d.call, "batch handed to "+d.name, "backed by storage allocated while this message is handled, never by storage the handler uses again for the next message")
		t := newC08Trace(c)
		t.nilLeaf = &c08Leaf{"good", "nil (append allocates)"}
		t.onCall = func(g *kit.Func, call *ast.CallExpr, idx int) (c08Leaf, bool) {
			if cmIsBuiltin(g.Info(), call, "make") || cmIsBuiltin(g.Info(), call, "new") {
				return c08Leaf{"good", "`" + g.Str(call) + "` in " + g.Name}, true
			}
			return c08Leaf{}, false
		}
		t.onLit = func(g *kit.Func, lit *ast.CompositeLit) (c08Leaf, bool) {
			return c08Leaf{"good", "`" + g.Str(lit) + "` in " + g.Name}, true
		}
		t.onLocal = func(g *kit.Func, id *ast.Ident, v types.Object) (c08Leaf, bool) {
			if inHandler(g) && !declaredIn(v) {
				return c08Leaf{"bad", "`" + v.Name() + "` is declared outside the handler (" + c.P.Pos(v.Pos()) + "): one variable for all messages of the subscription"}, true
			}
			return c08Leaf{}, false
		}
		t.onField = func(g *kit.Func, sel *ast.SelectorExpr, fv *types.Var) (c08Leaf, bool) {
			root := c08RootIdent(sel)
			if root == nil {
				return c08Leaf{"undecided", "cannot tell what `" + g.Str(sel) + "` in " + g.Name + " belongs to"}, true
			}
			ro := kit.ObjOf(g.Info(), root)
			switch {
			case ro != nil && !cmIsLocal(ro):
				return c08Leaf{"bad", "`" + g.Str(sel) + "` in " + g.Name + " belongs to the package variable `" + root.Name + "`"}, true
			case ro != nil && inHandler(g) && !declaredIn(ro):
				return c08Leaf{"bad", "`" + g.Str(sel) + "` belongs to `" + root.Name + "`, which is declared outside the handler and lives as long as the subscription"}, true
			}
			return c08Leaf{"undecided", "cannot tell how long `" + g.Str(sel) + "` in " + g.Name + " lives"}, true
		}
		t.expr(h.f, arg, nil, 0)
		switch v, why := t.verdict(); v {
		case "good":
			o.OK("allocated per message: %s", why)
		case "bad":
			o.Violation("the slice `%s` handed to %s is backed by storage that outlives the handling of this message: %s. The client keeps the slice after the handler returns (it passes it to its Run goroutine); the next message of the subscription is decoded into the same storage, so a batch the client has not folded yet is replaced by the following one: the later batch is seen twice, the earlier one never", h.f.Str(arg), d.name, why)
		default:
			o.Undecided("%s", why)
		}
	}
}
