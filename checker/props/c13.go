package props

import (
	"fmt"
	"go/ast"
	"go/constant"
	"go/token"
	"go/types"
	"sort"
	"strconv"
	"strings"

	"siotcheck/kit"
)

func init() {
	kit.Register(&kit.Prop{
		ID:    "C13",
		Title: "A rule is active exactly when all of its conditions hold",
		Explanation: "Structural necessary conditions of C13 decided by finite-domain evaluation (K4) of the rule client's own code paths (DESIGN.md §3/C13): " +
			"R1 for every (value type, operator) of the documented table and for the on/off type, the condition evaluator is run under every consistent valuation of the comparison atoms " +
			"(3 orderings of point/condition value; 4 valuations of text equality/containment; 4 of the two `!= 0` atoms) and the value reaching the condition's active state must equal the table — an empty or missing arm shows as a wrong value; " +
			"R2 the 64 valuations of (filter empty, filter equals point) for node/type/key: the condition is skipped iff some non-empty filter differs; " +
			"R3 the rule state is the conjunction of the stored condition states: abstract run of the conjunction loop with a fresh atom per element, early exit only after a false element, every element examined, no condition store after the loop; " +
			"R4 the evaluator reports (state, changed) and its callers pair the action lists with the state for the 4 valuations of (active, changed); " +
			"R5 the set-value point takes type/value/text/target from the action's fields and the sender stamps the rule id on points for foreign nodes; " +
			"R6 a schedule condition takes the result of the schedule predicate applied to the trigger point's time, only for trigger points; " +
			"R7 the stored state a point's result is compared with is the current one: no path leads from a store into a condition's state to a comparison with a copy of that condition taken before the store; " +
			"R8 the subscription on up.<rule parent>.* hands {node id chunk, decoded points} unchanged to the evaluator, and no decision that drops a batch on the way depends on a snapshot of the configuration taken before the subscription; " +
			"R9 every point of the batch is shown to every condition: the loops that enclose the condition-state store range over the whole condition list / the whole batch and no path leaves them before they are exhausted (one abstract pass, any guard); " +
			"R10 the action runner and the inactive-marker visit every element of the list they are handed: a path leaves the loop over the action list before the end only after a send has failed, never because a lookup failed, an input is missing or a value of one action says so. " +
			"Not decided: which point of a history is the latest matching one beyond R7/R9, tick timing, delivery of points by the bus, NaN operands, process aborts (log.Fatal) inside an action.",
		Assumptions: []string{
			"struct tags `point:\"…\"`/`child:\"…\"` are the configuration protocol between UI and rule client (they identify the condition, rule and action fields)",
			"float comparison is evaluated over the three orderings of two numbers (NaN excluded: the store refuses NaN points, C05)",
			"strings.Contains has its documented meaning",
			"conditions not expressed through the recognised comparison atoms make the instance undecided (CHECKER-ERROR), never accepted",
			"sends of the rule client (a method of the bus connection returning only an error, a module function handing point(s)/bytes to the connection, the encoding of such a payload) succeed; a path on which one fails may abandon the action list (R10)",
		},
		Run: runC13,
	})
}

func runC13(c *kit.Ctx) {
	m := newRuModel(c)
	r1 := c.Rule("R1", "operator table: condition state equals the documented comparison", 8)
	r2 := c.Rule("R2", "filters: a condition is skipped iff a non-empty filter differs", 4)
	r3 := c.Rule("R3", "rule state is the conjunction of all condition states", 1)
	r4 := c.Rule("R4", "action lists are paired with the rule state on change", 2)
	r5 := c.Rule("R5", "set-value point mapping and origin stamp", 2)
	r6 := c.Rule("R6", "schedule condition takes the schedule predicate at the trigger time", 2)
	r7 := c.Rule("R7", "a point's result is compared with the current stored state of its condition", 1)
	r8 := c.Rule("R8", "every batch received from the parent's subtree reaches the evaluator", 2)
	r9 := c.Rule("R9", "every point of the batch is shown to every condition", 3)
	r10 := c.Rule("R10", "an action list is visited to the end unless a send fails", 2)
	if len(m.evals) == 0 {
		c.Fatalf("no function stores into the active field of a %s list element", m.cond.Obj().Name())
	}
	for _, e := range m.evals {
		c.Analysed(e)
		c13R1(c, m, e, r1)
		c13R2(c, m, e, r2)
		roles := c13R3(c, m, e, r3, r4)
		c13R4(c, m, e, roles, r4)
		c13R6(c, m, e, r6)
		c13R7(c, m, e, r7)
		c13R8(c, m, e, r8)
		c13R9(c, m, e, r9)
	}
	c13R5(c, m, r5)
	c13R10(c, m, r10)
}

// ---------------------------------------------------------------------------
// condition run: the evaluator under a scenario

type c13Obs struct {
	val   string // "true" | "false" | "unknown"
	node  ast.Node
	state kit.S
}

type c13CondRun struct {
	c      *kit.Ctx
	m      *ruModel
	f      *kit.Func
	fields map[string]string // scenario values of condition string fields, by tag
	init   kit.S
	// schedule
	aft     *c14Chain
	trigger string

	obs      []c13Obs
	bypass   []kit.S // states at the evaluation loop's back edge that passed no sink
	arrived  int     // back-edge arrivals
	unstored int     // back-edge arrivals where the computed state differed from the stored one and was not stored
	bad      []string
	bf       *kit.BoolFlow
	corr     *ruCorr
}

func (r *c13CondRun) note(format string, a ...any) {
	s := fmt.Sprintf(format, a...)
	for _, b := range r.bad {
		if b == s {
			return
		}
	}
	r.bad = append(r.bad, s)
}

// evalLoops returns the range loops of f over condition lists whose body
// stores a condition state.
func (m *ruModel) evalLoops(f *kit.Func) map[*ast.RangeStmt]bool {
	out := map[*ast.RangeStmt]bool{}
	stores := m.condStores(f)
	for _, rs := range ruOwnLoops(f) {
		el := ruSliceElem(f.Info().TypeOf(rs.X))
		if el == nil || !types.Identical(el, m.cond) {
			continue
		}
		for _, st := range stores {
			if rs.Body.Pos() <= st.Pos() && st.End() <= rs.Body.End() {
				out[rs] = true
			}
		}
	}
	return out
}

func (m *ruModel) isPointLoop(f *kit.Func, rs *ast.RangeStmt) bool {
	el := ruSliceElem(f.Info().TypeOf(rs.X))
	return el != nil && types.Identical(el, m.point)
}

// compareSink finds, among the leaves of cond, a comparison of a boolean
// with the stored state field `field` (matched by isField); it returns the
// other operand.
func c13CompareSink(info *types.Info, cond ast.Expr, isField func(ast.Expr) bool) (other ast.Expr, leaf ast.Expr) {
	for _, l := range ruLeaves(cond) {
		a, b, _, ok := ruEqLeaf(l)
		if !ok {
			continue
		}
		switch {
		case isField(a) && kit.IsBoolType(info.TypeOf(b)):
			return b, l
		case isField(b) && kit.IsBoolType(info.TypeOf(a)):
			return a, l
		}
	}
	return nil, nil
}

func (r *c13CondRun) run() {
	m, f := r.m, r.f
	info := f.Info()
	g := r.c.P.Graph(f)
	st := &kit.Std{F: f}
	bf := &kit.BoolFlow{Std: st}
	r.bf = bf
	evalLoops := m.evalLoops(f)
	if len(evalLoops) == 0 {
		r.c.Fatalf("%s: no loop over a condition list encloses the condition-state store", f.Name)
	}
	unitLoops := map[*ast.RangeStmt]bool{}
	for rs := range evalLoops {
		unitLoops[rs] = true
	}
	stores := m.condStores(f)
	for _, rs := range ruOwnLoops(f) {
		if m.isPointLoop(f, rs) {
			for _, st := range stores {
				if rs.Body.Pos() <= st.Pos() && st.End() <= rs.Body.End() {
					unitLoops[rs] = true
				}
			}
		}
	}
	var strParams []*types.Var
	for _, p := range f.Params() {
		if b, ok := p.Type().Underlying().(*types.Basic); ok && b.Kind() == types.String {
			strParams = append(strParams, p)
		}
	}
	if len(strParams) != 1 {
		r.c.Fatalf("%s: expected exactly one string parameter (the id of the node the points belong to), found %d", f.Name, len(strParams))
	}
	isNodeParam := func(e ast.Expr) bool {
		o := kit.ObjOf(info, st.Resolve(e))
		return o != nil && o == strParams[0]
	}
	// pure helpers that receive the condition (filter predicates, comparison
	// functions) are evaluated inline; the schedule chain stays symbolic
	defer m.follow(st)()
	st.ShouldInline = func(cf *kit.Func, call *ast.CallExpr) bool {
		if cf == f || (r.aft != nil && (cf == r.aft.aft || cf == r.aft.ctor)) {
			return false
		}
		if ch := m.chain; ch != nil && (cf == ch.aft || cf == ch.ctor) {
			return false
		}
		for _, p := range cf.Params() {
			if types.Identical(ruDeref(p.Type()), m.cond) {
				return true
			}
		}
		if rv := c14RecvVar(cf); rv != nil && types.Identical(ruDeref(rv.Type()), m.cond) {
			return true
		}
		return false
	}
	scen := func(e ast.Expr) (string, bool) {
		tag, ok := m.condField(f, e)
		if !ok {
			return "", false
		}
		v, has := r.fields[tag]
		return v, has
	}
	isCondActive := func(e ast.Expr) bool {
		tag, ok := m.condField(f, e)
		return ok && tag == "active"
	}
	pointIs := func(e ast.Expr, name string) bool {
		n, ok := m.pointField(f, e)
		return ok && n == name
	}
	condIs := func(e ast.Expr, tag string) bool {
		t, ok := m.condField(f, e)
		return ok && t == tag
	}
	isZero := func(e ast.Expr) bool {
		tv, ok := info.Types[e]
		if !ok || tv.Value == nil {
			return false
		}
		return (tv.Value.Kind() == constant.Int || tv.Value.Kind() == constant.Float) && constant.Sign(tv.Value) == 0
	}

	bf.Fold = func(e ast.Expr, s kit.S) (bool, bool) {
		e = ast.Unparen(e)
		if a, b, op, ok := kit.CmpAtom(e); ok {
			// scenario string fields against constants
			for _, sw := range [2][2]ast.Expr{{a, b}, {b, a}} {
				x, y := sw[0], sw[1]
				if v, has := scen(x); has && (op == token.EQL || op == token.NEQ) {
					if k, isC := kit.ConstString(info, y); isC {
						return (v == k) == (op == token.EQL), true
					}
				}
				// len(field) against a constant
				if call, isCall := ast.Unparen(x).(*ast.CallExpr); isCall && len(call.Args) == 1 {
					if bi, isB := kit.Callee(info, call).(*types.Builtin); isB && bi.Name() == "len" {
						if v, has := scen(call.Args[0]); has {
							if k, isC := kit.ConstInt(info, y); isC {
								o := op
								if x == b {
									o = ruFlip(op)
								}
								return constant.Compare(constant.MakeInt64(int64(len(v))), o, constant.MakeInt64(k)), true
							}
						}
					}
				}
			}
			// number ordering of (point value, condition value)
			if ord := s.Get("ord"); ord != "" {
				switch {
				case pointIs(a, "Value") && condIs(b, "value"):
					return ruOrdHolds(ord, op), true
				case condIs(a, "value") && pointIs(b, "Value"):
					return ruOrdHolds(ord, ruFlip(op)), true
				}
			}
			if op == token.EQL || op == token.NEQ {
				// text equality
				if teq := s.Get("teq"); teq != "" {
					if (pointIs(a, "Text") && condIs(b, "valueText")) || (condIs(a, "valueText") && pointIs(b, "Text")) {
						return (teq == "T") == (op == token.EQL), true
					}
				}
				// on/off
				for _, sw := range [2][2]ast.Expr{{a, b}, {b, a}} {
					x, y := sw[0], sw[1]
					if !isZero(y) {
						continue
					}
					if v := s.Get("pnz"); v != "" && pointIs(x, "Value") {
						return (v == "T") == (op == token.NEQ), true
					}
					if v := s.Get("cnz"); v != "" && condIs(x, "value") {
						return (v == "T") == (op == token.NEQ), true
					}
					// trigger
				}
				if v := s.Get("ptrig"); v != "" && r.trigger != "" {
					for _, sw := range [2][2]ast.Expr{{a, b}, {b, a}} {
						if pointIs(sw[0], "Type") {
							if k, isC := kit.ConstString(info, sw[1]); isC && k == r.trigger {
								return (v == "T") == (op == token.EQL), true
							}
						}
					}
				}
			}
		}
		if call, ok := e.(*ast.CallExpr); ok && len(call.Args) == 2 && kit.CallIs(info, call, "strings.Contains") {
			switch {
			case pointIs(call.Args[0], "Text") && condIs(call.Args[1], "valueText"):
				if v := s.Get("tPC"); v != "" {
					return v == "T", true
				}
			case condIs(call.Args[0], "valueText") && pointIs(call.Args[1], "Text"):
				if v := s.Get("tCP"); v != "" {
					return v == "T", true
				}
			}
		}
		return false, false
	}
	// filter atoms (R2): empty:<k>, match:<k>
	filt := []struct{ k, tag, pfield string }{{"node", "nodeID", ""}, {"key", "pointKey", "Key"}, {"type", "pointType", "Type"}}
	bf.Atom = func(e ast.Expr) (string, bool, bool) {
		e = ast.Unparen(e)
		a, b, op, ok := kit.CmpAtom(e)
		if !ok {
			return "", false, false
		}
		// computed state vs stored state: "cdiff" = they differ
		if op == token.EQL || op == token.NEQ {
			if (isCondActive(a) && kit.IsBoolType(info.TypeOf(b))) || (isCondActive(b) && kit.IsBoolType(info.TypeOf(a))) {
				return "cdiff", op == token.EQL, true
			}
		}
		for _, fl := range filt {
			for _, sw := range [2][2]ast.Expr{{a, b}, {b, a}} {
				x, y := sw[0], sw[1]
				if op == token.EQL || op == token.NEQ {
					if condIs(x, fl.tag) {
						if k, isC := kit.ConstString(info, y); isC && k == "" {
							return "empty:" + fl.k, op == token.NEQ, true
						}
						if (fl.pfield == "" && isNodeParam(y)) || (fl.pfield != "" && pointIs(y, fl.pfield)) {
							return "match:" + fl.k, op == token.NEQ, true
						}
					}
				}
				// len(filter) ==/!=/> 0
				if call, isCall := ast.Unparen(x).(*ast.CallExpr); isCall && len(call.Args) == 1 && condIs(call.Args[0], fl.tag) {
					if bi, isB := kit.Callee(info, call).(*types.Builtin); isB && bi.Name() == "len" && isZero(y) {
						o := op
						if x == b {
							o = ruFlip(op)
						}
						switch o {
						case token.EQL, token.LEQ:
							return "empty:" + fl.k, false, true
						case token.NEQ, token.GTR:
							return "empty:" + fl.k, true, true
						}
					}
				}
			}
		}
		return "", false, false
	}
	relevantTags := map[string]bool{"operator": true, "valueType": true, "value": true, "valueText": true, "nodeID": true,
		"pointType": true, "pointKey": true, "conditionType": true, "start": true, "end": true, "weekday": true, "date": true}
	r.corr = &ruCorr{f: f, pred: func(x ast.Expr) bool {
		if tag, ok := m.condField(f, x); ok && relevantTags[tag] {
			return true
		}
		// any other configuration field of the current condition (a field
		// this checker knows nothing about), except its bookkeeping
		if base, fv, ok := kit.FieldSel(info, x); ok && m.isElemOf(f, base, m.cond) {
			switch fv {
			case m.cf["active"], kit.FieldByTag(m.cond, "point", "error"), kit.FieldByTag(m.cond, "point", "description"),
				kit.FieldByTag(m.cond, "node", "id"), kit.FieldByTag(m.cond, "node", "parent"):
				return false
			}
			return true
		}
		if n, ok := m.pointField(f, x); ok && n != "Origin" {
			return true
		}
		if id, ok := x.(*ast.Ident); ok && isNodeParam(id) {
			return true
		}
		return false
	}}
	r.corr.hook(st)
	bf.OnCond = func(cond ast.Expr, s kit.S) kit.S {
		if other, leaf := c13CompareSink(info, cond, isCondActive); other != nil {
			r.observe(other, leaf, s)
			return s.Set("sunk", "T")
		}
		return s
	}
	st.OnNode = func(n ast.Node, s kit.S) []kit.S {
		// the comparison with the stored state may be held in a local:
		// `changed := active != c.Active; if changed {`
		if st.Cur() == f {
			var rhs []ast.Expr
			switch x := n.(type) {
			case *ast.AssignStmt:
				rhs = x.Rhs
			case *ast.ValueSpec:
				rhs = x.Values
			}
			for _, rx := range rhs {
				if !kit.IsBoolType(info.TypeOf(rx)) {
					continue
				}
				if other, leaf := c13CompareSink(info, rx, isCondActive); other != nil {
					r.observe(other, leaf, s)
					s = s.Set("sunk", "T")
				}
			}
		}
		as, ok := n.(*ast.AssignStmt)
		if !ok {
			return []kit.S{s}
		}
		for i, l := range as.Lhs {
			if m.isStoreTo(f, l, m.cf["active"], m.cond) && len(as.Rhs) == len(as.Lhs) {
				r.observe(as.Rhs[i], as, s)
				s = s.Set("sunk", "T").Set("stored", "T")
			}
			// local copy of a scenario field
			if len(as.Rhs) == len(as.Lhs) && (as.Tok == token.ASSIGN || as.Tok == token.DEFINE) {
				if v, has := scen(as.Rhs[i]); has {
					if o := kit.ObjOf(info, l); o != nil && bf.Local(o) {
						s = s.Set("v:"+kit.VarID(o), strconv.Quote(v))
					}
				}
			}
		}
		return []kit.S{s}
	}
	st.OnBranch = func(br kit.Branch, s kit.S) (t, fl []kit.S, handled bool) {
		switch br.Kind {
		case kit.BrCase:
			if br.Tag == nil {
				return nil, nil, false
			}
			if v, has := scen(br.Tag); has {
				if k, isC := kit.ConstString(info, br.Case); isC {
					if v == k {
						return []kit.S{s}, nil, true
					}
					return nil, []kit.S{s}, true
				}
			}
			r.corr.tag(st, br, s)
		case kit.BrRange:
			key := fmt.Sprintf("in:%d", br.Range.Pos())
			switch {
			case unitLoops[br.Range]:
				// The unit of the rule is one (condition, point) pair: the
				// loops over the conditions and over the points that enclose
				// the state store are entered once; coming back to the head
				// of either of them ends the unit, whatever their nesting.
				if !s.Has(key) {
					return []kit.S{s.Set(key, "1")}, nil, true
				}
				r.arrived++
				if s.Get("sunk") != "T" {
					r.bypass = append(r.bypass, s)
				}
				if s.Get("a:cdiff") == "T" && s.Get("stored") != "T" {
					r.unstored++
				}
				return nil, nil, true
			case m.isPointLoop(f, br.Range):
				if !s.Has(key) {
					return []kit.S{s.Set(key, "1")}, nil, true
				}
				return nil, nil, true
			}
		}
		return nil, nil, false
	}
	if r.aft != nil {
		st.ErrTag = func(call *ast.CallExpr, s kit.S) string {
			if f.CalleeFunc(call) == r.aft.aft {
				return "sched"
			}
			return ""
		}
		st.OnErrEdge = func(tag string, isErr bool, s kit.S) (kit.S, bool) {
			if tag == "sched" && isErr {
				return s.Set("errpath", "T"), true
			}
			return s, true
		}
		bf.SymResult = func(call *ast.CallExpr, i int, s kit.S) string {
			if i != 0 || f.CalleeFunc(call) != r.aft.aft {
				return ""
			}
			if len(call.Args) != 1 {
				return ""
			}
			arg := ast.Unparen(call.Args[0])
			if c2, isCall := arg.(*ast.CallExpr); isCall {
				if name, rx, isT := c14TimeMethod(info, c2); isT && (name == "UTC" || name == "Local") {
					arg = ast.Unparen(rx) // same instant
				}
			}
			if pointIs(arg, "Time") {
				return "sched"
			}
			if c2, isCall := arg.(*ast.CallExpr); isCall && kit.CallIs(info, c2, "time.Now") {
				r.note("the schedule predicate at %s receives `%s` instead of the trigger point's time", f.At(call), f.Str(call.Args[0]))
			}
			return "" // not derivable: the condition value stays unknown

		}
	}
	res := g.Run(r.init, bf.Client())
	if res.Overflow {
		r.c.Fatalf("%s: state space overflow in condition run", f.Name)
	}
}

func (r *c13CondRun) observe(e ast.Expr, at ast.Node, s kit.S) {
	v, ok := r.bf.DetEval(e, s)
	val := "unknown"
	if ok {
		val = "false"
		if v {
			val = "true"
		}
	}
	r.obs = append(r.obs, c13Obs{val, at, s})
}

// verdict compares the observations of one valuation with the expected
// condition state; skipped=true means "no sink may be reached".
func (r *c13CondRun) verdict(want bool, skipped bool) (status string, msg string, at ast.Node) {
	status, msg, at = r.verdict0(want, skipped)
	if status == "violation" && r.corr != nil && r.corr.any() && len(r.bad) == 0 {
		return "undecided", "the run depends on a condition over the rule's operands that the checker does not interpret (" + r.corr.String() + "); otherwise: " + msg, at
	}
	return
}

func (r *c13CondRun) verdict0(want bool, skipped bool) (status string, msg string, at ast.Node) {
	if len(r.bad) > 0 {
		return "violation", strings.Join(r.bad, "; "), nil
	}
	if skipped {
		if len(r.obs) > 0 {
			o := r.obs[0]
			return "violation", fmt.Sprintf("the condition must be left untouched, yet its state is written/compared at %s (value %s)", r.f.At(o.node), o.val), o.node
		}
		if r.arrived == 0 {
			return "undecided", "the evaluation loop's iteration never completes under the valuation", nil
		}
		return "ok", "", nil
	}
	for _, s := range r.bypass {
		if s.Get("errpath") == "T" {
			continue
		}
		return "violation", "a path through the evaluation loop body leaves the condition state untouched although the point matches the condition", nil
	}
	if r.unstored > 0 {
		return "violation", "a path compares the computed state with the stored one, finds them different and does not store the computed state (previous state = the opposite of the computed one)", nil
	}
	if len(r.obs) == 0 {
		if r.arrived == 0 {
			return "undecided", "no path reaches the condition state under the valuation", nil
		}
		return "violation", "no path reaches the store of the condition state", nil
	}
	w := "false"
	if want {
		w = "true"
	}
	for _, o := range r.obs {
		if o.val == "unknown" {
			return "undecided", fmt.Sprintf("the value reaching the condition state at %s is not determined by the recognised comparison atoms", r.f.At(o.node)), o.node
		}
		if o.val != w {
			return "violation", fmt.Sprintf("computed state %s, documented %s (at %s)", o.val, w, r.f.At(o.node)), o.node
		}
	}
	return "ok", "", nil
}

func c13BaseFields(vt, op string) map[string]string {
	return map[string]string{"conditionType": "pointValue", "valueType": vt, "operator": op, "nodeID": "", "pointType": "", "pointKey": ""}
}

type c13Val struct {
	set     map[string]string
	witness string
	want    func(op string) bool
}

func c13NumberVals() []c13Val {
	mk := func(ord, w string) c13Val {
		return c13Val{set: map[string]string{"ord": ord}, witness: w, want: func(op string) bool {
			switch op {
			case ">":
				return ord == "gt"
			case "<":
				return ord == "lt"
			case "=":
				return ord == "eq"
			case "!=":
				return ord != "eq"
			}
			return false
		}}
	}
	return []c13Val{mk("lt", "point value 1, condition value 2"), mk("eq", "point value 2, condition value 2"), mk("gt", "point value 3, condition value 2")}
}

func c13TextVals() []c13Val {
	mk := func(teq, tpc, tcp, w string) c13Val {
		return c13Val{set: map[string]string{"teq": teq, "tPC": tpc, "tCP": tcp}, witness: w, want: func(op string) bool {
			switch op {
			case "=":
				return teq == "T"
			case "!=":
				return teq != "T"
			case "contains":
				return tpc == "T"
			}
			return false
		}}
	}
	return []c13Val{
		mk("T", "T", "T", `point text "ab", condition text "ab"`),
		mk("F", "T", "F", `point text "abc", condition text "b"`),
		mk("F", "F", "T", `point text "b", condition text "abc"`),
		mk("F", "F", "F", `point text "x", condition text "y"`),
	}
}

func c13OnOffVals() []c13Val {
	var out []c13Val
	for _, p := range []string{"T", "F"} {
		for _, q := range []string{"T", "F"} {
			p, q := p, q
			pv, cv := "1", "1"
			if p == "F" {
				pv = "0"
			}
			if q == "F" {
				cv = "0"
			}
			out = append(out, c13Val{set: map[string]string{"pnz": p, "cnz": q}, witness: "point value " + pv + ", condition value " + cv,
				want: func(string) bool { return p == q }})
		}
	}
	return out
}

// armSite finds the case clause for (vt, op) to give the report a position.
func (m *ruModel) armSite(f *kit.Func, vt, op string) ast.Node {
	info := f.Info()
	var found ast.Node
	ruInspectOwn(f, func(n ast.Node) bool {
		cc, ok := n.(*ast.CaseClause)
		if !ok || found != nil {
			return true
		}
		for _, e := range cc.List {
			if k, isC := kit.ConstString(info, e); isC && k == vt {
				if op == "" {
					found = cc
					return false
				}
				ast.Inspect(cc, func(x ast.Node) bool {
					c2, ok := x.(*ast.CaseClause)
					if !ok || c2 == cc || found != nil {
						return true
					}
					for _, e2 := range c2.List {
						if k2, isC := kit.ConstString(info, e2); isC && k2 == op {
							found = c2
						}
					}
					return true
				})
				if found == nil {
					found = cc
				}
				return false
			}
		}
		return true
	})
	return found
}

func c13R1(c *kit.Ctx, m *ruModel, e *kit.Func, r1 *kit.Rule) {
	type entry struct {
		vt   string
		ops  []string
		vals []c13Val
	}
	table := []entry{
		{"number", []string{">", "<", "=", "!="}, c13NumberVals()},
		{"text", []string{"=", "!=", "contains"}, c13TextVals()},
		{"onOff", []string{"*"}, c13OnOffVals()},
	}
	for _, en := range table {
		for _, op := range en.ops {
			name := fmt.Sprintf("%s %q arm", en.vt, op)
			oblig := fmt.Sprintf("for a %s condition with operator %q the value that reaches the condition state equals the documented comparison of (point, condition) under every valuation", en.vt, op)
			if en.vt == "onOff" {
				name = "on/off arm"
				oblig = "for an on/off condition the state equals (point value != 0) == (condition value != 0) under the 4 valuations, whatever the operator"
			}
			siteOp := op
			if siteOp == "*" {
				siteOp = ""
			}
			o := r1.Ob(e, m.armSite(e, en.vt, siteOp), name, oblig)
			okN := 0
			// the on/off state does not depend on the operator: every operator
			// the UI can send (and none) is tried
			ops := []string{op}
			if op == "*" {
				ops = []string{"", "on", "off", ">", "<", "=", "!=", "contains"}
			}
			total := 0
			for _, op := range ops {
				for _, v := range en.vals {
					total++
					fields := c13BaseFields(en.vt, op)
					init := kit.NewS()
					for k, x := range v.set {
						init = init.Set(k, x)
					}
					run := &c13CondRun{c: c, m: m, f: e, fields: fields, init: init}
					run.run()
					c.AddValuations(1)
					want := v.want(op)
					status, msg, _ := run.verdict(want, false)
					switch status {
					case "violation":
						o.Violation("witness: %s condition, operator %q, %s → %s", en.vt, op, v.witness, msg)
					case "undecided":
						o.Undecided("%s (operator %q, %s)", msg, op, v.witness)
					default:
						okN++
					}
				}
			}
			if okN == total {
				o.OK("%d valuations agree with the table", okN)
			}
		}
	}
}

func c13R2(c *kit.Ctx, m *ruModel, e *kit.Func, r2 *kit.Rule) {
	keys := []string{"node", "key", "type"}
	runOne := func(val map[string][2]string) (string, string) {
		fields := map[string]string{"conditionType": "pointValue", "valueType": "number", "operator": ">"}
		init := kit.NewS().Set("ord", "gt")
		skip := false
		for _, k := range keys {
			em, ma := val[k][0], val[k][1]
			init = init.Set("a:empty:"+k, em).Set("a:match:"+k, ma)
			if em == "F" && ma == "F" {
				skip = true
			}
		}
		run := &c13CondRun{c: c, m: m, f: e, fields: fields, init: init}
		run.run()
		c.AddValuations(1)
		status, msg, _ := run.verdict(true, skip)
		return status, msg
	}
	describe := func(val map[string][2]string) string {
		var parts []string
		for _, k := range keys {
			em, ma := val[k][0], val[k][1]
			switch {
			case em == "T" && ma == "T":
				parts = append(parts, k+` filter "" / point "" `)
			case em == "T":
				parts = append(parts, k+` filter "" / point "x"`)
			case ma == "T":
				parts = append(parts, k+` filter "x" / point "x"`)
			default:
				parts = append(parts, k+` filter "x" / point "y"`)
			}
		}
		return strings.Join(parts, ", ")
	}
	tf := []string{"T", "F"}
	for _, k := range keys {
		o := r2.Ob(e, nil, k+" filter", "with the other filters empty, the condition is skipped iff the "+k+" filter is non-empty and differs from the point (4 valuations)")
		okN := 0
		for _, em := range tf {
			for _, ma := range tf {
				val := map[string][2]string{}
				for _, k2 := range keys {
					val[k2] = [2]string{"T", "F"}
				}
				val[k] = [2]string{em, ma}
				status, msg := runOne(val)
				switch status {
				case "violation":
					o.Violation("witness: %s, number condition `>` with point 3 > 2 → %s", describe(val), msg)
				case "undecided":
					o.Undecided("%s (%s)", msg, describe(val))
				default:
					okN++
				}
			}
		}
		if okN == 4 {
			o.OK("4 valuations agree")
		}
	}
	o := r2.Ob(e, nil, "filter combination", "over all 64 valuations of (empty, equal) for node/key/type the condition is skipped iff some non-empty filter differs")
	okN := 0
	for i := 0; i < 64; i++ {
		val := map[string][2]string{}
		for j, k := range keys {
			bits := (i >> (2 * j)) & 3
			val[k] = [2]string{tf[bits&1], tf[bits>>1]}
		}
		status, msg := runOne(val)
		switch status {
		case "violation":
			o.Violation("witness: %s, number condition `>` with point 3 > 2 → %s", describe(val), msg)
		case "undecided":
			o.Undecided("%s (%s)", msg, describe(val))
		default:
			okN++
		}
	}
	if okN == 64 {
		o.OK("64 valuations agree")
	}
}

// ---------------------------------------------------------------------------
// R3 + evaluator result roles

type c13Roles struct {
	activeIdx, changedIdx int
}

func c13R3(c *kit.Ctx, m *ruModel, e *kit.Func, r3, r4 *kit.Rule) *c13Roles {
	info := e.Info()
	g := c.P.Graph(e)
	st := &kit.Std{F: e}
	bf := &kit.BoolFlow{Std: st}
	evalLoops := m.evalLoops(e)
	// conjunction loops: over a condition list, not storing condition state
	conj := map[*ast.RangeStmt]bool{}
	for _, rs := range ruOwnLoops(e) {
		if !evalLoops[rs] {
			if el := ruSliceElem(info.TypeOf(rs.X)); el != nil && types.Identical(el, m.cond) {
				conj[rs] = true
			}
		}
	}
	// counting loops that carry the result in their condition
	// (`for i := 0; all && i < len(conds); i++`)
	guardedConj := map[ast.Expr]*ruGuarded{} // by loop condition
	boundLeaf := map[ast.Expr]bool{}
	for _, g := range m.guardedLoops(e) {
		if el := ruSliceElem(info.TypeOf(g.rs.X)); el != nil && types.Identical(el, m.cond) && len(m.condStoresIn(e, g.fs.Body)) == 0 {
			conj[g.rs] = true
			guardedConj[g.fs.Cond] = g
			boundLeaf[g.bound] = true
		}
	}
	o := r3.Ob(e, nil, "conjunction", "the value compared with / stored into the rule's active field is true iff every element of the condition list was examined and found active; no condition state is stored after the loop started")
	if len(conj) == 0 {
		o.Undecided("no loop over the condition list besides the evaluation loop: the conjunction is not computed in a recognised form")
		return nil
	}
	isCact := func(x ast.Expr) bool {
		base, fv, ok := kit.FieldSel(info, x)
		if !ok || fv != m.cf["active"] || !m.isElemOf(e, base, m.cond) {
			return false
		}
		return conj[m.elemRange(e, base)]
	}
	isRuleActive := func(x ast.Expr) bool { return m.ruleField(e, x) == m.rActive }
	bf.Atom = func(x ast.Expr) (string, bool, bool) {
		x = ast.Unparen(x)
		if boundLeaf[x] {
			return "more", false, true
		}
		if isCact(x) {
			return "cact", false, true
		}
		if a, b, neg, ok := ruEqLeaf(x); ok {
			for _, sw := range [2][2]ast.Expr{{a, b}, {b, a}} {
				if isCact(sw[0]) {
					if tv, has := info.Types[sw[1]]; has && tv.Value != nil && tv.Value.Kind() == constant.Bool {
						return "cact", neg == constant.BoolVal(tv.Value), true
					}
				}
				if isRuleActive(sw[0]) && kit.IsBoolType(info.TypeOf(sw[1])) {
					return "rdiff", !neg, true
				}
			}
		}
		return "", false, false
	}
	fin := func(s kit.S) kit.S {
		// fold the current iteration's atom into the summary
		if s.Has("it") {
			if s.Get("a:cact") == "F" {
				s = s.Set("sawF", "T")
			}
		}
		if s.Get("a:more") == "F" {
			s = s.Set("complete", "T") // a guarded counting loop ran to the end
		}
		return s
	}
	spec := func(s kit.S) string {
		s = fin(s)
		switch {
		case s.Get("sawF") == "T":
			return "false"
		case s.Get("complete") == "T" && s.Get("unex") != "T":
			return "true"
		}
		return "indeterminate"
	}
	type sinkObs struct {
		val, spec string
		at        ast.Node
		s         kit.S
	}
	var sinks []sinkObs
	observe := func(x ast.Expr, at ast.Node, s kit.S) {
		v, ok := bf.DetEval(x, s)
		val := "unknown"
		if ok {
			val = strconv.FormatBool(v)
		}
		sinks = append(sinks, sinkObs{val, spec(s), at, s})
	}
	bf.OnCond = func(cond ast.Expr, s kit.S) kit.S {
		if g := guardedConj[cond]; g != nil {
			// arrival at the head of a guarded counting loop = end of the previous pass
			if s.Has("it") {
				switch s.Get("a:cact") {
				case "F":
					s = s.Set("sawF", "T")
				case "":
					s = s.Set("unex", "T")
				}
				s = s.Del("a:cact")
			} else {
				s = s.Set("stale", "F")
			}
			return s.Del("a:more").Set("it", "1")
		}
		if other, leaf := c13CompareSink(info, cond, isRuleActive); other != nil {
			observe(other, leaf, s)
		}
		return s
	}
	st.OnNode = func(n ast.Node, s kit.S) []kit.S {
		as, ok := n.(*ast.AssignStmt)
		if !ok {
			return []kit.S{s}
		}
		for i, l := range as.Lhs {
			if m.isStoreTo(e, l, m.cf["active"], m.cond) {
				s = s.Set("stale", "T")
			}
			if isRuleActive(l) && len(as.Rhs) == len(as.Lhs) {
				observe(as.Rhs[i], as, s)
				s = s.Set("stored", "T")
			}
		}
		return []kit.S{s}
	}
	st.OnBranch = func(br kit.Branch, s kit.S) (t, f []kit.S, handled bool) {
		if br.Kind != kit.BrRange || !conj[br.Range] {
			return nil, nil, false
		}
		if s.Has("it") {
			switch s.Get("a:cact") {
			case "F":
				s = s.Set("sawF", "T")
			case "":
				s = s.Set("unex", "T")
			}
			s = s.Del("a:cact")
		} else {
			s = s.Set("stale", "F")
		}
		return []kit.S{s.Set("it", "1")}, []kit.S{s.Del("it").Set("complete", "T")}, true
	}
	corr := &ruCorr{f: e, pred: func(x ast.Expr) bool {
		if isRuleActive(x) {
			return true
		}
		return m.isElemOf(e, x, m.cond) && conj[m.elemRange(e, x)]
	}}
	corr.hook(st)
	cl := bf.Client()
	res := g.Run(bf.ZeroResults(kit.NewS()), cl)
	if res.Overflow {
		c.Fatalf("%s: state space overflow in conjunction run", e.Name)
	}
	if corr.any() {
		o.Undecided("the conjunction depends on a condition the checker does not interpret: %s", corr.String())
		return nil
	}
	// ---- R3 verdict
	seen := map[string]bool{}
	bad := false
	for _, sk := range sinks {
		key := sk.spec + "|" + sk.s.Get("sawF") + sk.s.Get("complete") + sk.s.Get("unex") + sk.s.Get("it") + sk.s.Get("a:cact")
		if !seen[key] {
			seen[key] = true
			c.AddValuations(1)
		}
		switch {
		case sk.s.Get("stale") == "T":
			o.Violation("a condition state is stored after the conjunction loop read the list, then the rule state is decided at %s: the rule state can lag behind its conditions", e.At(sk.at))
			bad = true
		case sk.val == "unknown":
			o.Undecided("the value reaching the rule state at %s is not determined by the loop's atoms", e.At(sk.at))
			bad = true
		case sk.spec == "indeterminate":
			why := "the loop was left before the end although no inactive condition had been seen"
			if sk.s.Get("unex") == "T" {
				why = "an element of the list was passed over without reading its state"
			}
			wit := "remaining/unread condition inactive, all read ones active → rule reported active"
			if sk.val == "false" {
				wit = "all conditions active → rule reported inactive"
			}
			o.Violation("rule state %s decided at %s although %s; witness: %s", sk.val, e.At(sk.at), why, wit)
			bad = true
		case sk.val != sk.spec:
			wit := "all conditions active (or none configured) → rule reported inactive"
			if sk.spec == "false" {
				wit = "one condition inactive → rule reported active"
			}
			o.Violation("rule state %s at %s, conjunction of the condition states is %s; witness: %s", sk.val, e.At(sk.at), sk.spec, wit)
			bad = true
		}
	}
	if len(sinks) == 0 {
		o.Undecided("the rule's active field is neither compared nor stored in %s", e.Name)
	} else if !bad {
		o.OK("%d sink observations over %d abstract loop outcomes agree with the conjunction", len(sinks), len(seen))
	}

	// ---- result roles (R4): which result is the state, which is `changed`
	o4 := r4.Ob(e, nil, "evaluator results", "one boolean result equals the conjunction on every exit, another is true exactly on the exits where the rule state differed and was stored")
	nres := 0
	if e.Type.Results != nil {
		for _, fl := range e.Type.Results.List {
			k := len(fl.Names)
			if k == 0 {
				k = 1
			}
			nres += k
		}
	}
	type cand struct{ active, changed bool }
	cands := make([]cand, nres)
	for i := range cands {
		cands[i] = cand{true, true}
	}
	nexits := 0
	var whyNotChanged string
	for _, ex := range res.Exits {
		if ex.Return == nil || len(ex.Return.Results) != nres {
			continue
		}
		nexits++
		sp := spec(ex.State)
		diff := ex.State.Get("a:rdiff")
		stored := ex.State.Get("stored") == "T"
		for i, rx := range ex.Return.Results {
			if !kit.IsBoolType(info.TypeOf(rx)) {
				cands[i] = cand{}
				continue
			}
			v, ok := bf.DetEval(rx, ex.State)
			if !ok {
				cands[i] = cand{}
				continue
			}
			if sp == "indeterminate" || strconv.FormatBool(v) != sp {
				cands[i].active = false
			}
			if diff == "" || v != (diff == "T") || v != stored {
				if cands[i].changed && !cands[i].active {
					whyNotChanged = fmt.Sprintf("result %d is %v at %s where the rule state differed=%q and stored=%v", i, v, e.At(ex.Return), diff, stored)
				}
				cands[i].changed = false
			}
		}
	}
	roles := &c13Roles{-1, -1}
	na, nc := 0, 0
	for i, cd := range cands {
		if cd.active {
			roles.activeIdx = i
			na++
		}
		if cd.changed {
			roles.changedIdx = i
			nc++
		}
	}
	switch {
	case nexits == 0:
		o4.Undecided("no return with %d results found", nres)
		return nil
	case na != 1:
		o4.Violation("no result of %s carries the conjunction of the condition states on every exit (candidates: %d)", e.Name, na)
		return nil
	case nc != 1:
		msg := "no result is true exactly when the rule state differed from the stored one and was stored"
		if whyNotChanged != "" {
			msg += ": " + whyNotChanged
		}
		o4.Violation("%s", msg)
		return nil
	}
	o4.OK("result %d = rule state, result %d = changed (over %d exits)", roles.activeIdx, roles.changedIdx, nexits)
	return roles
}

// ---------------------------------------------------------------------------
// R4: callers pair the action lists with the state

func (m *ruModel) actionRunners() (run, inact map[*kit.Func]int) {
	run, inact = map[*kit.Func]int{}, map[*kit.Func]int{}
	for _, f := range m.c.P.Funcs(ruClientPkg) {
		if f.Body == nil {
			continue
		}
		for pi, p := range f.Params() {
			el := ruSliceElem(p.Type())
			if el == nil || !types.Identical(el, m.action) {
				continue
			}
			nT, nF, nOther := 0, 0, 0
			ruInspectOwn(f, func(n ast.Node) bool {
				as, ok := n.(*ast.AssignStmt)
				if !ok || len(as.Lhs) != len(as.Rhs) {
					return true
				}
				for i, l := range as.Lhs {
					base, fv, ok := kit.FieldSel(f.Info(), l)
					if !ok || fv != m.af["active"] {
						continue
					}
					ix, ok := ast.Unparen(base).(*ast.IndexExpr)
					if !ok || kit.ObjOf(f.Info(), ix.X) != p {
						continue
					}
					tv, has := f.Info().Types[as.Rhs[i]]
					switch {
					case has && tv.Value != nil && tv.Value.Kind() == constant.Bool && constant.BoolVal(tv.Value):
						nT++
					case has && tv.Value != nil && tv.Value.Kind() == constant.Bool:
						nF++
					default:
						nOther++
					}
				}
				return true
			})
			switch {
			case nT > 0 && nF == 0 && nOther == 0:
				run[f] = pi
			case nF > 0 && nT == 0 && nOther == 0:
				inact[f] = pi
			}
		}
	}
	return
}

func c13R4(c *kit.Ctx, m *ruModel, e *kit.Func, roles *c13Roles, r4 *kit.Rule) {
	if roles == nil {
		return
	}
	runners, inactors := m.actionRunners()
	if len(runners) == 0 || len(inactors) == 0 {
		c.Fatalf("action runner (marks the list's elements active) or inactive-marker not found: %d / %d", len(runners), len(inactors))
	}
	var callers []*kit.Func
	for _, f := range c.P.Funcs(ruClientPkg) {
		if f.Body == nil || f == e {
			continue
		}
		n := 0
		ruInspectOwn(f, func(x ast.Node) bool {
			if call, ok := x.(*ast.CallExpr); ok && f.CalleeFunc(call) == e {
				n++
			}
			return true
		})
		if n > 0 {
			callers = append(callers, f)
		}
	}
	if len(callers) == 0 {
		c.Fatalf("no caller of %s found", e.Name)
	}
	for _, k := range callers {
		c.Analysed(k)
		c13Caller(c, m, e, k, roles, runners, inactors, r4)
	}
}

func c13Caller(c *kit.Ctx, m *ruModel, e, k *kit.Func, roles *c13Roles, runners, inactors map[*kit.Func]int, r4 *kit.Rule) {
	g := c.P.Graph(k)
	// call sites of the evaluator, in source order
	type site struct {
		call  *ast.CallExpr
		stmt  *ast.AssignStmt
		bound bool // changed result bound to a variable
		ob    *kit.Ob
		okN   int
		bad   bool
	}
	var sites []*site
	ruInspectOwn(k, func(x ast.Node) bool {
		as, ok := x.(*ast.AssignStmt)
		if !ok || len(as.Rhs) != 1 {
			return true
		}
		call, ok := ast.Unparen(as.Rhs[0]).(*ast.CallExpr)
		if !ok || k.CalleeFunc(call) != e {
			return true
		}
		s := &site{call: call, stmt: as}
		if roles.changedIdx < len(as.Lhs) {
			if id, ok := as.Lhs[roles.changedIdx].(*ast.Ident); ok && id.Name != "_" {
				s.bound = true
			}
		}
		sites = append(sites, s)
		return true
	})
	ncalls := 0
	ruInspectOwn(k, func(x ast.Node) bool {
		if call, ok := x.(*ast.CallExpr); ok && k.CalleeFunc(call) == e {
			ncalls++
		}
		return true
	})
	if ncalls != len(sites) {
		r4.Ob(k, nil, "evaluator call", "every call of the evaluator binds its results").Undecided("%d of %d calls of %s do not assign the results to variables", ncalls-len(sites), ncalls, e.Name)
		return
	}
	cnt := map[bool]int{}
	for _, s := range sites {
		name := "evaluator call using `changed`"
		oblig := "changed=false → no action list runs; changed=true → the runner receives the list matching the state and the inactive-marker the opposite list, each once"
		if !s.bound {
			name = "evaluator call discarding `changed`"
			oblig = "if action lists run after this call, the runner receives the list matching the state and the inactive-marker the opposite list, each once"
		}
		cnt[s.bound]++
		if cnt[s.bound] > 1 {
			name += fmt.Sprintf(" #%d", cnt[s.bound])
		}
		s.ob = r4.Ob(k, s.call, name, oblig)
	}
	// helpers on the way to the runner / inactive-marker are evaluated inline
	reaches := map[*kit.Func]bool{}
	for f := range runners {
		reaches[f] = true
	}
	for f := range inactors {
		reaches[f] = true
	}
	for round := 0; round < 4; round++ {
		for _, f := range c.P.Funcs(ruClientPkg) {
			if f.Body == nil || reaches[f] || f == e || f == k {
				continue
			}
			ruInspectOwn(f, func(x ast.Node) bool {
				if call, ok := x.(*ast.CallExpr); ok {
					if cf := f.CalleeFunc(call); cf != nil && reaches[cf] {
						reaches[f] = true
					}
				}
				return true
			})
		}
	}
	opaque := ""
	scan := func(f *kit.Func) {
		ast.Inspect(f.Body, func(x ast.Node) bool {
			var inner ast.Node
			switch y := x.(type) {
			case *ast.FuncLit:
				inner = y.Body
			case *ast.GoStmt:
				inner = y.Call
			case *ast.DeferStmt:
				inner = y.Call
			}
			if inner == nil {
				return true
			}
			ast.Inspect(inner, func(z ast.Node) bool {
				if call, ok := z.(*ast.CallExpr); ok {
					if cf := f.CalleeFunc(call); cf != nil && reaches[cf] && opaque == "" {
						opaque = fmt.Sprintf("%s is called from a function literal / go / defer statement at %s, which the flow does not follow", cf.Name, f.At(call))
					}
				}
				return true
			})
			return true
		})
	}
	scan(k)
	for f := range reaches {
		if _, r := runners[f]; r {
			continue
		}
		if _, r := inactors[f]; r {
			continue
		}
		scan(f)
	}
	var curStd *kit.Std
	isActionList := func(t types.Type) bool {
		el := ruSliceElem(t)
		_, isPtr := t.(*types.Pointer)
		return el != nil && !isPtr && types.Identical(el, m.action)
	}
	// listClass: which of the rule's two lists an expression denotes: "A", "I",
	// "?"; locals holding a list are tracked in the state ("lv:<id>").
	listClass := func(x ast.Expr, s kit.S) string {
		x = ast.Unparen(x)
		if curStd != nil {
			x = ast.Unparen(curStd.Resolve(x))
		}
		switch m.ruleField(k, x) {
		case m.rActs:
			return "A"
		case m.rInacts:
			return "I"
		}
		if id, ok := x.(*ast.Ident); ok {
			if o := kit.ObjOf(k.Info(), id); o != nil {
				if v := s.Get("lv:" + kit.VarID(o)); v != "" {
					return v
				}
			}
		}
		return "?"
	}
	addCall := func(s kit.S, what string) kit.S {
		cur := s.Get("calls")
		parts := []string{}
		if cur != "" {
			parts = strings.Split(cur, ",")
		}
		n := 0
		for _, p := range parts {
			if p == what {
				n++
			}
		}
		if n >= 2 {
			return s
		}
		parts = append(parts, what)
		sort.Strings(parts)
		return s.Set("calls", strings.Join(parts, ","))
	}
	report := func(o *kit.Ob, path []string, format string, a ...any) {
		if opaque != "" {
			o.Undecided("%s; otherwise: %s", opaque, fmt.Sprintf(format, a...))
			return
		}
		o.Violation(format, a...).WithPath(path)
	}
	for _, ract := range []string{"T", "F"} {
		for _, rchg := range []string{"T", "F"} {
			st := &kit.Std{F: k}
			bf := &kit.BoolFlow{Std: st, ForkUnknown: true}
			bf.SymResult = func(call *ast.CallExpr, i int, s kit.S) string {
				if k.CalleeFunc(call) != e {
					return ""
				}
				switch i {
				case roles.activeIdx:
					return "ract"
				case roles.changedIdx:
					return "rchg"
				}
				return ""
			}
			kparams := k.Params()
			isPointsVal := func(t types.Type) bool {
				el := ruSliceElem(t)
				_, isPtr := t.(*types.Pointer)
				return el != nil && !isPtr && types.Identical(el, m.point)
			}
			// is x the batch the caller was handed (its own points parameter, or a
			// local currently holding it)?
			batchClass := func(x ast.Expr, s kit.S) string {
				id, ok := ast.Unparen(x).(*ast.Ident)
				if !ok {
					return "other"
				}
				o := kit.ObjOf(k.Info(), id)
				for _, p := range kparams {
					if types.Object(p) == o {
						return "param"
					}
				}
				if o != nil {
					if v := s.Get("pv:" + kit.VarID(o)); v != "" {
						return v
					}
				}
				return "other"
			}
			st.OnNode = func(n ast.Node, s kit.S) []kit.S {
				if as, ok := n.(*ast.AssignStmt); ok && len(as.Lhs) == len(as.Rhs) && (as.Tok == token.ASSIGN || as.Tok == token.DEFINE) {
					var keys, vals []string
					for i, l := range as.Lhs {
						id, isId := ast.Unparen(l).(*ast.Ident)
						if !isId {
							continue
						}
						if o := kit.ObjOf(k.Info(), id); o != nil && isPointsVal(o.Type()) {
							keys = append(keys, "pv:"+kit.VarID(o))
							vals = append(vals, batchClass(as.Rhs[i], s))
						}
					}
					for i := range keys {
						s = s.Set(keys[i], vals[i])
					}
				}
				for i, sx := range sites {
					if n == ast.Node(sx.stmt) {
						batch := "other"
						for _, a := range sx.call.Args {
							if isPointsVal(k.Info().TypeOf(a)) {
								batch = batchClass(a, s)
							}
						}
						s = s.Set("site", strconv.Itoa(i)).Set("batch", batch).Del("calls")
					}
				}
				return []kit.S{s}
			}
			curStd = st
			seenHelper := map[*kit.Func]bool{}
			restore := m.follow(st)
			st.ShouldInline = func(cf *kit.Func, call *ast.CallExpr) bool {
				_, isRun := runners[cf]
				_, isInact := inactors[cf]
				return reaches[cf] && !isRun && !isInact
			}
			userNode := st.OnNode
			st.OnNode = func(n ast.Node, s kit.S) []kit.S {
				// list-valued locals: `run, clear := A, I` / `run, clear = clear, run`
				if as, ok := n.(*ast.AssignStmt); ok && len(as.Lhs) == len(as.Rhs) && (as.Tok == token.ASSIGN || as.Tok == token.DEFINE) {
					var keys, vals []string
					for i, l := range as.Lhs {
						id, isId := ast.Unparen(l).(*ast.Ident)
						if !isId {
							continue
						}
						o := kit.ObjOf(k.Info(), id)
						if o == nil || !isActionList(o.Type()) {
							continue
						}
						keys = append(keys, "lv:"+kit.VarID(o))
						vals = append(vals, listClass(as.Rhs[i], s)) // all right-hand sides on the pre-state
					}
					for i := range keys {
						s = s.Set(keys[i], vals[i])
					}
				}
				return userNode(n, s)
			}
			st.OnCall = func(call *ast.CallExpr, n ast.Node, s kit.S) []kit.S {
				cf := st.Cur().CalleeFunc(call)
				if cf == nil {
					return nil
				}
				if _, r := runners[cf]; !r {
					if _, r2 := inactors[cf]; !r2 && reaches[cf] {
						seenHelper[cf] = true
					}
				}
				if pi, ok := runners[cf]; ok && pi < len(call.Args) {
					return []kit.S{addCall(s, "run("+listClass(call.Args[pi], s)+")")}
				}
				if pi, ok := inactors[cf]; ok && pi < len(call.Args) {
					return []kit.S{addCall(s, "inactive("+listClass(call.Args[pi], s)+")")}
				}
				return nil
			}
			bound := map[types.Object]bool{}
			for _, sx := range sites {
				for _, l := range sx.stmt.Lhs {
					if o := kit.ObjOf(k.Info(), l); o != nil {
						bound[o] = true
					}
				}
			}
			corr := &ruCorr{f: k, pred: func(x ast.Expr) bool {
				id, ok := x.(*ast.Ident)
				if !ok {
					return false
				}
				o := kit.ObjOf(k.Info(), id)
				return o != nil && bound[o] && kit.IsBoolType(o.Type())
			}}
			corr.hook(st)
			init := kit.NewS().Set("a:ract", ract).Set("a:rchg", rchg)
			res := g.Run(init, bf.Client())
			restore()
			for cf := range seenHelper {
				if !st.Inlined[cf] && opaque == "" {
					opaque = fmt.Sprintf("the helper %s, which leads to the action runner, could not be evaluated inline", cf.Name)
				}
			}
			if corr.any() {
				for _, sx := range sites {
					sx.ob.Undecided("the action pairing depends on a condition over the evaluator's results that the checker does not interpret: %s", corr.String())
					sx.bad = true
				}
				return
			}
			if res.Overflow {
				c.Fatalf("%s: state space overflow", k.Name)
			}
			c.AddValuations(1)
			want := "inactive(I),run(A)"
			if ract == "F" {
				want = "inactive(A),run(I)"
			}
			for _, ex := range res.Exits {
				si := ex.State.Get("site")
				calls := ex.State.Get("calls")
				if si == "" {
					if calls != "" {
						r4.Ob(k, nil, "action run without evaluation", "action lists run only after the evaluator reported the state").Undecided("a path of %s runs %s without calling the evaluator", k.Name, calls)
					}
					continue
				}
				idx, _ := strconv.Atoi(si)
				sx := sites[idx]
				if strings.Contains(calls, "?") {
					sx.ob.Undecided("an action-list argument is not one of the rule's two lists (%s)", calls)
					sx.bad = true
					continue
				}
				wit := fmt.Sprintf("evaluator reports active=%v changed=%v", ract == "T", rchg == "T")
				// "changed=false → nothing runs" is required for the batch the caller
				// was handed; a synthetic batch (the schedule trigger sent after a
				// configuration change) may always bring the lists in line
				strict := sx.bound && ex.State.Get("batch") == "param"
				switch {
				case strict && rchg == "F":
					if calls != "" {
						report(sx.ob, res.PathTo(ex), "witness: %s → %s still executes %s", wit, k.Name, calls)
						sx.bad = true
					}
				case strict:
					if calls != want {
						report(sx.ob, res.PathTo(ex), "witness: %s → %s executes {%s}, expected {%s}", wit, k.Name, calls, want)
						sx.bad = true
					}
				default:
					if calls != "" && calls != want {
						report(sx.ob, res.PathTo(ex), "witness: %s → %s executes {%s}, expected {%s}", wit, k.Name, calls, want)
						sx.bad = true
					}
				}
				sx.okN++
			}
		}
	}
	for _, sx := range sites {
		if sx.bad {
			continue
		}
		if sx.okN == 0 {
			sx.ob.Undecided("no exit reached after the call")
			continue
		}
		sx.ob.OK("4 valuations of (active, changed): list pairing as specified on %d exits", sx.okN)
	}
}

// ---------------------------------------------------------------------------
// R5: set-value mapping and origin stamp

func c13R5(c *kit.Ctx, m *ruModel, r5 *kit.Rule) {
	runners, _ := m.actionRunners()
	var fs []*kit.Func
	for f := range runners {
		fs = append(fs, f)
	}
	sort.Slice(fs, func(i, j int) bool { return fs[i].Pos() < fs[j].Pos() })
	if len(fs) == 0 {
		c.Fatalf("action runner not found")
	}
	setValue := dataConst(c, "PointValueSetValue")
	senders := map[*kit.Func]bool{}
	for _, f := range fs {
		c.Analysed(f)
		info := f.Info()
		g := c.P.Graph(f)
		st := &kit.Std{F: f}
		bf := &kit.BoolFlow{Std: st}
		o := r5.Ob(f, nil, "set-value point", "with action = setValue and target/type configured, every pass of the action loop sends a point {Type: action.pointType, Value: action.value, Text: action.valueText} to action.nodeID")
		scenVal := func(x ast.Expr) (string, bool) {
			tag, ok := m.actionField(f, x)
			if !ok {
				return "", false
			}
			switch tag {
			case "action":
				return setValue, true
			case "nodeID", "pointType":
				return "x", true
			}
			return "", false
		}
		bf.Fold = func(x ast.Expr, s kit.S) (bool, bool) {
			a, b, neg, ok := ruEqLeaf(x)
			if !ok {
				return false, false
			}
			for _, sw := range [2][2]ast.Expr{{a, b}, {b, a}} {
				if v, has := scenVal(sw[0]); has {
					if kc, isC := kit.ConstString(info, sw[1]); isC {
						return (v == kc) != neg, true
					}
				}
			}
			return false, false
		}
		// class: where a value of the emitted point comes from.  "?" = not
		// derivable (a local copy, a call result): the instance is then
		// undecided, never a violation.
		class := func(x ast.Expr) string {
			if tag, ok := m.actionField(f, x); ok {
				return "action." + tag
			}
			if base, fv, ok := kit.FieldSel(info, x); ok && m.isElemOf(f, base, m.action) {
				return "action field " + fv.Name()
			}
			if tv, ok := info.Types[x]; ok && tv.Value != nil {
				return "constant " + tv.Value.String()
			}
			return "?"
		}
		var sends []string
		var badSends, undecSends []string
		loops := map[*ast.RangeStmt]bool{}
		for _, rs := range ruOwnLoops(f) {
			if el := ruSliceElem(info.TypeOf(rs.X)); el != nil && types.Identical(el, m.action) {
				loops[rs] = true
			}
		}
		missing := 0
		arrived := 0
		st.OnNode = func(n ast.Node, s kit.S) []kit.S {
			as, ok := n.(*ast.AssignStmt)
			if !ok || len(as.Lhs) != len(as.Rhs) {
				return []kit.S{s}
			}
			for i, l := range as.Lhs {
				// p := data.Point{…}
				if o := kit.ObjOf(info, l); o != nil {
					if _, isIdent := ast.Unparen(l).(*ast.Ident); isIdent && types.Identical(o.Type(), m.point) {
						id := kit.VarID(o)
						s = s.DelPrefix("pl:" + id + ".")
						if cl, ok := ast.Unparen(as.Rhs[i]).(*ast.CompositeLit); ok {
							s = s.Set("pl:"+id+".", "lit")
							for _, el := range cl.Elts {
								kv, ok := el.(*ast.KeyValueExpr)
								if !ok {
									s = s.Set("pl:"+id+".", "positional")
									continue
								}
								if kid, ok := kv.Key.(*ast.Ident); ok {
									s = s.Set("pl:"+id+"."+kid.Name, class(kv.Value))
								}
							}
						}
						continue
					}
				}
				// p.F = x
				if base, fv, ok := kit.FieldSel(info, l); ok && m.pf[fv.Name()] == fv {
					if o := kit.ObjOf(info, base); o != nil {
						id := kit.VarID(o)
						if s.Has("pl:" + id + ".") {
							s = s.Set("pl:"+id+"."+fv.Name(), class(as.Rhs[i]))
						}
					}
				}
			}
			return []kit.S{s}
		}
		st.OnCall = func(call *ast.CallExpr, n ast.Node, s kit.S) []kit.S {
			// a send: callee of the module receiving (string target, data.Point)
			cf := st.Cur().CalleeFunc(call)
			if cf == nil || len(call.Args) < 2 {
				return nil
			}
			var target, pt ast.Expr
			for _, a := range call.Args {
				t := info.TypeOf(a)
				if t == nil {
					continue
				}
				if types.Identical(t, m.point) && pt == nil {
					pt = a
				} else if b, ok := t.Underlying().(*types.Basic); ok && b.Kind() == types.String && target == nil {
					target = a
				}
			}
			if target == nil || pt == nil {
				return nil
			}
			if tag, ok := m.actionField(f, target); !ok || tag != "nodeID" {
				return nil
			}
			senders[cf] = true
			desc := ""
			good := true
			get := func(field string) string {
				if cl, ok := ast.Unparen(pt).(*ast.CompositeLit); ok {
					for _, el := range cl.Elts {
						if kv, ok := el.(*ast.KeyValueExpr); ok {
							if kid, ok := kv.Key.(*ast.Ident); ok && kid.Name == field {
								return class(kv.Value)
							}
						}
					}
					return "zero"
				}
				o := kit.ObjOf(info, pt)
				if o == nil {
					return "?"
				}
				id := kit.VarID(o)
				switch s.Get("pl:" + id + ".") {
				case "lit":
					if v := s.Get("pl:" + id + "." + field); v != "" {
						return v
					}
					return "zero"
				}
				return "?"
			}
			unknownSrc := false
			for _, w := range [][2]string{{"Type", "action.pointType"}, {"Value", "action.value"}, {"Text", "action.valueText"}} {
				got := get(w[0])
				desc += fmt.Sprintf("%s←%s ", w[0], got)
				if got == "?" {
					unknownSrc = true
				}
				if got != w[1] {
					good = false
				}
			}
			if !good && unknownSrc {
				undecSends = append(undecSends, fmt.Sprintf("%s sends {%s}: a source is not derivable", f.At(call), strings.TrimSpace(desc)))
				return []kit.S{s.Set("sv", "T")}
			}
			if good {
				sends = append(sends, f.At(call))
				return []kit.S{s.Set("sv", "T")}
			}
			badSends = append(badSends, fmt.Sprintf("%s sends {%s} to action.nodeID", f.At(call), strings.TrimSpace(desc)))
			return []kit.S{s.Set("sv", "T")}
		}
		st.OnBranch = func(br kit.Branch, s kit.S) (t, fl []kit.S, handled bool) {
			switch br.Kind {
			case kit.BrCase:
				if br.Tag == nil {
					return nil, nil, false
				}
				if v, has := scenVal(br.Tag); has {
					if kc, isC := kit.ConstString(info, br.Case); isC {
						if v == kc {
							return []kit.S{s}, nil, true
						}
						return nil, []kit.S{s}, true
					}
				}
			case kit.BrRange:
				if !loops[br.Range] {
					return nil, nil, false
				}
				key := fmt.Sprintf("in:%d", br.Range.Pos())
				if !s.Has(key) {
					return []kit.S{s.Set(key, "1")}, nil, true
				}
				arrived++
				if s.Get("sv") != "T" {
					missing++
				}
				return nil, nil, true
			}
			return nil, nil, false
		}
		corr := &ruCorr{f: f, pred: func(x ast.Expr) bool {
			_, ok := m.actionField(f, x)
			return ok
		}}
		corr.hook(st)
		userBranch := st.OnBranch
		st.OnBranch = func(br kit.Branch, s kit.S) (t, fl []kit.S, handled bool) {
			t, fl, handled = userBranch(br, s)
			if !handled {
				corr.tag(st, br, s)
			}
			return
		}
		// a helper that is handed the current action (or its address) is evaluated
		// inline: the body of a case may have moved into a method of its own
		restore := m.follow(st)
		st.ShouldInline = func(cf *kit.Func, call *ast.CallExpr) bool {
			xs := append([]ast.Expr{}, call.Args...)
			if sel, ok := ast.Unparen(call.Fun).(*ast.SelectorExpr); ok {
				xs = append(xs, sel.X)
			}
			for _, a := range xs {
				if t := info.TypeOf(a); t != nil && types.Identical(ruDeref(t), m.action) && m.isElemOf(f, a, m.action) {
					return true
				}
			}
			return false
		}
		res := g.Run(kit.NewS(), bf.Client())
		restore()
		if res.Overflow {
			c.Fatalf("%s: state space overflow", f.Name)
		}
		c.AddValuations(1)
		if corr.any() {
			o.Undecided("the set-value path depends on a condition over the action's fields that the checker does not interpret: %s", corr.String())
			continue
		}
		for _, ex := range res.Exits {
			// leaving the function from inside the loop body without having sent
			if ex.Return != nil && ex.State.Get("sv") != "T" {
				for rs := range loops {
					if ex.State.Has(fmt.Sprintf("in:%d", rs.Pos())) {
						missing++
					}
				}
			}
		}
		// calls that receive the current action (argument or receiver) without
		// having been evaluated inline
		var opaque []string
		scan := []*kit.Func{f}
		for cf := range st.Inlined {
			scan = append(scan, cf)
		}
		for _, fn := range scan {
			ast.Inspect(fn.Body, func(n ast.Node) bool {
				call, ok := n.(*ast.CallExpr)
				if !ok {
					return true
				}
				xs := append([]ast.Expr{}, call.Args...)
				if sel, ok := ast.Unparen(call.Fun).(*ast.SelectorExpr); ok {
					xs = append(xs, sel.X)
				}
				gets := false
				for _, x := range xs {
					if t := info.TypeOf(x); t != nil && types.Identical(ruDeref(t), m.action) && m.isElemOf(fn, x, m.action) {
						gets = true
					}
				}
				if !gets {
					return true
				}
				cf := fn.CalleeFunc(call)
				if (cf != nil && !st.Inlined[cf]) || (cf == nil && kit.Callee(info, call) == nil) {
					opaque = append(opaque, fn.At(call))
				}
				return true
			})
		}
		switch {
		case len(loops) == 0:
			o.Undecided("no loop over the action list in %s", f.Name)
		case len(badSends) > 0:
			o.Violation("witness: set-value action {pointType: T, value: V, valueText: X, nodeID: N}: %s", strings.Join(uniqStrings(badSends), "; "))
		case len(undecSends) > 0:
			o.Undecided("%s", strings.Join(uniqStrings(undecSends), "; "))
		case missing > 0 && len(opaque) > 0:
			// the send may sit in a helper that was not evaluated: nothing is established
			o.Undecided("a path through the action loop sends nothing to action.nodeID, but the current action is handed to %s, which was not evaluated", strings.Join(uniqStrings(opaque), ", "))
		case missing > 0:
			o.Violation("witness: set-value action with nodeID and pointType set: a path through the action loop sends nothing to action.nodeID")
		case len(sends) == 0 || arrived == 0:
			o.Undecided("no send to action.nodeID found under the set-value scenario (arrived=%d)", arrived)
		default:
			o.OK("send(s) at %s carry Type/Value/Text from the action and go to action.nodeID", strings.Join(uniqStrings(sends), ", "))
		}
	}
	// origin stamp in the sender
	var ss []*kit.Func
	for s := range senders {
		ss = append(ss, s)
	}
	sort.Slice(ss, func(i, j int) bool { return ss[i].Pos() < ss[j].Pos() })
	if len(ss) == 0 {
		r5.Ob(nil, nil, "origin stamp", "the sender stamps the rule id as origin").Undecided("no sender function receives (action.nodeID, point)")
		return
	}
	for _, sf := range ss {
		c.Analysed(sf)
		c13Sender(c, m, sf, r5)
	}
}

func c13Sender(c *kit.Ctx, m *ruModel, sf *kit.Func, r5 *kit.Rule) {
	info := sf.Info()
	o := r5.Ob(sf, nil, "origin stamp", "for a target id different from the rule's own id the forwarded point carries Origin = rule id, and the target id and point are forwarded unchanged")
	var idP, ptP *types.Var
	for _, p := range sf.Params() {
		if types.Identical(p.Type(), m.point) {
			ptP = p
		} else if b, ok := p.Type().Underlying().(*types.Basic); ok && b.Kind() == types.String {
			idP = p
		}
	}
	if idP == nil || ptP == nil {
		o.Undecided("sender %s does not have (string, data.Point) parameters", sf.Name)
		return
	}
	g := c.P.Graph(sf)
	st := &kit.Std{F: sf}
	bf := &kit.BoolFlow{Std: st}
	isRuleID := func(x ast.Expr) bool { return m.ruleField(sf, x) == m.rID }
	bf.Atom = func(x ast.Expr) (string, bool, bool) {
		a, b, neg, ok := ruEqLeaf(x)
		if !ok {
			return "", false, false
		}
		if (kit.ObjOf(info, a) == idP && isRuleID(b)) || (kit.ObjOf(info, b) == idP && isRuleID(a)) {
			return "foreign", !neg, true
		}
		return "", false, false
	}
	var fw, bad, undec []string
	st.OnNode = func(n ast.Node, s kit.S) []kit.S {
		as, ok := n.(*ast.AssignStmt)
		if !ok || len(as.Lhs) != len(as.Rhs) {
			return []kit.S{s}
		}
		for i, l := range as.Lhs {
			if kit.ObjOf(info, l) == idP {
				s = s.Set("idmod", "T")
			}
			if kit.ObjOf(info, l) == ptP {
				if _, isIdent := ast.Unparen(l).(*ast.Ident); isIdent {
					s = s.Set("ptmod", "T")
				}
			}
			if base, fv, ok := kit.FieldSel(info, l); ok && kit.ObjOf(info, base) == ptP {
				if fv == m.pf["Origin"] {
					r := ast.Unparen(as.Rhs[i])
					_, isConst := info.Types[r]
					isConst = isConst && info.Types[r].Value != nil
					switch {
					case isRuleID(r):
						s = s.Set("origin", "rule")
					case kit.ObjOf(info, r) == types.Object(idP) || isConst:
						s = s.Set("origin", "other")
					default:
						s = s.Set("origin", "?")
					}
				} else {
					s = s.Set("ptmod", "T")
				}
			}
		}
		return []kit.S{s}
	}
	st.OnCall = func(call *ast.CallExpr, n ast.Node, s kit.S) []kit.S {
		hasID, hasPt := false, false
		for _, a := range call.Args {
			if kit.ObjOf(info, a) == idP {
				hasID = true
			}
			if kit.ObjOf(info, a) == ptP {
				hasPt = true
			}
		}
		if !hasPt {
			return nil
		}
		switch {
		case !hasID:
			bad = append(bad, fmt.Sprintf("%s forwards the point without the target id", sf.At(call)))
		case s.Get("idmod") == "T" || s.Get("ptmod") == "T":
			bad = append(bad, fmt.Sprintf("%s forwards a modified target id or point", sf.At(call)))
		case s.Get("origin") == "?":
			undec = append(undec, fmt.Sprintf("%s forwards a point whose Origin comes from a value the checker cannot trace", sf.At(call)))
		case s.Get("origin") != "rule":
			bad = append(bad, fmt.Sprintf("%s forwards the point for a foreign target without Origin = rule id", sf.At(call)))
		default:
			fw = append(fw, sf.At(call))
		}
		return []kit.S{s.Set("fw", "T")}
	}
	corr := &ruCorr{f: sf, pred: func(x ast.Expr) bool {
		id, ok := x.(*ast.Ident)
		if !ok {
			return false
		}
		o := kit.ObjOf(info, id)
		return o != nil && (o == types.Object(idP) || o == types.Object(ptP))
	}}
	corr.hook(st)
	res := g.Run(kit.NewS().Set("a:foreign", "T"), bf.Client())
	c.AddValuations(1)
	if corr.any() {
		o.Undecided("the sender branches on a condition over its parameters that the checker does not interpret: %s", corr.String())
		return
	}
	nofw := 0
	for _, ex := range res.Exits {
		if ex.State.Get("fw") != "T" {
			nofw++
		}
	}
	switch {
	case len(bad) > 0:
		o.Violation("witness: set-value action whose nodeID is another node: %s", strings.Join(uniqStrings(bad), "; "))
	case len(undec) > 0:
		o.Undecided("%s", strings.Join(uniqStrings(undec), "; "))
	case nofw > 0:
		o.Violation("witness: target id ≠ rule id: a path of %s returns without forwarding the point", sf.Name)
	case len(fw) == 0:
		o.Undecided("no forwarding call found in %s", sf.Name)
	default:
		o.OK("Origin = rule id is set before the forwarding call at %s on the foreign-target path", strings.Join(uniqStrings(fw), ", "))
	}
}

// ---------------------------------------------------------------------------
// R6: schedule arm

func c13R6(c *kit.Ctx, m *ruModel, e *kit.Func, r6 *kit.Rule) {
	ch := newC14Chain(c, m)
	o1 := r6.Ob(e, ch.ctorCall, "schedule construction", "the schedule is built from the condition's start, end, weekday and date fields, each reaching its own field of the schedule")
	if msg := ch.ctorProblem; msg != "" {
		o1.Violation("%s", msg)
	} else if msg := ch.ctorUnknown; msg != "" {
		o1.Undecided("%s", msg)
	} else {
		o1.OK("start→%s, end→%s, weekday→%s, date→%s", ch.startF.Name(), ch.endF.Name(), ch.wdF.Name(), ch.dateF.Name())
	}
	o := r6.Ob(e, ch.aftCall, "schedule arm", "for a schedule condition: a trigger point sets the state to the result of the schedule predicate applied to the point's time (unless it reports an error); any other point leaves it untouched")
	trigger := dataConst(c, "PointTypeTrigger")
	okN := 0
	for _, pt := range []string{"T", "F"} {
		for _, sv := range []string{"T", "F"} {
			fields := map[string]string{"conditionType": dataConst(c, "PointValueSchedule")}
			init := kit.NewS().Set("ptrig", pt).Set("a:sched", sv)
			run := &c13CondRun{c: c, m: m, f: e, fields: fields, init: init, aft: ch, trigger: trigger}
			run.run()
			c.AddValuations(1)
			status, msg, _ := run.verdict(sv == "T", pt == "F")
			wit := fmt.Sprintf("schedule condition, point type trigger=%v, schedule predicate returns %v", pt == "T", sv == "T")
			switch status {
			case "violation":
				o.Violation("witness: %s → %s", wit, msg)
			case "undecided":
				o.Undecided("%s (%s)", msg, wit)
			default:
				okN++
			}
		}
	}
	if okN == 4 {
		o.OK("4 valuations of (trigger point, predicate result) agree")
	}
}
