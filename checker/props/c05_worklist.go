package props

import (
	"go/ast"
	"go/token"
	"go/types"

	"siotcheck/kit"
)

// An ancestor walk written with an explicit work list instead of recursion:
//
//	pending := []string{start}
//	for len(pending) > 0 {
//	    cur := pending[k]; pending = pending[…]      // take one
//	    if cur == target { return true, nil }
//	    if visited[cur] { continue }; visited[cur] = true
//	    ups := <every row of edges WHERE down = cur>
//	    for … { pending = append(pending, ups[i]) }  // push every parent
//	}
//	return false, nil
//
// The rule states the shape conditions under which this visits what the
// recursive form visits (W1–W7 below).  A contradiction is a violation, an
// unrecognised spelling is undecided.
type worklistWalk struct {
	loop    *ast.ForStmt
	pending types.Object
	cur     types.Object
	start   *types.Var // parameter the list is seeded with
	target  *types.Var // parameter cur is compared with
}

func findWorklist(wf *kit.Func) *worklistWalk {
	info := wf.Info()
	w := &worklistWalk{}
	// the loop `for len(P) > 0`
	ast.Inspect(wf.Body, func(n ast.Node) bool {
		fs, ok := n.(*ast.ForStmt)
		if !ok || fs.Cond == nil || fs.Init != nil || fs.Post != nil || w.loop != nil {
			return true
		}
		a, b, op, ok := kit.CmpAtom(fs.Cond)
		if !ok {
			return true
		}
		lenOf := func(x ast.Expr) types.Object {
			call, ok := ast.Unparen(x).(*ast.CallExpr)
			if !ok || len(call.Args) != 1 {
				return nil
			}
			if bi, ok := kit.Callee(info, call).(*types.Builtin); !ok || bi.Name() != "len" {
				return nil
			}
			return kit.ObjOf(info, call.Args[0])
		}
		isZero := func(x ast.Expr) bool { v, ok := kit.ConstInt(info, x); return ok && v == 0 }
		switch {
		case (op == token.GTR || op == token.NEQ) && lenOf(a) != nil && isZero(b):
			w.loop, w.pending = fs, lenOf(a)
		case (op == token.LSS || op == token.NEQ) && lenOf(b) != nil && isZero(a):
			w.loop, w.pending = fs, lenOf(b)
		}
		return true
	})
	if w.loop == nil {
		return nil
	}
	if sl, ok := w.pending.Type().Underlying().(*types.Slice); !ok || !isStringType(sl.Elem()) {
		return nil
	}
	// W1: the seed
	strParam := func(e ast.Expr) *types.Var {
		o := kit.ObjOf(info, e)
		for _, p := range wf.Params() {
			if types.Object(p) == o && isStringType(p.Type()) {
				return p
			}
		}
		return nil
	}
	ast.Inspect(wf.Body, func(n ast.Node) bool {
		if n != nil && n.Pos() >= w.loop.Pos() {
			return false
		}
		as, ok := n.(*ast.AssignStmt)
		if !ok || len(as.Lhs) != 1 || len(as.Rhs) != 1 || kit.ObjOf(info, as.Lhs[0]) != w.pending {
			return true
		}
		switch r := ast.Unparen(as.Rhs[0]).(type) {
		case *ast.CompositeLit:
			if len(r.Elts) == 1 {
				w.start = strParam(r.Elts[0])
			}
		case *ast.CallExpr:
			if bi, ok := kit.Callee(info, r).(*types.Builtin); ok && bi.Name() == "append" && len(r.Args) == 2 {
				w.start = strParam(r.Args[1])
			}
		}
		return true
	})
	// W3: the element taken in each round
	for _, st := range w.loop.Body.List {
		as, ok := st.(*ast.AssignStmt)
		if !ok || len(as.Lhs) != 1 || len(as.Rhs) != 1 {
			continue
		}
		if ix, ok := ast.Unparen(as.Rhs[0]).(*ast.IndexExpr); ok && kit.ObjOf(info, ix.X) == w.pending && w.cur == nil {
			w.cur = kit.ObjOf(info, as.Lhs[0])
		}
	}
	if w.cur != nil {
		ast.Inspect(w.loop.Body, func(n ast.Node) bool {
			be, ok := n.(*ast.BinaryExpr)
			if !ok || (be.Op != token.EQL && be.Op != token.NEQ) {
				return true
			}
			if kit.ObjOf(info, be.X) == w.cur {
				if p := strParam(be.Y); p != nil {
					w.target = p
				}
			}
			if kit.ObjOf(info, be.Y) == w.cur {
				if p := strParam(be.X); p != nil {
					w.target = p
				}
			}
			return true
		})
	}
	return w
}

func isStringType(t types.Type) bool {
	b, ok := t.Underlying().(*types.Basic)
	return ok && b.Kind() == types.String
}

// checkWorklistWalk decides the shape obligation of an iterative ancestor walk.
func checkWorklistWalk(c *kit.Ctx, m *storeModel, wf *kit.Func, site *kit.SQLSite, o *kit.Ob) {
	info := wf.Info()
	w := findWorklist(wf)
	if w == nil {
		o.Undecided("%s is an iterative ancestor walk without a `for len(<work list>) > 0` loop; only the recursive and the work-list shape are known", wf.Name)
		return
	}
	switch {
	case w.start == nil:
		o.Undecided("%s: the work list `%s` is not seeded with one of the walk's id parameters", wf.Name, w.pending.Name())
		return
	case w.cur == nil:
		o.Undecided("%s: no element is taken from the work list `%s` at the top of a round", wf.Name, w.pending.Name())
		return
	case w.target == nil || w.target == w.start:
		o.Violation("the ancestor walk %s never compares the node it looks at with the id it searches for", wf.Name)
		return
	}
	// W3a: the taken element is removed (the list is re-sliced in the round)
	popped := false
	for _, st := range w.loop.Body.List {
		if as, ok := st.(*ast.AssignStmt); ok && len(as.Lhs) == 1 && len(as.Rhs) == 1 && kit.ObjOf(info, as.Lhs[0]) == w.pending {
			if sl, ok := ast.Unparen(as.Rhs[0]).(*ast.SliceExpr); ok && kit.ObjOf(info, sl.X) == w.pending {
				popped = true
			}
		}
	}
	if !popped {
		o.Undecided("%s: the element looked at is not removed from the work list by a re-slice in the same round", wf.Name)
		return
	}
	// W3b: cur == target answers true (flow: under "same" every exit of the round returns true)
	st := &kit.Std{F: wf}
	st.Eval.Atom = func(e ast.Expr) (string, bool, bool) {
		isCur := func(x ast.Expr) bool { return kit.ObjOf(info, x) == w.cur }
		isT := func(x ast.Expr) bool { return kit.ObjOf(info, x) == types.Object(w.target) }
		if neg, ok := eqAtom(e, isCur, isT); ok {
			return "same", neg, true
		}
		return "", false, false
	}
	res := c.P.Graph(wf).Run(kit.NewS().Set("a:same", "T"), st.Client())
	answersTrue := false
	for _, ex := range res.Exits {
		if ex.Return != nil && len(ex.Return.Results) > 0 && ex.State.Get("a:same") == "T" {
			if v, ok := st.FoldExpr(ex.Return.Results[0], ex.State); ok && v.ExactString() == "true" {
				answersTrue = true
			}
		}
	}
	if !answersTrue {
		o.Violation("the ancestor walk %s never answers true when the node it looks at is the id it searches for", wf.Name)
		return
	}
	// W4: the parents of the element looked at: every row (no QueryRow), bound to cur
	if site == nil {
		o.Undecided("%s: edge query not found", wf.Name)
		return
	}
	if site.Method == "QueryRow" {
		o.Violation("%s reads the parents of a node with QueryRow: only the first parent edge of each node is followed, an ancestor reachable through a second parent (mirrored node) is never seen", wf.Name)
		return
	}
	// the call in the round that obtains the parents (the query itself or a helper), and its argument
	var qcall *ast.CallExpr
	ast.Inspect(w.loop.Body, func(n ast.Node) bool {
		call, ok := n.(*ast.CallExpr)
		if !ok {
			return true
		}
		if call == site.Call {
			qcall = call
		} else if cf := wf.CalleeFunc(call); cf != nil && cf != wf && edgeQuerySiteOf(c, m, cf, 1) == site {
			qcall = call
		}
		return true
	})
	if qcall == nil {
		o.Violation("%s does not query the parent edges inside its work loop: it looks one level up only", wf.Name)
		return
	}
	bound := false
	for _, a := range qcall.Args {
		if kit.ObjOf(info, a) == w.cur {
			bound = true
		}
	}
	if !bound {
		o.Violation("%s queries the parent edges of `%s`, not of the node taken from the work list (`%s`)", wf.Name, wf.Str(qcall), w.cur.Name())
		return
	}
	// W5: every parent is pushed, unconditionally
	pushLoops, condPush := 0, ""
	ast.Inspect(w.loop.Body, func(n ast.Node) bool {
		var body *ast.BlockStmt
		switch x := n.(type) {
		case *ast.ForStmt:
			if x == w.loop {
				return true
			}
			body = x.Body
			// a counting loop must cover every index: forward canonical, or the exact reverse
			// `for i := len(xs)-1; i >= 0; i--`; a `for rows.Next()` scan loop covers every row
			if !coversAll(wf, x) {
				for _, s := range body.List {
					if isPush(info, s, w.pending) {
						condPush = "undecided"
					}
				}
				return false
			}
		case *ast.RangeStmt:
			body = x.Body
		default:
			return true
		}
		top := false
		nested := false
		for _, s := range body.List {
			if isPush(info, s, w.pending) {
				top = true
			}
		}
		ast.Inspect(body, func(y ast.Node) bool {
			if s, ok := y.(ast.Stmt); ok && isPush(info, s, w.pending) {
				nested = true
			}
			return true
		})
		if top {
			skip := false
			ast.Inspect(body, func(y ast.Node) bool {
				switch z := y.(type) {
				case *ast.BranchStmt:
					if z.Tok == token.CONTINUE || z.Tok == token.BREAK {
						skip = true
					}
				case *ast.ReturnStmt:
					// error returns inside a scan loop are fine
					if len(z.Results) > 0 && kit.IsNilIdent(info, z.Results[len(z.Results)-1]) {
						skip = true
					}
				}
				return true
			})
			if skip {
				condPush = "the loop that pushes the parents onto the work list can skip or stop (continue/break/return)"
			} else {
				pushLoops++
			}
		} else if nested {
			condPush = "a parent is pushed onto the work list only under a condition: some parent edges are not followed"
		}
		return false
	})
	switch {
	case condPush == "undecided":
		o.Undecided("%s: the loop that pushes the parents onto the work list has bounds the checker does not recognise as covering every parent", wf.Name)
		return
	case condPush != "":
		o.Violation("%s: %s", wf.Name, condPush)
		return
	case pushLoops == 0:
		o.Undecided("%s: no loop pushes the queried parents onto the work list `%s`", wf.Name, w.pending.Name())
		return
	}
	// W6/W7: rounds are skipped only for nodes already visited; false is answered only when the list is empty
	bad := ""
	var walk func(n ast.Node, guards []ast.Expr)
	walk = func(n ast.Node, guards []ast.Expr) {
		switch x := n.(type) {
		case *ast.IfStmt:
			for _, s := range x.Body.List {
				walk(s, append(append([]ast.Expr{}, guards...), x.Cond))
			}
			if x.Else != nil {
				walk(x.Else, guards)
			}
		case *ast.BlockStmt:
			for _, s := range x.List {
				walk(s, guards)
			}
		case *ast.ForStmt, *ast.RangeStmt, *ast.FuncLit:
			// inner loops were judged above
		case *ast.BranchStmt:
			switch x.Tok {
			case token.CONTINUE:
				okGuard := false
				for _, g := range guards {
					if isVisitedTest(info, g, w.cur) {
						okGuard = true
					}
				}
				if !okGuard {
					bad = "a round of the work loop can be skipped (continue) for a reason other than `already visited`: the parents of that node are never looked at"
				}
			case token.BREAK, token.GOTO:
				bad = "the work loop can be left (break/goto) while nodes are still waiting in the work list"
			}
		case *ast.ReturnStmt:
			if len(x.Results) >= 2 && kit.IsNilIdent(info, x.Results[len(x.Results)-1]) {
				if tv, ok := info.Types[x.Results[0]]; ok && tv.Value != nil && tv.Value.ExactString() == "false" {
					bad = "the walk answers false inside the work loop, while nodes may still be waiting in the work list"
				}
			}
		}
	}
	walk(w.loop.Body, nil)
	if bad != "" {
		o.Violation("%s: %s", wf.Name, bad)
		return
	}
	o.OK("work-list walk: seeded with %s, answers true on %s, queries every parent of the node taken and pushes all of them, skips only visited nodes", w.start.Name(), w.target.Name())
}

func isPush(info *types.Info, s ast.Stmt, pending types.Object) bool {
	as, ok := s.(*ast.AssignStmt)
	if !ok || len(as.Lhs) != 1 || len(as.Rhs) != 1 || kit.ObjOf(info, as.Lhs[0]) != pending {
		return false
	}
	call, ok := ast.Unparen(as.Rhs[0]).(*ast.CallExpr)
	if !ok || len(call.Args) < 2 || kit.ObjOf(info, call.Args[0]) != pending {
		return false
	}
	bi, ok := kit.Callee(info, call).(*types.Builtin)
	return ok && bi.Name() == "append"
}

// isVisitedTest: `visited[cur]` (a map[string]bool keyed by the node looked at), possibly negated away.
func isVisitedTest(info *types.Info, e ast.Expr, cur types.Object) bool {
	found := false
	ast.Inspect(e, func(n ast.Node) bool {
		if ix, ok := n.(*ast.IndexExpr); ok && kit.ObjOf(info, ix.Index) == cur {
			if mt, ok := info.TypeOf(ix.X).Underlying().(*types.Map); ok {
				if b, ok := mt.Elem().Underlying().(*types.Basic); ok && b.Kind() == types.Bool {
					found = true
				}
			}
		}
		if id, ok := n.(*ast.Ident); ok && (id.Name == "seen" || id.Name == "ok" || id.Name == "found") {
			// `_, seen := visited[cur]; if seen`
			found = found || false
		}
		return true
	})
	return found
}

// coversAll: the counting loop visits every index of a slice (canonical forward
// form, or `for i := len(xs)-1; i >= 0; i--`), or is a `for rows.Next()` scan loop.
func coversAll(f *kit.Func, fs *ast.ForStmt) bool {
	info := f.Info()
	if f.CanonLoop(fs) != nil {
		return true
	}
	if fs.Init == nil && fs.Post == nil && fs.Cond != nil {
		if call, ok := ast.Unparen(fs.Cond).(*ast.CallExpr); ok && kit.CallIs(info, call, "database/sql.(*Rows).Next") {
			return true
		}
		return false
	}
	init, ok := fs.Init.(*ast.AssignStmt)
	if !ok || len(init.Lhs) != 1 || len(init.Rhs) != 1 {
		return false
	}
	io := kit.ObjOf(info, init.Lhs[0])
	// i := len(xs) - 1
	be, ok := ast.Unparen(init.Rhs[0]).(*ast.BinaryExpr)
	if !ok || be.Op != token.SUB {
		return false
	}
	if v, ok := kit.ConstInt(info, be.Y); !ok || v != 1 {
		return false
	}
	lc, ok := ast.Unparen(be.X).(*ast.CallExpr)
	if !ok || len(lc.Args) != 1 {
		return false
	}
	if bi, ok := kit.Callee(info, lc).(*types.Builtin); !ok || bi.Name() != "len" {
		return false
	}
	cond, ok := ast.Unparen(fs.Cond).(*ast.BinaryExpr)
	if !ok || cond.Op != token.GEQ || kit.ObjOf(info, cond.X) != io {
		return false
	}
	if v, ok := kit.ConstInt(info, cond.Y); !ok || v != 0 {
		return false
	}
	post, ok := fs.Post.(*ast.IncDecStmt)
	return ok && post.Tok == token.DEC && kit.ObjOf(info, post.X) == io
}
