package props

import (
	"fmt"
	"go/ast"
	"go/token"
	"go/types"
	"sort"
	"strings"

	"siotcheck/kit"
)

// C18/R4, register-file clause: every modification of an integer field of a
// stored register — through an index into the register slice, through a
// pointer taken from the slice, or through a pointer returned by a lookup
// helper — is reached only for the element whose address matches the request
// and only after the validator accepted the value being stored.

// regElem finds the register slice field of the concrete provider and its
// element struct type.
func (m *mbModel) regElem() (*types.Var, *types.Named) {
	st, ok := m.ProvImpl.Underlying().(*types.Struct)
	if !ok {
		return nil, nil
	}
	for i := 0; i < st.NumFields(); i++ {
		sl, ok := st.Field(i).Type().Underlying().(*types.Slice)
		if !ok {
			continue
		}
		if n, ok := types.Unalias(sl.Elem()).(*types.Named); ok {
			if _, isStruct := n.Underlying().(*types.Struct); isStruct && n.Obj().Pkg() == m.pkg {
				return st.Field(i), n
			}
		}
	}
	return nil, nil
}

type regStore struct {
	f    *kit.Func
	stmt ast.Node // *ast.AssignStmt or *ast.IncDecStmt
	base ast.Expr // the element expression whose field is assigned
	rhs  ast.Expr // value stored by a plain assignment, nil for op-assign / ++
}

// lookupHelper describes a verified function `func(addr) *Elem` that returns
// a pointer into the register slice for the matching address and nil otherwise.
type lookupHelper struct {
	ok  bool
	why string
	nf  int64 // index helpers: the value returned when nothing matches
}

type storeCtx struct {
	c       *kit.Ctx
	m       *mbModel
	r       *kit.Rule
	slice   *types.Var
	elem    *types.Named
	helpers map[*kit.Func]*lookupHelper
}

func c18Stores(c *kit.Ctx, m *mbModel, r *kit.Rule) {
	sc := &storeCtx{c: c, m: m, r: r, helpers: map[*kit.Func]*lookupHelper{}}
	sc.slice, sc.elem = m.regElem()
	if sc.slice == nil {
		r.Ob(nil, nil, "register store", "the register file keeps its registers in a slice of structs").Undecided("no slice-of-struct field in %s", m.ProvImpl.Obj().Name())
		return
	}
	// every method of the register file and what it calls in the package
	reach := map[*kit.Func]bool{}
	var work []*kit.Func
	for _, f := range c.P.Funcs("modbus") {
		if f.Decl == nil || f.Obj == nil {
			continue
		}
		sig := f.Obj.Type().(*types.Signature)
		if sig.Recv() == nil {
			continue
		}
		rt := sig.Recv().Type()
		if p, ok := rt.(*types.Pointer); ok {
			rt = p.Elem()
		}
		if types.Identical(rt, m.ProvImpl) {
			reach[f] = true
			work = append(work, f)
		}
	}
	for len(work) > 0 {
		f := work[0]
		work = work[1:]
		for _, call := range f.AllCalls(true) {
			if cf := f.CalleeFunc(call); cf != nil && cf.Decl != nil && cf.Pkg == f.Pkg && !reach[cf] {
				reach[cf] = true
				work = append(work, cf)
			}
		}
	}
	var fs []*kit.Func
	for f := range reach {
		fs = append(fs, f)
	}
	sort.Slice(fs, func(i, j int) bool { return fs[i].Pos() < fs[j].Pos() })
	n := 0
	for _, f := range fs {
		for _, st := range sc.storesIn(f) {
			n++
			sc.check(st)
		}
	}
	if n == 0 {
		r.Ob(nil, nil, "register store", "the register file stores written values").Undecided("no assignment to an integer field of a stored register found in the methods of %s", m.ProvImpl.Obj().Name())
	}
}

// isElemType: t is the element struct or a pointer to it.
func (sc *storeCtx) isElemType(t types.Type) (ptr, ok bool) {
	if t == nil {
		return false, false
	}
	if p, isPtr := t.Underlying().(*types.Pointer); isPtr {
		return true, types.Identical(p.Elem(), sc.elem)
	}
	return false, types.Identical(t, sc.elem)
}

// storesIn lists the assignments to integer fields of stored registers.
func (sc *storeCtx) storesIn(f *kit.Func) []*regStore {
	info := f.Info()
	var out []*regStore
	consider := func(stmt ast.Node, lhs ast.Expr, rhs ast.Expr) {
		sel, ok := ast.Unparen(lhs).(*ast.SelectorExpr)
		if !ok || mbBasicInt(info.TypeOf(sel)) == nil {
			return
		}
		if s, ok := info.Selections[sel]; !ok || s.Kind() != types.FieldVal {
			return
		}
		base := ast.Unparen(sel.X)
		ptr, isElem := sc.isElemType(info.TypeOf(base))
		if !isElem {
			return
		}
		if !ptr {
			// a struct value: stored register only if it is an element of a slice
			// or a dereferenced pointer (a local copy is not a store)
			switch base.(type) {
			case *ast.IndexExpr, *ast.StarExpr:
			default:
				return
			}
		}
		out = append(out, &regStore{f: f, stmt: stmt, base: base, rhs: rhs})
	}
	ast.Inspect(f.Body, func(n ast.Node) bool {
		switch y := n.(type) {
		case *ast.AssignStmt:
			for i, l := range y.Lhs {
				var rhs ast.Expr
				if y.Tok == token.ASSIGN && len(y.Lhs) == len(y.Rhs) {
					rhs = y.Rhs[i]
				}
				consider(y, l, rhs)
			}
		case *ast.IncDecStmt:
			consider(y, y.X, nil)
		}
		return true
	})
	return out
}

func (sc *storeCtx) isSlice(f *kit.Func, e ast.Expr) bool {
	sel, ok := ast.Unparen(e).(*ast.SelectorExpr)
	if !ok {
		return false
	}
	s, ok := f.Info().Selections[sel]
	return ok && s.Obj() == types.Object(sc.slice)
}

// binding of the stored element
type elemBinding struct {
	rs     *ast.RangeStmt // enclosing range over the register slice (index / alias forms)
	ptr    types.Object   // pointer variable standing for the element (alias or helper result)
	idx    types.Object   // index variable produced by an index helper
	nf     int64          // value the index helper returns when nothing matches (negative)
	helper *kit.Func      // lookup helper that produced ptr / idx
	why    string
}

// uniqueDef returns the single value ever assigned to the local variable o.
func uniqueDef(f *kit.Func, o types.Object) ast.Expr {
	info := f.Info()
	var def ast.Expr
	n := 0
	ast.Inspect(f.Body, func(x ast.Node) bool {
		switch y := x.(type) {
		case *ast.AssignStmt:
			for j, l := range y.Lhs {
				if kit.ObjOf(info, l) == o {
					n++
					def = nil
					if len(y.Lhs) == len(y.Rhs) {
						def = y.Rhs[j]
					}
				}
			}
		case *ast.ValueSpec:
			for j, nm := range y.Names {
				if info.Defs[nm] == o {
					n++
					def = nil
					if j < len(y.Values) {
						def = y.Values[j]
					}
				}
			}
		case *ast.UnaryExpr:
			if y.Op == token.AND && kit.ObjOf(info, y.X) == o {
				n += 2
			}
		}
		return true
	})
	if n != 1 {
		return nil
	}
	return def
}

func (sc *storeCtx) rangeFor(f *kit.Func, at ast.Node, ix *ast.IndexExpr) *ast.RangeStmt {
	info := f.Info()
	if !sc.isSlice(f, ix.X) {
		return nil
	}
	// range statements and the equivalent counting loops alike
	var best *ast.RangeStmt
	for _, l := range f.SliceLoops(f.Body) {
		if l.Body.Pos() <= at.Pos() && at.End() <= l.Body.End() && sc.isSlice(f, l.X) && l.Key != nil &&
			kit.ObjOf(info, l.Key) != nil && kit.ObjOf(info, l.Key) == kit.ObjOf(info, ix.Index) {
			if best == nil || l.Body.Pos() >= best.Body.Pos() {
				best = l
			}
		}
	}
	return best
}

func (sc *storeCtx) bind(st *regStore) elemBinding {
	f := st.f
	info := f.Info()
	base := st.base
	if se, ok := base.(*ast.StarExpr); ok {
		base = ast.Unparen(se.X)
	}
	switch x := base.(type) {
	case *ast.IndexExpr:
		if rs := sc.rangeFor(f, st.stmt, x); rs != nil {
			return elemBinding{rs: rs}
		}
		// index produced by a lookup helper: ix := r.indexOf(address)
		if sc.isSlice(f, x.X) {
			if o := kit.ObjOf(info, x.Index); o != nil {
				if def := uniqueDef(f, o); def != nil {
					if call, ok := ast.Unparen(def).(*ast.CallExpr); ok {
						if h := f.CalleeFunc(call); h != nil && h.Decl != nil {
							lh := sc.verifyIndexHelper(h)
							if !lh.ok {
								return elemBinding{why: fmt.Sprintf("%s is not a recognised index lookup helper: %s", h.Name, lh.why)}
							}
							return elemBinding{idx: o, nf: lh.nf, helper: h}
						}
					}
				}
			}
		}
		return elemBinding{why: fmt.Sprintf("`%s` is indexed neither by the key of an enclosing range over the register slice nor by the result of a lookup helper", f.Str(x))}
	case *ast.Ident:
		o := kit.ObjOf(info, x)
		def := uniqueDef(f, o)
		if def == nil {
			return elemBinding{why: fmt.Sprintf("the pointer %s has no single definition", x.Name)}
		}
		def = ast.Unparen(def)
		if ue, ok := def.(*ast.UnaryExpr); ok && ue.Op == token.AND {
			if ix, ok := ast.Unparen(ue.X).(*ast.IndexExpr); ok {
				if rs := sc.rangeFor(f, st.stmt, ix); rs != nil {
					return elemBinding{rs: rs, ptr: o}
				}
			}
			return elemBinding{why: fmt.Sprintf("%s := %s is not the address of the element visited by an enclosing range", x.Name, f.Str(def))}
		}
		if call, ok := def.(*ast.CallExpr); ok {
			if h := f.CalleeFunc(call); h != nil && h.Decl != nil {
				lh := sc.verifyHelper(h)
				if !lh.ok {
					return elemBinding{why: fmt.Sprintf("%s is not a recognised lookup helper: %s", h.Name, lh.why)}
				}
				return elemBinding{ptr: o, helper: h}
			}
		}
		return elemBinding{why: fmt.Sprintf("cannot tell which register %s = %s points to", x.Name, f.Str(def))}
	}
	return elemBinding{why: fmt.Sprintf("cannot tell which register `%s` denotes", f.Str(st.base))}
}

// atoms builds the atom recogniser for function f: "match" (address
// equality / non-nil helper result), "hasval" (validator present), "valok"
// (validator called on the value being stored).
func (sc *storeCtx) atoms(f *kit.Func, b elemBinding, stored types.Object) kit.Atomizer {
	info := f.Info()
	params := map[types.Object]bool{}
	for _, p := range f.Params() {
		params[p] = true
	}
	elemVars := map[types.Object]bool{}
	if b.rs != nil {
		elemVars = kit.ElemAliases(info, b.rs)
	}
	isElem := func(e ast.Expr) bool {
		e = ast.Unparen(e)
		if se, ok := e.(*ast.StarExpr); ok {
			e = ast.Unparen(se.X)
		}
		if o := kit.ObjOf(info, e); o != nil && (elemVars[o] || (b.ptr != nil && o == b.ptr)) {
			return true
		}
		if ie, ok := e.(*ast.IndexExpr); ok && b.rs != nil {
			return sc.isSlice(f, ie.X) && kit.ObjOf(info, ie.Index) == kit.ObjOf(info, b.rs.Key)
		}
		if ie, ok := e.(*ast.IndexExpr); ok && b.idx != nil {
			return sc.isSlice(f, ie.X) && kit.ObjOf(info, ie.Index) == b.idx
		}
		return false
	}
	elemField := func(e ast.Expr) (types.Object, bool) {
		// a local that was set once from a field of the element stands for it
		if id, isId := ast.Unparen(e).(*ast.Ident); isId {
			if o := kit.ObjOf(info, id); o != nil && !params[o] {
				if def := uniqueDef(f, o); def != nil {
					e = def
				}
			}
		}
		sel, ok := ast.Unparen(e).(*ast.SelectorExpr)
		if !ok || !isElem(sel.X) {
			return nil, false
		}
		s, ok := info.Selections[sel]
		if !ok {
			return nil, false
		}
		return s.Obj(), true
	}
	fromParam := func(e ast.Expr) bool {
		e = ast.Unparen(e)
		if call, ok := e.(*ast.CallExpr); ok && len(call.Args) == 1 {
			if tv, ok := info.Types[call.Fun]; ok && tv.IsType() {
				e = ast.Unparen(call.Args[0])
			}
		}
		if params[kit.ObjOf(info, e)] {
			return true
		}
		// a local set once from (a conversion of) a parameter
		if o := kit.ObjOf(info, e); o != nil {
			if def := uniqueDef(f, o); def != nil {
				d := ast.Unparen(def)
				if call, ok := d.(*ast.CallExpr); ok && len(call.Args) == 1 {
					if tv, ok := info.Types[call.Fun]; ok && tv.IsType() {
						d = ast.Unparen(call.Args[0])
					}
				}
				return params[kit.ObjOf(info, d)]
			}
		}
		return false
	}
	return func(e ast.Expr) (string, bool, bool) {
		e = ast.Unparen(mbCond(f, e))
		// result of an index helper compared with a constant: decided when the
		// outcome is the same for every index >= 0 and different for "not found"
		if b.idx != nil {
			if x, y, op, ok := kit.CmpAtom(e); ok {
				if kit.ObjOf(info, y) == b.idx {
					x, y = y, x
					op = map[token.Token]token.Token{token.LSS: token.GTR, token.GTR: token.LSS, token.LEQ: token.GEQ, token.GEQ: token.LEQ, token.EQL: token.EQL, token.NEQ: token.NEQ}[op]
				}
				if kit.ObjOf(info, x) == b.idx {
					if cst, isC := kit.ConstInt(info, y); isC {
						cmp := func(v int64) bool {
							switch op {
							case token.LSS:
								return v < cst
							case token.LEQ:
								return v <= cst
							case token.GTR:
								return v > cst
							case token.GEQ:
								return v >= cst
							case token.EQL:
								return v == cst
							}
							return v != cst
						}
						notFound := cmp(b.nf)
						// for all v >= 0 the outcome must be constant: true at 0 and at "infinity" alike
						f0, fInf := cmp(0), cmp(1<<40)
						uniform := f0 == fInf && (cst < 0 || (op != token.EQL && op != token.NEQ && cst <= 0))
						if op == token.EQL || op == token.NEQ {
							uniform = cst < 0
						}
						if uniform && f0 != notFound {
							// atom "match" is true when found: the condition equals f0 then
							return "match", !f0, true
						}
					}
				}
			}
		}
		if x, y, op, ok := kit.CmpAtom(e); ok && (op == token.EQL || op == token.NEQ) {
			for _, pr := range [][2]ast.Expr{{x, y}, {y, x}} {
				// helper result compared with nil
				if b.helper != nil && kit.ObjOf(info, pr[0]) == b.ptr && kit.IsNilIdent(info, pr[1]) {
					return "match", op == token.EQL, true
				}
				if fo, ok := elemField(pr[0]); ok {
					if b.helper == nil && mbBasicInt(fo.Type()) != nil && fromParam(pr[1]) {
						return "match", op == token.NEQ, true
					}
					if _, isFn := fo.Type().Underlying().(*types.Signature); isFn && kit.IsNilIdent(info, pr[1]) {
						return "hasval", op == token.EQL, true
					}
				}
			}
		}
		if call, ok := e.(*ast.CallExpr); ok && len(call.Args) == 1 {
			if fo, ok := elemField(call.Fun); ok {
				if _, isFn := fo.Type().Underlying().(*types.Signature); isFn && stored != nil && kit.ObjOf(info, call.Args[0]) == stored {
					return "valok", false, true
				}
			}
		}
		return "", false, false
	}
}

// verifyHelper checks a lookup helper: it returns a pointer to the element
// of the register slice whose integer field equals (a conversion of) its
// parameter, found by a range over the slice, and nil when none matches.
func (sc *storeCtx) verifyHelper(h *kit.Func) *lookupHelper {
	if lh, ok := sc.helpers[h]; ok {
		return lh
	}
	lh := &lookupHelper{}
	sc.helpers[h] = lh
	info := h.Info()
	sig := h.Obj.Type().(*types.Signature)
	if sig.Results().Len() != 1 {
		lh.why = "it does not return a single pointer"
		return lh
	}
	if ptr, ok := sc.isElemType(sig.Results().At(0).Type()); !ok || !ptr {
		lh.why = "it does not return a pointer to a register"
		return lh
	}
	var rs *ast.RangeStmt
	n := 0
	ast.Inspect(h.Body, func(x ast.Node) bool {
		switch y := x.(type) {
		case *ast.RangeStmt:
			if sc.isSlice(h, y.X) && y.Key != nil {
				rs = y
			}
			n++
		case *ast.ForStmt:
			if cl := h.CanonLoop(y); cl != nil && sc.isSlice(h, cl.X) {
				rs = cl
				n++
			} else {
				n += 2
			}
		}
		return true
	})
	if n != 1 || rs == nil {
		lh.why = "it is not a single range over the register slice"
		return lh
	}
	b := elemBinding{rs: rs}
	// an alias `p := &slice[key]` inside the loop counts as the element
	ast.Inspect(rs.Body, func(x ast.Node) bool {
		if as, ok := x.(*ast.AssignStmt); ok && len(as.Lhs) == 1 && len(as.Rhs) == 1 {
			if ue, ok := ast.Unparen(as.Rhs[0]).(*ast.UnaryExpr); ok && ue.Op == token.AND {
				if ix, ok := ast.Unparen(ue.X).(*ast.IndexExpr); ok && sc.isSlice(h, ix.X) && kit.ObjOf(info, ix.Index) == kit.ObjOf(info, rs.Key) {
					b.ptr = kit.ObjOf(info, as.Lhs[0])
				}
			}
		}
		return true
	})
	isElemPtr := func(e ast.Expr) bool {
		e = ast.Unparen(e)
		if b.ptr != nil && kit.ObjOf(info, e) == b.ptr {
			return true
		}
		if ue, ok := e.(*ast.UnaryExpr); ok && ue.Op == token.AND {
			if ix, ok := ast.Unparen(ue.X).(*ast.IndexExpr); ok {
				return sc.isSlice(h, ix.X) && kit.ObjOf(info, ix.Index) == kit.ObjOf(info, rs.Key)
			}
		}
		return false
	}
	for _, match := range []bool{false, true} {
		st := &kit.Std{F: h}
		st.Eval.Atom = sc.atoms(h, b, nil)
		st.OnBranch = func(br kit.Branch, s kit.S) (t, f []kit.S, handled bool) {
			if br.Kind == kit.BrRange && br.Range == rs && s.Get("a:match") == "T" && !s.Has("it") {
				return []kit.S{s.Set("it", "1")}, nil, true
			}
			return nil, nil, false
		}
		val := "F"
		if match {
			val = "T"
		}
		res := sc.c.P.Graph(h).Run(kit.NewS().Set("a:match", val), st.Client())
		sc.c.AddValuations(1)
		if len(res.Exits) == 0 {
			lh.why = "no exit"
			return lh
		}
		for _, e := range res.Exits {
			if e.Return == nil || len(e.Return.Results) != 1 {
				lh.why = "exit without a result"
				return lh
			}
			r := e.Return.Results[0]
			switch {
			case !match && !kit.IsNilIdent(info, r):
				lh.why = fmt.Sprintf("without a matching address it returns `%s`, not nil", h.Str(r))
				return lh
			case match && !isElemPtr(r):
				lh.why = fmt.Sprintf("with a matching address it returns `%s`, not the address of the matching element", h.Str(r))
				return lh
			}
		}
	}
	sc.c.Analysed(h)
	lh.ok = true
	return lh
}

func (sc *storeCtx) check(st *regStore) {
	f, m, c := st.f, sc.m, sc.c
	info := f.Info()
	c.Analysed(f)
	label := "store " + f.Str(st.stmt)
	oAddr := sc.r.Ob(f, st.stmt, label+": address match", "the store is reached only for the element whose address equals the requested one; otherwise exception 2 and no store")
	oVal := sc.r.Ob(f, st.stmt, label+": validator", "with a validator that rejects the value the store is not reached and exception 3 is returned; without validator or with an accepting one the value is stored")
	b := sc.bind(st)
	if b.why != "" {
		oAddr.Undecided("%s", b.why)
		oVal.Undecided("%s", b.why)
		return
	}
	var stored types.Object
	if st.rhs != nil {
		stored = kit.ObjOf(info, st.rhs)
	}
	atom := sc.atoms(f, b, stored)
	type verdict struct {
		stored   bool
		retCodes map[string]bool
	}
	run := func(init kit.S) verdict {
		sd := &kit.Std{F: f}
		sd.Eval.Atom = atom
		v := verdict{retCodes: map[string]bool{}}
		sd.OnBranch = func(br kit.Branch, s kit.S) (t, ff []kit.S, handled bool) {
			// a scenario with a matching element has at least one element
			if b.rs != nil && br.Kind == kit.BrRange && br.Range == b.rs && s.Get("a:match") == "T" && !s.Has("it") {
				return []kit.S{s.Set("it", "1")}, nil, true
			}
			return nil, nil, false
		}
		sd.OnNode = func(n ast.Node, s kit.S) []kit.S {
			if n == st.stmt {
				return []kit.S{s.Set("stored", "1")}
			}
			return []kit.S{s}
		}
		res := c.P.Graph(f).Run(init, sd.Client())
		c.AddValuations(1)
		for _, e := range res.Exits {
			if e.State.Get("stored") == "1" {
				v.stored = true
			}
			if e.Return == nil || len(e.Return.Results) == 0 {
				v.retCodes["?no result|stored="+e.State.Get("stored")] = true
				continue
			}
			last := e.Return.Results[len(e.Return.Results)-1]
			switch {
			case kit.IsNilIdent(info, last):
				v.retCodes["nil|stored="+e.State.Get("stored")] = true
			default:
				if k, ok := kit.ConstInt(info, last); ok && types.Identical(info.TypeOf(last), m.ExcType) {
					v.retCodes[fmt.Sprintf("exc%d|stored=%s", k, e.State.Get("stored"))] = true
				} else {
					v.retCodes["?"+f.Str(last)+"|stored="+e.State.Get("stored")] = true
				}
			}
		}
		return v
	}
	keys := func(m map[string]bool) string {
		var ks []string
		for k := range m {
			ks = append(ks, k)
		}
		sort.Strings(ks)
		return strings.Join(ks, ",")
	}
	// no element matches
	v := run(kit.NewS().Set("a:match", "F"))
	switch {
	case v.stored:
		oAddr.Violation("with no element matching the requested address `%s` is still reached", f.Str(st.stmt))
	case len(v.retCodes) != 1 || !v.retCodes[fmt.Sprintf("exc%d|stored=", mbExcIllegalAddress)]:
		oAddr.Violation("with no element matching the requested address the function returns {%s} instead of exception 2 (illegal data address)", keys(v.retCodes))
	default:
		how := "address comparison inside the range"
		if b.helper != nil {
			how = "nil test of the result of " + b.helper.Name
		}
		oAddr.OK("match=false: store unreachable, returns exception 2 (%s)", how)
	}
	// matching element, validator rejects
	v = run(kit.NewS().Set("a:match", "T").Set("a:hasval", "T").Set("a:valok", "F"))
	if v.stored {
		oVal.Violation("`%s` modifies the stored register before (or without) the validator's verdict on the value being stored: a write answered with exception 3 has already changed the register", f.Str(st.stmt))
		return
	}
	if len(v.retCodes) != 1 || !v.retCodes[fmt.Sprintf("exc%d|stored=", mbExcIllegalValue)] {
		oVal.Violation("a value rejected by the validator yields {%s} instead of exception 3 (illegal data value)", keys(v.retCodes))
		return
	}
	for _, init := range []kit.S{
		kit.NewS().Set("a:match", "T").Set("a:hasval", "F"),
		kit.NewS().Set("a:match", "T").Set("a:hasval", "T").Set("a:valok", "T"),
	} {
		v = run(init)
		if !v.stored || len(v.retCodes) != 1 || !v.retCodes["nil|stored=1"] {
			oVal.Violation("with a matching address and %s the outcomes are {%s}: the value must be stored and nil returned", init, keys(v.retCodes))
			return
		}
	}
	oVal.OK("rejecting validator: no store, exception 3; no validator / accepting validator: stored, nil")
}

// verifyIndexHelper checks a helper `func(addr) int` that returns the index of
// the element of the register slice whose address equals (a conversion of)
// its parameter, found by one range over the slice, and a negative constant
// when none matches.
func (sc *storeCtx) verifyIndexHelper(h *kit.Func) *lookupHelper {
	if lh, ok := sc.helpers[h]; ok {
		return lh
	}
	lh := &lookupHelper{}
	sc.helpers[h] = lh
	info := h.Info()
	sig := h.Obj.Type().(*types.Signature)
	if sig.Results().Len() != 1 || mbBasicInt(sig.Results().At(0).Type()) == nil {
		lh.why = "it does not return a single integer"
		return lh
	}
	var rs *ast.RangeStmt
	n := 0
	ast.Inspect(h.Body, func(x ast.Node) bool {
		switch y := x.(type) {
		case *ast.RangeStmt:
			if sc.isSlice(h, y.X) && y.Key != nil {
				rs = y
			}
			n++
		case *ast.ForStmt:
			if cl := h.CanonLoop(y); cl != nil && sc.isSlice(h, cl.X) {
				rs = cl
				n++
			} else {
				n += 2
			}
		}
		return true
	})
	if n != 1 || rs == nil {
		lh.why = "it is not a single range over the register slice"
		return lh
	}
	b := elemBinding{rs: rs}
	for _, match := range []bool{false, true} {
		st := &kit.Std{F: h}
		st.Eval.Atom = sc.atoms(h, b, nil)
		st.OnBranch = func(br kit.Branch, s kit.S) (t, f []kit.S, handled bool) {
			if br.Kind == kit.BrRange && br.Range == rs && s.Get("a:match") == "T" && !s.Has("it") {
				return []kit.S{s.Set("it", "1")}, nil, true
			}
			return nil, nil, false
		}
		val := "F"
		if match {
			val = "T"
		}
		res := sc.c.P.Graph(h).Run(kit.NewS().Set("a:match", val), st.Client())
		sc.c.AddValuations(1)
		if len(res.Exits) == 0 {
			lh.why = "no exit"
			return lh
		}
		for _, e := range res.Exits {
			if e.Return == nil || len(e.Return.Results) != 1 {
				lh.why = "exit without a result"
				return lh
			}
			r := e.Return.Results[0]
			if match {
				if kit.ObjOf(info, r) == nil || kit.ObjOf(info, r) != kit.ObjOf(info, rs.Key) {
					lh.why = fmt.Sprintf("with a matching address it returns `%s`, not the index of the matching element", h.Str(r))
					return lh
				}
				continue
			}
			v, isC := kit.ConstInt(info, r)
			if !isC || v >= 0 {
				lh.why = fmt.Sprintf("without a matching address it returns `%s`, not a negative constant", h.Str(r))
				return lh
			}
			lh.nf = v
		}
	}
	sc.c.Analysed(h)
	lh.ok = true
	return lh
}
