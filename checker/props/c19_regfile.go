package props

import (
	"fmt"
	"go/ast"
	"go/token"
	"go/types"
	"sort"
	"strings"

	"siotcheck/kit"
)

// C19/R6 "after a write the server holds what was written", register-file
// side.  The register file is shared by every connection of the server and by
// the code of the node that owns it, so an acknowledged write survives only if
//
//	(a) every store into the register list runs with the file's mutex held in
//	    write mode and every other access with it held in either mode;
//	(b) a store whose value or target was derived from the stored registers
//	    (read-modify-write: a coil is one bit of a 16-bit register) happens in
//	    the critical section in which those registers were read — otherwise a
//	    second writer can store between the read and the store and is
//	    overwritten with the stale word (lost update);
//	(c) an exported method does not return with the mutex still held.
//
// The walk starts at every exported function that touches the register list
// and follows the calls inside the package with the lock mode held at the call
// (unexported helpers are judged in the contexts they are reached in).  Schedules
// are not enumerated: the rule decides the lock discipline only.

type rfTouch struct {
	reads, stores, locks bool
}

type rfAccess struct {
	f     *kit.Func
	node  ast.Node
	store bool
	ctx   map[string]string // effective mode -> one entry chain
}

type rfAccKey struct {
	node  ast.Node
	store bool
}

type rfRMW struct {
	f    *kit.Func
	node ast.Node
	ok   []string
	bad  []string
	und  []string
}

type rfCtx struct {
	c     *kit.Ctx
	m     *c19Model
	r     *kit.Rule
	slice *types.Var
	elem  *types.Named
	lock  *types.Var
	touch map[*kit.Func]*rfTouch
	taint map[*kit.Func]map[types.Object]map[token.Pos]bool
	walks map[string]bool
	acc   map[rfAccKey]*rfAccess
	rmw   map[ast.Node]*rfRMW
	// problems that are not tied to one access
	viol map[string]*rfNote
	und  map[string]*rfNote
}

type rfNote struct {
	f    *kit.Func
	node ast.Node
	msg  string
}

func c19R6(c *kit.Ctx, m *c19Model) {
	r := c.Rule("R6", "register file: stores under the write lock, read-modify-write in one critical section", 8)
	x := &rfCtx{c: c, m: m, r: r, touch: map[*kit.Func]*rfTouch{}, taint: map[*kit.Func]map[types.Object]map[token.Pos]bool{},
		walks: map[string]bool{}, acc: map[rfAccKey]*rfAccess{}, rmw: map[ast.Node]*rfRMW{}, viol: map[string]*rfNote{}, und: map[string]*rfNote{}}
	x.slice, x.elem = m.regElem()
	if x.slice == nil {
		r.Ob(nil, nil, "register list", "the register file keeps its registers in a slice of structs").Undecided("no slice-of-struct field in %s", m.ProvImpl.Obj().Name())
		return
	}
	if st, ok := m.ProvImpl.Underlying().(*types.Struct); ok {
		for i := 0; i < st.NumFields(); i++ {
			t := st.Field(i).Type()
			if p, isPtr := t.Underlying().(*types.Pointer); isPtr {
				t = p.Elem()
			}
			if kit.IsNamedType(t, "sync", "Mutex") || kit.IsNamedType(t, "sync", "RWMutex") {
				if x.lock != nil {
					r.Ob(nil, nil, "register file mutex", "one mutex guards the register list").Undecided("%s has two mutex fields (%s, %s)", m.ProvImpl.Obj().Name(), x.lock.Name(), st.Field(i).Name())
					return
				}
				x.lock = st.Field(i)
			}
		}
	}
	if x.lock == nil {
		r.Ob(nil, nil, "register file mutex", "one mutex guards the register list").Undecided("%s has no sync.Mutex / sync.RWMutex field", m.ProvImpl.Obj().Name())
		return
	}
	// what every function of the package does to the list, callees included
	fns := c.P.Funcs("modbus")
	for _, f := range fns {
		if f.Body != nil {
			x.touch[f] = x.direct(f)
		}
	}
	for changed := true; changed; {
		changed = false
		for _, f := range fns {
			t := x.touch[f]
			if t == nil {
				continue
			}
			for _, call := range f.AllCalls(false) {
				if ct := x.touch[x.callee(f, call)]; ct != nil {
					if (ct.reads && !t.reads) || (ct.stores && !t.stores) || (ct.locks && !t.locks) {
						t.reads, t.stores, t.locks = t.reads || ct.reads, t.stores || ct.stores, t.locks || ct.locks
						changed = true
					}
				}
			}
		}
	}
	// entries: the exported functions
	n := 0
	for _, f := range fns {
		t := x.touch[f]
		if t == nil || f.Decl == nil || f.Obj == nil || !f.Obj.Exported() || !(t.reads || t.stores || t.locks) {
			continue
		}
		n++
		c.Analysed(f)
		x.walk(f, "", f.Name)
	}
	if n == 0 {
		r.Ob(nil, nil, "register file methods", "exported functions access the register list").Undecided("no exported function of package modbus touches %s.%s", m.ProvImpl.Obj().Name(), x.slice.Name())
		return
	}
	x.report()
}

// callee resolves a call inside the package; a call through an interface the
// register file implements (the provider handed to the request processor) is
// taken to reach the register file's method of that name.
func (x *rfCtx) callee(f *kit.Func, call *ast.CallExpr) *kit.Func {
	if cf := f.CalleeFunc(call); cf != nil {
		return cf
	}
	fn, ok := kit.Callee(f.Info(), call).(*types.Func)
	if !ok {
		return nil
	}
	sig, ok := fn.Type().(*types.Signature)
	if !ok || sig.Recv() == nil {
		return nil
	}
	it, ok := sig.Recv().Type().Underlying().(*types.Interface)
	if !ok || !types.Implements(types.NewPointer(x.m.ProvImpl), it) {
		return nil
	}
	o, _, _ := types.LookupFieldOrMethod(types.NewPointer(x.m.ProvImpl), true, x.m.pkg, fn.Name())
	if o == nil {
		return nil
	}
	return x.c.P.FuncOf(o)
}

// isSliceSel: e is <x>.<register list>.
func (x *rfCtx) isSliceSel(info *types.Info, e ast.Expr) bool {
	sel, ok := e.(*ast.SelectorExpr)
	if !ok {
		return false
	}
	s, ok := info.Selections[sel]
	return ok && s.Obj() == types.Object(x.slice)
}

// fresh: the register file denoted by the selector's base was made by this
// function (a composite literal or new): nobody else can see it yet.
func (x *rfCtx) fresh(f *kit.Func, sel *ast.SelectorExpr) bool {
	o := kit.ObjOf(f.Info(), sel.X)
	if o == nil {
		return false
	}
	def := uniqueDef(f, o)
	if def == nil {
		return false
	}
	def = ast.Unparen(def)
	if u, ok := def.(*ast.UnaryExpr); ok && u.Op == token.AND {
		def = ast.Unparen(u.X)
	}
	switch d := def.(type) {
	case *ast.CompositeLit:
		return true
	case *ast.CallExpr:
		if b, ok := kit.Callee(f.Info(), d).(*types.Builtin); ok && b.Name() == "new" {
			return true
		}
	}
	return false
}

// storeTargets returns the left-hand sides of n that modify the register list:
// the list itself, an element reached through it, or a field behind a pointer
// to a register.
func (x *rfCtx) storeTargets(f *kit.Func, n ast.Node) []ast.Expr {
	info := f.Info()
	var lhs []ast.Expr
	switch y := n.(type) {
	case *ast.AssignStmt:
		if y.Tok != token.DEFINE {
			lhs = y.Lhs
		}
	case *ast.IncDecStmt:
		lhs = []ast.Expr{y.X}
	}
	var out []ast.Expr
	for _, l := range lhs {
		hit := false
		e := ast.Unparen(l)
		for e != nil && !hit {
			switch z := e.(type) {
			case *ast.SelectorExpr:
				if x.isSliceSel(info, z) {
					hit = !x.fresh(f, z)
					e = nil
					break
				}
				// field behind a pointer to a register
				if t := info.TypeOf(z.X); t != nil {
					if p, ok := t.Underlying().(*types.Pointer); ok && types.Identical(p.Elem(), x.elem) {
						hit = true
					}
				}
				e = ast.Unparen(z.X)
			case *ast.IndexExpr:
				e = ast.Unparen(z.X)
			case *ast.StarExpr:
				if t := info.TypeOf(z.X); t != nil {
					if p, ok := t.Underlying().(*types.Pointer); ok && types.Identical(p.Elem(), x.elem) {
						hit = true
					}
				}
				e = ast.Unparen(z.X)
			case *ast.SliceExpr:
				e = ast.Unparen(z.X)
			default:
				e = nil
			}
		}
		if hit {
			out = append(out, l)
		}
	}
	return out
}

// readSels lists the selections of the register list in n that are evaluated
// (everything but the list named as the root of a store target).
func (x *rfCtx) readSels(f *kit.Func, n ast.Node) []*ast.SelectorExpr {
	info := f.Info()
	root := map[*ast.SelectorExpr]bool{}
	for _, l := range x.storeTargets(f, n) {
		e := ast.Unparen(l)
		for e != nil {
			switch z := e.(type) {
			case *ast.SelectorExpr:
				if x.isSliceSel(info, z) {
					root[z] = true
					e = nil
				} else {
					e = ast.Unparen(z.X)
				}
			case *ast.IndexExpr:
				e = ast.Unparen(z.X)
			case *ast.StarExpr:
				e = ast.Unparen(z.X)
			case *ast.SliceExpr:
				e = ast.Unparen(z.X)
			default:
				e = nil
			}
		}
	}
	var out []*ast.SelectorExpr
	ast.Inspect(n, func(y ast.Node) bool {
		if _, isLit := y.(*ast.FuncLit); isLit {
			return false
		}
		if sel, ok := y.(*ast.SelectorExpr); ok && x.isSliceSel(info, sel) && !root[sel] && !x.fresh(f, sel) {
			out = append(out, sel)
		}
		return true
	})
	return out
}

// direct computes what the body of f itself does.
func (x *rfCtx) direct(f *kit.Func) *rfTouch {
	t := &rfTouch{}
	info := f.Info()
	ast.Inspect(f.Body, func(n ast.Node) bool {
		switch y := n.(type) {
		case *ast.FuncLit:
			return false
		case *ast.AssignStmt, *ast.IncDecStmt:
			if len(x.storeTargets(f, y)) > 0 {
				t.stores = true
			}
		case *ast.SelectorExpr:
			if x.isSliceSel(info, y) && !x.fresh(f, y) {
				t.reads = true
			}
		case *ast.CallExpr:
			if fld, op := lockOp(info, y); op != "" && fld == types.Object(x.lock) {
				t.locks = true
			}
		}
		return true
	})
	return t
}

// valueResult: f hands something other than an error back.
func rfValueResult(f *kit.Func) bool {
	sig, ok := f.Obj.Type().(*types.Signature)
	if !ok {
		return false
	}
	for i := 0; i < sig.Results().Len(); i++ {
		if !isErrorType(sig.Results().At(i).Type()) {
			return true
		}
	}
	return false
}

// sources returns the read sites e depends on: selections of the register
// list, calls of functions that read it and return a value, and whatever the
// variables mentioned were computed from.
func (x *rfCtx) sources(f *kit.Func, e ast.Node, tv map[types.Object]map[token.Pos]bool, skip map[*ast.SelectorExpr]bool) map[token.Pos]bool {
	out := map[token.Pos]bool{}
	if e == nil {
		return out
	}
	info := f.Info()
	ast.Inspect(e, func(n ast.Node) bool {
		switch y := n.(type) {
		case *ast.SelectorExpr:
			if x.isSliceSel(info, y) && !skip[y] && !x.fresh(f, y) {
				out[y.Pos()] = true
			}
		case *ast.CallExpr:
			if cf := x.callee(f, y); cf != nil && cf.Obj != nil && x.touch[cf] != nil && x.touch[cf].reads && rfValueResult(cf) {
				out[y.Pos()] = true
			}
		case *ast.Ident:
			for p := range tv[kit.ObjOf(info, y)] {
				out[p] = true
			}
		}
		return true
	})
	return out
}

// taintOf computes, flow-insensitively, for every variable of f the read sites
// its value may derive from.
func (x *rfCtx) taintOf(f *kit.Func) map[types.Object]map[token.Pos]bool {
	if tv, ok := x.taint[f]; ok {
		return tv
	}
	tv := map[types.Object]map[token.Pos]bool{}
	x.taint[f] = tv
	info := f.Info()
	rootObj := func(l ast.Expr) types.Object {
		e := ast.Unparen(l)
		for {
			switch z := e.(type) {
			case *ast.Ident:
				return kit.ObjOf(info, z)
			case *ast.IndexExpr:
				e = ast.Unparen(z.X)
			case *ast.StarExpr:
				e = ast.Unparen(z.X)
			case *ast.SliceExpr:
				e = ast.Unparen(z.X)
			case *ast.SelectorExpr:
				if _, isField := info.Selections[z]; !isField {
					return nil
				}
				e = ast.Unparen(z.X)
			default:
				return nil
			}
		}
	}
	changed := true
	add := func(l ast.Expr, src map[token.Pos]bool) {
		o := rootObj(l)
		if o == nil || len(src) == 0 {
			return
		}
		if v, ok := o.(*types.Var); !ok || v.IsField() {
			return
		}
		if tv[o] == nil {
			tv[o] = map[token.Pos]bool{}
		}
		for p := range src {
			if !tv[o][p] {
				tv[o][p] = true
				changed = true
			}
		}
	}
	for round := 0; changed && round < 10; round++ {
		changed = false
		ast.Inspect(f.Body, func(n ast.Node) bool {
			switch y := n.(type) {
			case *ast.AssignStmt:
				if len(y.Lhs) == len(y.Rhs) {
					for i, l := range y.Lhs {
						add(l, x.sources(f, y.Rhs[i], tv, nil))
					}
				} else if len(y.Rhs) == 1 {
					src := x.sources(f, y.Rhs[0], tv, nil)
					for _, l := range y.Lhs {
						add(l, src)
					}
				}
			case *ast.ValueSpec:
				for i, nm := range y.Names {
					if len(y.Values) == len(y.Names) {
						add(nm, x.sources(f, y.Values[i], tv, nil))
					} else if len(y.Values) == 1 {
						add(nm, x.sources(f, y.Values[0], tv, nil))
					}
				}
			case *ast.RangeStmt:
				src := x.sources(f, y.X, tv, nil)
				if y.Key != nil {
					add(y.Key, src)
				}
				if y.Value != nil {
					add(y.Value, src)
				}
			}
			return true
		})
	}
	return tv
}

func (x *rfCtx) note(m map[string]*rfNote, f *kit.Func, n ast.Node, format string, a ...any) {
	k := fmt.Sprintf("%s|%d", f.Name, n.Pos())
	if _, ok := m[k]; !ok {
		m[k] = &rfNote{f: f, node: n, msg: fmt.Sprintf(format, a...)}
	}
}

func rfModeName(mode string) string {
	switch mode {
	case "W":
		return "the write lock"
	case "R":
		return "the read lock"
	}
	return "no lock"
}

// walk explores f with the caller holding the mutex in mode amb ("" = not
// held) and records what each access and each dependent store meets.
func (x *rfCtx) walk(f *kit.Func, amb, chain string) {
	key := fmt.Sprintf("%d|%s", f.Pos(), amb)
	if x.walks[key] {
		return
	}
	x.walks[key] = true
	if f.Body == nil {
		return
	}
	if strings.Count(chain, " → ") > 8 {
		x.note(x.und, f, f.Node(), "call chain %s is too deep to follow", chain)
		return
	}
	x.c.Analysed(f)
	info := f.Info()
	tv := x.taintOf(f)
	// function literals that touch the list or the mutex run at a time the walk
	// does not know (a deferred literal that only unlocks is the usual idiom)
	onlyUnlock := func(lit *ast.FuncLit) bool {
		if len(lit.Body.List) != 1 {
			return false
		}
		es, ok := lit.Body.List[0].(*ast.ExprStmt)
		if !ok {
			return false
		}
		call, ok := es.X.(*ast.CallExpr)
		if !ok {
			return false
		}
		fld, op := lockOp(info, call)
		return op == "U" && fld == types.Object(x.lock)
	}
	deferUnlock := func(d *ast.DeferStmt) bool {
		if fld, op := lockOp(info, d.Call); op == "U" && fld == types.Object(x.lock) {
			return true
		}
		if lit, ok := ast.Unparen(d.Call.Fun).(*ast.FuncLit); ok && onlyUnlock(lit) {
			return true
		}
		return false
	}
	ast.Inspect(f.Body, func(n ast.Node) bool {
		lit, ok := n.(*ast.FuncLit)
		if !ok {
			return true
		}
		if d, isDefer := x.c.P.Parent(f.File, x.c.P.Parent(f.File, lit)).(*ast.DeferStmt); isDefer && deferUnlock(d) {
			return false
		}
		if lf := x.c.P.LitFunc(f.PkgRel(), lit); lf != nil && lf.Body != nil {
			t := x.direct(lf)
			for _, call := range lf.AllCalls(true) {
				if ct := x.touch[x.callee(lf, call)]; ct != nil && (ct.reads || ct.stores || ct.locks) {
					t.reads = true
				}
			}
			// a literal that only calls functions which lock for themselves, defined
			// where no lock is held and using nothing read from the registers, is an
			// entry of its own whenever it runs
			dt, fd := x.direct(lf), x.direct(f)
			captures := false
			ast.Inspect(lit.Body, func(y ast.Node) bool {
				if id, ok := y.(*ast.Ident); ok && len(tv[kit.ObjOf(info, id)]) > 0 {
					captures = true
				}
				return !captures
			})
			if (t.reads || t.stores || t.locks) && !dt.reads && !dt.stores && !dt.locks && !fd.locks && amb == "" && !captures {
				x.walk(lf, "", chain+" → "+lf.Name)
				return false
			}
			if t.reads || t.stores || t.locks {
				x.note(x.und, f, lit, "a function literal in %s touches the register list or its mutex; when it runs relative to the critical sections of %s is not followed", f.Name, f.Name)
			}
		}
		return false
	})

	eff := func(s kit.S) string {
		if amb != "" {
			return amb
		}
		return s.Get("lk")
	}
	srcVal := func(s kit.S) string {
		if eff(s) != "" {
			return "cur"
		}
		return "closed"
	}
	closeAll := func(s kit.S) kit.S {
		for _, k := range s.Keys() {
			if strings.HasPrefix(k, "src:") && s.Get(k) == "cur" {
				s = s.Set(k, "closed")
			}
		}
		return s
	}
	srcKey := func(p token.Pos) string { return fmt.Sprintf("src:%d", p) }
	// dependent store: every read site the stored value (or its target) derives
	// from must have been visited in the critical section that is still open
	dependent := func(n ast.Node, deps map[token.Pos]bool, viaCall *kit.Func, s kit.S) {
		if len(deps) == 0 {
			return
		}
		if viaCall == nil && eff(s) == "" {
			return // an unlocked store is reported as such
		}
		rec := x.rmw[n]
		if rec == nil {
			rec = &rfRMW{f: f, node: n}
			x.rmw[n] = rec
		}
		e := eff(s)
		var stale []string
		seen := 0
		for p := range deps {
			v := s.Get(srcKey(p))
			if v == "" {
				continue
			}
			seen++
			if e == "" || v == "closed" {
				stale = append(stale, x.c.P.Pos(p))
			}
		}
		if seen == 0 {
			return
		}
		sort.Strings(stale)
		if len(stale) == 0 {
			rec.ok = append(rec.ok, fmt.Sprintf("%s: read and store under %s", chain, rfModeName(e)))
			return
		}
		if e != "" {
			// registers read again in the section that stores: a compare-and-retry
			// scheme may be re-validating the stale value; not judged
			for _, k := range s.Keys() {
				if strings.HasPrefix(k, "src:") && s.Get(k) == "cur" {
					rec.und = append(rec.und, fmt.Sprintf("reached as %s: the value stored derives from registers read at %s in an earlier critical section, but the storing section reads the list again (%s); whether that re-validates the earlier read is not judged", chain, strings.Join(uniqStrings(stale), ", "), x.c.P.Pos(rfPosOfKey(k))))
					return
				}
			}
		}
		where := "stores under " + rfModeName(e)
		if viaCall != nil && e == "" {
			where = fmt.Sprintf("%s takes the lock again for the store", viaCall.Name)
		}
		rec.bad = append(rec.bad, fmt.Sprintf("reached as %s: the registers read at %s were read in a critical section that has ended (or in none) and %s", chain, strings.Join(uniqStrings(stale), ", "), where))
	}
	visit := func(n ast.Node, s kit.S) kit.S {
		if n == nil {
			return s
		}
		if _, isDefer := n.(*ast.DeferStmt); isDefer {
			return s
		}
		reads := x.readSels(f, n)
		targets := x.storeTargets(f, n)
		if len(reads) == 0 && len(targets) == 0 {
			return s
		}
		e := eff(s)
		if len(reads) > 0 {
			x.access(f, n, false, e, chain)
			for _, sel := range reads {
				s = s.Set(srcKey(sel.Pos()), srcVal(s))
			}
		}
		if len(targets) > 0 {
			x.access(f, n, true, e, chain)
			deps := map[token.Pos]bool{}
			skip := map[*ast.SelectorExpr]bool{}
			for _, l := range targets {
				// the target's own mention of the list is the store, not a read
				ast.Inspect(l, func(y ast.Node) bool {
					if sel, ok := y.(*ast.SelectorExpr); ok && x.isSliceSel(info, sel) {
						skip[sel] = true
						return false
					}
					return true
				})
				for p := range x.sources(f, l, tv, skip) {
					deps[p] = true
				}
			}
			switch y := n.(type) {
			case *ast.AssignStmt:
				for _, rhs := range y.Rhs {
					for p := range x.sources(f, rhs, tv, nil) {
						deps[p] = true
					}
				}
			}
			dependent(n, deps, nil, s)
		}
		return s
	}

	st := &kit.Std{F: f}
	st.OnCall = func(call *ast.CallExpr, n ast.Node, s kit.S) []kit.S {
		if fld, op := lockOp(info, call); op != "" && fld == types.Object(x.lock) {
			switch op {
			case "W", "R":
				if e := eff(s); e != "" {
					x.note(x.viol, f, call, "`%s` in %s (reached as %s) acquires the register file's mutex while %s is already held by the same goroutine: sync.RWMutex is not reentrant, the call blocks for ever (a second read lock blocks as soon as a writer waits) and the request is never answered", f.Str(call), f.Name, chain, rfModeName(e))
				}
				return []kit.S{s.Set("lk", op)}
			default:
				if amb != "" && s.Get("lk") == "" {
					x.note(x.und, f, call, "%s releases a mutex its caller acquired (reached as %s): the critical sections cannot be attributed", f.Name, chain)
				}
				if amb == "" {
					s = closeAll(s)
				}
				return []kit.S{s.Del("lk")}
			}
		}
		cf := x.callee(f, call)
		ct := x.touch[cf]
		if cf == nil || ct == nil || !(ct.reads || ct.stores || ct.locks) {
			return nil
		}
		if _, isGo := n.(*ast.GoStmt); isGo {
			x.note(x.und, f, call, "%s starts %s on another goroutine; its accesses are not followed", f.Name, cf.Name)
			return nil
		}
		if cf.Lit != nil {
			return nil // reported above
		}
		x.walk(cf, eff(s), chain+" → "+cf.Name)
		if ct.stores {
			deps := map[token.Pos]bool{}
			for _, a := range call.Args {
				for p := range x.sources(f, a, tv, nil) {
					deps[p] = true
				}
			}
			dependent(call, deps, cf, s)
		}
		if ct.reads && cf.Obj != nil && rfValueResult(cf) {
			s = s.Set(srcKey(call.Pos()), srcVal(s))
		}
		return []kit.S{s}
	}
	st.OnNode = func(n ast.Node, s kit.S) []kit.S {
		if d, ok := n.(*ast.DeferStmt); ok {
			if deferUnlock(d) {
				return []kit.S{s.Set("dfr", "1")}
			}
			if cf := x.callee(f, d.Call); cf != nil && x.touch[cf] != nil && (x.touch[cf].reads || x.touch[cf].stores || x.touch[cf].locks) {
				x.note(x.und, f, d, "%s defers %s, which touches the register list or its mutex; deferred accesses are not followed", f.Name, cf.Name)
			}
			return []kit.S{s}
		}
		return []kit.S{visit(n, s)}
	}
	cl := st.Client()
	cond, other := cl.Cond, cl.Other
	cl.Cond = func(e ast.Expr, s kit.S) (t, ff []kit.S) { return cond(e, visit(e, s)) }
	cl.Other = func(br kit.Branch, s kit.S) (t, ff []kit.S) {
		switch br.Kind {
		case kit.BrRange:
			if br.Range != nil {
				s = visit(br.Range.X, s)
			}
		case kit.BrCase:
			if br.Tag != nil {
				s = visit(br.Case, visit(br.Tag, s))
			}
		}
		return other(br, s)
	}
	res := x.c.P.Graph(f).Run(kit.NewS(), cl)
	x.c.AddValuations(1)
	if res.Overflow {
		x.note(x.und, f, f.Node(), "too many paths in %s", f.Name)
		return
	}
	for _, e := range res.Exits {
		if e.State.Get("lk") == "" || e.State.Get("dfr") == "1" {
			continue
		}
		var at ast.Node = f.Node()
		if e.Return != nil {
			at = e.Return
		}
		if amb == "" && f.Obj != nil && f.Obj.Exported() {
			x.note(x.viol, f, at, "%s returns at %s with the register file's mutex still held (%s, no deferred unlock): the next request that touches the registers blocks for ever", f.Name, f.At(at), rfModeName(e.State.Get("lk")))
		} else {
			x.note(x.und, f, at, "%s (reached as %s) returns with the mutex held; lock hand-over between functions is not followed", f.Name, chain)
		}
	}
}

func (x *rfCtx) access(f *kit.Func, n ast.Node, store bool, mode, chain string) {
	k := rfAccKey{n, store}
	rec := x.acc[k]
	if rec == nil {
		rec = &rfAccess{f: f, node: n, store: store, ctx: map[string]string{}}
		x.acc[k] = rec
	}
	if _, ok := rec.ctx[mode]; !ok {
		rec.ctx[mode] = chain
	}
}

func (x *rfCtx) report() {
	r := x.r
	var accs []*rfAccess
	for _, a := range x.acc {
		accs = append(accs, a)
	}
	sort.Slice(accs, func(i, j int) bool {
		if accs[i].node.Pos() != accs[j].node.Pos() {
			return accs[i].node.Pos() < accs[j].node.Pos()
		}
		return !accs[i].store && accs[j].store
	})
	dup := map[string]int{}
	label := func(f *kit.Func, l string) string {
		k := f.Name + "|" + l
		dup[k]++
		if dup[k] > 1 {
			return fmt.Sprintf("%s #%d", l, dup[k])
		}
		return l
	}
	for _, a := range accs {
		f := a.f
		var modes []string
		for m := range a.ctx {
			modes = append(modes, m)
		}
		sort.Strings(modes)
		held := func() string {
			var hs []string
			for _, m := range modes {
				hs = append(hs, rfModeName(m))
			}
			return strings.Join(hs, " / ")
		}
		if a.store {
			o := r.Ob(f, a.node, label(f, "store `"+trunc60(f.Str(a.node))+"`"), "every store into the register list runs with the register file's mutex held in write mode")
			switch {
			case a.ctx[""] != "":
				o.Violation("`%s` in %s is reached as %s with no lock held: two writers (two connections, or a connection and the node's own code) interleave and one acknowledged write is lost or the list is corrupted", f.Str(a.node), f.Name, a.ctx[""])
			case a.ctx["R"] != "":
				o.Violation("`%s` in %s is reached as %s with only the read lock held: read locks do not exclude each other, two writers interleave and an acknowledged write is lost", f.Str(a.node), f.Name, a.ctx["R"])
			default:
				o.OK("reached under %s only (%s)", held(), a.ctx["W"])
			}
			continue
		}
		o := r.Ob(f, a.node, label(f, "read `"+trunc60(f.Str(a.node))+"`"), "every read of the register list runs with the register file's mutex held")
		if ch := a.ctx[""]; ch != "" {
			o.Violation("`%s` in %s is reached as %s with no lock held while writers modify the list: the value returned to the client need not be one the server ever held", trunc60(f.Str(a.node)), f.Name, ch)
		} else {
			o.OK("reached under %s only", held())
		}
	}
	var rmws []*rfRMW
	for _, w := range x.rmw {
		if len(w.ok)+len(w.bad)+len(w.und) > 0 {
			rmws = append(rmws, w)
		}
	}
	sort.Slice(rmws, func(i, j int) bool { return rmws[i].node.Pos() < rmws[j].node.Pos() })
	for _, w := range rmws {
		f := w.f
		o := r.Ob(f, w.node, label(f, "read-modify-write `"+trunc60(f.Str(w.node))+"`"), "a store derived from stored registers happens in the critical section in which they were read")
		if len(w.bad) == 0 && len(w.und) > 0 {
			o.Undecided("%s", w.und[0])
			continue
		}
		if len(w.bad) > 0 {
			o.Violation("`%s` in %s stores a value (or picks a target) computed from registers read earlier, %s: a write by another client between the read and the store is overwritten with the stale word although it was acknowledged (lost update; e.g. two coils of one 16-bit register)", trunc60(f.Str(w.node)), f.Name, w.bad[0])
			continue
		}
		o.OK("%s", w.ok[0])
	}
	emit := func(m map[string]*rfNote, viol bool) {
		var ks []string
		for k := range m {
			ks = append(ks, k)
		}
		sort.Strings(ks)
		for _, k := range ks {
			n := m[k]
			o := r.Ob(n.f, n.node, "lock discipline of "+n.f.Name, "the mutex is acquired once, released before returning, and critical sections can be attributed")
			if viol {
				o.Violation("%s", n.msg)
			} else {
				o.Undecided("%s", n.msg)
			}
		}
	}
	emit(x.viol, true)
	emit(x.und, false)
}

func rfPosOfKey(k string) token.Pos {
	var p int
	fmt.Sscanf(strings.TrimPrefix(k, "src:"), "%d", &p)
	return token.Pos(p)
}

func trunc60(s string) string {
	s = strings.Join(strings.Fields(s), " ")
	if len(s) > 60 {
		return s[:57] + "..."
	}
	return s
}
