//go:build wip_c02

package props

import "siotcheck/kit"

func c02Tables(m *c02Model, r2 *kit.Rule) {}
