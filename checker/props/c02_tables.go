package props

import (
	"fmt"
	"go/ast"
	"go/constant"
	"go/token"
	"go/types"
	"sort"
	"strconv"
	"strings"

	"golang.org/x/tools/go/cfg"

	"siotcheck/kit"
)

// R2: the comparison region of the comparing function (everything after the
// "hashes differ" edge) is executed abstractly under concrete small
// scenarios.  A scenario fixes, for node points, edge points and children,
// how many entries each copy has (0..2), which local entry matches which
// remote one and, per matched pair, the order of the two timestamps (resp.
// whether the two hashes differ), and whether the node is the device root.
// Range loops over the six lists iterate over the scenario's entries; the
// identity / time / id / hash comparisons are answered from the scenario;
// boolean locals, integer indices and bool-valued maps/slices indexed by a
// loop index are tracked exactly.  Everything else is nondeterministic.

type c02GS struct { // scenario of one group
	nL, nR int
	rel    map[[2]int]string // (local idx, remote idx) -> relation
}

type c02Scn struct {
	g    map[string]*c02GS // "np","ep","ch"
	root bool
}

var c02Groups = []struct {
	name, title string
	rels        []string
}{
	{"np", "node points", []string{"gt", "lt", "eq"}},
	{"ep", "edge points", []string{"gt", "lt", "eq"}},
	{"ch", "child nodes", []string{"ne", "eq"}},
}

func c02EnumGroup(rels []string) []*c02GS {
	var out []*c02GS
	for nL := 0; nL <= 2; nL++ {
		for nR := 0; nR <= 2; nR++ {
			var rec func(i int, used map[int]bool, cur map[[2]int]string)
			rec = func(i int, used map[int]bool, cur map[[2]int]string) {
				if i == nL {
					cp := map[[2]int]string{}
					for k, v := range cur {
						cp[k] = v
					}
					out = append(out, &c02GS{nL, nR, cp})
					return
				}
				rec(i+1, used, cur) // unmatched
				for j := 0; j < nR; j++ {
					if used[j] {
						continue
					}
					used[j] = true
					for _, r := range rels {
						cur[[2]int{i, j}] = r
						rec(i+1, used, cur)
					}
					delete(cur, [2]int{i, j})
					used[j] = false
				}
			}
			rec(0, map[int]bool{}, map[[2]int]string{})
		}
	}
	return out
}

func c02Reps(rels []string) []*c02GS {
	return []*c02GS{
		{0, 0, map[[2]int]string{}},
		{2, 2, map[[2]int]string{{0, 0}: rels[0], {1, 1}: rels[1]}},
		{2, 2, map[[2]int]string{}},
	}
}

func (sc *c02Scn) describe() string {
	var parts []string
	names := map[string][2]string{"np": {"p", "q"}, "ep": {"e", "f"}, "ch": {"c", "d"}}
	for _, g := range c02Groups {
		gs := sc.g[g.name]
		if gs.nL == 0 && gs.nR == 0 {
			continue
		}
		nm := names[g.name]
		lst := func(pre string, n int) string {
			var xs []string
			for i := 0; i < n; i++ {
				xs = append(xs, pre+strconv.Itoa(i))
			}
			return "[" + strings.Join(xs, ",") + "]"
		}
		d := fmt.Sprintf("%s LOCAL %s REMOTE %s", g.title, lst(nm[0], gs.nL), lst(nm[1], gs.nR))
		var keys [][2]int
		for k := range gs.rel {
			keys = append(keys, k)
		}
		sort.Slice(keys, func(i, j int) bool { return keys[i][0] < keys[j][0] })
		for _, k := range keys {
			d += fmt.Sprintf(", %s%d~%s%d %s", nm[0], k[0], nm[1], k[1], map[string]string{
				"gt": "local newer", "lt": "remote newer", "eq": "same " + map[bool]string{true: "hash", false: "time"}[g.name == "ch"], "ne": "hashes differ"}[gs.rel[k]])
		}
		parts = append(parts, d)
	}
	if len(parts) == 0 {
		parts = append(parts, "all lists empty")
	}
	return strings.Join(parts, "; ") + "; device root: " + map[bool]string{true: "yes", false: "no"}[sc.root]
}

// c02Req is one outcome the scenario requires.
type c02Req struct {
	row  string // table row (obligation key)
	want string // human text
	// match
	kind  string // "S","T","R"
	side  string // S,T: receiving side "L"/"R"
	grp   string
	elems []string // acceptable payload / id elements
}

func c02ElemName(grp, side string, i int) string { return grp + ":" + side + ":" + strconv.Itoa(i) }

func (sc *c02Scn) required() []c02Req {
	var out []c02Req
	for _, g := range c02Groups {
		gs := sc.g[g.name]
		if g.name == "ep" && sc.root {
			continue // the device root's own edge is not synchronised
		}
		matchedL, matchedR := map[int]bool{}, map[int]bool{}
		for k, r := range gs.rel {
			matchedL[k[0]], matchedR[k[1]] = true, true
			a, b := c02ElemName(g.name, "L", k[0]), c02ElemName(g.name, "R", k[1])
			switch r {
			case "gt":
				out = append(out, c02Req{row: g.title + ": local copy newer", want: "send the local point to REMOTE", kind: "S", side: "R", grp: g.name, elems: []string{a}})
			case "lt":
				out = append(out, c02Req{row: g.title + ": remote copy newer", want: "send the remote point to LOCAL", kind: "S", side: "L", grp: g.name, elems: []string{b}})
			case "ne":
				out = append(out, c02Req{row: g.title + ": hashes differ", want: "compare the child recursively", kind: "R", grp: g.name, elems: []string{a, b}})
			}
		}
		for i := 0; i < gs.nL; i++ {
			if matchedL[i] {
				continue
			}
			a := c02ElemName(g.name, "L", i)
			if g.name == "ch" {
				out = append(out, c02Req{row: g.title + ": only on LOCAL", want: "hand the local child to the transfer towards REMOTE", kind: "T", side: "R", grp: g.name, elems: []string{a}})
			} else {
				out = append(out, c02Req{row: g.title + ": only on LOCAL", want: "send the local point to REMOTE", kind: "S", side: "R", grp: g.name, elems: []string{a}})
			}
		}
		for j := 0; j < gs.nR; j++ {
			if matchedR[j] {
				continue
			}
			b := c02ElemName(g.name, "R", j)
			if g.name == "ch" {
				out = append(out, c02Req{row: g.title + ": only on REMOTE", want: "hand the remote child to the transfer towards LOCAL", kind: "T", side: "L", grp: g.name, elems: []string{b}})
			} else {
				out = append(out, c02Req{row: g.title + ": only on REMOTE", want: "send the remote point to LOCAL", kind: "S", side: "L", grp: g.name, elems: []string{b}})
			}
		}
	}
	return out
}

// ---------------------------------------------------------------------------

type c02Interp struct {
	m    *c02Model
	f    *kit.Func
	info *types.Info
	st   *kit.Std
	sc   *c02Scn

	timeF, typeF, keyF *types.Var
	matchM             map[*types.Func][]*types.Var // identity method -> field compared with parameter i
	rangeX             map[ast.Expr]*ast.RangeStmt
	childList          map[types.Object]string // listing result -> "L"/"R"
	alias              map[types.Object][2]string
	containers         map[types.Object]bool
	tracked            map[types.Object]bool // loop variables of tracked ranges, the copies, aliases
	pIdx, idIdx        int                   // positions of (parent, id) among F's parameters
	idChanged          bool                  // the id the copies were fetched with is reassigned somewhere

	client  kit.Client
	stack   []*kit.Func // callees being evaluated inline, innermost last
	scanned map[*kit.Func]bool
	unsafe  map[*kit.Func]bool
	inlined map[*kit.Func]bool
	fnByKey map[string]*kit.Func

	// per run
	unknown        []string
	unknownRelated bool
}

func c02SideAbbr(s string) string {
	switch s {
	case c02Local:
		return "L"
	case c02Remote:
		return "R"
	}
	return "?"
}

func c02SideLong(s string) string {
	switch s {
	case "L":
		return c02Local
	case "R":
		return c02Remote
	}
	return "an untyped connection"
}

// copyOf names the compared copy an expression denotes: "L", "U" or "".
func (it *c02Interp) copyOf(e ast.Expr, s kit.S) string {
	id, ok := ast.Unparen(e).(*ast.Ident)
	if !ok {
		return ""
	}
	o := kit.ObjOf(it.info, id)
	switch {
	case o == nil:
		return ""
	case o == it.m.L:
		return "L"
	case o == it.m.U:
		return "U"
	}
	return s.Get("n:" + kit.VarID(o))
}

// copyField: e is `<copy>.<fld>`.
func (it *c02Interp) copyField(e ast.Expr, fld *types.Var, s kit.S) string {
	sel, ok := ast.Unparen(e).(*ast.SelectorExpr)
	if !ok || kit.ObjOf(it.info, sel) != types.Object(fld) {
		return ""
	}
	return it.copyOf(sel.X, s)
}

func (it *c02Interp) listOf(e ast.Expr, s kit.S) (grp, side string, ok bool) {
	e = ast.Unparen(e)
	switch x := e.(type) {
	case *ast.SelectorExpr:
		switch it.copyOf(x.X, s) {
		case "L":
			side = "L"
		case "U":
			side = "R"
		default:
			return
		}
		switch kit.ObjOf(it.info, x) {
		case types.Object(it.m.pointsF):
			return "np", side, true
		case types.Object(it.m.edgePointsF):
			return "ep", side, true
		}
	case *ast.Ident:
		o := kit.ObjOf(it.info, x)
		if o == nil {
			return
		}
		if sd, ok := it.childList[o]; ok {
			return "ch", sd, true
		}
		if a, ok := it.alias[o]; ok {
			return a[0], a[1], true
		}
		if l := s.Get("l:" + kit.VarID(o)); l != "" {
			if p := strings.Split(l, ":"); len(p) == 2 {
				return p[0], p[1], true
			}
		}
	}
	return "", "", false
}

func (it *c02Interp) size(grp, side string) int {
	gs := it.sc.g[grp]
	if side == "L" {
		return gs.nL
	}
	return gs.nR
}

func (it *c02Interp) intOf(e ast.Expr, s kit.S) (int, bool) {
	e = ast.Unparen(e)
	if call, ok := e.(*ast.CallExpr); ok && len(call.Args) == 1 {
		if b, ok := kit.Callee(it.info, call).(*types.Builtin); ok && b.Name() == "len" {
			if g, sd, ok := it.listOf(call.Args[0], s); ok {
				return it.size(g, sd), true
			}
			return 0, false
		}
	}
	if be, ok := e.(*ast.BinaryExpr); ok && (be.Op == token.ADD || be.Op == token.SUB) {
		a, ok1 := it.intOf(be.X, s)
		b, ok2 := it.intOf(be.Y, s)
		if ok1 && ok2 {
			if be.Op == token.ADD {
				return a + b, true
			}
			return a - b, true
		}
		return 0, false
	}
	if v, ok := it.st.FoldExpr(e, s); ok && v.Kind() == constant.Int {
		if i, exact := constant.Int64Val(v); exact {
			return int(i), true
		}
	}
	return 0, false
}

func (it *c02Interp) mentionsLen(e ast.Expr, s kit.S) bool {
	found := false
	ast.Inspect(e, func(n ast.Node) bool {
		if call, ok := n.(*ast.CallExpr); ok && len(call.Args) == 1 {
			if b, ok := kit.Callee(it.info, call).(*types.Builtin); ok && b.Name() == "len" {
				if _, _, ok := it.listOf(call.Args[0], s); ok {
					found = true
				}
			}
		}
		return true
	})
	return found
}

// elemOf resolves an expression to a scenario entry ("np:L:0"; suffix "!"
// when the variable was modified after binding).
func (it *c02Interp) elemOf(e ast.Expr, s kit.S) string {
	e = ast.Unparen(e)
	switch x := e.(type) {
	case *ast.Ident:
		if o := kit.ObjOf(it.info, x); o != nil {
			return s.Get("b:" + kit.VarID(o))
		}
	case *ast.IndexExpr:
		if g, sd, ok := it.listOf(x.X, s); ok {
			if i, ok := it.intOf(x.Index, s); ok && i >= 0 && i < it.size(g, sd) {
				return c02ElemName(g, sd, i)
			}
		}
	case *ast.CallExpr:
		// entry returned by a callee that was evaluated inline
		if v := it.st.CallResult(x, 0, s); strings.Count(v, ":") == 2 {
			return v
		}
	}
	return ""
}

func (it *c02Interp) elemField(e ast.Expr, fld *types.Var, s kit.S) string {
	sel, ok := ast.Unparen(e).(*ast.SelectorExpr)
	if !ok || kit.ObjOf(it.info, sel) != types.Object(fld) {
		return ""
	}
	return it.elemOf(sel.X, s)
}

func c02Split(el string) (grp, side string, idx int, ok bool) {
	p := strings.Split(el, ":")
	if len(p) != 3 || strings.HasSuffix(el, "!") {
		return
	}
	i, err := strconv.Atoi(p[2])
	if err != nil {
		return
	}
	return p[0], p[1], i, true
}

// relOf returns the relation of a matched pair seen from the local entry.
func (it *c02Interp) relOf(a, b string) (rel string, aLocal, matched, comparable bool) {
	ga, sa, ia, ok1 := c02Split(a)
	gb, sb, ib, ok2 := c02Split(b)
	if !ok1 || !ok2 || ga != gb || sa == sb {
		return "", false, false, false
	}
	if sa == "R" {
		ia, ib = ib, ia
	}
	r, ok := it.sc.g[ga].rel[[2]int{ia, ib}]
	return r, sa == "L", ok, true
}

func (it *c02Interp) noteUnknown(e ast.Expr, related bool) {
	it.unknown = append(it.unknown, it.f.Str(e))
	if related {
		it.unknownRelated = true
	}
}

func (it *c02Interp) mentionsTracked(e ast.Node, s kit.S) bool {
	found := false
	ast.Inspect(e, func(n ast.Node) bool {
		if id, ok := n.(*ast.Ident); ok {
			if o := kit.ObjOf(it.info, id); o != nil {
				id := kit.VarID(o)
				if it.tracked[o] || it.containers[o] || s.Has("b:"+id) || s.Has("n:"+id) || s.Has("l:"+id) {
					found = true
				}
				if isErrorType(o.Type()) {
					found = true
				}
			}
		}
		return true
	})
	return found
}

// fold answers a condition leaf from the scenario.
func (it *c02Interp) fold(e ast.Expr, s kit.S) (bool, bool) {
	e = ast.Unparen(e)
	switch x := e.(type) {
	case *ast.CallExpr:
		sel, isSel := ast.Unparen(x.Fun).(*ast.SelectorExpr)
		if !isSel {
			return false, false
		}
		callee := kit.Callee(it.info, x)
		switch q := kit.QualName(callee); q {
		case "time.(Time).After", "time.(Time).Before", "time.(Time).Equal":
			if len(x.Args) != 1 {
				return false, false
			}
			a, b := it.elemField(sel.X, it.timeF, s), it.elemField(x.Args[0], it.timeF, s)
			if a == "" && b == "" {
				return false, false
			}
			rel, aLocal, matched, cmp := it.relOf(a, b)
			if !cmp || !matched {
				return false, false // order of unrelated entries is not part of the scenario
			}
			if !aLocal {
				rel = map[string]string{"gt": "lt", "lt": "gt", "eq": "eq"}[rel]
			}
			switch q {
			case "time.(Time).After":
				return rel == "gt", true
			case "time.(Time).Before":
				return rel == "lt", true
			default:
				return rel == "eq", true
			}
		}
		if fn, ok := callee.(*types.Func); ok {
			if flds, ok := it.matchM[fn]; ok && len(x.Args) == len(flds) {
				a := it.elemOf(sel.X, s)
				b := ""
				for i, arg := range x.Args {
					bi := it.elemField(arg, flds[i], s)
					if bi == "" || (b != "" && bi != b) {
						return false, false
					}
					b = bi
				}
				if _, _, matched, cmp := it.relOf(a, b); cmp {
					return matched, true
				}
			}
		}
	case *ast.BinaryExpr:
		switch x.Op {
		case token.EQL, token.NEQ:
			val, ok := it.foldEq(x, s)
			if ok {
				return val == (x.Op == token.EQL), true
			}
		}
		switch x.Op {
		case token.EQL, token.NEQ, token.LSS, token.LEQ, token.GTR, token.GEQ:
			if it.mentionsLen(x, s) {
				a, ok1 := it.intOf(x.X, s)
				b, ok2 := it.intOf(x.Y, s)
				if ok1 && ok2 {
					return constant.Compare(constant.MakeInt64(int64(a)), x.Op, constant.MakeInt64(int64(b))), true
				}
			}
		}
	case *ast.IndexExpr:
		if o := kit.ObjOf(it.info, x.X); o != nil && it.containers[o] {
			if v, ok := it.cell(o, x.Index, s); ok {
				return v == "true", v == "true" || v == "false"
			}
		}
	}
	return false, false
}

// foldEq evaluates `a == b` leaves the scenario knows: ids and hashes of
// children, the device-root test.
func (it *c02Interp) foldEq(x *ast.BinaryExpr, s kit.S) (equal, ok bool) {
	m := it.m
	// child ids
	if a, b := it.elemField(x.X, m.idF, s), it.elemField(x.Y, m.idF, s); a != "" && b != "" {
		if _, _, matched, cmp := it.relOf(a, b); cmp {
			return matched, true
		}
		return false, false
	}
	if a, b := it.elemField(x.X, m.hashF, s), it.elemField(x.Y, m.hashF, s); a != "" && b != "" {
		if rel, _, matched, cmp := it.relOf(a, b); cmp && matched {
			return rel == "eq", true
		}
		return false, false
	}
	// device root: <copy>.ID against the cached LOCAL root's ID
	isCopyID := func(e ast.Expr) bool {
		switch it.role(e, s) {
		case "L.ID", "U.ID", "P.ID":
			return true
		}
		return false
	}
	isRootID := func(e ast.Expr) bool {
		sel, ok := ast.Unparen(e).(*ast.SelectorExpr)
		if !ok || kit.ObjOf(it.info, sel) != types.Object(m.idF) {
			return false
		}
		in, ok := ast.Unparen(sel.X).(*ast.SelectorExpr)
		if !ok {
			return false
		}
		fv, _ := kit.ObjOf(it.info, in).(*types.Var)
		return fv != nil && m.rootSide[fv] == c02Local
	}
	if (isCopyID(x.X) && isRootID(x.Y)) || (isRootID(x.X) && isCopyID(x.Y)) {
		return it.sc.root, true
	}
	return false, false
}

func (it *c02Interp) cell(o types.Object, idx ast.Expr, s kit.S) (string, bool) {
	id := kit.VarID(o)
	if s.Get("cd:"+id) != "" {
		return "", false
	}
	i, ok := it.intOf(idx, s)
	if !ok {
		return "", false
	}
	k := "c:" + id + ":" + strconv.Itoa(i)
	if !s.Has(k) {
		return "false", true
	}
	return s.Get(k), true
}

func (it *c02Interp) isFreshContainer(e ast.Expr) bool {
	e = ast.Unparen(e)
	switch x := e.(type) {
	case *ast.CompositeLit:
		return len(x.Elts) == 0
	case *ast.CallExpr:
		if b, ok := kit.Callee(it.info, x).(*types.Builtin); ok && b.Name() == "make" {
			return true
		}
	}
	return false
}

func (it *c02Interp) onNode(n ast.Node, s kit.S) []kit.S {
	if e, ok := n.(ast.Expr); ok {
		if rs, ok := it.rangeX[e]; ok {
			s = s.Del("it:" + strconv.Itoa(int(rs.Pos())))
		}
		return []kit.S{s}
	}
	switch n.(type) {
	case *ast.GoStmt, *ast.DeferStmt:
		// runs outside the interpreted order
		return []kit.S{c02AddOut(s, "O|*|-|-|-|-|"+it.f.At(n))}
	}
	as, ok := n.(*ast.AssignStmt)
	if !ok {
		return []kit.S{s}
	}
	info := it.info
	// v, ok := container[i]
	if len(as.Lhs) == 2 && len(as.Rhs) == 1 {
		if ix, ok := ast.Unparen(as.Rhs[0]).(*ast.IndexExpr); ok {
			if o := kit.ObjOf(info, ix.X); o != nil && it.containers[o] {
				i, okI := it.intOf(ix.Index, s)
				if okI && s.Get("cd:"+kit.VarID(o)) == "" {
					k := "c:" + kit.VarID(o) + ":" + strconv.Itoa(i)
					if vo := kit.ObjOf(info, as.Lhs[1]); vo != nil {
						s = s.Set("v:"+kit.VarID(vo), strconv.FormatBool(s.Has(k)))
					}
					if vo := kit.ObjOf(info, as.Lhs[0]); vo != nil {
						val := "false"
						if s.Has(k) {
							val = s.Get(k)
						}
						if val == "true" || val == "false" {
							s = s.Set("v:"+kit.VarID(vo), val)
						}
					}
				}
				return []kit.S{s}
			}
		}
	}
	if len(as.Lhs) != len(as.Rhs) {
		call, _ := ast.Unparen(as.Rhs[0]).(*ast.CallExpr)
		for i, l := range as.Lhs {
			if id, ok := ast.Unparen(l).(*ast.Ident); ok {
				if o := kit.ObjOf(info, id); o != nil {
					s = it.unbind(s, o)
					if o == it.m.L || o == it.m.U {
						s = s.Set("poison", "a compared copy is reassigned: "+it.f.Str(as))
					}
					if call != nil {
						// results of a callee evaluated inline
						switch v := it.st.CallResult(call, i, s); {
						case strings.Count(v, ":") == 2:
							s = s.Set("b:"+kit.VarID(o), v)
						case strings.HasPrefix(v, "#"):
							s = s.Set("v:"+kit.VarID(o), v[1:])
						}
					}
				}
			}
		}
		return []kit.S{s}
	}
	for i, l := range as.Lhs {
		l = ast.Unparen(l)
		rhs := as.Rhs[i]
		switch x := l.(type) {
		case *ast.IndexExpr:
			o := kit.ObjOf(info, x.X)
			if o == nil || !it.containers[o] {
				continue
			}
			id := kit.VarID(o)
			idx, okI := it.intOf(x.Index, s)
			if !okI || as.Tok != token.ASSIGN {
				s = s.Set("cd:"+id, "1")
				continue
			}
			val := "?"
			if v, ok := it.st.FoldExpr(rhs, s); ok && v.Kind() == constant.Bool {
				val = strconv.FormatBool(constant.BoolVal(v))
			}
			s = s.Set("c:"+id+":"+strconv.Itoa(idx), val)
		case *ast.Ident:
			o := kit.ObjOf(info, x)
			if o == nil {
				continue
			}
			id := kit.VarID(o)
			if it.containers[o] {
				s = s.DelPrefix("c:" + id + ":").Del("cd:" + id)
				if !it.isFreshContainer(rhs) {
					s = s.Set("cd:"+id, "1")
				}
				continue
			}
			if o == it.m.L || o == it.m.U {
				s = s.Set("poison", "a compared copy is reassigned: "+it.f.Str(as))
				continue
			}
			s = it.unbind(s, o)
			if as.Tok != token.ASSIGN && as.Tok != token.DEFINE {
				continue
			}
			s = it.bindValue(s, o, rhs, s)
		case *ast.SelectorExpr:
			base := kit.ObjOf(info, x.X)
			if base == nil {
				continue
			}
			if _, isIdent := ast.Unparen(x.X).(*ast.Ident); !isIdent {
				continue
			}
			if b := s.Get("b:" + kit.VarID(base)); b != "" && !strings.HasSuffix(b, "!") {
				s = s.Set("b:"+kit.VarID(base), b+"!")
			}
			if it.copyOf(x.X, s) != "" {
				switch kit.ObjOf(info, x) {
				case types.Object(it.m.pointsF), types.Object(it.m.edgePointsF), types.Object(it.m.idF), types.Object(it.m.parentF):
					s = s.Set("poison", "a compared copy is modified: "+it.f.Str(as))
				}
			}
		}
	}
	return []kit.S{s}
}

// unbind forgets what the interpreter knew about a variable.
func (it *c02Interp) unbind(s kit.S, o types.Object) kit.S {
	id := kit.VarID(o)
	for _, pre := range []string{"b:", "l:", "n:", "cs:", "fn:", "r:"} {
		s = s.Del(pre + id)
	}
	return s
}

// bindValue records what variable / parameter o denotes when it receives the
// value of e (evaluated in state at): an entry, a list, a compared copy, a
// typed connection, a function value, an id role, a boolean or integer the
// scenario determines.  ok=false: e carries compared data the interpreter
// cannot name.
func (it *c02Interp) bindValueOK(s kit.S, o types.Object, e ast.Expr, at kit.S) (kit.S, bool) {
	id := kit.VarID(o)
	t := o.Type()
	switch {
	case c02IsConn(t):
		if sd := it.connSideOf(e, at); sd != "?" {
			s = s.Set("cs:"+id, sd)
		}
		return s, true
	case c02IsPoint(t):
		if el := it.payload(e, at); el != "" {
			return s.Set("b:"+id, el), true
		}
		return s, !it.mentionsTracked(e, at)
	case c02IsPoints(t), c02IsNodeEdgeSlice(t):
		if g, sd, ok := it.listOf(e, at); ok {
			return s.Set("l:"+id, g+":"+sd), true
		}
		if el := it.payload(e, at); el != "" && c02IsPoints(t) {
			return s.Set("b:"+id, el), true // one-entry list
		}
		return s, !it.mentionsTracked(e, at)
	case c02IsNodeEdge(t):
		if cp := it.copyOf(e, at); cp != "" {
			return s.Set("n:"+id, cp), true
		}
		if el := it.elemOf(e, at); el != "" {
			return s.Set("b:"+id, el), true
		}
		return s, !it.mentionsTracked(e, at)
	}
	if _, isFunc := t.Underlying().(*types.Signature); isFunc {
		if k := it.funcKey(e, at); k != "" {
			return s.Set("fn:"+id, k), true
		}
		return s.Set("fn:"+id, "?"), true
	}
	if b, ok := t.Underlying().(*types.Basic); ok {
		switch {
		case b.Info()&types.IsBoolean != 0:
			ts, fs := it.st.Eval.Eval(e, at)
			if len(ts) > 0 && len(fs) == 0 {
				s = s.Set("v:"+id, "true")
			} else if len(fs) > 0 && len(ts) == 0 {
				s = s.Set("v:"+id, "false")
			}
		case b.Info()&types.IsInteger != 0:
			if i, ok := it.intOf(e, at); ok {
				s = s.Set("v:"+id, strconv.Itoa(i))
			}
		case b.Info()&types.IsString != 0:
			if v, ok := it.st.FoldExpr(e, at); ok && v.Kind() == constant.String {
				s = s.Set("v:"+id, v.ExactString())
			} else if r := it.role(e, at); !strings.HasPrefix(r, "?") {
				s = s.Set("r:"+id, r)
			}
		}
		return s, true
	}
	return s, !it.mentionsTracked(e, at)
}

func (it *c02Interp) bindValue(s kit.S, o types.Object, e ast.Expr, at kit.S) kit.S {
	s2, _ := it.bindValueOK(s, o, e, at)
	return s2
}

// gc drops facts about variables declared inside the loop body.
func (it *c02Interp) gc(s kit.S, rs *ast.RangeStmt) kit.S {
	lo, hi := int(rs.Body.Pos()), int(rs.Body.End())
	for _, k := range s.Keys() {
		if !(strings.HasPrefix(k, "nn:") || strings.HasPrefix(k, "ev:") || strings.HasPrefix(k, "v:") || strings.HasPrefix(k, "b:") || strings.HasPrefix(k, "q:") ||
			strings.HasPrefix(k, "l:") || strings.HasPrefix(k, "n:") || strings.HasPrefix(k, "cs:") || strings.HasPrefix(k, "fn:") || strings.HasPrefix(k, "r:")) {
			continue
		}
		at := strings.LastIndexByte(k, '@')
		if at < 0 {
			continue
		}
		p, err := strconv.Atoi(k[at+1:])
		if err == nil && p >= lo && p <= hi {
			s = s.Del(k)
		}
	}
	return s
}

func (it *c02Interp) onBranch(br kit.Branch, s kit.S) (t, fl []kit.S, handled bool) {
	if br.Kind != kit.BrRange {
		return nil, nil, false
	}
	rs := br.Range
	s = it.gc(s, rs)
	grp, side, ok := it.listOf(rs.X, s)
	if !ok {
		return []kit.S{s}, []kit.S{s}, true
	}
	key := "it:" + strconv.Itoa(int(rs.Pos()))
	cur, _ := strconv.Atoi(s.Get(key))
	if cur >= it.size(grp, side) {
		return nil, []kit.S{s.Del(key)}, true
	}
	s2 := s.Set(key, strconv.Itoa(cur+1))
	if rs.Key != nil {
		if o := kit.ObjOf(it.info, rs.Key); o != nil {
			s2 = s2.Set("v:"+kit.VarID(o), strconv.Itoa(cur))
		}
	}
	if rs.Value != nil {
		if o := kit.ObjOf(it.info, rs.Value); o != nil {
			s2 = s2.Set("b:"+kit.VarID(o), c02ElemName(grp, side, cur))
		}
	}
	return []kit.S{s2}, nil, true
}

// role names what an id / parent argument denotes.
func (it *c02Interp) role(e ast.Expr, s kit.S) string {
	m := it.m
	e = ast.Unparen(e)
	if sel, ok := e.(*ast.SelectorExpr); ok {
		fld := kit.ObjOf(it.info, sel)
		fname := ""
		switch fld {
		case types.Object(m.idF):
			fname = "ID"
		case types.Object(m.parentF):
			fname = "Parent"
		default:
			return "?" + it.f.Str(e)
		}
		if cp := it.copyOf(sel.X, s); cp != "" {
			return cp + "." + fname
		}
		if el := it.elemOf(sel.X, s); el != "" {
			return "E." + fname + ":" + el
		}
		return "?" + it.f.Str(e)
	}
	if id, ok := e.(*ast.Ident); ok {
		if o := kit.ObjOf(it.info, id); o != nil {
			if o == m.pID && !it.idChanged {
				// the id both copies were fetched with; usable only while unchanged
				return "P.ID"
			}
			if r := s.Get("r:" + kit.VarID(o)); r != "" {
				return r
			}
		}
	}
	return "?" + it.f.Str(e)
}

// connSideOf types a connection argument: a typed field or a local alias of one.
func (it *c02Interp) connSideOf(e ast.Expr, s kit.S) string {
	if sd := c02SideAbbr(it.m.connSide(e)); sd != "?" {
		return sd
	}
	if id, ok := ast.Unparen(e).(*ast.Ident); ok {
		if o := kit.ObjOf(it.info, id); o != nil && s.Get("cs:"+kit.VarID(o)) != "" {
			return s.Get("cs:" + kit.VarID(o))
		}
	}
	return "?"
}

func c02AddOut(s kit.S, rec string) kit.S {
	cur := s.Get("out")
	var items []string
	if cur != "" {
		items = strings.Split(cur, "\n")
	}
	items = append(items, rec)
	sort.Strings(items)
	return s.Set("out", strings.Join(items, "\n"))
}

func (it *c02Interp) payload(e ast.Expr, s kit.S) string {
	e = ast.Unparen(e)
	if lit, ok := e.(*ast.CompositeLit); ok && len(lit.Elts) == 1 && c02IsPoints(it.info.TypeOf(lit)) {
		return it.elemOf(lit.Elts[0], s)
	}
	return it.elemOf(e, s)
}

// payloadRelated: does an unresolvable payload derive from the compared data?
func (it *c02Interp) payloadRelated(e ast.Expr, s kit.S) bool {
	if it.mentionsTracked(e, s) {
		return true
	}
	id, ok := ast.Unparen(e).(*ast.Ident)
	if !ok {
		return false
	}
	o := kit.ObjOf(it.info, id)
	rel := false
	ast.Inspect(it.cur().Body, func(n ast.Node) bool {
		as, ok := n.(*ast.AssignStmt)
		if !ok {
			return true
		}
		for i, l := range as.Lhs {
			if kit.ObjOf(it.info, l) != o {
				continue
			}
			var rhs ast.Expr
			if len(as.Rhs) == len(as.Lhs) {
				rhs = as.Rhs[i]
			} else if len(as.Rhs) == 1 {
				rhs = as.Rhs[0]
			}
			if rhs != nil && it.mentionsTracked(rhs, kit.NewS()) {
				rel = true
			}
		}
		return true
	})
	return rel
}

func (it *c02Interp) onCall(call *ast.CallExpr, n ast.Node, s kit.S) []kit.S {
	m := it.m
	if sg := m.sendSig(it.info, call); sg != nil {
		pay := it.payload(call.Args[sg.pay], s)
		if pay == "" {
			if !it.payloadRelated(call.Args[sg.pay], s) {
				return nil
			}
			pay = "?" + it.f.Str(call.Args[sg.pay])
		}
		side := it.connSideOf(call.Args[0], s)
		pr := "-"
		if sg.parent >= 0 {
			pr = it.role(call.Args[sg.parent], s)
		}
		rec := strings.Join([]string{"S", side, sg.kind(), pay, it.role(call.Args[sg.id], s), pr, it.f.At(call)}, "|")
		return []kit.S{c02AddOut(s, rec)}
	}
	if t := m.transferOf(it.cur(), call); t != nil && t.nodeIdx >= 0 && t.nodeIdx < len(call.Args) {
		pay := it.elemOf(call.Args[t.nodeIdx], s)
		if pay == "" {
			pay = "?" + it.f.Str(call.Args[t.nodeIdx])
		}
		rec := strings.Join([]string{"T", c02SideAbbr(t.dest), "ch", pay, "-", "-", it.f.At(call)}, "|")
		return []kit.S{c02AddOut(s, rec)}
	}
	if it.cur().CalleeFunc(call) == it.f && it.pIdx >= 0 && it.idIdx >= 0 && len(call.Args) > it.pIdx && len(call.Args) > it.idIdx {
		idr := it.role(call.Args[it.idIdx], s)
		pay := "?" + it.f.Str(call.Args[it.idIdx])
		if strings.HasPrefix(idr, "E.ID:") {
			pay = strings.TrimPrefix(idr, "E.ID:")
		}
		rec := strings.Join([]string{"R", "-", "ch", pay, idr, it.role(call.Args[it.pIdx], s), it.f.At(call)}, "|")
		return []kit.S{c02AddOut(s, rec)}
	}
	if b, ok := kit.Callee(it.info, call).(*types.Builtin); ok && b.Name() == "delete" && len(call.Args) == 2 {
		if o := kit.ObjOf(it.info, call.Args[0]); o != nil && it.containers[o] {
			if i, ok := it.intOf(call.Args[1], s); ok {
				return []kit.S{s.Del("c:" + kit.VarID(o) + ":" + strconv.Itoa(i))}
			}
			return []kit.S{s.Set("cd:"+kit.VarID(o), "1")}
		}
	}
	if _, isBuiltin := kit.Callee(it.info, call).(*types.Builtin); isBuiltin {
		return nil
	}
	if tv, ok := it.info.Types[call.Fun]; ok && tv.IsType() {
		return nil // conversion
	}
	// helpers and closures: evaluated inline under the scenario; where that is
	// not possible and the callee could have acted on the compared data, the
	// path is marked opaque (a missing outcome is then undecided, not a violation)
	cf, fnValue := it.resolveCallee(call, s)
	if cf != nil && it.wantInline(cf, call, s) {
		if out := it.inline(cf, call, s); out != nil {
			return out
		}
	}
	if it.couldAct(cf, fnValue, call, s) {
		return []kit.S{c02AddOut(s, "O|*|-|-|-|-|"+it.f.At(call))}
	}
	return nil
}

func (it *c02Interp) cur() *kit.Func {
	if n := len(it.stack); n > 0 {
		return it.stack[n-1]
	}
	return it.f
}

func (it *c02Interp) register(fn *kit.Func) string {
	if fn == nil {
		return ""
	}
	k := strconv.Itoa(int(fn.Pos()))
	it.fnByKey[k] = fn
	return k
}

// funcKey names the function value an expression denotes.
func (it *c02Interp) funcKey(e ast.Expr, s kit.S) string {
	e = ast.Unparen(e)
	switch x := e.(type) {
	case *ast.FuncLit:
		return it.register(it.m.c.P.LitFunc(it.f.PkgRel(), x))
	case *ast.Ident:
		o := kit.ObjOf(it.info, x)
		if o == nil {
			return ""
		}
		if k := s.Get("fn:" + kit.VarID(o)); k != "" && k != "?" {
			return k
		}
		if fn, ok := o.(*types.Func); ok {
			return it.register(it.m.c.P.FuncOf(fn))
		}
		return it.register(it.cur().LocalClosure(o))
	case *ast.SelectorExpr:
		if fn, ok := kit.ObjOf(it.info, x).(*types.Func); ok {
			return it.register(it.m.c.P.FuncOf(fn.Origin()))
		}
	}
	return ""
}

// resolveCallee finds the body a call runs; fnValue reports a call through a
// function value (parameter, variable, field).
func (it *c02Interp) resolveCallee(call *ast.CallExpr, s kit.S) (cf *kit.Func, fnValue bool) {
	fun := ast.Unparen(call.Fun)
	if lit, ok := fun.(*ast.FuncLit); ok {
		return it.m.c.P.LitFunc(it.f.PkgRel(), lit), true
	}
	switch o := kit.Callee(it.info, call).(type) {
	case *types.Func:
		return it.m.c.P.FuncOf(o), false
	case *types.Var:
		if k := s.Get("fn:" + kit.VarID(o)); k != "" {
			return it.fnByKey[k], true
		}
		if !o.IsField() {
			return it.cur().LocalClosure(o), true
		}
		return nil, true
	case nil:
		// call of a call result, method expression …
		if _, isSig := it.info.TypeOf(call.Fun).Underlying().(*types.Signature); isSig {
			return nil, true
		}
	}
	return nil, false
}

// carriesData: can a value of this type hold a point, a node or code?
func c02CarriesData(t types.Type) bool {
	if t == nil {
		return false
	}
	if c02IsConn(t) {
		return false
	}
	switch u := t.Underlying().(type) {
	case *types.Basic:
		return false
	case *types.Pointer:
		return c02CarriesData(u.Elem())
	}
	return true
}

// wantInline: closures, and declared functions of the package that receive
// compared data, a function value, or (predicates) an id of a compared copy.
func (it *c02Interp) wantInline(cf *kit.Func, call *ast.CallExpr, s kit.S) bool {
	if cf.Body == nil || cf.Pkg != it.f.Pkg || cf == it.f || cf == it.m.fetch || len(it.stack) >= 4 {
		return false
	}
	for _, x := range it.stack {
		if x == cf {
			return false
		}
	}
	if it.unsafeFn(cf) {
		return false
	}
	if cf.Lit != nil {
		return true
	}
	for _, a := range call.Args {
		t := it.info.TypeOf(a)
		if _, isFunc := t.Underlying().(*types.Signature); isFunc {
			return true
		}
		if it.mentionsTracked(a, s) {
			return true
		}
	}
	if sel, ok := ast.Unparen(call.Fun).(*ast.SelectorExpr); ok {
		if _, isMethod := it.info.Selections[sel]; isMethod && it.mentionsTracked(sel.X, s) {
			return true
		}
	}
	return false
}

// couldAct: an uninterpreted call that may have sent, transferred or
// recursed on behalf of the judged path.
func (it *c02Interp) couldAct(cf *kit.Func, fnValue bool, call *ast.CallExpr, s kit.S) bool {
	inPkg := fnValue
	if cf != nil && cf.Pkg == it.f.Pkg {
		inPkg = true
	}
	if fn, ok := kit.Callee(it.info, call).(*types.Func); ok && fn.Pkg() != nil && fn.Pkg().Path() == it.f.Pkg.PkgPath {
		inPkg = true
	}
	// a function value handed to anybody may be called back
	for _, a := range call.Args {
		if t := it.info.TypeOf(a); t != nil {
			if _, isFunc := t.Underlying().(*types.Signature); isFunc {
				if _, isNil := ast.Unparen(a).(*ast.Ident); !isNil || !kit.IsNilIdent(it.info, a) {
					return true
				}
			}
		}
	}
	if !inPkg {
		return false // other packages cannot reach the client's send functions
	}
	if fnValue || (cf != nil && cf.Lit != nil) {
		return true // closures capture
	}
	for _, a := range call.Args {
		if c02CarriesData(it.info.TypeOf(a)) && it.mentionsTracked(a, s) {
			return true
		}
	}
	if sel, ok := ast.Unparen(call.Fun).(*ast.SelectorExpr); ok {
		if _, isMethod := it.info.Selections[sel]; isMethod && c02CarriesData(it.info.TypeOf(sel.X)) && it.mentionsTracked(sel.X, s) {
			return true
		}
	}
	return false
}

// unsafeFn: a declared callee whose locals escape into closures or pointers
// cannot be tracked by the constant propagation (only the root function is
// pre-scanned by kit.Std).
func (it *c02Interp) unsafeFn(cf *kit.Func) bool {
	root := cf.Root()
	if root == it.f {
		return false
	}
	if v, ok := it.unsafe[root]; ok {
		return v
	}
	bad := false
	var walk func(n ast.Node, inLit bool)
	walk = func(n ast.Node, inLit bool) {
		ast.Inspect(n, func(x ast.Node) bool {
			switch y := x.(type) {
			case *ast.FuncLit:
				if x != n {
					walk(y.Body, true)
					return false
				}
			case *ast.UnaryExpr:
				if y.Op == token.AND {
					if _, isIdent := ast.Unparen(y.X).(*ast.Ident); isIdent {
						bad = true
					}
				}
			case *ast.AssignStmt:
				if inLit {
					for _, l := range y.Lhs {
						if id, ok := ast.Unparen(l).(*ast.Ident); ok && y.Tok == token.ASSIGN && id.Name != "_" {
							bad = true
						}
					}
				}
			case *ast.IncDecStmt:
				if inLit {
					bad = true
				}
			}
			return true
		})
	}
	if root.Body != nil {
		walk(root.Body, false)
	}
	it.unsafe[root] = bad
	return bad
}

// scan registers the ranges and boolean containers of a function body.
func (it *c02Interp) scan(fn *kit.Func) {
	if it.scanned[fn] || fn.Body == nil {
		return
	}
	it.scanned[fn] = true
	info := it.info
	ast.Inspect(fn.Body, func(n ast.Node) bool {
		switch x := n.(type) {
		case *ast.RangeStmt:
			it.rangeX[x.X] = x
		case *ast.AssignStmt:
			for _, l := range x.Lhs {
				id, ok := ast.Unparen(l).(*ast.Ident)
				if !ok {
					continue
				}
				o := kit.ObjOf(info, id)
				if v, ok := o.(*types.Var); ok && !v.IsField() && v.Parent() != nil && v.Pkg() != nil && v.Parent() != v.Pkg().Scope() {
					var el types.Type
					switch t := v.Type().Underlying().(type) {
					case *types.Map:
						el = t.Elem()
					case *types.Slice:
						el = t.Elem()
					}
					if el != nil {
						if b, ok := el.Underlying().(*types.Basic); ok && b.Kind() == types.Bool {
							it.containers[o] = true
						}
					}
				}
			}
		}
		return true
	})
	// containers that escape (passed to a call, address taken, ranged over) are not modelled
	ast.Inspect(fn.Body, func(n ast.Node) bool {
		switch x := n.(type) {
		case *ast.CallExpr:
			if b, ok := kit.Callee(info, x).(*types.Builtin); ok && (b.Name() == "delete" || b.Name() == "len") {
				return true
			}
			for _, a := range x.Args {
				if o := kit.ObjOf(info, a); o != nil {
					delete(it.containers, o)
				}
			}
		case *ast.UnaryExpr:
			if x.Op == token.AND {
				if o := kit.ObjOf(info, x.X); o != nil {
					delete(it.containers, o)
				}
			}
		case *ast.RangeStmt:
			if o := kit.ObjOf(info, x.X); o != nil {
				delete(it.containers, o)
			}
		case *ast.ReturnStmt:
			for _, r := range x.Results {
				if o := kit.ObjOf(info, r); o != nil {
					delete(it.containers, o)
				}
			}
		}
		return true
	})
}

func c02EndsInPanic(info *types.Info, b *cfg.Block) bool {
	if len(b.Nodes) == 0 {
		return false
	}
	es, ok := b.Nodes[len(b.Nodes)-1].(*ast.ExprStmt)
	if !ok {
		return false
	}
	call, ok := es.X.(*ast.CallExpr)
	if !ok {
		return false
	}
	if bi, ok := kit.Callee(info, call).(*types.Builtin); ok && bi.Name() == "panic" {
		return true
	}
	switch kit.QualName(kit.Callee(info, call)) {
	case "log.Fatal", "log.Fatalf", "log.Fatalln", "os.Exit", "log.Panic", "log.Panicf", "log.Panicln", "runtime.Goexit":
		return true
	}
	return false
}

// inline evaluates the callee's body under the current state.  nil = not
// evaluated.
func (it *c02Interp) inline(cf *kit.Func, call *ast.CallExpr, s kit.S) []kit.S {
	params := cf.Params()
	if len(params) != len(call.Args) {
		return nil
	}
	if sig, ok := it.info.TypeOf(call.Fun).Underlying().(*types.Signature); ok && sig.Variadic() {
		return nil
	}
	init := s
	for i, p := range params {
		init = it.unbind(init, p).Del("v:" + kit.VarID(p)).Del("nn:" + kit.VarID(p))
		var ok bool
		if init, ok = it.bindValueOK(init, p, call.Args[i], s); !ok {
			return nil
		}
	}
	// a method's receiver that is a compared copy or an entry
	if cf.Decl != nil && cf.Decl.Recv != nil && len(cf.Decl.Recv.List) == 1 && len(cf.Decl.Recv.List[0].Names) == 1 {
		if sel, ok := ast.Unparen(call.Fun).(*ast.SelectorExpr); ok {
			if ro := it.info.Defs[cf.Decl.Recv.List[0].Names[0]]; ro != nil {
				init = it.unbind(init, ro)
				var ok bool
				if init, ok = it.bindValueOK(init, ro, sel.X, s); !ok {
					return nil
				}
			}
		}
	}
	it.scan(cf)
	it.stack = append(it.stack, cf)
	res := it.m.c.P.Graph(cf).Run(init, it.client)
	it.stack = it.stack[:len(it.stack)-1]
	if res.Overflow {
		return nil
	}
	errT := types.Universe.Lookup("error").Type()
	lo, hi := int(cf.Node().Pos()), int(cf.Node().End())
	inRange := func(p int) bool { return p >= lo && p <= hi }
	out := []kit.S{}
	seen := map[string]bool{}
	for _, e := range res.Exits {
		if e.Return == nil && c02EndsInPanic(it.info, e.Block) {
			continue
		}
		states := []kit.S{e.State}
		if e.Return != nil {
			for i, r := range e.Return.Results {
				t := it.info.TypeOf(r)
				key := fmt.Sprintf("rc:%d:%d", call.Pos(), i)
				var next []kit.S
				for _, x := range states {
					switch {
					case t == nil:
						next = append(next, x)
					case types.Identical(t, errT) || kit.IsNilIdent(it.info, r):
						if v := it.st.ReturnsNil(&ast.ReturnStmt{Results: []ast.Expr{r}}, x); v != "unknown" {
							x = x.Set(key, v)
						}
						next = append(next, x)
					case c02IsPoint(t) || c02IsNodeEdge(t):
						if el := it.elemOf(r, x); el != "" {
							x = x.Set(key, el)
						}
						next = append(next, x)
					default:
						b, isBasic := t.Underlying().(*types.Basic)
						switch {
						case isBasic && b.Info()&types.IsBoolean != 0:
							ts, fs := it.st.Eval.Eval(r, x)
							for _, y := range ts {
								next = append(next, y.Set(key, "true"))
							}
							for _, y := range fs {
								next = append(next, y.Set(key, "false"))
							}
						case isBasic && b.Info()&types.IsInteger != 0:
							if v, ok := it.intOf(r, x); ok {
								x = x.Set(key, "#"+strconv.Itoa(v))
							}
							next = append(next, x)
						default:
							next = append(next, x)
						}
					}
				}
				states = next
			}
		}
		for _, x := range states {
			// forget the callee's locals
			for _, k := range x.Keys() {
				pos := -1
				switch {
				case strings.HasPrefix(k, "it:"):
					pos, _ = strconv.Atoi(k[3:])
				case strings.HasPrefix(k, "rc:"):
					fmt.Sscanf(k[3:], "%d", &pos)
					if pos == int(call.Pos()) {
						pos = -1
					}
				case strings.HasPrefix(k, "out"), strings.HasPrefix(k, "ab"), strings.HasPrefix(k, "poison"):
				default:
					if at := strings.LastIndexByte(k, '@'); at >= 0 {
						fmt.Sscanf(k[at+1:], "%d", &pos)
					}
				}
				if pos >= 0 && inRange(pos) {
					x = x.Del(k)
				}
			}
			if kk := x.Key(); !seen[kk] {
				seen[kk] = true
				out = append(out, x)
			}
		}
	}
	it.inlined[cf] = true
	return out
}

// ---------------------------------------------------------------------------

type c02Row struct {
	title     string
	weight    int // size of the witness scenario
	violation string
	path      []string
	undecided string
	okRuns    int
}

func c02Tables(m *c02Model, r2 *kit.Rule) {
	c := m.c
	f := m.F
	info := m.info
	it := &c02Interp{m: m, f: f, info: info, matchM: map[*types.Func][]*types.Var{}, rangeX: map[ast.Expr]*ast.RangeStmt{},
		childList: map[types.Object]string{}, alias: map[types.Object][2]string{}, containers: map[types.Object]bool{}, tracked: map[types.Object]bool{}, pIdx: -1, idIdx: -1,
		scanned: map[*kit.Func]bool{}, unsafe: map[*kit.Func]bool{}, inlined: map[*kit.Func]bool{}, fnByKey: map[string]*kit.Func{}}

	// data.Point fields and identity methods
	dpk := c.P.MustPkg("data")
	ptn, _ := dpk.Types.Scope().Lookup("Point").(*types.TypeName)
	if ptn == nil {
		c.Fatalf("type data.Point not found")
	}
	it.timeF, it.typeF, it.keyF = c02StructField(ptn.Type(), "Time"), c02StructField(ptn.Type(), "Type"), c02StructField(ptn.Type(), "Key")
	if it.timeF == nil || it.typeF == nil || it.keyF == nil || !kit.IsNamedType(it.timeF.Type(), "time", "Time") {
		c.Fatalf("data.Point no longer has Time (time.Time), Type and Key")
	}
	for _, g := range c.P.Funcs("data") {
		if g.Decl == nil || g.Decl.Recv == nil || g.Obj == nil || len(g.Decl.Recv.List) != 1 || len(g.Decl.Recv.List[0].Names) != 1 {
			continue
		}
		sig := g.Obj.Type().(*types.Signature)
		if sig.Recv() == nil || !c02IsPoint(sig.Recv().Type()) || sig.Params().Len() != 2 || sig.Results().Len() != 1 {
			continue
		}
		if b, ok := sig.Results().At(0).Type().Underlying().(*types.Basic); !ok || b.Kind() != types.Bool {
			continue
		}
		recv := g.Info().Defs[g.Decl.Recv.List[0].Names[0]]
		ps := g.Params()
		if len(ps) != 2 || !c02IsString(ps[0].Type()) || !c02IsString(ps[1].Type()) {
			continue
		}
		flds := make([]*types.Var, 2)
		ast.Inspect(g.Body, func(n ast.Node) bool {
			be, ok := n.(*ast.BinaryExpr)
			if !ok || (be.Op != token.EQL && be.Op != token.NEQ) {
				return true
			}
			for _, pair := range [][2]ast.Expr{{be.X, be.Y}, {be.Y, be.X}} {
				po := kit.ObjOf(g.Info(), pair[0])
				sel, ok := ast.Unparen(pair[1]).(*ast.SelectorExpr)
				if !ok || kit.ObjOf(g.Info(), sel.X) != recv {
					continue
				}
				fv, _ := kit.ObjOf(g.Info(), sel).(*types.Var)
				for i, p := range ps {
					if po == types.Object(p) && fv != nil {
						flds[i] = fv
					}
				}
			}
			return true
		})
		if flds[0] != nil && flds[1] != nil && flds[0] != flds[1] &&
			(flds[0] == it.typeF || flds[0] == it.keyF) && (flds[1] == it.typeF || flds[1] == it.keyF) {
			it.matchM[g.Obj] = flds
		}
	}

	// child listings, aliases, containers, ranges
	for _, l := range m.childListings() {
		if l.res != nil && l.side != "" {
			it.childList[l.res] = c02SideAbbr(l.side)
			it.tracked[l.res] = true
		}
	}
	it.tracked[m.L], it.tracked[m.U] = true, true
	assignCount := map[types.Object]int{}
	aliasCand := map[types.Object][2]string{}
	ast.Inspect(f.Body, func(n ast.Node) bool {
		switch x := n.(type) {
		case *ast.AssignStmt:
			for i, l := range x.Lhs {
				id, ok := ast.Unparen(l).(*ast.Ident)
				if !ok {
					continue
				}
				o := kit.ObjOf(info, id)
				if o == nil {
					continue
				}
				assignCount[o]++
				if len(x.Lhs) == len(x.Rhs) {
					if g, sd, ok := it.listOf(x.Rhs[i], kit.NewS()); ok && g != "ch" {
						aliasCand[o] = [2]string{g, sd}
					}
				}
			}
		}
		return true
	})
	it.idChanged = m.pID != nil && assignCount[m.pID] > 0
	for o, a := range aliasCand {
		if assignCount[o] == 1 {
			it.alias[o] = a
			it.tracked[o] = true
		}
	}
	firstRange := map[string]ast.Node{}
	ast.Inspect(f.Body, func(n ast.Node) bool {
		if rs, ok := n.(*ast.RangeStmt); ok {
			if g, _, ok := it.listOf(rs.X, kit.NewS()); ok {
				for _, kv := range []ast.Expr{rs.Key, rs.Value} {
					if kv != nil {
						if o := kit.ObjOf(info, kv); o != nil {
							it.tracked[o] = true
						}
					}
				}
				hasOutcome := false
				ast.Inspect(rs.Body, func(y ast.Node) bool {
					if call, ok := y.(*ast.CallExpr); ok {
						if m.sendSig(info, call) != nil || m.transferOf(f, call) != nil || f.CalleeFunc(call) == f {
							hasOutcome = true
						}
					}
					return true
				})
				if _, seen := firstRange[g]; !seen && hasOutcome {
					firstRange[g] = rs
				}
			}
		}
		return true
	})
	for i, p := range f.Params() {
		if types.Object(p) == m.pParent {
			it.pIdx = i
		}
		if types.Object(p) == m.pID {
			it.idIdx = i
		}
	}

	// region start: the "hashes differ" edge
	g := c.P.Graph(f)
	var start *cfg.Block
	var startCond ast.Node
	nstart := 0
	for _, b := range g.G.Blocks {
		if !b.Live || len(b.Succs) != 2 {
			continue
		}
		br := g.BranchOf(b)
		if br.Kind != kit.BrCond && !(br.Kind == kit.BrCase && br.Tag == nil) {
			continue
		}
		cond := ast.Unparen(br.Cond)
		neg := false
		for {
			u, ok := cond.(*ast.UnaryExpr)
			if !ok || u.Op != token.NOT {
				break
			}
			neg = !neg
			cond = ast.Unparen(u.X)
		}
		if id, isIdent := cond.(*ast.Ident); isIdent {
			// `same := a.Hash == b.Hash; if same {` — a boolean local defined once
			if o := kit.ObjOf(info, id); o != nil {
				var def ast.Expr
				n := 0
				ast.Inspect(f.Body, func(x ast.Node) bool {
					switch as := x.(type) {
					case *ast.AssignStmt:
						for i, l := range as.Lhs {
							if kit.ObjOf(info, l) == o {
								n++
								if len(as.Lhs) == len(as.Rhs) {
									def = as.Rhs[i]
								}
							}
						}
					case *ast.IncDecStmt:
						if kit.ObjOf(info, as.X) == o {
							n++
						}
					case *ast.UnaryExpr:
						if as.Op == token.AND && kit.ObjOf(info, as.X) == o {
							n++
						}
					}
					return true
				})
				if n == 1 && def != nil {
					cond = ast.Unparen(def)
					for {
						u, ok := cond.(*ast.UnaryExpr)
						if !ok || u.Op != token.NOT {
							break
						}
						neg = !neg
						cond = ast.Unparen(u.X)
					}
				}
			}
		}
		be, ok := cond.(*ast.BinaryExpr)
		if !ok || (be.Op != token.EQL && be.Op != token.NEQ) {
			continue
		}
		hx, hy := m.hashOwner(f, be.X), m.hashOwner(f, be.Y)
		isLU := hx != nil && hy != nil && ((hx == m.L && hy == m.U) || (hx == m.U && hy == m.L))
		if !isLU {
			continue
		}
		nstart++
		startCond = b.Nodes[len(b.Nodes)-1]
		differsOnTrue := (be.Op == token.NEQ) != neg
		if differsOnTrue {
			start = b.Succs[0]
		} else {
			start = b.Succs[1]
		}
	}
	if nstart != 1 || start == nil {
		c.Fatalf("R2: the comparison of the two copies' hashes is not a branch condition of its own in %s (%d found)", f.Name, nstart)
	}

	// boolean locals defined once before the region from something the
	// scenario determines (`isRoot := nodeLocal.ID == up.rootLocal.ID`) enter
	// the region with that value
	type preBool struct {
		o   types.Object
		rhs ast.Expr
	}
	var preBools []preBool
	{
		defs := map[types.Object]int{}
		var cands []preBool
		var candStmt []ast.Node
		ast.Inspect(f.Body, func(n ast.Node) bool {
			switch x := n.(type) {
			case *ast.FuncLit:
				return false
			case *ast.AssignStmt:
				for i, l := range x.Lhs {
					o := kit.ObjOf(info, l)
					if o == nil {
						continue
					}
					defs[o]++
					if b, ok := o.Type().Underlying().(*types.Basic); ok && b.Info()&types.IsBoolean != 0 && x.Tok == token.DEFINE && len(x.Lhs) == len(x.Rhs) {
						cands = append(cands, preBool{o, x.Rhs[i]})
						candStmt = append(candStmt, x)
					}
				}
			case *ast.IncDecStmt:
				if o := kit.ObjOf(info, x.X); o != nil {
					defs[o]++
				}
			case *ast.UnaryExpr:
				if x.Op == token.AND {
					if o := kit.ObjOf(info, x.X); o != nil {
						defs[o] += 2
					}
				}
			}
			return true
		})
		for i, cd := range cands {
			if defs[cd.o] == 1 && candStmt[i].End() <= startCond.Pos() && g.NodeDominates(candStmt[i], startCond) {
				preBools = append(preBools, cd)
			}
		}
	}

	st := &kit.Std{F: f}
	it.st = st
	st.Fold = it.fold
	st.OnNode = it.onNode
	st.OnBranch = it.onBranch
	st.OnCall = it.onCall
	st.ErrTag = func(call *ast.CallExpr, s kit.S) string { return "e" }
	st.OnErrEdge = func(tag string, isErr bool, s kit.S) (kit.S, bool) {
		if isErr {
			return s.Set("ab", "1"), true
		}
		return s, true
	}
	st.Eval.OnUnknown = func(e ast.Expr) {
		it.noteUnknown(e, it.mentionsTracked(e, kit.NewS()) || it.mentionsLen(e, kit.NewS()))
	}
	// the kit's own inlining stays off (it drops void callees and knows no
	// closures); a non-nil hook makes Std clear call results after each node
	st.ShouldInline = func(cf *kit.Func, call *ast.CallExpr) bool { return false }
	client := st.Client()
	it.client = client
	it.scan(f)

	rows := map[string]*c02Row{}
	var rowOrder []string
	row := func(title string) *c02Row {
		if r, ok := rows[title]; ok {
			return r
		}
		r := &c02Row{title: title}
		rows[title] = r
		rowOrder = append(rowOrder, title)
		return r
	}
	for _, gr := range c02Groups {
		if gr.name == "ch" {
			row(gr.title + ": hashes differ")
		} else {
			row(gr.title + ": local copy newer")
			row(gr.title + ": remote copy newer")
		}
		row(gr.title + ": only on LOCAL")
		row(gr.title + ": only on REMOTE")
		if gr.name != "ch" {
			row(gr.title + ": send targets")
		}
	}
	groupRows := func(grp string) []*c02Row {
		var out []*c02Row
		for _, gr := range c02Groups {
			if gr.name == grp {
				for _, t := range rowOrder {
					if strings.HasPrefix(t, gr.title+":") {
						out = append(out, rows[t])
					}
				}
			}
		}
		return out
	}
	allUndecided := func(msg string) {
		for _, t := range rowOrder {
			if rows[t].undecided == "" {
				rows[t].undecided = msg
			}
		}
	}

	runs := 0
	runOne := func(sc *c02Scn) {
		runs++
		it.sc = sc
		it.unknown, it.unknownRelated = nil, false
		init := kit.NewS()
		for _, pb := range preBools {
			ts, fs := st.Eval.Eval(pb.rhs, kit.NewS())
			if len(ts) > 0 && len(fs) == 0 {
				init = init.Set("v:"+kit.VarID(pb.o), "true")
			} else if len(fs) > 0 && len(ts) == 0 {
				init = init.Set("v:"+kit.VarID(pb.o), "false")
			}
		}
		it.unknown, it.unknownRelated = nil, false
		res := g.RunFrom(start, 0, init, client)
		if res.Overflow {
			c.Fatalf("R2: state overflow in %s under scenario %s", f.Name, sc.describe())
		}
		reqs := sc.required()
		type verdict struct {
			missing []c02Req
			exit    kit.Exit
			out     string
			opaque  string // site of a call on the path that was not interpreted
		}
		var verdicts []verdict
		judged := 0
		tainted := false
		for _, e := range res.Exits {
			if p := e.State.Get("poison"); p != "" {
				allUndecided(p)
				return
			}
			if e.State.Get("ab") == "1" {
				continue
			}
			judged++
			out := e.State.Get("out")
			var recs [][]string
			if out != "" {
				for _, l := range strings.Split(out, "\n") {
					recs = append(recs, strings.Split(l, "|"))
				}
			}
			// unresolved payloads / targets
			opaqueAt := ""
			for _, r := range recs {
				kind, side, skind, pay, idr, pr, at := r[0], r[1], r[2], r[3], r[4], r[5], r[6]
				if kind == "O" {
					opaqueAt = at
					continue
				}
				pg, _, _, okPay := c02Split(pay)
				if !okPay {
					// a modified copy or a value built from the compared data:
					// the run cannot be judged for that kind of entry
					msg := fmt.Sprintf("the payload of the call at %s (`%s`) derives from the compared data but is not one unmodified entry of a compared list", at, strings.TrimSuffix(strings.TrimPrefix(pay, "?"), "!"))
					tg, _, _, okT := c02Split(strings.TrimSuffix(pay, "!"))
					for _, gr := range c02Groups {
						if okT && gr.name != tg {
							continue
						}
						for _, rw := range groupRows(gr.name) {
							if rw.undecided == "" {
								rw.undecided = msg
							}
						}
					}
					tainted = true
					continue
				}
				switch kind {
				case "S":
					tr := row(map[string]string{"np": "node points", "ep": "edge points"}[pg] + ": send targets")
					if pg == "ch" {
						continue
					}
					if side == "?" {
						if tr.undecided == "" {
							tr.undecided = "connection of the send at " + at + " is not a typed field"
						}
						for _, rw := range groupRows(pg) {
							if rw.undecided == "" {
								rw.undecided = "connection of the send at " + at + " is not a typed field"
							}
						}
						tainted = true
						continue
					}
					bad := ""
					switch {
					case skind != pg:
						bad = fmt.Sprintf("%s is sent with the %s send at %s", map[string]string{"np": "a node point", "ep": "an edge point"}[pg], map[string]string{"np": "node-point", "ep": "edge-point"}[skind], at)
					case idr == "L.Parent" || idr == "U.Parent" || strings.HasPrefix(idr, "E."):
						bad = fmt.Sprintf("the send at %s addresses node `%s` instead of the compared node's id", at, idr)
					case skind == "ep" && (pr == "L.ID" || pr == "U.ID" || pr == "P.ID" || strings.HasPrefix(pr, "E.")):
						bad = fmt.Sprintf("the send at %s passes `%s` as parent instead of the compared node's parent", at, pr)
					}
					if bad != "" {
						if tr.violation == "" {
							tr.violation = bad + " (scenario: " + sc.describe() + "): the point is written to a node/edge that is not the compared one"
							tr.path = res.PathTo(e)
						}
						continue
					}
					if strings.HasPrefix(idr, "?") || (skind == "ep" && strings.HasPrefix(pr, "?")) {
						if tr.undecided == "" {
							tr.undecided = fmt.Sprintf("target of the send at %s (`%s`, `%s`) is not a field of one of the compared copies", at, strings.TrimPrefix(idr, "?"), strings.TrimPrefix(pr, "?"))
						}
						continue
					}
					tr.okRuns++
				case "R":
					rw := row("child nodes: hashes differ")
					switch {
					case pr == "L.ID" || pr == "U.ID" || pr == "P.ID":
					case strings.HasPrefix(pr, "?"):
						if rw.undecided == "" {
							rw.undecided = fmt.Sprintf("parent argument of the recursive call at %s (`%s`) is not the compared node's id", at, strings.TrimPrefix(pr, "?"))
						}
					default:
						if rw.violation == "" {
							rw.violation = fmt.Sprintf("the recursive call at %s passes `%s` as the parent of the child instead of the compared node's id (scenario: %s)", at, pr, sc.describe())
							rw.path = res.PathTo(e)
						}
					}
				}
			}
			var missing []c02Req
			for _, rq := range reqs {
				found := false
				for _, r := range recs {
					if r[0] != rq.kind {
						continue
					}
					if rq.kind != "R" && r[1] != rq.side {
						continue
					}
					if rq.kind == "S" && r[2] != rq.grp {
						continue
					}
					for _, el := range rq.elems {
						if r[3] == el {
							found = true
						}
					}
				}
				if !found {
					missing = append(missing, rq)
				}
			}
			verdicts = append(verdicts, verdict{missing, e, out, opaqueAt})
		}
		if judged == 0 {
			allUndecided("no exit is reached without a failed call under scenario " + sc.describe())
			return
		}
		if tainted {
			return
		}
		// a requirement is violated when no judged path fulfils it; when only
		// some paths do, the outcome hangs on a condition the checker cannot
		// evaluate and the row stays undecided (never guessed)
		missCount := map[string]int{}     // requirement key -> number of exits missing it
		opaqueMiss := map[string]string{} // requirement key -> uninterpreted call on a path missing it
		reqKey := func(rq c02Req) string {
			return rq.row + "|" + rq.kind + "|" + rq.side + "|" + strings.Join(rq.elems, ",")
		}
		for _, v := range verdicts {
			for _, rq := range v.missing {
				if v.opaque != "" {
					opaqueMiss[reqKey(rq)] = v.opaque
					continue
				}
				missCount[reqKey(rq)]++
			}
		}
		for k := range opaqueMiss {
			if _, ok := missCount[k]; !ok {
				missCount[k] = 0
			}
		}
		badRows := map[string]bool{}
		for _, rq := range reqs {
			if missCount[reqKey(rq)] > 0 || opaqueMiss[reqKey(rq)] != "" {
				badRows[rq.row] = true
			}
		}
		for _, rq := range reqs {
			if !badRows[rq.row] {
				rows[rq.row].okRuns++
			}
		}
		weight := 0
		for _, gs := range sc.g {
			weight += gs.nL + gs.nR
		}
		for _, rq := range reqs {
			n := missCount[reqKey(rq)]
			if n == 0 && opaqueMiss[reqKey(rq)] == "" {
				continue
			}
			rw := rows[rq.row]
			if at := opaqueMiss[reqKey(rq)]; at != "" {
				if rw.undecided == "" {
					rw.undecided = fmt.Sprintf("under scenario {%s} the requirement «%s (%s)» is not seen, but the path runs through the call at %s, which the checker could not interpret and which may perform it", sc.describe(), rq.want, c02Pretty(rq.elems[0]), at)
				}
				continue
			}
			if n < len(verdicts) {
				if rw.undecided == "" {
					rw.undecided = fmt.Sprintf("under scenario {%s} the requirement «%s (%s)» is met on some paths only; it depends on `%s`, which the checker cannot evaluate", sc.describe(), rq.want, c02Pretty(rq.elems[0]), strings.Join(uniqStrings(it.unknown), "`, `"))
				}
				continue
			}
			if rw.violation != "" && rw.weight <= weight {
				continue
			}
			v := verdicts[0]
			var did []string
			if v.out != "" {
				for _, l := range strings.Split(v.out, "\n") {
					r := strings.Split(l, "|")
					switch r[0] {
					case "S":
						did = append(did, fmt.Sprintf("%s send of %s to %s", map[string]string{"np": "node-point", "ep": "edge-point"}[r[2]], c02Pretty(r[3]), c02SideLong(r[1])))
					case "T":
						did = append(did, fmt.Sprintf("transfer of %s towards %s", c02Pretty(r[3]), c02SideLong(r[1])))
					case "R":
						did = append(did, fmt.Sprintf("recursive comparison of %s", c02Pretty(r[3])))
					}
				}
			}
			if len(did) == 0 {
				did = []string{"nothing"}
			}
			rw.violation = fmt.Sprintf("scenario {%s}: required: %s (%s); executed on every path without a failed call: %s — the %s never receives the newest state of that entry", sc.describe(), rq.want, c02Pretty(rq.elems[0]), strings.Join(did, "; "),
				map[string]string{"R": "REMOTE instance", "L": "LOCAL instance", "": "subtree below the child"}[rq.side])
			rw.path = res.PathTo(v.exit)
			rw.weight = weight
		}
	}

	reps := map[string][]*c02GS{}
	for _, gr := range c02Groups {
		reps[gr.name] = c02Reps(gr.rels)
	}
	for _, gr := range c02Groups {
		for _, gs := range c02EnumGroup(gr.rels) {
			for rep := 0; rep < 3; rep++ {
				for _, root := range []bool{false, true} {
					sc := &c02Scn{g: map[string]*c02GS{}, root: root}
					for _, other := range c02Groups {
						if other.name == gr.name {
							sc.g[other.name] = gs
						} else {
							sc.g[other.name] = reps[other.name][rep]
						}
					}
					runOne(sc)
				}
			}
		}
	}
	c.AddValuations(runs)

	for _, t := range rowOrder {
		rw := rows[t]
		var site ast.Node
		for _, gr := range c02Groups {
			if strings.HasPrefix(t, gr.title+":") {
				site = firstRange[gr.name]
			}
		}
		obl := "in every scenario with at most two entries per list the required send / transfer / recursion is executed on every path without a failed call"
		if strings.HasSuffix(t, "send targets") {
			obl = "every send of a compared point addresses the compared node (id, and parent for edge points) with the send of the point's kind"
		}
		o := r2.Ob(f, site, t, obl)
		switch {
		case rw.violation != "":
			o.Violation("%s", rw.violation).WithPath(rw.path)
		case rw.undecided != "":
			o.Undecided("%s", rw.undecided)
		case rw.okRuns == 0:
			o.Undecided("no scenario exercised this row")
		default:
			o.OK("held in %d scenario runs", rw.okRuns)
		}
	}
}

func c02Pretty(el string) string {
	g, sd, i, ok := c02Split(el)
	if !ok {
		return "`" + strings.TrimPrefix(el, "?") + "`"
	}
	names := map[string][2]string{"np": {"p", "q"}, "ep": {"e", "f"}, "ch": {"c", "d"}}
	n := names[g][0]
	if sd == "R" {
		n = names[g][1]
	}
	return n + strconv.Itoa(i)
}
