package props

import (
	"fmt"
	"go/ast"
	"go/types"
	"reflect"
	"sort"
	"strings"
	"time"

	"siotcheck/kit"
)

func init() {
	kit.Register(&kit.Prop{
		ID:    "C11",
		Title: "Decoding arbitrary points never crashes",
		Explanation: "Structural necessary conditions of C11 decided at the reflect API surface on every path of the functions of package data " +
			"through which point data reaches reflection (the reflection writers, their callers and their helpers; DESIGN.md §3/C11): " +
			"R1 every reflect.Value.Index/Slice/MakeSlice index or length is bounded below by 0 and above by Len()/Cap() of the same value " +
			"(explicit comparison, loop bound, or MakeSlice(t,n,n) with the same n) on every path; " +
			"R2 every call of a reflect.Value/reflect.Type method that panics on a wrong kind, on the zero Value or on a nil map executes only in states " +
			"whose kind set (refined by the dominating switch/if edges on a kind bound to the same value) is within the method's allowed kinds, " +
			"and no possibly-zero reflect.Value is handed to another function of the set; " +
			"R4 every native index/slice expression on a slice, array or string in a function of the set (the points of a group, the deleted indexes: lengths chosen by the sender) " +
			"has 0 <= index < len() of the same sequence on every path (path-sensitive bounds from assignments from len(), ++/--, comparisons, range loops, switch on len()); " +
			"R5 every lookup in a map that decoding populates under the incoming Point.Type / NodeEdge.Type uses, on every path, a key that is a reflect.StructTag.Get/Lookup value " +
			"tested non-empty (helpers of the package are followed), so that only a type the field declares selects points for it. " +
			"Decided: these clauses, exhaustively over CFG paths and kind sets; not decided: settability/assignability/exportedness (static configuration facts), " +
			"numeric conversions, log output, index expressions computed by calls or held in struct fields (undecided), that a looked-up group is only used when the lookup succeeded.",
		Assumptions: []string{
			"A1 callers pass a non-nil pointer to a struct (or a valid reflect.Value) as outputStruct; reflect.ValueOf/Indirect of it is a valid Value",
			"A2 obligations that depend only on the static configuration type are outside the quantifier: CanSet()/exported fields/addressability before Set*, " +
				"assignability of Set/SetMapIndex arguments (e.g. a map keyed by a named string type), identical element types in reflect.Copy, the checked type assertion on Interface()",
			"A3 two reflect.Values obtained by separate Field(i)/Index(i) calls are treated as distinct storage",
			"reflect (go1.23) panics exactly as documented in its method comments; the kind table of the checker transcribes them",
			"non-kind, non-integer condition leaves (tombstone parity, key text) are nondeterministic: both edges are explored",
			"R4: every function of the set is analysed with arbitrary arguments (an exported writer may be handed an empty group); variables whose address is taken are not tracked; " +
				"lengths of sequences reached through a pointer are forgotten at every call",
			"R5: a type is declared by a non-empty value of a struct tag of the field (which tag name belongs to which map is C10/R4); a non-empty constant key counts as declared by the code",
		},
		Run: runC11,
	})
}

// kinds a configuration field may legitimately have (DESIGN §3/C10 R1) plus the
// zero Value, which arises from data (nil pointers).
var c11Supported = kit.RInts | (kit.RUints &^ kit.RK(reflect.Uintptr)) | kit.RFloats |
	kit.RK(reflect.Bool, reflect.String, reflect.Pointer, reflect.Slice, reflect.Array, reflect.Map, reflect.Struct) | kit.RInvalid

type c11Req struct {
	allowed uint32
	ptrArr  bool // Pointer allowed when it points to an array
	nonNil  bool // receiver must be non-nil (nil map)
	argOK   bool // argument 0 must be a valid Value
	skip    bool // never panics on kind grounds
	static  bool // panics only on static-configuration grounds (A2)
}

var c11Value = map[string]c11Req{}
var c11Type = map[string]c11Req{}

func init() {
	K := kit.RK
	valid := kit.RAllValid
	v := func(names string, r c11Req) {
		for _, n := range strings.Fields(names) {
			c11Value[n] = r
		}
	}
	t := func(names string, r c11Req) {
		for _, n := range strings.Fields(names) {
			c11Type[n] = r
		}
	}
	v("Kind IsValid String CanSet CanAddr Equal Comparable", c11Req{skip: true})
	v("Type IsZero NumMethod CanInterface CanInt CanUint CanFloat CanComplex CanConvert SetZero", c11Req{allowed: valid})
	v("Interface Addr UnsafeAddr Convert Method MethodByName Call CallSlice", c11Req{allowed: valid, static: true})
	v("Bool SetBool", c11Req{allowed: K(reflect.Bool)})
	v("Int SetInt OverflowInt", c11Req{allowed: kit.RInts})
	v("Uint SetUint OverflowUint", c11Req{allowed: kit.RUints})
	v("Float SetFloat OverflowFloat", c11Req{allowed: kit.RFloats})
	v("Complex SetComplex OverflowComplex", c11Req{allowed: K(reflect.Complex64, reflect.Complex128)})
	v("SetString", c11Req{allowed: K(reflect.String)})
	v("Bytes SetBytes", c11Req{allowed: K(reflect.Slice, reflect.Array)})
	v("Elem", c11Req{allowed: K(reflect.Interface, reflect.Pointer)})
	v("Field NumField FieldByName FieldByIndex FieldByNameFunc FieldByIndexErr", c11Req{allowed: K(reflect.Struct)})
	v("Index", c11Req{allowed: K(reflect.Array, reflect.Slice, reflect.String)})
	v("Slice", c11Req{allowed: K(reflect.Array, reflect.Slice, reflect.String)})
	v("Slice3", c11Req{allowed: K(reflect.Array, reflect.Slice)})
	v("Len", c11Req{allowed: K(reflect.Array, reflect.Chan, reflect.Map, reflect.Slice, reflect.String), ptrArr: true})
	v("Cap", c11Req{allowed: K(reflect.Array, reflect.Chan, reflect.Slice), ptrArr: true})
	v("SetLen SetCap Grow", c11Req{allowed: K(reflect.Slice)})
	v("Clear", c11Req{allowed: K(reflect.Slice, reflect.Map)})
	v("IsNil", c11Req{allowed: K(reflect.Chan, reflect.Func, reflect.Interface, reflect.Map, reflect.Pointer, reflect.Slice, reflect.UnsafePointer)})
	v("Pointer UnsafePointer", c11Req{allowed: K(reflect.Chan, reflect.Func, reflect.Map, reflect.Pointer, reflect.Slice, reflect.UnsafePointer, reflect.String)})
	v("MapIndex MapKeys MapRange SetIterKey SetIterValue", c11Req{allowed: K(reflect.Map)})
	v("SetMapIndex", c11Req{allowed: K(reflect.Map), nonNil: true})
	v("Close Recv Send TryRecv TrySend", c11Req{allowed: K(reflect.Chan)})
	v("Set", c11Req{allowed: valid, argOK: true})

	t("Kind Name String PkgPath Size Align FieldAlign NumMethod Method MethodByName Implements AssignableTo ConvertibleTo Comparable CanSeq CanSeq2", c11Req{skip: true})
	t("Elem", c11Req{allowed: K(reflect.Array, reflect.Chan, reflect.Map, reflect.Pointer, reflect.Slice)})
	t("Key", c11Req{allowed: K(reflect.Map)})
	t("Len", c11Req{allowed: K(reflect.Array)})
	t("Field NumField FieldByName FieldByIndex FieldByNameFunc", c11Req{allowed: K(reflect.Struct)})
	t("In Out NumIn NumOut IsVariadic", c11Req{allowed: K(reflect.Func)})
	t("ChanDir", c11Req{allowed: K(reflect.Chan)})
	t("Bits", c11Req{allowed: kit.RInts | kit.RUints | kit.RFloats | K(reflect.Complex64, reflect.Complex128)})
	t("OverflowInt", c11Req{allowed: kit.RInts})
	t("OverflowUint", c11Req{allowed: kit.RUints})
	t("OverflowFloat", c11Req{allowed: kit.RFloats})
	t("OverflowComplex", c11Req{allowed: K(reflect.Complex64, reflect.Complex128)})
}

// c11Site aggregates the verdicts of one call site over all states reaching it.
type c11Site struct {
	f         *kit.Func
	call      *ast.CallExpr
	rule      string
	construct string
	oblig     string
	states    int
	bad       string
	note      string
	by        map[string]bool
}

// c11Set discovers the untrusted-input function set of package data: the
// functions that use package reflect and lie on a call chain through a
// function that writes through reflection (reflect.Value.Set*).
func c11Set(c *kit.Ctx) (set []*kit.Func, writers []*kit.Func, roots map[*kit.Func]bool, reach []*kit.Func) {
	fs := c.P.Funcs("data")
	uses := map[*kit.Func]bool{}
	writes := map[*kit.Func]bool{}
	callees := map[*kit.Func]map[*kit.Func]bool{}
	callers := map[*kit.Func]map[*kit.Func]bool{}
	for _, f := range fs {
		if f.Body == nil {
			continue
		}
		callees[f] = map[*kit.Func]bool{}
		// a function "uses reflect" when it calls into package reflect or
		// holds a value of a reflect type
		ast.Inspect(f.Body, func(n ast.Node) bool {
			if _, isLit := n.(*ast.FuncLit); isLit {
				return false
			}
			if id, ok := n.(*ast.Ident); ok && kit.RType(f.Info().TypeOf(id)) != "" {
				uses[f] = true
			}
			return true
		})
		for _, call := range f.AllCalls(false) {
			if n := kit.RCallName(f.Info(), call); n != "" {
				uses[f] = true
				if strings.HasPrefix(n, "Value.Set") {
					writes[f] = true
				}
			}
			if g := f.CalleeFunc(call); g != nil {
				callees[f][g] = true
				if callers[g] == nil {
					callers[g] = map[*kit.Func]bool{}
				}
				callers[g][f] = true
			}
		}
		// literals run in their enclosing function
		if f.Outer != nil {
			if callers[f] == nil {
				callers[f] = map[*kit.Func]bool{}
			}
			callers[f][f.Outer] = true
			if callees[f.Outer] == nil {
				callees[f.Outer] = map[*kit.Func]bool{}
			}
			callees[f.Outer][f] = true
		}
	}
	closure := func(seed map[*kit.Func]bool, next map[*kit.Func]map[*kit.Func]bool) map[*kit.Func]bool {
		out := map[*kit.Func]bool{}
		var work []*kit.Func
		for f := range seed {
			out[f] = true
			work = append(work, f)
		}
		for len(work) > 0 {
			f := work[len(work)-1]
			work = work[:len(work)-1]
			for g := range next[f] {
				if !out[g] {
					out[g] = true
					work = append(work, g)
				}
			}
		}
		return out
	}
	up := closure(writes, callers)
	all := closure(up, callees)
	for _, f := range fs {
		if writes[f] {
			writers = append(writers, f)
		}
		if all[f] && uses[f] {
			set = append(set, f)
		}
		// everything of the package the set can call (helpers without reflection included)
		if all[f] && f.Body != nil {
			reach = append(reach, f)
		}
	}
	// roots are analysed with arbitrary arguments; an unexported, non-recursive
	// helper all of whose callers are in the set is analysed only in the
	// contexts of its callers (the interpreter inlines it)
	roots = map[*kit.Func]bool{}
	inSet := map[*kit.Func]bool{}
	for _, f := range set {
		inSet[f] = true
	}
	for _, f := range set {
		helper := f.Decl != nil && !ast.IsExported(f.Decl.Name.Name) && len(callers[f]) > 0 && !closure(callees[f], callees)[f]
		if helper {
			for g := range callers[f] {
				if !inSet[g] {
					helper = false
				}
			}
			if sig, ok := f.Obj.Type().(*types.Signature); ok && sig.Variadic() {
				helper = false
			}
		}
		if !helper {
			roots[f] = true
		}
	}
	return
}

func runC11(c *kit.Ctx) {
	r1 := c.Rule("R1", "reflect index/slice/length bounded by 0 and Len()/Cap() of the same value", 5)
	r2 := c.Rule("R2", "kind, validity and nil preconditions of reflect calls", 60)
	set, writers, roots, reach := c11Set(c)
	if len(writers) < 3 {
		c.Fatalf("expected at least 3 functions of package data that write through reflect.Value.Set*, found %d", len(writers))
	}
	if len(set) < 5 {
		c.Fatalf("untrusted-input function set of package data has %d members, expected at least 5", len(set))
	}
	var names []string
	for _, f := range set {
		names = append(names, f.Name)
	}
	c.Note("untrusted-input function set (reflect users on a call chain through a reflect writer): %s", strings.Join(names, ", "))
	c.Analysed(set...)
	c11Native(c, reach)
	c11Keys(c, reach)

	sums := kit.NewRSummaries(c.P)
	static := map[string]bool{}
	var unguardedSets []string
	nstates := 0
	sites := map[string]*c11Site{}
	orderBy := map[*kit.Func][]string{}
	ord := map[string]int{}
	mk := func(f *kit.Func, call *ast.CallExpr, rule, what, recv, oblig string) *c11Site {
		key := fmt.Sprintf("%s|%s|%d|%s", f.Name, rule, call.Pos(), what)
		if s, ok := sites[key]; ok {
			return s
		}
		ord[f.Name+rule+what]++
		s := &c11Site{f: f, call: call, rule: rule, oblig: oblig, by: map[string]bool{},
			construct: fmt.Sprintf("%s #%d on %s", what, ord[f.Name+rule+what], recv)}
		sites[key] = s
		orderBy[f] = append(orderBy[f], key)
		return s
	}
	recvStr := func(f *kit.Func, call *ast.CallExpr) string {
		if sel, ok := ast.Unparen(call.Fun).(*ast.SelectorExpr); ok {
			return f.Str(sel.X)
		}
		return "-"
	}
	for _, f := range set {
		info := f.Info()
		// pre-enumerate the sites in source order so that keys are stable and
		// unreached sites are noticed
		for _, call := range f.AllCalls(false) {
			name := kit.RCallName(info, call)
			switch {
			case strings.HasPrefix(name, "Value."), strings.HasPrefix(name, "Type."):
				tab := c11Value
				if strings.HasPrefix(name, "Type.") {
					tab = c11Type
				}
				m := name[strings.IndexByte(name, '.')+1:]
				req, ok := tab[m]
				if !ok {
					c.Fatalf("%s: reflect method %s is not in the checker's panic table", f.At(call), name)
				}
				if req.static {
					static[name] = true
				}
				if !req.skip {
					mk(f, call, "R2", name, recvStr(f, call), "receiver kind set within "+kit.RMaskStr(req.allowed))
				}
				switch name {
				case "Value.Index":
					mk(f, call, "R1", name, recvStr(f, call), "0 <= index < Len() of the same value on every path")
				case "Value.Slice", "Value.Slice3":
					mk(f, call, "R1", name, recvStr(f, call), "0 <= low <= high <= Cap()/Len() of the same value on every path")
				}
			case name == "reflect.MakeSlice":
				mk(f, call, "R1", name, "-", "0 <= len <= cap on every path")
				mk(f, call, "R2", name, "-", "type argument is a slice type")
			case name == "reflect.MakeMap" || name == "reflect.MakeMapWithSize":
				mk(f, call, "R2", name, "-", "type argument is a map type")
			case name == "reflect.Copy":
				mk(f, call, "R2", name, "-", "both arguments are arrays or slices")
			case name == "":
				if g := f.CalleeFunc(call); g != nil {
					for _, a := range call.Args {
						if kit.RType(info.TypeOf(a)) == "Value" {
							mk(f, call, "R2", "Value into "+g.Name, f.Str(a), "the reflect.Value handed on is not the zero Value")
						}
					}
				}
			}
		}
	}
	var rootNames, visited []string
	for _, f := range set {
		if !roots[f] {
			continue
		}
		rootNames = append(rootNames, f.Name)
		ri := &kit.RInterp{F: f, Sums: sums}
		ri.OnEvent = func(ev *kit.REvent) {
			nstates++
			ef := ev.I.F
			info := ef.Info()
			name := ev.Name
			fail := func(s *c11Site, format string, a ...any) {
				if s.bad == "" {
					s.bad = fmt.Sprintf(format, a...)
				}
			}
			switch {
			case name == "arg":
				s := mk(ef, ev.Call, "R2", "Value into "+ev.Callee.Name, ef.Str(ev.Arg), "the reflect.Value handed on is not the zero Value")
				s.states++
				if ev.Inlined {
					s.by["judged inside the helper, which is interpreted in this context"] = true
				} else if ev.I.Mask(ev.Recv, ev.S)&kit.RInvalid != 0 {
					fail(s, "%s may be the zero reflect.Value when it is passed to %s (its first reflect method call panics)", ef.Str(ev.Arg), ev.Callee.Name)
				} else {
					s.by["validity established on every path"] = true
				}
			case strings.HasPrefix(name, "Value."), strings.HasPrefix(name, "Type."):
				tab := c11Value
				if strings.HasPrefix(name, "Type.") {
					tab = c11Type
				}
				req := tab[name[strings.IndexByte(name, '.')+1:]]
				m := ev.I.Mask(ev.Recv, ev.S)
				if !req.skip {
					s := mk(ef, ev.Call, "R2", name, recvStr(ef, ev.Call), "")
					s.states++
					allowed := req.allowed
					if req.ptrArr && m&kit.RK(reflect.Pointer) != 0 && ev.I.Mask(ev.Recv+".elem", ev.S)&^kit.RK(reflect.Array) == 0 {
						allowed |= kit.RK(reflect.Pointer)
					}
					bad := m &^ allowed
					switch {
					case bad&c11Supported != 0:
						fail(s, "%s executes with receiver kind set %s; it panics for %s (no dominating switch/if on a kind bound to the same value excludes them)",
							name, kit.RMaskStr(m), kit.RMaskStr(bad&c11Supported))
					case bad != 0:
						s.note = "panics only for kinds outside the supported configuration kinds: " + kit.RMaskStr(bad)
						s.by["kind set "+kit.RMaskStr(m&allowed)] = true
					default:
						s.by["kind set "+kit.RMaskStr(m)] = true
					}
					if req.nonNil && ev.S.Get("nn:"+ev.Recv) != "T" {
						fail(s, "%s may execute on a nil map (no dominating IsNil()/make on the same value)", name)
					}
					if req.argOK && len(ev.Call.Args) == 1 {
						if am := ev.I.Mask(ev.Ent(ev.Call.Args[0]), ev.S); am&kit.RInvalid != 0 {
							fail(s, "argument of %s may be the zero reflect.Value", name)
						}
					}
				}
				if strings.HasPrefix(name, "Value.Set") && ev.S.Get("cs:"+ev.Recv) != "T" {
					unguardedSets = append(unguardedSets, fmt.Sprintf("%s %s in %s", ef.At(ev.Call), name, ef.Name))
				}
				switch name {
				case "Value.Index":
					s := mk(ef, ev.Call, "R1", name, recvStr(ef, ev.Call), "")
					s.states++
					if len(ev.Call.Args) == 1 {
						c11Index(ev, s, ev.Call.Args[0], fail)
					}
				case "Value.Slice", "Value.Slice3":
					s := mk(ef, ev.Call, "R1", name, recvStr(ef, ev.Call), "")
					s.states++
					c11Slice(ev, s, m, fail)
				}
			case name == "reflect.MakeSlice" && len(ev.Call.Args) == 3:
				s := mk(ef, ev.Call, "R1", name, "-", "")
				s.states++
				ln, cp := ev.Bounds(ev.Call.Args[1]), ev.Bounds(ev.Call.Args[2])
				switch {
				case ln.Lb == nil || *ln.Lb < 0:
					fail(s, "MakeSlice length %s has no lower bound 0 on this path (negative length panics)", ef.Str(ev.Call.Args[1]))
				case !kit.SameExpr(info, ev.Call.Args[1], ev.Call.Args[2]) && !(ln.Ub != nil && cp.Lb != nil && *ln.Ub <= *cp.Lb):
					fail(s, "MakeSlice length %s is not bounded by capacity %s", ef.Str(ev.Call.Args[1]), ef.Str(ev.Call.Args[2]))
				default:
					s.by[fmt.Sprintf("len >= %d, cap is the same expression or larger", *ln.Lb)] = true
				}
				c11TypeArg(ev, mk(ef, ev.Call, "R2", name, "-", ""), kit.RK(reflect.Slice), fail)
			case name == "reflect.MakeMap" || name == "reflect.MakeMapWithSize":
				c11TypeArg(ev, mk(ef, ev.Call, "R2", name, "-", ""), kit.RK(reflect.Map), fail)
			case name == "reflect.Copy" && len(ev.Call.Args) == 2:
				s := mk(ef, ev.Call, "R2", name, "-", "")
				s.states++
				for _, a := range ev.Call.Args {
					if m := ev.I.Mask(ev.Ent(a), ev.S); m&^kit.RK(reflect.Array, reflect.Slice)&c11Supported != 0 {
						fail(s, "reflect.Copy argument %s has kind set %s", ef.Str(a), kit.RMaskStr(m))
					}
				}
				s.by["both arguments array/slice"] = true
			}
		}
		t0 := time.Now()
		res := ri.Run()
		visited = append(visited, fmt.Sprintf("%s %d states %.1fs", f.Name, res.Visited, time.Since(t0).Seconds()))
		if res.Overflow || ri.Overflowed {
			r2.Ob(f, nil, "interpretation of "+f.Name, "state space explored").Undecided("state bound exceeded after %d states", res.Visited)
			continue
		}
	}
	c.Note("root runs: %s", strings.Join(visited, "; "))
	c.Note("analysed with arbitrary arguments: %s; the other members are interpreted in the contexts of their callers", strings.Join(rootNames, ", "))
	for _, f := range set {
		for _, key := range orderBy[f] {
			s := sites[key]
			rule := r2
			if s.rule == "R1" {
				rule = r1
			}
			o := rule.Ob(f, s.call, s.construct, s.oblig)
			switch {
			case s.bad != "":
				o.Violation("%s", s.bad)
			case s.states == 0:
				o.Undecided("the site is not reached by the interpreter (dead under the kind sets?)")
			default:
				var by []string
				for b := range s.by {
					by = append(by, b)
				}
				sort.Strings(by)
				if len(by) > 3 {
					by = append(by[:3], "…")
				}
				msg := fmt.Sprintf("%d states: %s", s.states, strings.Join(by, "; "))
				if s.note != "" {
					msg += " (" + s.note + ")"
				}
				o.OK("%s", msg)
			}
		}
	}
	c.AddValuations(nstates)
	var st []string
	for n := range static {
		st = append(st, n)
	}
	sort.Strings(st)
	c.Note("excluded as static-configuration obligations (A2): %s; settability before Set*; assignability of Set/SetMapIndex arguments", strings.Join(st, ", "))
	unguardedSets = uniqStrings(unguardedSets)
	sort.Strings(unguardedSets)
	c.Note("R3 (settable) is not armed: CanSet() depends only on the static configuration type and on how the caller passes the target. "+
		"Informational — Set* calls not dominated by CanSet()/New()/pointer Elem() on the same value: %s", strings.Join(unguardedSets, "; "))
}

func c11TypeArg(ev *kit.REvent, s *c11Site, want uint32, fail func(*c11Site, string, ...any)) {
	s.states++
	if len(ev.Call.Args) == 0 {
		return
	}
	m := ev.I.Mask(ev.Ent(ev.Call.Args[0]), ev.S)
	if m&^want&c11Supported != 0 {
		fail(s, "%s executes with type kind set %s", ev.Name, kit.RMaskStr(m))
		return
	}
	s.by["type kind set "+kit.RMaskStr(m&want)] = true
}

// c11Index decides 0 <= idx < recv.Len().
func c11Index(ev *kit.REvent, s *c11Site, idx ast.Expr, fail func(*c11Site, string, ...any)) {
	f := ev.I.F
	b := ev.Bounds(idx)
	if b.Lb == nil || *b.Lb < 0 {
		fail(s, "index %s has no lower bound 0 on this path (a negative index panics)", f.Str(idx))
		return
	}
	if d, ok := b.Rl[ev.Recv]; ok && d <= -1 {
		s.by["index >= 0 and < Len() of the same value by dominating comparisons"] = true
		return
	}
	if b.Rg != "" && ev.S.Get("mk:"+ev.Recv) == b.Rg {
		s.by["range index over the slice whose len sized MakeSlice(t, n, n)"] = true
		return
	}
	fail(s, "index %s is not bounded above by Len() of %s on this path", f.Str(idx), f.Str(ev.Call.Fun.(*ast.SelectorExpr).X))
}

// c11Slice decides 0 <= low <= high <= Cap (Slice kind) / Len (others).
func c11Slice(ev *kit.REvent, s *c11Site, recvMask uint32, fail func(*c11Site, string, ...any)) {
	f := ev.I.F
	args := ev.Call.Args
	if len(args) < 2 {
		return
	}
	lo, hi := ev.Bounds(args[0]), ev.Bounds(args[len(args)-1])
	if lo.Lb == nil || *lo.Lb < 0 {
		fail(s, "low bound %s may be negative", f.Str(args[0]))
		return
	}
	for i := 0; i+1 < len(args); i++ {
		a, b := ev.Bounds(args[i]), ev.Bounds(args[i+1])
		if !(a.Ub != nil && b.Lb != nil && *a.Ub <= *b.Lb) && !kit.SameExpr(f.Info(), args[i], args[i+1]) {
			fail(s, "%s <= %s is not established on this path (a high bound below the low bound panics)", f.Str(args[i]), f.Str(args[i+1]))
			return
		}
	}
	onlySlice := recvMask&^kit.RK(reflect.Slice) == 0
	if d, ok := hi.Rl[ev.Recv]; ok && d <= 0 {
		s.by["high <= Len() of the same value"] = true
		return
	}
	if d, ok := hi.Rc[ev.Recv]; ok && d <= 0 && onlySlice {
		s.by["high <= Cap() of the same slice value by a dominating comparison"] = true
		return
	}
	fail(s, "high bound %s is not bounded by Cap()/Len() of %s on this path", f.Str(args[len(args)-1]), f.Str(ev.Call.Fun.(*ast.SelectorExpr).X))
}
