package props

import (
	"fmt"
	"go/ast"
	"go/token"
	"go/types"
	"strings"

	"siotcheck/kit"
)

// ---------------------------------------------------------------------------
// R5: any-window = disjunction of memberships

func c14R5(c *kit.Ctx, cm *c14Model, r5 *kit.Rule) {
	f := cm.any
	info := f.Info()
	o := r5.Ob(f, nil, "any-window", "returns true iff the membership test of some window answered true; false only after every window was asked")
	params := f.Params()
	if len(params) != 1 {
		o.Undecided("unexpected signature")
		return
	}
	loops := c14ListLoops(cm, f)
	if len(loops) == 0 {
		o.Undecided("no loop over the window list in %s", f.Name)
		return
	}
	if len(loops) == 1 {
		for rs := range loops {
			switch cover, why := c14LoopCovers(f, rs, c14RecvVar(f)); cover {
			case "part":
				o.Violation("witness: two windows, t only inside the one that is not looked at → %s: false is returned although a window contains t", why)
				return
			case "unknown":
				o.Undecided("%s", why)
				return
			}
		}
	}
	st := &kit.Std{F: f}
	bf := &kit.BoolFlow{Std: st}
	var bad []string
	bf.Atom = func(e ast.Expr) (string, bool, bool) {
		call, ok := ast.Unparen(e).(*ast.CallExpr)
		if !ok || f.CalleeFunc(call) != cm.in || len(call.Args) != 1 {
			return "", false, false
		}
		sel, ok := ast.Unparen(call.Fun).(*ast.SelectorExpr)
		if !ok || !cm.m.isElemOf(f, sel.X, cm.tr) || !loops[cm.m.elemRange(f, sel.X)] {
			return "", false, false
		}
		if id, isId := ast.Unparen(call.Args[0]).(*ast.Ident); !isId || kit.ObjOf(info, id) != types.Object(params[0]) {
			bad = append(bad, fmt.Sprintf("membership at %s is asked for `%s`, not for t", f.At(call), f.Str(call.Args[0])))
			return "", false, false
		}
		return "el", false, true
	}
	st.OnBranch = func(br kit.Branch, s kit.S) (t, fl []kit.S, handled bool) {
		if br.Kind != kit.BrRange || !loops[br.Range] {
			return nil, nil, false
		}
		if s.Has("it") {
			switch s.Get("a:el") {
			case "T":
				s = s.Set("sawT", "T")
			case "":
				s = s.Set("unex", "T")
			}
			s = s.Del("a:el")
		}
		return []kit.S{s.Set("it", "1")}, []kit.S{s.Del("it").Set("complete", "T")}, true
	}
	corr := &ruCorr{f: f, pred: func(x ast.Expr) bool {
		if id, ok := x.(*ast.Ident); ok && kit.ObjOf(info, id) == types.Object(params[0]) {
			return true
		}
		return cm.m.isElemOf(f, x, cm.tr)
	}}
	corr.hook(st)
	res := c.P.Graph(f).Run(kit.NewS(), bf.Client())
	if res.Overflow {
		c.Fatalf("%s: state space overflow", f.Name)
	}
	if corr.any() {
		o.Undecided("the any-window method branches on a condition over t / a window that is not the membership test: %s", corr.String())
		return
	}
	n := 0
	seen := map[string]bool{}
	for _, ex := range res.Exits {
		if ex.Return == nil || len(ex.Return.Results) != 1 {
			continue
		}
		n++
		s := ex.State
		sawT := s.Get("sawT") == "T" || (s.Has("it") && s.Get("a:el") == "T")
		k := fmt.Sprint(sawT, s.Get("complete"), s.Get("unex"))
		if !seen[k] {
			seen[k] = true
			c.AddValuations(1)
		}
		v, det := bf.DetEval(ex.Return.Results[0], s)
		switch {
		case !det:
			o.Undecided("result at %s is not determined by the membership atoms", f.At(ex.Return))
		case sawT && !v:
			o.Violation("witness: two windows, t inside one of them → false returned at %s although a membership test answered true", f.At(ex.Return)).WithPath(res.PathTo(ex))
		case !sawT && v:
			o.Violation("witness: t outside every window → true returned at %s although no membership test answered true", f.At(ex.Return)).WithPath(res.PathTo(ex))
		case !sawT && (s.Get("complete") != "T" || s.Get("unex") == "T"):
			o.Violation("witness: two windows, t only inside the one not asked → false returned at %s before every window was asked", f.At(ex.Return)).WithPath(res.PathTo(ex))
		}
	}
	if len(bad) > 0 {
		o.Violation("%s", strings.Join(uniqStrings(bad), "; "))
	}
	if n == 0 {
		o.Undecided("no return found")
	}
	o.OK("%d exits over %d abstract loop outcomes agree with the disjunction", n, len(seen))
}

// c14ListLoops: range loops of f over the window list (receiver or its
// dereference, or any expression of list type).
func c14ListLoops(cm *c14Model, f *kit.Func) map[*ast.RangeStmt]bool {
	out := map[*ast.RangeStmt]bool{}
	info := f.Info()
	for _, rs := range ruOwnLoops(f) {
		if el := ruSliceElem(info.TypeOf(rs.X)); el != nil && types.Identical(el, cm.tr) {
			out[rs] = true
		}
	}
	return out
}

// ---------------------------------------------------------------------------
// R4: the two filters

type c14Filter struct {
	name  string
	f     *kit.Func
	atoms []string // atoms that must all be true for a match
	// atomOf recognises a comparison leaf of the filter
	atomOf func(e ast.Expr) (id string, neg, ok bool)
	wit    [3]string // witnesses: kept-without-match, dropped-with-match, partial
	image  *c14Image // filter values parsed into a list before the window loop (nil: classic shape)
}

// c14StartExpr: e is `<elem>.start` or `<elem>.start.UTC()`; other window
// field reads are reported through usesEnd.
func c14WindowFieldOf(cm *c14Model, f *kit.Func, e ast.Expr) (fv *types.Var, ok bool) {
	info := f.Info()
	e = ast.Unparen(e)
	if call, isCall := e.(*ast.CallExpr); isCall {
		if name, rx, isT := c14TimeMethod(info, call); isT && name == "UTC" {
			e = ast.Unparen(rx)
		}
	}
	// a local copy `s := <elem>.start(.UTC())` with a single definition
	if id, isId := e.(*ast.Ident); isId {
		o := kit.ObjOf(info, id)
		if o == nil || !c14IsTime(o.Type()) {
			return nil, false
		}
		var def ast.Expr
		n := 0
		ast.Inspect(f.Body, func(x ast.Node) bool {
			switch as := x.(type) {
			case *ast.AssignStmt:
				for i, l := range as.Lhs {
					if lid, ok := ast.Unparen(l).(*ast.Ident); ok && kit.ObjOf(info, lid) == o {
						n++
						if len(as.Lhs) == len(as.Rhs) {
							def = as.Rhs[i]
						}
					}
				}
			case *ast.ValueSpec:
				for i, nm := range as.Names {
					if info.Defs[nm] == o {
						n++
						if len(as.Values) == len(as.Names) {
							def = as.Values[i]
						}
					}
				}
			}
			return true
		})
		if n != 1 || def == nil {
			return nil, false
		}
		if _, again := ast.Unparen(def).(*ast.Ident); again {
			return nil, false
		}
		return c14WindowFieldOf(cm, f, def)
	}
	base, v, isSel := kit.FieldSel(info, e)
	if !isSel || (v != cm.trF[0] && v != cm.trF[1]) || !cm.m.isElemOf(f, base, cm.tr) {
		return nil, false
	}
	return v, true
}

func c14R4(c *kit.Ctx, cm *c14Model, r4 *kit.Rule) {
	if cm.startIdx < 0 {
		r4.Ob(cm.fw, nil, "weekday filter", "keeps a window iff some weekday equals the start's weekday").Undecided("window field roles unknown (see R3)")
		return
	}
	startF := cm.trF[cm.startIdx]
	// ---- static: only the start field is read
	for _, ff := range []struct {
		f    *kit.Func
		name string
	}{{cm.fw, "weekday filter"}, {cm.fd, "date filter"}} {
		f := ff.f
		info := f.Info()
		o := r4.Ob(f, nil, ff.name+" reads the start only", "the filter reads no other field of a window than its start, and decides each window by that window's own start (no value derived from another window's field meets a filter value in a branch condition)")
		nStart, nKept := 0, 0
		var other []string
		// the filter itself and the same-package helpers it hands a window to
		bodies := []*kit.Func{f}
		for _, call := range f.AllCalls(true) {
			h := f.CalleeFunc(call)
			if h == nil || h.Body == nil || h == f || h.Pkg != f.Pkg {
				continue
			}
			gets := false
			for _, a := range call.Args {
				if cm.m.isElemOf(f, a, cm.tr) {
					gets = true
				}
			}
			if sel, ok := ast.Unparen(call.Fun).(*ast.SelectorExpr); ok {
				if _, isMethod := info.Selections[sel]; isMethod && cm.m.isElemOf(f, sel.X, cm.tr) {
					gets = true
				}
			}
			if gets {
				dup := false
				for _, b := range bodies {
					dup = dup || b == h
				}
				if !dup {
					bodies = append(bodies, h)
				}
			}
		}
		for _, b := range bodies {
			b := b
			ast.Inspect(b.Body, func(n ast.Node) bool {
				if sel, ok := n.(*ast.SelectorExpr); ok {
					if _, fv, ok := kit.FieldSel(info, sel); ok && (fv == cm.trF[0] || fv == cm.trF[1]) {
						if fv == startF {
							nStart++
						} else {
							other = append(other, fmt.Sprintf("`%s` at %s", b.Str(sel), b.At(sel)))
						}
					} else if ok && cm.wdCache != nil && fv == cm.wdCache {
						// the weekday of the start kept with the window (judged by the
						// obligation "weekday kept with the window")
						nStart++
						nKept++
					}
				}
				return true
			})
		}
		fviol, fundec := c14ForeignReads(cm, f, f.Params()[0])
		switch {
		case len(other) > 0:
			o.Violation("witness: window 22:00–06:00 starting on an allowed day and ending on a day that is not allowed: the filter reads %s", strings.Join(other, ", "))
		case len(fviol) > 0:
			o.Violation("witness: schedule 20:00–06:00 restricted to the date 2021-12-31, t = 2022-01-01 02:00 (windows: one starting 2022-01-01, the wrapped one starting 2021-12-31): the window that started on the listed day is judged by another window's calendar day — %s", strings.Join(fviol, "; "))
		case len(fundec) > 0:
			o.Undecided("%s", strings.Join(fundec, "; "))
		case nStart == 0:
			o.Undecided("the filter reads no window field at all")
		case nKept > 0:
			o.OK("%d reads, all of the start field `%s` or of `%s`, the weekday of the start kept with the window", nStart, startF.Name(), cm.wdCache.Name())
		default:
			o.OK("%d reads, all of the start field `%s`", nStart, startF.Name())
		}
	}
	// ---- weekday filter
	{
		f := cm.fw
		info := f.Info()
		wparam := f.Params()[0]
		isWd := func(e ast.Expr) bool {
			e = c14StripConv(info, cm.resolve(c14StripConv(info, e)))
			if id, ok := e.(*ast.Ident); ok {
				if rs := cm.rangeOfVal(f, kit.ObjOf(info, id)); rs != nil && kit.ObjOf(info, cm.resolve(rs.X)) == types.Object(wparam) {
					return true
				}
			}
			if ix, ok := e.(*ast.IndexExpr); ok && kit.ObjOf(info, cm.resolve(ix.X)) == types.Object(wparam) {
				if rs := cm.rangeOfKey(f, kit.ObjOf(info, ix.Index)); rs != nil && kit.ObjOf(info, cm.resolve(rs.X)) == types.Object(wparam) {
					return true
				}
			}
			return false
		}
		isStartWeekday := func(e ast.Expr) bool {
			e = c14StripConv(info, cm.resolve(c14StripConv(info, e)))
			// `w := <elem>.weekday` with a single definition
			if id, isId := e.(*ast.Ident); isId && cm.wdCache != nil {
				if rhs, _, _, n := c13SingleDef(f, kit.ObjOf(info, id)); n == 1 && rhs != nil {
					e = c14StripConv(info, rhs)
				}
			}
			// <elem>.weekday: the weekday of the window's start kept with the
			// window; that it is the start's weekday is the obligation "weekday
			// kept with the window" of the predicate
			if base, fv, isSel := kit.FieldSel(info, e); isSel && cm.wdCache != nil && fv == cm.wdCache {
				return cm.m.isElemOf(f, base, cm.tr)
			}
			call, ok := e.(*ast.CallExpr)
			if !ok {
				return false
			}
			name, rx, isT := c14TimeMethod(info, call)
			if !isT || name != "Weekday" {
				return false
			}
			fv, ok := c14WindowFieldOf(cm, f, rx)
			return ok && fv == startF
		}
		flt := &c14Filter{name: "weekday filter", f: f, atoms: []string{"wd"},
			atomOf: func(e ast.Expr) (string, bool, bool) {
				a, b, neg, ok := ruEqLeaf(e)
				if !ok {
					return "", false, false
				}
				if (isStartWeekday(a) && isWd(b)) || (isStartWeekday(b) && isWd(a)) {
					return "wd", neg, true
				}
				return "", false, false
			},
			wit: [3]string{"weekdays {Mon}, window starting on a Tuesday", "weekdays {Mon, Tue}, window starting on a Tuesday", "weekdays {Mon}"},
		}
		c14FilterRun(c, cm, flt, wparam, r4)
	}
	// ---- date filter
	{
		f := cm.fd
		info := f.Info()
		dparam := f.Params()[0]
		groups := c14AtoiGroups(f)
		img := c14DateImage(cm, f, dparam)
		helperGroups := map[*kit.Func]map[int]int{}
		groupOf := func(e ast.Expr) (int, bool) {
			e = c14StripConv(info, e)
			if g, has := groups[kit.ObjOf(info, e)]; has {
				if _, isId := e.(*ast.Ident); isId {
					return g, true
				}
			}
			// year, month, day, err := parse(date): result i of a helper whose
			// returns hand back Atoi(matches[k]) at position i
			if id, isId := e.(*ast.Ident); isId {
				if rhs, idx, _, n := c13SingleDef(f, kit.ObjOf(info, id)); n == 1 && rhs != nil {
					if hc, isCall := ast.Unparen(rhs).(*ast.CallExpr); isCall {
						if h := f.CalleeFunc(hc); h != nil && h.Body != nil && h != f {
							hg, done := helperGroups[h]
							if !done {
								hg = c14ResultGroups(h)
								helperGroups[h] = hg
							}
							if g, has := hg[idx]; has && g > 0 {
								return g, true
							}
						}
					}
				}
			}
			if img != nil {
				if base, fv, ok := kit.FieldSel(info, e); ok {
					if rs := cm.m.rangesOf(f).val[kit.ObjOf(info, base)]; rs != nil && kit.ObjOf(info, rs.X) == img.list {
						if g, has := img.groups[fv]; has && g > 0 {
							return g, true
						}
					}
				}
			}
			return 0, false
		}
		comp := func(e ast.Expr) string {
			e = ast.Unparen(e)
			if call, ok := e.(*ast.CallExpr); ok && len(call.Args) == 1 {
				if tv, has := info.Types[call.Fun]; has && tv.IsType() {
					e = ast.Unparen(call.Args[0])
				}
			}
			// y, m, d := <start>.Date()
			if id, isId := e.(*ast.Ident); isId {
				if rhs, idx, _, n := c13SingleDef(f, kit.ObjOf(info, id)); n == 1 && rhs != nil {
					if dc, isCall := ast.Unparen(rhs).(*ast.CallExpr); isCall {
						if name, rx, isT := c14TimeMethod(info, dc); isT && name == "Date" {
							if fv, ok := c14WindowFieldOf(cm, f, rx); ok && fv == startF && idx < 3 {
								return []string{"dY", "dM", "dD"}[idx]
							}
						}
					}
				}
				return ""
			}
			call, ok := e.(*ast.CallExpr)
			if !ok {
				return ""
			}
			name, rx, isT := c14TimeMethod(info, call)
			if !isT {
				return ""
			}
			if fv, ok := c14WindowFieldOf(cm, f, rx); !ok || fv != startF {
				return ""
			}
			switch name {
			case "Year":
				return "dY"
			case "Month":
				return "dM"
			case "Day":
				return "dD"
			}
			return ""
		}
		want := map[string]int{"dY": 1, "dM": 2, "dD": 3}
		var mispaired []string
		flt := &c14Filter{name: "date filter", f: f, atoms: []string{"dY", "dM", "dD"},
			atomOf: func(e ast.Expr) (string, bool, bool) {
				a, b, neg, ok := ruEqLeaf(e)
				if !ok {
					return "", false, false
				}
				for _, sw := range [2][2]ast.Expr{{a, b}, {b, a}} {
					id := comp(sw[0])
					if id == "" {
						continue
					}
					g, has := groupOf(sw[1])
					if !has {
						continue
					}
					if g != want[id] {
						mispaired = append(mispaired, fmt.Sprintf("`%s` at %s compares group %d of the YYYY-MM-DD pattern with the start's %s", f.Str(e), f.At(e), g, strings.TrimPrefix(id, "d")))
						return "", false, false
					}
					return id, neg, true
				}
				return "", false, false
			},
			wit: [3]string{"dates {2024-03-10}, window starting 2024-04-10", "dates {2024-03-10}, window starting 2024-03-10", "dates {2024-03-10}, window starting on 10 March of another year/month"},
		}
		flt.image = img
		o := c14FilterRun(c, cm, flt, dparam, r4)
		if len(mispaired) > 0 && o != nil {
			o.Violation("%s", strings.Join(uniqStrings(mispaired), "; "))
		}
	}
}

// c14AtoiGroups maps int variables defined only as strconv.Atoi(X[k]) to k.
func c14AtoiGroups(f *kit.Func) map[types.Object]int {
	info := f.Info()
	out := map[types.Object]int{}
	bad := map[types.Object]bool{}
	ast.Inspect(f.Body, func(n ast.Node) bool {
		as, ok := n.(*ast.AssignStmt)
		if !ok {
			return true
		}
		if len(as.Rhs) == 1 && len(as.Lhs) == 2 {
			if call, ok := ast.Unparen(as.Rhs[0]).(*ast.CallExpr); ok && kit.CallIs(info, call, "strconv.Atoi") && len(call.Args) == 1 {
				if ix, ok := ast.Unparen(call.Args[0]).(*ast.IndexExpr); ok {
					if k, isC := kit.ConstInt(info, ix.Index); isC {
						if o := kit.ObjOf(info, as.Lhs[0]); o != nil {
							if prev, has := out[o]; has && prev != int(k) {
								bad[o] = true
							}
							out[o] = int(k)
							return true
						}
					}
				}
			}
		}
		for _, l := range as.Lhs {
			if o := kit.ObjOf(info, l); o != nil {
				if _, isId := ast.Unparen(l).(*ast.Ident); isId {
					if _, isInt := o.Type().Underlying().(*types.Basic); isInt {
						// any other definition of the variable spoils the mapping
						if len(as.Rhs) != 1 || len(as.Lhs) != 2 || l != as.Lhs[0] {
							bad[o] = true
						}
					}
				}
			}
		}
		return true
	})
	for o := range bad {
		delete(out, o)
	}
	return out
}

// c14FilterRun: abstract run of one filter.  Unit = one pass of the loop
// over the windows; inside, the loop over the filter values is a quantifier
// with lazily valued atoms per value.
func c14FilterRun(c *kit.Ctx, cm *c14Model, flt *c14Filter, fparam *types.Var, r4 *kit.Rule) *kit.Ob {
	f := flt.f
	info := f.Info()
	recv := c14RecvVar(f)
	o := r4.Ob(f, nil, flt.name, "an empty filter leaves the list untouched; otherwise a window is kept iff its start matches some filter value, every value being tried, and the kept list replaces the receiver's")
	if recv == nil {
		o.Undecided("filter without named receiver")
		return o
	}
	outer := c14ListLoops(cm, f)
	inner := map[*ast.RangeStmt]bool{}
	for _, rs := range ruOwnLoops(f) {
		switch xo := kit.ObjOf(info, rs.X); {
		case flt.image != nil && rs == flt.image.loop:
			// the parse loop that builds the list of filter values
		case xo == types.Object(fparam):
			inner[rs] = true
		case flt.image != nil && xo == flt.image.list:
			inner[rs] = true
		}
	}
	if flt.image != nil && !flt.image.exact {
		// the list the windows are compared with is not the whole filter
		if fv, _ := c14ForeignReads(cm, f, fparam); len(fv) > 0 {
			o.Violation("the filter values are thinned out before the window loop by a test on another window's start (%s): the windows are then compared with the wrong set of values; witness: dates {2021-12-31}, schedule 20:00–06:00, t = 2022-01-01 02:00 → %s", flt.image.why, strings.Join(fv, "; "))
		} else {
			o.Undecided("the filter values are parsed into a list before the window loop, but not all of them (%s)", flt.image.why)
		}
		return o
	}
	if len(outer) != 1 || len(inner) > 1 {
		o.Undecided("expected one loop over the windows and at most one over the filter values in %s, found %d / %d", f.Name, len(outer), len(inner))
		return o
	}
	var outerRS *ast.RangeStmt
	for rs := range outer {
		outerRS = rs
	}
	// every window is decided: the loop ranges over the whole list
	switch cover, why := c14LoopCovers(f, outerRS, recv); cover {
	case "part":
		o.Violation("witness: schedule 20:00–06:00 (two windows), both starts allowed by the filter → %s: the window outside that part is never decided and is missing from the kept list", why)
		return o
	case "unknown":
		o.Undecided("%s", why)
		return o
	}
	within := func(n ast.Node, rs *ast.RangeStmt) bool { return rs.Body.Pos() <= n.Pos() && n.End() <= rs.Body.End() }
	for rs := range inner {
		if !within(rs, outerRS) {
			o.Undecided("the loop over the filter values is not nested in the loop over the windows")
			return o
		}
	}
	// the loop over the filter values may live in a helper that is evaluated
	// inline: it is recognised when it is entered (its operand resolves to the
	// filter parameter or to the list of parsed values)
	innerLoops := map[*ast.RangeStmt]bool{}
	isInner := func(rs *ast.RangeStmt) bool {
		if inner[rs] {
			return true
		}
		if flt.image != nil && rs == flt.image.loop {
			return false
		}
		xo := kit.ObjOf(info, cm.resolve(rs.X))
		return xo != nil && (xo == types.Object(fparam) || (flt.image != nil && xo == flt.image.list)) && rs.Pos() != outerRS.Pos()
	}
	isLenParam := func(e ast.Expr) bool {
		call, ok := ast.Unparen(e).(*ast.CallExpr)
		if !ok || len(call.Args) != 1 || kit.ObjOf(info, cm.resolve(call.Args[0])) != types.Object(fparam) {
			return false
		}
		b, isB := kit.Callee(info, call).(*types.Builtin)
		return isB && b.Name() == "len"
	}
	// values derived from a window's fields (for the "uninterpreted condition" test)
	_, derived := c14Taint(f, func(x ast.Expr) bool {
		if _, fv, ok := kit.FieldSel(info, x); ok && (fv == cm.trF[0] || fv == cm.trF[1]) {
			return true
		}
		return false
	})
	var violations, undec []string
	addV := func(format string, a ...any) { violations = append(violations, fmt.Sprintf(format, a...)) }
	for _, empty := range []string{"T", "F"} {
		st := &kit.Std{F: f}
		bf := &kit.BoolFlow{Std: st}
		restore := cm.m.follow(st)
		st.ShouldInline = func(cf *kit.Func, call *ast.CallExpr) bool {
			// helpers that receive the filter values or the window
			touches := func(e ast.Expr) bool {
				return ruMentions(e, func(x ast.Expr) bool {
					if id, ok := x.(*ast.Ident); ok && kit.ObjOf(info, cm.resolve(id)) == types.Object(fparam) {
						return true
					}
					return cm.m.isElemOf(f, x, cm.tr)
				})
			}
			for _, a := range call.Args {
				if touches(a) {
					return true
				}
			}
			if sel, ok := ast.Unparen(call.Fun).(*ast.SelectorExpr); ok {
				if _, isMethod := info.Selections[sel]; isMethod && touches(sel.X) {
					return true
				}
			}
			return false
		}
		bf.Atom = func(e ast.Expr) (string, bool, bool) {
			e = ast.Unparen(e)
			if a, b, op, ok := kit.CmpAtom(e); ok {
				for _, sw := range [2]struct {
					l, r ast.Expr
					o    token.Token
				}{{a, b, op}, {b, a, ruFlip(op)}} {
					if !isLenParam(sw.l) {
						continue
					}
					k, isC := kit.ConstInt(info, sw.r)
					if !isC {
						continue
					}
					// len(x) OP k  ⇔ empty ?
					switch {
					case (sw.o == token.EQL && k == 0) || (sw.o == token.LEQ && k == 0) || (sw.o == token.LSS && k == 1):
						return "empty", false, true
					case (sw.o == token.NEQ && k == 0) || (sw.o == token.GTR && k == 0) || (sw.o == token.GEQ && k == 1):
						return "empty", true, true
					}
				}
			}
			// len(*recv) OP k: "no window at all"
			if a, b, op, ok := kit.CmpAtom(e); ok {
				for _, sw := range [2]struct {
					l, r ast.Expr
					o    token.Token
				}{{a, b, op}, {b, a, ruFlip(op)}} {
					call, isCall := ast.Unparen(sw.l).(*ast.CallExpr)
					if !isCall || len(call.Args) != 1 {
						continue
					}
					if bi, isB := kit.Callee(info, call).(*types.Builtin); !isB || bi.Name() != "len" {
						continue
					}
					arg := ast.Unparen(call.Args[0])
					if st, isStar := arg.(*ast.StarExpr); isStar {
						arg = ast.Unparen(st.X)
					}
					if kit.ObjOf(info, arg) != types.Object(recv) {
						continue
					}
					k, isC := kit.ConstInt(info, sw.r)
					if !isC {
						continue
					}
					switch {
					case (sw.o == token.EQL && k == 0) || (sw.o == token.LEQ && k == 0) || (sw.o == token.LSS && k == 1):
						return "nowin", false, true
					case (sw.o == token.NEQ && k == 0) || (sw.o == token.GTR && k == 0) || (sw.o == token.GEQ && k == 1):
						return "nowin", true, true
					}
				}
			}
			if kit.ObjOf(info, e) == types.Object(fparam) {
				return "", false, false
			}
			if a, b, neg, ok := ruEqLeaf(e); ok {
				// param == nil
				if (kit.ObjOf(info, a) == types.Object(fparam) && kit.IsNilIdent(info, b)) || (kit.ObjOf(info, b) == types.Object(fparam) && kit.IsNilIdent(info, a)) {
					_ = neg
					return "", false, false
				}
			}
			return flt.atomOf(e)
		}
		classify := func(s kit.S) string {
			anyF, all := false, true
			for _, a := range flt.atoms {
				switch s.Get("a:" + a) {
				case "F":
					anyF = true
					all = false
				case "":
					all = false
				}
			}
			switch {
			case anyF:
				return "nomatch"
			case all:
				return "match"
			}
			return "partial"
		}
		closeInner := func(s kit.S) kit.S {
			if s.Has("iti") {
				switch classify(s) {
				case "match":
					s = s.Set("sawM", "T")
				case "partial":
					s = s.Set("part", "T")
				}
				for _, a := range flt.atoms {
					s = s.Del("a:" + a)
				}
				s = s.Del("iti")
			}
			return s
		}
		curInner := func(s kit.S) *ast.RangeStmt {
			for rs := range innerLoops {
				if fmt.Sprint(rs.Pos()) == s.Get("itl") {
					return rs
				}
			}
			return nil
		}
		var appendTargets, storeSources []string
		st.OnNode = func(n ast.Node, s kit.S) []kit.S {
			if st.Cur() != f {
				return []kit.S{s} // a helper's own statements
			}
			as, ok := n.(*ast.AssignStmt)
			if !ok || len(as.Lhs) != len(as.Rhs) {
				return []kit.S{s}
			}
			for i, l := range as.Lhs {
				r := ast.Unparen(as.Rhs[i])
				// N = append(N, elem)
				if call, ok := r.(*ast.CallExpr); ok {
					if b, isB := kit.Callee(info, call).(*types.Builtin); isB && b.Name() == "append" {
						if el := ruSliceElem(info.TypeOf(call)); el != nil && types.Identical(el, cm.tr) {
							tgt := kit.ObjOf(info, l)
							okShape := tgt != nil && len(call.Args) == 2 && kit.ObjOf(info, call.Args[0]) == tgt &&
								cm.m.isElemOf(f, call.Args[1], cm.tr) && cm.m.elemRange(f, call.Args[1]) == outerRS
							if !okShape {
								undec = append(undec, fmt.Sprintf("append at %s is not `kept = append(kept, <current window>)`", f.At(as)))
								continue
							}
							appendTargets = append(appendTargets, kit.VarID(tgt))
							if cur := curInner(s); cur != nil && within(as, cur) && s.Has("iti") {
								switch classify(s) {
								case "nomatch":
									addV("witness: %s → the window is kept at %s in a pass where a compared component differs", flt.wit[0], f.At(as))
								case "partial":
									addV("witness: %s → the window is kept at %s before every component was compared with the start", flt.wit[2], f.At(as))
								}
							}
							s = s.Set("kept", "T")
							continue
						}
					}
				}
				// *recv = N
				if star, ok := ast.Unparen(l).(*ast.StarExpr); ok && kit.ObjOf(info, star.X) == types.Object(recv) {
					if kit.IsNilIdent(info, r) {
						// `*recv = nil`: the same as storing an empty kept list; that is what
						// the filter yields when there is no window to look at
						if s.Get("a:nowin") == "T" && !s.Has("ito") {
							s = s.Set("stored", "T")
						} else {
							undec = append(undec, fmt.Sprintf("the receiver's list is cleared at %s on a path where windows may exist", f.At(as)))
						}
						continue
					}
					src := kit.ObjOf(info, r)
					if src == nil {
						undec = append(undec, fmt.Sprintf("the receiver's list is replaced by `%s` at %s", f.Str(r), f.At(as)))
						continue
					}
					storeSources = append(storeSources, kit.VarID(src))
					s = s.Set("stored", "T")
				}
			}
			return []kit.S{s}
		}
		st.OnBranch = func(br kit.Branch, s kit.S) (t, fl []kit.S, handled bool) {
			if br.Kind != kit.BrRange {
				return nil, nil, false
			}
			switch {
			case br.Range != outerRS && isInner(br.Range):
				innerLoops[br.Range] = true
				s = closeInner(s)
				return []kit.S{s.Set("iti", "1").Set("itl", fmt.Sprint(br.Range.Pos()))}, []kit.S{s.Set("icomplete", "T")}, true
			case br.Range == outerRS:
				if !s.Has("ito") {
					if s.Get("a:nowin") == "T" {
						return nil, []kit.S{s}, true // no window: the loop body does not run
					}
					return []kit.S{s.Set("ito", "1")}, []kit.S{s}, true
				}
				// end of one pass over a window
				incomplete := s.Has("iti") || s.Get("icomplete") != "T"
				s = closeInner(s)
				kept, sawM := s.Get("kept") == "T", s.Get("sawM") == "T"
				switch {
				case empty == "T":
					// handled at the exits
				case s.Get("part") == "T" && !sawM:
					addV("witness: %s → a pass over the filter values ends without comparing every component with the window start (the window is %s)", flt.wit[2], map[bool]string{true: "kept", false: "dropped"}[kept])
				case kept && !sawM:
					addV("witness: %s → the window is kept although no filter value matched its start", flt.wit[0])
				case !kept && sawM:
					addV("witness: %s → the window is dropped although a filter value matched its start", flt.wit[1])
				case !kept && incomplete:
					addV("witness: %s → the window is dropped before every filter value was tried", flt.wit[1])
				}
				// continue to the loop exit only (one pass is the unit)
				return nil, []kit.S{s.Set("passed", "T")}, true
			}
			return nil, nil, false
		}
		var corrPred func(x ast.Expr) bool
		corrPred = func(x ast.Expr) bool {
			if id, ok := x.(*ast.Ident); ok {
				if r := cm.resolve(id); r != ast.Expr(id) {
					return ruMentions(r, corrPred)
				}
				ob := kit.ObjOf(info, id)
				if ob == types.Object(fparam) {
					return true
				}
				if rs := cm.rangeOfVal(f, ob); rs != nil && innerLoops[rs] {
					return true
				}
				if derived(id) {
					return true
				}
				// the window list or the kept list (an uninterpreted test on them
				// may guard an early end of the window loop)
				if v, isVar := ob.(*types.Var); isVar && (v == recv || c14IsWindowList(cm, v.Type())) {
					return true
				}
			}
			return cm.m.isElemOf(f, x, cm.tr)
		}
		corr := &ruCorr{f: f, pred: corrPred}
		corr.hook(st)
		res := c.P.Graph(f).Run(kit.NewS().Set("a:empty", empty), bf.Client())
		restore()
		if res.Overflow {
			c.Fatalf("%s: state space overflow", f.Name)
		}
		c.AddValuations(1)
		if empty == "F" && len(innerLoops) == 0 {
			undec = append(undec, "no loop over the filter values was entered (neither in the filter nor in a helper evaluated inline)")
		}
		if corr.any() {
			undec = append(undec, "the filter branches on a condition over the window / filter value that the checker does not interpret: "+corr.String())
		}
		nex := 0
		for _, ex := range res.Exits {
			if ex.Return != nil && len(ex.Return.Results) > 0 && st.ReturnsNil(ex.Return, ex.State) == "nonnil" {
				continue // invalid filter value reported
			}
			nex++
			stored := ex.State.Get("stored") == "T"
			// every window is decided: a pass over a window ends at the head of the
			// window loop, where the next window is fetched.  A successful exit
			// reached from inside a pass (break / goto out of the window loop,
			// return from its body) leaves the windows behind the current one
			// unexamined; they are missing from the kept list.
			if empty == "F" && ex.State.Has("ito") && ex.State.Get("passed") != "T" {
				how := "dropped although a filter value matches its start"
				if !stored {
					how = "never decided"
				}
				by := ""
				if lv := c14LoopLeavers(f, outerRS); len(lv) > 0 {
					by = " by " + strings.Join(lv, " / ")
				}
				addV("witness: schedule 20:00–06:00 (two windows: the one starting on t's day and the wrapped one that started the day before), both starts allowed by the filter → the loop over the windows is left%s during the pass over the first window (successful exit %s reached without returning to `range %s` at %s): the second window is %s", by, c14ExitAt(f, ex), f.Str(outerRS.X), f.At(outerRS), how)
			}
			switch {
			case empty == "T" && stored:
				addV("witness: empty filter (nothing selected), one window → the receiver's list is replaced (by the kept list, which is empty) at exit %s", c14ExitAt(f, ex))
			case empty == "F" && !stored:
				addV("witness: %s → the filter returns at %s without replacing the receiver's list by the kept windows", flt.wit[0], c14ExitAt(f, ex))
			}
		}
		if nex == 0 {
			undec = append(undec, "no successful exit")
		}
		if empty == "F" {
			at, ss := uniqStrings(appendTargets), uniqStrings(storeSources)
			if len(at) > 0 && len(ss) > 0 && (len(at) != 1 || len(ss) != 1 || at[0] != ss[0]) {
				undec = append(undec, fmt.Sprintf("kept list and stored list differ or are ambiguous (append targets %v, stored %v)", at, ss))
			}
		}
	}
	switch {
	case len(undec) > 0:
		o.Undecided("%s", strings.Join(uniqStrings(undec), "; "))
	case len(violations) > 0:
		o.Violation("%s", strings.Join(uniqStrings(violations), "; "))
	default:
		o.OK("empty/non-empty filter × lazily valued comparisons per filter value: kept iff matched, list replaced")
	}
	return o
}

func c14IsWindowList(cm *c14Model, t types.Type) bool {
	if p, ok := t.(*types.Pointer); ok {
		t = p.Elem()
	}
	el := ruSliceElem(t)
	return el != nil && types.Identical(el, cm.tr)
}

// c14LoopCovers judges the operand of a loop over the window list when it is
// a slice expression of the receiver's list: "all" for x[:], x[0:], x[:len(x)];
// "part" when a constant bound cuts a list of two windows (lower bound > 0,
// upper bound < 2); "unknown" for other bounds.  Operands that are not slice
// expressions are left to the other clauses ("").
func c14LoopCovers(f *kit.Func, rs *ast.RangeStmt, recv *types.Var) (string, string) {
	info := f.Info()
	se, ok := ast.Unparen(rs.X).(*ast.SliceExpr)
	if !ok || recv == nil {
		return "", ""
	}
	base := ast.Unparen(se.X)
	if st, isStar := base.(*ast.StarExpr); isStar {
		base = ast.Unparen(st.X)
	}
	if kit.ObjOf(info, base) != types.Object(recv) {
		return "", ""
	}
	desc := fmt.Sprintf("the loop at %s ranges over `%s`", f.At(rs), f.Str(rs.X))
	verdict := "all"
	if se.Low != nil {
		switch k, isC := kit.ConstInt(info, se.Low); {
		case isC && k == 0:
		case isC:
			return "part", desc + ", which leaves out the first window(s)"
		default:
			verdict = "unknown"
		}
	}
	if se.High != nil {
		isLen := false
		if call, isCall := ast.Unparen(se.High).(*ast.CallExpr); isCall && len(call.Args) == 1 {
			if b, isB := kit.Callee(info, call).(*types.Builtin); isB && b.Name() == "len" {
				arg := ast.Unparen(call.Args[0])
				if st, isStar := arg.(*ast.StarExpr); isStar {
					arg = ast.Unparen(st.X)
				}
				isLen = kit.ObjOf(info, arg) == types.Object(recv)
			}
		}
		switch k, isC := kit.ConstInt(info, se.High); {
		case isLen:
		case isC && k < 2:
			return "part", desc + ", which leaves out the wrapped window"
		default:
			verdict = "unknown"
		}
	}
	if se.Max != nil {
		verdict = "unknown"
	}
	if verdict == "unknown" {
		return "unknown", desc + "; whether that is the whole list is not derivable"
	}
	return "all", ""
}

// c14LoopLeavers names, for a message, the statements in the body of rs that
// leave the loop without an error: `break` aimed at rs (by its label, or
// unlabelled and not inside a nested loop / switch / select), `goto`, and
// returns that hand back no error.  The decision itself is taken on the flow
// (a successful exit reached from inside a pass), not on this list.
func c14LoopLeavers(f *kit.Func, rs *ast.RangeStmt) []string {
	info := f.Info()
	label := ""
	ast.Inspect(f.Body, func(n ast.Node) bool {
		if ls, ok := n.(*ast.LabeledStmt); ok && ls.Stmt == ast.Stmt(rs) {
			label = ls.Label.Name
		}
		return true
	})
	var out []string
	var walk func(n ast.Node, nested bool)
	walk = func(n ast.Node, nested bool) {
		ast.Inspect(n, func(x ast.Node) bool {
			switch y := x.(type) {
			case *ast.FuncLit:
				return false
			case *ast.ForStmt, *ast.RangeStmt, *ast.SwitchStmt, *ast.TypeSwitchStmt, *ast.SelectStmt:
				if x != n {
					walk(x, true)
					return false
				}
			case *ast.BranchStmt:
				switch {
				case y.Tok == token.BREAK && y.Label == nil && !nested,
					y.Tok == token.BREAK && y.Label != nil && y.Label.Name == label,
					y.Tok == token.GOTO:
					out = append(out, fmt.Sprintf("`%s` at %s", f.Str(y), f.At(y)))
				}
			case *ast.ReturnStmt:
				if len(y.Results) == 0 || kit.IsNilIdent(info, y.Results[len(y.Results)-1]) {
					out = append(out, fmt.Sprintf("`%s` at %s", f.Str(y), f.At(y)))
				}
			}
			return true
		})
	}
	walk(rs.Body, false)
	return out
}

func c14ExitAt(f *kit.Func, ex kit.Exit) string {
	if ex.Return != nil {
		return f.At(ex.Return)
	}
	return "end of " + f.Name
}

// c14StripConv removes parentheses and integer type conversions around e.
func c14StripConv(info *types.Info, e ast.Expr) ast.Expr {
	for {
		e = ast.Unparen(e)
		call, ok := e.(*ast.CallExpr)
		if !ok || len(call.Args) != 1 {
			return e
		}
		tv, has := info.Types[call.Fun]
		if !has || !tv.IsType() {
			return e
		}
		if b, isB := tv.Type.Underlying().(*types.Basic); !isB || b.Info()&types.IsInteger == 0 {
			return e
		}
		e = call.Args[0]
	}
}

// c14ResultGroups: for a helper, result position → group k when every return
// statement hands back, at that position, either a constant (error paths) or
// a variable defined only as strconv.Atoi(X[k]).
func c14ResultGroups(h *kit.Func) map[int]int {
	info := h.Info()
	groups := c14AtoiGroups(h)
	out := map[int]int{}
	bad := map[int]bool{}
	ast.Inspect(h.Body, func(n ast.Node) bool {
		if _, isLit := n.(*ast.FuncLit); isLit {
			return false
		}
		ret, ok := n.(*ast.ReturnStmt)
		if !ok {
			return true
		}
		if len(ret.Results) == 0 {
			// naked return with named results: the named result variables themselves
			if h.Type.Results != nil {
				i := 0
				for _, fl := range h.Type.Results.List {
					for _, nm := range fl.Names {
						if g, has := groups[info.Defs[nm]]; has {
							if prev, seen := out[i]; seen && prev != g {
								bad[i] = true
							}
							out[i] = g
						}
						i++
					}
				}
			}
			return true
		}
		for i, r := range ret.Results {
			if tv, has := info.Types[r]; has && tv.Value != nil {
				continue // constant on an error path
			}
			g, has := groups[kit.ObjOf(info, r)]
			if _, isId := ast.Unparen(r).(*ast.Ident); !isId || !has {
				if !kit.IsNilIdent(info, r) {
					bad[i] = true
				}
				continue
			}
			if prev, seen := out[i]; seen && prev != g {
				bad[i] = true
			}
			out[i] = g
		}
		return true
	})
	for i := range bad {
		delete(out, i)
	}
	return out
}

// resolve maps a helper's parameter to its argument while helpers are
// evaluated inline.
func (cm *c14Model) resolve(e ast.Expr) ast.Expr {
	if cm.m.res != nil {
		return ast.Unparen(cm.m.res(ast.Unparen(e)))
	}
	return ast.Unparen(e)
}

func (cm *c14Model) rangeOfVal(f *kit.Func, o types.Object) *ast.RangeStmt {
	for _, sc := range cm.m.scopes(f) {
		if rs := cm.m.rangesOf(sc).val[o]; rs != nil {
			return rs
		}
	}
	return nil
}

func (cm *c14Model) rangeOfKey(f *kit.Func, o types.Object) *ast.RangeStmt {
	for _, sc := range cm.m.scopes(f) {
		if rs := cm.m.rangesOf(sc).key[o]; rs != nil {
			return rs
		}
	}
	return nil
}
