package props

import (
	"fmt"
	"go/ast"
	"go/constant"
	"go/token"
	"go/types"
	"sort"
	"strings"

	"siotcheck/kit"
)

// c20PendingLimits (R8): every subscription of the store is served by one
// goroutine; while that goroutine is busy (writer lock, slow disk, tree walk of
// the verifier) the NATS client buffers the requests that arrive.  The buffer
// is bounded by the subscription's pending limits; what exceeds them is dropped
// by the client and only reported through the asynchronous error callback, so
// an acked writer never gets its reply.  The library defaults (read from the
// type-checked nats package, not written down here) are what the property
// text was stated against; the only API of the vendored nats.go that changes
// them is (*Subscription).SetPendingLimits.  Every use of that method in
// package store is judged: a limit that is negative (unlimited) or at least
// the default keeps the guarantee, a positive constant below the default breaks
// it, anything that is not a constant after looking one level up into the
// callers of a helper is undecided.
func c20PendingLimits(c *kit.Ctx, r8 *kit.Rule) {
	pk := c.P.MustPkg("store")
	lc := &c20LimitCtx{c: c}
	// the nats package as the store sees it (export data is enough: constants and method sets)
	for _, imp := range pk.Types.Imports() {
		if imp.Path() == natsPkg {
			lc.nats = imp
		}
	}
	if lc.nats == nil {
		c.Fatalf("R8: package store does not import %s", natsPkg)
	}
	lc.defMsgs = lc.natsConst("DefaultSubPendingMsgsLimit")
	lc.defBytes = lc.natsConst("DefaultSubPendingBytesLimit")
	subT, _ := lc.nats.Scope().Lookup("Subscription").(*types.TypeName)
	connT, _ := lc.nats.Scope().Lookup("Conn").(*types.TypeName)
	if subT == nil || connT == nil {
		c.Fatalf("R8: nats.Subscription / nats.Conn not found")
	}
	subPtr := types.NewPointer(subT.Type())
	// the knob: looked up in the method set, so a nats version without it has no sites
	setLimits, _, _ := types.LookupFieldOrMethod(subPtr, true, lc.nats, "SetPendingLimits")
	qSet := ""
	if fn, ok := setLimits.(*types.Func); ok {
		qSet = kit.QualName(fn.Origin())
	}
	// the subscribing methods of *nats.Conn: whatever returns a *Subscription first
	subscribers := map[string]bool{}
	if named, ok := connT.Type().(*types.Named); ok {
		for i := 0; i < named.NumMethods(); i++ {
			m := named.Method(i)
			res := m.Type().(*types.Signature).Results()
			if m.Exported() && res.Len() > 0 && kit.IsNamedType(res.At(0).Type(), natsPkg, "Subscription") {
				subscribers[kit.QualName(m.Origin())] = true
			}
		}
	}

	funcs := c.P.Funcs("store")
	// enclosing: the innermost function or literal whose body contains n
	enclosing := func(file *ast.File, n ast.Node) *kit.Func {
		var best *kit.Func
		for _, f := range funcs {
			if f.Body == nil || f.File != file || !(f.Body.Pos() <= n.Pos() && n.End() <= f.Body.End()) {
				continue
			}
			if best == nil || best.Body.Pos() <= f.Body.Pos() {
				best = f
			}
		}
		return best
	}

	type ref struct {
		file *ast.File
		sel  *ast.SelectorExpr
		via  string // "" = the method itself, else the interface it is called through
	}
	var refs []ref
	var firstSub *ast.SelectorExpr
	var firstSubFile *ast.File
	nsub := 0
	info := pk.TypesInfo
	files := append([]*ast.File(nil), pk.Syntax...)
	sort.Slice(files, func(i, j int) bool {
		return c.P.Fset.Position(files[i].Pos()).Filename < c.P.Fset.Position(files[j].Pos()).Filename
	})
	for _, file := range files {
		if strings.HasSuffix(c.P.Fset.Position(file.Pos()).Filename, "_test.go") {
			continue
		}
		ast.Inspect(file, func(n ast.Node) bool {
			sel, ok := n.(*ast.SelectorExpr)
			if !ok {
				return true
			}
			var obj types.Object
			var recv types.Type
			if s, ok := info.Selections[sel]; ok {
				obj, recv = s.Obj(), s.Recv()
			} else {
				obj = info.Uses[sel.Sel]
			}
			fn, ok := obj.(*types.Func)
			if !ok {
				return true
			}
			q := kit.QualName(fn.Origin())
			switch {
			case subscribers[q]:
				nsub++
				if firstSub == nil {
					firstSub, firstSubFile = sel, file
				}
			case qSet != "" && q == qSet:
				refs = append(refs, ref{file, sel, ""})
			case qSet != "" && fn.Name() == setLimits.Name() && recv != nil:
				// the same method behind an interface that *nats.Subscription satisfies
				if it, ok := recv.Underlying().(*types.Interface); ok && types.Implements(subPtr, it) {
					refs = append(refs, ref{file, sel, types.TypeString(recv, types.RelativeTo(pk.Types))})
				}
			}
			return true
		})
	}

	// ---- one obligation per use of the knob
	perFunc := map[string]int{}
	for _, rf := range refs {
		f := enclosing(rf.file, rf.sel)
		if f == nil {
			r8.ObAt(c.P, "store", rf.sel.Pos(), "SetPendingLimits outside a function", "the pending limits of a subscription are not lowered below the client's defaults").
				Undecided("`%s` is used in a package-level initialiser; the limits it is called with are not followed", kit.ExprStr(c.P.Fset, rf.sel))
			continue
		}
		c.Analysed(f)
		key := "SetPendingLimits in " + f.Name
		perFunc[key]++
		if perFunc[key] > 1 {
			key += fmt.Sprintf(" #%d", perFunc[key])
		}
		o := r8.Ob(f, rf.sel, key, "the pending limits of a subscription are not lowered below the client's defaults (negative = unlimited)")
		if rf.via != "" {
			o.Undecided("SetPendingLimits is reached through the interface %s, which *nats.Subscription satisfies; the receiver is not followed", rf.via)
			continue
		}
		calls, undec := lc.callsOf(f, rf.sel)
		if undec != "" {
			o.Undecided("%s", undec)
			continue
		}
		var bad, open, fine []string
		for _, cs := range calls {
			for i, what := range []string{"messages", "bytes"} {
				def := lc.defMsgs
				if i == 1 {
					def = lc.defBytes
				}
				vals, u := lc.values(f, cs.args[i], 0)
				if u != "" {
					open = append(open, what+" limit `"+f.Str(cs.args[i])+"`: "+u)
					continue
				}
				for _, v := range vals {
					switch {
					case def == nil:
						open = append(open, "the default for pending "+what+" is not a constant of this nats version")
					case constant.Sign(v.v) < 0:
						fine = append(fine, what+" unlimited"+v.from)
					case constant.Sign(v.v) == 0:
						open = append(open, what+" limit 0"+v.from+" is not a limit (the client rejects the call); not decided")
					case constant.Compare(v.v, token.GEQ, def):
						fine = append(fine, what+" "+v.v.ExactString()+" >= default "+def.ExactString()+v.from)
					default:
						bad = append(bad, fmt.Sprintf("requests beyond %s pending %s are dropped by the client without a reply (the default is %s)%s", v.v.ExactString(), what, def.ExactString(), v.from))
					}
				}
			}
		}
		switch {
		case len(bad) > 0:
			o.Violation("%s: while the single handler goroutine of the subscription is blocked, later requests are lost and their senders wait for the timeout", strings.Join(uniqStrings(bad), "; "))
		case len(open) > 0:
			o.Undecided("%s", strings.Join(uniqStrings(open), "; "))
		default:
			o.OK("%s", strings.Join(uniqStrings(fine), "; "))
		}
	}

	// ---- the obligation that is always there: the subscriptions themselves
	nh := 0
	for _, f := range funcs {
		if f.Decl != nil && f.Body != nil && msgParam(f) != nil {
			nh++
		}
	}
	var o *kit.Ob
	const what = "no subscription of the store gets pending limits below the client's defaults: every use of (*nats.Subscription).SetPendingLimits in the package is judged"
	if f := c20EnclosingOrNil(enclosing, firstSubFile, firstSub); f != nil {
		c.Analysed(f)
		o = r8.Ob(f, firstSub, "subscriptions of package store", what)
	} else {
		o = r8.Ob(nil, nil, "subscriptions of package store", what)
	}
	switch {
	case nsub == 0 || nh < 5:
		o.Undecided("%d subscribe site(s) and %d message handlers found in package store (at least 1 and 5 expected): the subscriptions of the store were not recognised", nsub, nh)
	case lc.defMsgs == nil || lc.defBytes == nil:
		o.Undecided("nats.DefaultSubPendingMsgsLimit / nats.DefaultSubPendingBytesLimit are not integer constants of this nats version")
	case qSet == "":
		o.OK("%d subscribe site(s) for %d message handlers; this nats version has no (*Subscription).SetPendingLimits, the defaults (%s messages, %s bytes) cannot be changed", nsub, nh, lc.defMsgs.ExactString(), lc.defBytes.ExactString())
	default:
		o.OK("%d subscribe site(s) for %d message handlers, %d use(s) of SetPendingLimits judged; client defaults %s messages, %s bytes", nsub, nh, len(refs), lc.defMsgs.ExactString(), lc.defBytes.ExactString())
	}
}

func c20EnclosingOrNil(enclosing func(*ast.File, ast.Node) *kit.Func, file *ast.File, sel *ast.SelectorExpr) *kit.Func {
	if sel == nil {
		return nil
	}
	return enclosing(file, sel)
}

type c20LimitCtx struct {
	c                 *kit.Ctx
	nats              *types.Package
	defMsgs, defBytes constant.Value
}

// natsConst reads an integer constant from the scope of the nats package.
func (lc *c20LimitCtx) natsConst(name string) constant.Value {
	k, ok := lc.nats.Scope().Lookup(name).(*types.Const)
	if !ok {
		return nil
	}
	v := constant.ToInt(k.Val())
	if v.Kind() != constant.Int {
		return nil
	}
	return v
}

type c20LimitCall struct {
	args [2]ast.Expr // messages, bytes
}

// callsOf returns the calls that a reference to SetPendingLimits in f stands
// for: the call it is the callee of (method expression included), or the calls
// of the local variable that holds it as a method value.
func (lc *c20LimitCtx) callsOf(f *kit.Func, sel *ast.SelectorExpr) ([]c20LimitCall, string) {
	p := lc.c.P
	info := f.Info()
	var top ast.Node = sel
	parent := p.Parent(f.File, top)
	for {
		if pe, ok := parent.(*ast.ParenExpr); ok {
			top, parent = pe, p.Parent(f.File, pe)
			continue
		}
		break
	}
	if call, ok := parent.(*ast.CallExpr); ok && call.Fun == top {
		args := call.Args
		if s, ok := info.Selections[sel]; ok && s.Kind() == types.MethodExpr {
			if len(args) == 0 {
				return nil, "method expression called without a receiver"
			}
			args = args[1:]
		}
		if len(args) != 2 || call.Ellipsis.IsValid() {
			return nil, "call of SetPendingLimits with an argument list that is not (messages, bytes)"
		}
		return []c20LimitCall{{[2]ast.Expr{args[0], args[1]}}}, ""
	}
	if s, ok := info.Selections[sel]; !ok || s.Kind() != types.MethodVal {
		return nil, "`" + f.Str(sel) + "` is used as a value (method expression); its calls are not followed"
	}
	// method value: `set := sub.SetPendingLimits` … `set(a, b)`
	var v types.Object
	switch d := parent.(type) {
	case *ast.AssignStmt:
		for i, r := range d.Rhs {
			if r == top && len(d.Lhs) == len(d.Rhs) && d.Tok == token.DEFINE {
				if id, ok := d.Lhs[i].(*ast.Ident); ok {
					v = info.Defs[id]
				}
			}
		}
	case *ast.ValueSpec:
		for i, r := range d.Values {
			if r == top && len(d.Names) == len(d.Values) {
				v = info.Defs[d.Names[i]]
			}
		}
	}
	root := f.Root()
	if v == nil || root.Body == nil || v.Parent() == v.Pkg().Scope() || c20WrittenIn(root, v) {
		return nil, "`" + f.Str(sel) + "` is used as a method value that is not held in a local variable assigned once; its calls are not followed"
	}
	var out []c20LimitCall
	escapes := false
	ast.Inspect(root.Body, func(n ast.Node) bool {
		id, ok := n.(*ast.Ident)
		if !ok || info.Uses[id] != v {
			return true
		}
		var top ast.Node = id
		parent := p.Parent(f.File, top)
		for {
			if pe, ok := parent.(*ast.ParenExpr); ok {
				top, parent = pe, p.Parent(f.File, pe)
				continue
			}
			break
		}
		call, ok := parent.(*ast.CallExpr)
		if !ok || call.Fun != top || len(call.Args) != 2 || call.Ellipsis.IsValid() {
			escapes = true
			return true
		}
		out = append(out, c20LimitCall{[2]ast.Expr{call.Args[0], call.Args[1]}})
		return true
	})
	if escapes {
		return nil, "the method value `" + f.Str(sel) + "` is handed on (not only called); its calls are not followed"
	}
	return out, ""
}

type c20LimitVal struct {
	v    constant.Value
	from string // "" or " (from the call of <helper> in <caller> at <pos>)"
}

// values evaluates a limit argument: a compile-time constant, a local variable
// that is defined once with a constant, or — one level up — a parameter of the
// enclosing declared function, which then takes the values of the arguments at
// all of its call sites in the module.
func (lc *c20LimitCtx) values(f *kit.Func, e ast.Expr, depth int) ([]c20LimitVal, string) {
	info := f.Info()
	e = ast.Unparen(e)
	if tv, ok := info.Types[e]; ok && tv.Value != nil {
		v := constant.ToInt(tv.Value)
		if v.Kind() != constant.Int {
			return nil, "constant is not an integer"
		}
		return []c20LimitVal{{v, ""}}, ""
	}
	// int(x): a conversion between integer types keeps the value where it fits;
	// only `int` itself (the parameter type) is looked through
	if call, ok := e.(*ast.CallExpr); ok && len(call.Args) == 1 {
		if tv, ok := info.Types[call.Fun]; ok && tv.IsType() {
			if b, ok := tv.Type.Underlying().(*types.Basic); ok && (b.Kind() == types.Int || b.Kind() == types.Int64) {
				if at, ok := info.TypeOf(call.Args[0]).Underlying().(*types.Basic); ok && at.Info()&types.IsInteger != 0 {
					return lc.values(f, call.Args[0], depth)
				}
			}
		}
	}
	id, ok := e.(*ast.Ident)
	if !ok {
		return nil, "not a compile-time constant"
	}
	v, ok := info.Uses[id].(*types.Var)
	if !ok || v.IsField() || v.Pkg() == nil || v.Parent() == v.Pkg().Scope() {
		return nil, "not a compile-time constant (a package-level variable can change)"
	}
	root := f.Root()
	if root.Body == nil || !(root.Pos() <= v.Pos() && v.Pos() < root.Body.End()) {
		return nil, "not a compile-time constant"
	}
	if c20WrittenIn(root, v) {
		return nil, "a variable that is assigned more than once"
	}
	// a local variable defined once with a constant
	if init := c20InitOf(root, v); init != nil {
		if tv, ok := info.Types[ast.Unparen(init)]; ok && tv.Value != nil {
			if c := constant.ToInt(tv.Value); c.Kind() == constant.Int {
				return []c20LimitVal{{c, ""}}, ""
			}
		}
		return nil, "a variable whose initial value is not a compile-time constant"
	}
	// a parameter of the enclosing declared function
	if root.Obj == nil || depth > 0 {
		return nil, "a parameter (followed one level up only, through declared functions)"
	}
	sig := root.Obj.Type().(*types.Signature)
	idx := -1
	for i := 0; i < sig.Params().Len(); i++ {
		if sig.Params().At(i) == v {
			idx = i
		}
	}
	if idx < 0 || (sig.Variadic() && idx == sig.Params().Len()-1) {
		return nil, "not a compile-time constant"
	}
	sites, undec := lc.callers(root)
	if undec != "" {
		return nil, undec
	}
	var out []c20LimitVal
	for _, s := range sites {
		if len(s.call.Args) != sig.Params().Len() || s.call.Ellipsis.IsValid() {
			return nil, "the call of " + root.Name + " at " + s.f.At(s.call) + " does not pass its arguments one by one"
		}
		vals, u := lc.values(s.f, s.call.Args[idx], depth+1)
		if u != "" {
			return nil, "argument `" + s.f.Str(s.call.Args[idx]) + "` of " + root.Name + " at " + s.f.At(s.call) + ": " + u
		}
		for _, x := range vals {
			x.from = " (passed to " + root.Name + " by " + s.f.Name + " at " + s.f.At(s.call) + ")"
			out = append(out, x)
		}
	}
	return out, ""
}

type c20CallSite struct {
	f    *kit.Func
	call *ast.CallExpr
}

// callers lists the static calls of the declared function h in the module.  A
// use of h that is not a call (handed on as a value) or no call at all leaves
// the values of its parameters open.
func (lc *c20LimitCtx) callers(h *kit.Func) ([]c20CallSite, string) {
	p := lc.c.P
	var out []c20CallSite
	uses := 0
	for _, pk := range p.Roots {
		if !strings.HasPrefix(pk.PkgPath, kit.ModPath) || len(pk.Syntax) == 0 || pk.TypesInfo == nil {
			continue
		}
		// only packages that can see h
		if pk != h.Pkg && (!h.Obj.Exported() || !c20ImportsPkg(pk.Types, h.Pkg.Types)) {
			continue
		}
		for id, o := range pk.TypesInfo.Uses {
			if fn, ok := o.(*types.Func); ok && fn.Origin() == h.Obj && !strings.HasSuffix(p.Fset.Position(id.Pos()).Filename, "_test.go") {
				uses++
			}
		}
		rel := strings.TrimPrefix(strings.TrimPrefix(pk.PkgPath, kit.ModPath), "/")
		for _, g := range p.Funcs(rel) {
			if g.Body == nil || strings.HasSuffix(p.Fset.Position(g.Pos()).Filename, "_test.go") {
				continue
			}
			for _, call := range g.AllCalls(false) {
				if g.CalleeFunc(call) == h {
					out = append(out, c20CallSite{g, call})
				}
			}
		}
	}
	switch {
	case uses != len(out):
		return nil, h.Name + " is also used as a value (" + fmt.Sprint(uses) + " uses, " + fmt.Sprint(len(out)) + " calls); the values of its parameters are not known"
	case len(out) == 0:
		return nil, "no call of " + h.Name + " found; the values of its parameters are not known"
	}
	sort.Slice(out, func(i, j int) bool { return out[i].call.Pos() < out[j].call.Pos() })
	return out, ""
}

func c20ImportsPkg(pk, dep *types.Package) bool {
	for _, imp := range pk.Imports() {
		if imp == dep || imp.Path() == dep.Path() {
			return true
		}
	}
	return false
}

// c20WrittenIn: v is assigned (other than by its definition), incremented, ranged
// into or has its address taken somewhere in root.
func c20WrittenIn(root *kit.Func, v types.Object) bool {
	info := root.Info()
	is := func(e ast.Expr) bool {
		id, ok := ast.Unparen(e).(*ast.Ident)
		return ok && info.Uses[id] == v
	}
	written := false
	ast.Inspect(root.Body, func(n ast.Node) bool {
		switch x := n.(type) {
		case *ast.AssignStmt:
			for _, l := range x.Lhs {
				if is(l) {
					written = true
				}
			}
		case *ast.IncDecStmt:
			if is(x.X) {
				written = true
			}
		case *ast.UnaryExpr:
			if x.Op == token.AND && is(x.X) {
				written = true
			}
		case *ast.RangeStmt:
			if x.Key != nil && is(x.Key) || x.Value != nil && is(x.Value) {
				written = true
			}
		}
		return true
	})
	return written
}

// c20InitOf returns the initialiser of the local variable v (`v := e`, `var v =
// e`), or nil when v is not defined that way in root (a parameter, a range
// variable, `var v int`).
func c20InitOf(root *kit.Func, v types.Object) ast.Expr {
	info := root.Info()
	var init ast.Expr
	ast.Inspect(root.Body, func(n ast.Node) bool {
		switch x := n.(type) {
		case *ast.AssignStmt:
			if x.Tok == token.DEFINE && len(x.Lhs) == len(x.Rhs) {
				for i, l := range x.Lhs {
					if id, ok := l.(*ast.Ident); ok && info.Defs[id] == v {
						init = x.Rhs[i]
					}
				}
			}
		case *ast.ValueSpec:
			if len(x.Names) == len(x.Values) {
				for i, nm := range x.Names {
					if info.Defs[nm] == v {
						init = x.Values[i]
					}
				}
			}
		}
		return true
	})
	return init
}
