package props

import (
	"fmt"
	"go/ast"
	"go/token"
	"go/types"
	"reflect"
	"sort"
	"strings"

	"siotcheck/kit"
)

// Diff/Merge half of C10.
//
// R5 (differ, map arm): a key that exists only in the `after` map always
// yields a live point.  Decided as one row of the (in before, in after,
// equal) table by scenario evaluation (K4): the body of the loop over the
// `after` map is walked with "key absent in before" and "the after entry is
// the zero value of the element type" — the one entry whose encoding equals
// the zero Point.  Lookups are given the value Go/reflect give for an absent
// key (zero element, ok=false, the zero reflect.Value); every path must emit
// the encoded point or return an error.
//
// R6 (setter, pointer-to-struct arm): the decision to set the pointer to nil
// depends on the field set of the pointed-to struct.  A decision that never
// reads the struct's fields cannot distinguish "all fields tombstoned" from
// "the fields mentioned in this batch tombstoned", and is wrong for a struct
// with one more field.

// ---- R5 ----------------------------------------------------------------------

type c10Loop struct {
	stmt   ast.Stmt       // *ast.ForStmt or *ast.RangeStmt
	body   *ast.BlockStmt // loop body
	source ast.Expr       // X of X.MapRange() / X.MapKeys()
}

// c10MapLoops finds the loops of a clause that iterate a reflect map.
func c10MapLoops(f *kit.Func, cc *ast.CaseClause) []*c10Loop {
	info := f.Info()
	var out []*c10Loop
	var walkList func(list []ast.Stmt)
	mapRangeOf := func(e ast.Expr) ast.Expr {
		call, ok := ast.Unparen(e).(*ast.CallExpr)
		if !ok {
			return nil
		}
		switch kit.RCallName(info, call) {
		case "Value.MapRange", "Value.MapKeys":
			return call.Fun.(*ast.SelectorExpr).X
		}
		return nil
	}
	walkList = func(list []ast.Stmt) {
		for i, st := range list {
			switch x := st.(type) {
			case *ast.ForStmt:
				// for it.Next() { … } with `it` assigned from X.MapRange() before
				if call, ok := ast.Unparen(x.Cond).(*ast.CallExpr); ok && kit.RCallName(info, call) == "MapIter.Next" {
					itObj := kit.ObjOf(info, call.Fun.(*ast.SelectorExpr).X)
					var src ast.Expr
					for j := i - 1; j >= 0 && src == nil && itObj != nil; j-- {
						if as, ok := list[j].(*ast.AssignStmt); ok && len(as.Lhs) == len(as.Rhs) {
							for k, l := range as.Lhs {
								if kit.ObjOf(info, l) == itObj {
									src = mapRangeOf(as.Rhs[k])
									if src == nil {
										j = -1 // reassigned from something else
									}
								}
							}
						}
					}
					if x.Init != nil {
						if as, ok := x.Init.(*ast.AssignStmt); ok && len(as.Lhs) == 1 && len(as.Rhs) == 1 && kit.ObjOf(info, as.Lhs[0]) == itObj {
							src = mapRangeOf(as.Rhs[0])
						}
					}
					if src != nil {
						out = append(out, &c10Loop{stmt: x, body: x.Body, source: src})
					}
				}
				walkList(x.Body.List)
			case *ast.RangeStmt:
				if src := mapRangeOf(x.X); src != nil {
					out = append(out, &c10Loop{stmt: x, body: x.Body, source: src})
				}
				walkList(x.Body.List)
			case *ast.IfStmt:
				walkList(x.Body.List)
				if b, ok := x.Else.(*ast.BlockStmt); ok {
					walkList(b.List)
				}
			case *ast.BlockStmt:
				walkList(x.List)
			}
		}
	}
	walkList(cc.Body)
	return out
}

func c10Within(n ast.Node, outer ast.Node) bool {
	return outer.Pos() <= n.Pos() && n.End() <= outer.End()
}

// c10EncoderFields checks which Point fields the scalar encoder sets and from
// what: fields set from the reflect value are zero for a zero-valued entry.
func c10EncoderFields(c *kit.Ctx, m *c10Model) map[string]bool {
	f := m.encF
	info := f.Info()
	fromValue := map[string]bool{}
	other := map[string]bool{}
	note := func(field string, rhs ast.Expr) {
		usesValue := false
		ast.Inspect(rhs, func(n ast.Node) bool {
			if call, ok := n.(*ast.CallExpr); ok {
				if _, isGetter := c10Getters[kit.RCallName(info, call)]; isGetter {
					usesValue = true
				}
			}
			if id, ok := n.(*ast.Ident); ok {
				// a local computed from a getter (val := v.Int())
				if o := info.Uses[id]; o != nil {
					ast.Inspect(f.Body, func(x ast.Node) bool {
						if as, ok := x.(*ast.AssignStmt); ok && len(as.Lhs) == len(as.Rhs) {
							for i, l := range as.Lhs {
								if kit.ObjOf(info, l) == o {
									if call, ok := ast.Unparen(as.Rhs[i]).(*ast.CallExpr); ok {
										if _, g := c10Getters[kit.RCallName(info, call)]; g {
											usesValue = true
										}
									}
								}
							}
						}
						return true
					})
				}
			}
			return true
		})
		if _, isConst := kit.ConstInt(info, rhs); isConst && field == "Tombstone" {
			fromValue[field] = true // set only on the nil-pointer path
			return
		}
		if usesValue {
			fromValue[field] = true
		} else {
			other[field] = true
		}
	}
	ast.Inspect(f.Body, func(n ast.Node) bool {
		switch x := n.(type) {
		case *ast.AssignStmt:
			for i, l := range x.Lhs {
				if sel, ok := ast.Unparen(l).(*ast.SelectorExpr); ok && i < len(x.Rhs) &&
					kit.IsNamedType(info.TypeOf(sel.X), kit.ModPath+"/data", "Point") {
					note(sel.Sel.Name, x.Rhs[i])
				}
			}
		case *ast.CompositeLit:
			if kit.IsNamedType(info.TypeOf(x), kit.ModPath+"/data", "Point") {
				for _, el := range x.Elts {
					if kv, ok := el.(*ast.KeyValueExpr); ok {
						if id, ok := kv.Key.(*ast.Ident); ok {
							note(id.Name, kv.Value)
						}
					}
				}
			}
		}
		return true
	})
	for fld := range other {
		delete(fromValue, fld)
	}
	if len(fromValue) < 2 {
		c.Fatalf("scalar encoder %s: could not determine the Point fields computed from the value (found %v)", f.Name, fromValue)
	}
	return fromValue
}

func c10ZeroOf(t types.Type) string {
	switch u := t.Underlying().(type) {
	case *types.Basic:
		switch {
		case u.Info()&types.IsBoolean != 0:
			return "false"
		case u.Info()&types.IsString != 0:
			return `""`
		case u.Info()&types.IsNumeric != 0:
			return "0"
		}
	case *types.Struct:
		return "ZS"
	case *types.Pointer, *types.Map, *types.Slice, *types.Interface, *types.Chan, *types.Signature:
		return "nil"
	}
	return ""
}

func c10R5(c *kit.Ctx, m *c10Model) {
	r5 := c.Rule("R5", "differ: a map key present only in `after` always yields a point", 1)
	f := m.differ.f
	info := f.Info()
	mapCl := m.differ.labels()[reflect.Map]
	if mapCl == nil {
		c.Fatalf("differ %s has no Map arm", f.Name)
	}
	loops := c10MapLoops(f, mapCl.cc)
	// the after-loop: encodes the iterated entry and emits the result
	isPoint := func(t types.Type) bool { return kit.IsNamedType(t, kit.ModPath+"/data", "Point") }
	encCalls := func(n ast.Node) []*ast.CallExpr {
		var out []*ast.CallExpr
		ast.Inspect(n, func(x ast.Node) bool {
			if call, ok := x.(*ast.CallExpr); ok && f.CalleeFunc(call) == m.encF {
				out = append(out, call)
			}
			return true
		})
		return out
	}
	emits := func(n ast.Node, of map[types.Object]bool) []*ast.CallExpr {
		var out []*ast.CallExpr
		ast.Inspect(n, func(x ast.Node) bool {
			call, ok := x.(*ast.CallExpr)
			if !ok || f.CalleeFunc(call) == m.encF {
				return true
			}
			for _, a := range call.Args {
				if o := kit.ObjOf(info, a); o != nil && of[o] && isPoint(info.TypeOf(a)) {
					out = append(out, call)
				}
			}
			return true
		})
		return out
	}
	var after *c10Loop
	var afterPts map[types.Object]bool
	for _, l := range loops {
		pts := map[types.Object]bool{}
		ast.Inspect(l.body, func(x ast.Node) bool {
			if as, ok := x.(*ast.AssignStmt); ok && len(as.Rhs) == 1 && len(as.Lhs) >= 1 {
				if call, ok := ast.Unparen(as.Rhs[0]).(*ast.CallExpr); ok && f.CalleeFunc(call) == m.encF {
					if o := kit.ObjOf(info, as.Lhs[0]); o != nil {
						pts[o] = true
					}
				}
			}
			return true
		})
		if len(pts) > 0 && len(emits(l.body, pts)) > 0 {
			// innermost such loop wins
			if after == nil || c10Within(l.stmt, after.stmt) {
				after, afterPts = l, pts
			}
		}
	}
	if after == nil {
		c.Fatalf("differ %s: no loop over a reflect map that encodes and emits its entries found in the Map arm", f.Name)
	}
	_ = encCalls
	valueFields := c10EncoderFields(c, m)

	// native maps keyed by `before` keys: every m[k] = … sits in a map loop
	// over another source, none in the after-loop
	beforeKeyed := map[types.Object]bool{}
	disq := map[types.Object]bool{}
	for _, st := range mapCl.cc.Body {
		ast.Inspect(st, func(x ast.Node) bool {
			as, ok := x.(*ast.AssignStmt)
			if !ok {
				return true
			}
			for _, l := range as.Lhs {
				ix, ok := ast.Unparen(l).(*ast.IndexExpr)
				if !ok {
					continue
				}
				o := kit.ObjOf(info, ix.X)
				if o == nil {
					continue
				}
				if _, isMap := o.Type().Underlying().(*types.Map); !isMap {
					continue
				}
				good := false
				for _, lp := range loops {
					if lp != after && c10Within(as, lp.body) && !kit.SameExpr(info, lp.source, after.source) && !c10Within(lp.stmt, after.body) {
						good = true
					}
				}
				if good && !c10Within(as, after.body) {
					beforeKeyed[o] = true
				} else {
					disq[o] = true
				}
			}
			return true
		})
	}
	for o := range disq {
		delete(beforeKeyed, o)
	}
	// a map that is only ever made and deleted from is trivially without the key
	o := r5.Ob(f, after.stmt, "map arm: added key", "with the key absent from `before` and a zero-valued `after` entry, every path through the loop body emits the encoded point or returns an error")

	// ---- scenario walk over the loop body
	g := c.P.Graph(f)
	if len(after.body.List) == 0 {
		o.Violation("the loop over the `after` map has an empty body")
		return
	}
	start, idx := g.BlockOf(after.body.List[0])
	if start == nil {
		o.Undecided("loop body not found in the control-flow graph")
		return
	}
	isAfterSrc := func(e ast.Expr) bool { return kit.SameExpr(info, e, after.source) }
	bind := func(s kit.S, l ast.Expr, v string) kit.S {
		ob := kit.ObjOf(info, l)
		if ob == nil {
			return s
		}
		if v == "" {
			return s.Del("x:" + kit.VarID(ob))
		}
		return s.Set("x:"+kit.VarID(ob), v)
	}
	get := func(s kit.S, e ast.Expr) string {
		if ob := kit.ObjOf(info, e); ob != nil {
			if _, isIdent := ast.Unparen(e).(*ast.Ident); isIdent {
				return s.Get("x:" + kit.VarID(ob))
			}
		}
		return ""
	}
	// abstract value of an expression: "AV" after value, "INV" zero reflect.Value,
	// "PT" encoded after entry, "ZS" zero struct, or a constant literal
	var val func(e ast.Expr, s kit.S) string
	val = func(e ast.Expr, s kit.S) string {
		e = ast.Unparen(e)
		if tv, ok := info.Types[e]; ok && tv.Value != nil {
			return tv.Value.ExactString()
		}
		switch x := e.(type) {
		case *ast.Ident:
			return get(s, x)
		case *ast.SelectorExpr:
			switch val(x.X, s) {
			case "ZS":
				return c10ZeroOf(info.TypeOf(x))
			case "PT":
				if valueFields[x.Sel.Name] {
					return c10ZeroOf(info.TypeOf(x))
				}
			}
		case *ast.IndexExpr:
			if ob := kit.ObjOf(info, x.X); ob != nil && beforeKeyed[ob] {
				return c10ZeroOf(info.TypeOf(x))
			}
		case *ast.CallExpr:
			switch kit.RCallName(info, x) {
			case "Value.MapIndex":
				if !isAfterSrc(x.Fun.(*ast.SelectorExpr).X) {
					return "INV"
				}
				return "AV"
			case "MapIter.Value":
				return "AV"
			}
			if f.CalleeFunc(x) == m.encF && len(x.Args) >= 1 && val(x.Args[len(x.Args)-1], s) == "AV" {
				return "PT"
			}
		}
		return ""
	}
	fold := func(e ast.Expr, s kit.S) (bool, bool) {
		e = ast.Unparen(e)
		switch x := e.(type) {
		case *ast.Ident, *ast.IndexExpr, *ast.SelectorExpr:
			switch val(x, s) {
			case "true":
				return true, true
			case "false":
				return false, true
			}
		case *ast.BinaryExpr:
			if x.Op == token.EQL || x.Op == token.NEQ {
				a, b := val(x.X, s), val(x.Y, s)
				if a != "" && b != "" && !strings.ContainsAny(a+b, "AIPZ") {
					return (a == b) == (x.Op == token.EQL), true
				}
				if (a == "nil" || b == "nil") && a != "" && b != "" {
					return (a == b) == (x.Op == token.EQL), true
				}
			}
		case *ast.CallExpr:
			switch kit.RCallName(info, x) {
			case "Value.Equal":
				a, b := val(x.Fun.(*ast.SelectorExpr).X, s), ""
				if len(x.Args) == 1 {
					b = val(x.Args[0], s)
				}
				if (a == "INV") != (b == "INV") && (a == "AV" || b == "AV") {
					return false, true // a valid and the zero Value are never Equal
				}
			case "Value.IsValid":
				switch val(x.Fun.(*ast.SelectorExpr).X, s) {
				case "INV":
					return false, true
				case "AV":
					return true, true
				}
			}
		}
		return false, false
	}
	type sv struct {
		s kit.S
		v bool
	}
	var eval func(e ast.Expr, s kit.S) []sv
	eval = func(e ast.Expr, s kit.S) []sv {
		e = ast.Unparen(e)
		switch x := e.(type) {
		case *ast.UnaryExpr:
			if x.Op == token.NOT {
				rs := eval(x.X, s)
				for i := range rs {
					rs[i].v = !rs[i].v
				}
				return rs
			}
		case *ast.BinaryExpr:
			if x.Op == token.LAND || x.Op == token.LOR {
				var out []sv
				for _, r := range eval(x.X, s) {
					if r.v == (x.Op == token.LOR) {
						out = append(out, r)
					} else {
						out = append(out, eval(x.Y, r.s)...)
					}
				}
				return out
			}
		}
		if v, ok := fold(e, s); ok {
			return []sv{{s, v}}
		}
		if _, _, isErr := kit.ErrCheck(info, e); isErr {
			return []sv{{s, true}, {s, false}} // a failing encoder returns loudly
		}
		u := s.Set("unk", strings.TrimSpace(s.Get("unk")+" `"+f.Str(e)+"`"))
		return []sv{{u, true}, {u, false}}
	}
	type outcome struct {
		how  string
		s    kit.S
		node ast.Node
	}
	var outs []outcome
	emitCalls := map[*ast.CallExpr]bool{}
	for _, cl := range emits(after.body, afterPts) {
		emitCalls[cl] = true
	}
	node := func(n ast.Node, s kit.S) []kit.S {
		if !c10Within(n, after.body) {
			outs = append(outs, outcome{"left", s, n})
			return nil
		}
		for _, cl := range kit.CallsIn(n) {
			if emitCalls[cl] {
				for _, a := range cl.Args {
					if val(a, s) == "PT" {
						s = s.Set("emit", "T")
					}
				}
			}
		}
		// b := <condition>: both outcomes, each with what it implies
		if as, ok := n.(*ast.AssignStmt); ok && len(as.Lhs) == 1 && len(as.Rhs) == 1 {
			if bt, ok := info.TypeOf(as.Lhs[0]).Underlying().(*types.Basic); ok && bt.Info()&types.IsBoolean != 0 {
				if _, plain := ast.Unparen(as.Lhs[0]).(*ast.Ident); plain {
					var out []kit.S
					for _, r := range eval(as.Rhs[0], s) {
						out = append(out, bind(r.s, as.Lhs[0], map[bool]string{true: "true", false: "false"}[r.v]))
					}
					return out
				}
			}
		}
		switch x := n.(type) {
		case *ast.AssignStmt:
			switch {
			case len(x.Lhs) == len(x.Rhs):
				vals := make([]string, len(x.Rhs))
				for i, r := range x.Rhs {
					vals[i] = val(r, s)
				}
				for i, l := range x.Lhs {
					if _, plain := ast.Unparen(l).(*ast.Ident); plain {
						s = bind(s, l, vals[i])
					} else if sel, ok := ast.Unparen(l).(*ast.SelectorExpr); ok {
						// p.Key = … keeps p what it is; other field writes forget it
						if val(sel.X, s) == "PT" && valueFields[sel.Sel.Name] {
							s = bind(s, sel.X, "")
						}
					}
				}
			case len(x.Rhs) == 1 && len(x.Lhs) == 2:
				r := ast.Unparen(x.Rhs[0])
				if ix, ok := r.(*ast.IndexExpr); ok {
					// v, ok := m[k]
					if ob := kit.ObjOf(info, ix.X); ob != nil && beforeKeyed[ob] {
						s = bind(s, x.Lhs[0], c10ZeroOf(info.TypeOf(ix)))
						s = bind(s, x.Lhs[1], "false")
						break
					}
				}
				s = bind(s, x.Lhs[0], val(r, s))
				s = bind(s, x.Lhs[1], "")
			default:
				for _, l := range x.Lhs {
					s = bind(s, l, "")
				}
			}
		case *ast.IncDecStmt:
			s = bind(s, x.X, "")
		}
		return []kit.S{s}
	}
	loopCond := func(e ast.Expr) bool {
		if fs, ok := after.stmt.(*ast.ForStmt); ok {
			return ast.Unparen(fs.Cond) == ast.Unparen(e)
		}
		return false
	}
	cond := func(e ast.Expr, s kit.S) (t, fl []kit.S) {
		if loopCond(e) || !c10Within(e, after.body) {
			outs = append(outs, outcome{"next", s, e})
			return nil, nil
		}
		for _, r := range eval(e, s) {
			if r.v {
				t = append(t, r.s)
			} else {
				fl = append(fl, r.s)
			}
		}
		return
	}
	other := func(br kit.Branch, s kit.S) (t, fl []kit.S) {
		if br.Kind == kit.BrRange && br.Range == after.stmt {
			outs = append(outs, outcome{"next", s, br.Range})
			return nil, nil
		}
		u := s.Set("unk", strings.TrimSpace(s.Get("unk")+" (switch/range)"))
		return []kit.S{u}, []kit.S{u}
	}
	init := kit.NewS()
	if rs, ok := after.stmt.(*ast.RangeStmt); ok && rs.Value != nil {
		init = bind(init, rs.Value, "AV")
	}
	res := g.RunFrom(start, idx, init, kit.Client{Node: node, Cond: cond, Other: other})
	c.AddValuations(1)
	if res.Overflow {
		o.Undecided("state bound exceeded")
		return
	}
	for _, e := range res.Exits {
		how := "return"
		if e.Return == nil {
			how = "panic"
		} else if n := len(e.Return.Results); n > 0 && kit.IsNilIdent(info, e.Return.Results[n-1]) {
			how = "return-nil"
		}
		outs = append(outs, outcome{how, e.State, e.Return})
	}
	if len(outs) == 0 {
		o.Undecided("no path through the loop body found")
		return
	}
	nOK := 0
	for _, out := range outs {
		switch {
		case out.how == "return" || out.how == "panic":
			nOK++ // the diff fails loudly
		case out.s.Get("emit") == "T":
			nOK++
		case out.s.Get("unk") != "":
			o.Undecided("a path that emits no point depends on conditions the scenario does not determine: %s", out.s.Get("unk"))
			return
		default:
			var known []string
			for _, k := range out.s.Keys() {
				if strings.HasPrefix(k, "x:") {
					known = append(known, strings.SplitN(k[2:], "@", 2)[0]+"="+out.s.Get(k))
				}
			}
			sort.Strings(known)
			o.Violation("for a key that exists only in the `after` map and whose entry is the zero value of the element type, the loop body emits no point "+
				"(the lookup of the `before` entry yields the zero value for an absent key, which compares equal to the encoded entry; use a comma-ok / membership test). Scenario values: %s",
				strings.Join(known, ", "))
			return
		}
	}
	o.OK("%d paths: each emits the encoded entry or returns an error (absent `before` entry: zero reflect.Value / zero element / ok=false)", nOK)
}

// ---- R6 ----------------------------------------------------------------------

func c10R6(c *kit.Ctx, m *c10Model) {
	r6 := c.Rule("R6", "setter: pointer-to-struct becomes nil only by a decision over the struct's field set", 1)
	f := m.setter.f
	info := f.Info()
	condExpr := c10PtrStructCond(f)
	if condExpr == nil {
		c.Fatalf("setter %s has no pointer-to-struct case", f.Name)
	}
	var arm *ast.IfStmt
	ast.Inspect(f.Body, func(n ast.Node) bool {
		if ifs, ok := n.(*ast.IfStmt); ok && arm == nil {
			// the condition itself, or a boolean local that holds it
			if c10Within(condExpr, ifs.Cond) || c10Within(condExpr, c10ResolveLocal(f, ifs.Cond)) {
				arm = ifs
			}
		}
		return true
	})
	if arm == nil {
		c.Fatalf("setter %s: pointer-to-struct condition is not an if condition", f.Name)
	}
	// nil-out: X.Set(reflect.Zero(…)) inside the arm
	var nilOuts []*ast.CallExpr
	ast.Inspect(arm.Body, func(n ast.Node) bool {
		call, ok := n.(*ast.CallExpr)
		if !ok || kit.RCallName(info, call) != "Value.Set" || len(call.Args) != 1 {
			return true
		}
		if a, ok := ast.Unparen(call.Args[0]).(*ast.CallExpr); ok && kit.RCallName(info, a) == "reflect.Zero" {
			nilOuts = append(nilOuts, call)
		}
		return true
	})
	if len(nilOuts) == 0 {
		c.Fatalf("setter %s: no Set(reflect.Zero(t)) in the pointer-to-struct case (a nil pointer can no longer be decoded)", f.Name)
	}
	// taint: values computed from the enumeration of struct fields
	isSource := func(n ast.Node) bool {
		found := false
		ast.Inspect(n, func(x ast.Node) bool {
			if call, ok := x.(*ast.CallExpr); ok {
				switch kit.RCallName(info, call) {
				case "Type.NumField", "Type.Field", "Value.NumField", "Value.Field", "reflect.VisibleFields",
					"Type.FieldByName", "Value.FieldByName", "Type.FieldByIndex", "Value.FieldByIndex":
					found = true
				}
			}
			return true
		})
		return found
	}
	tainted := map[types.Object]bool{}
	mentions := func(n ast.Node) bool {
		if n == nil {
			return false
		}
		if isSource(n) {
			return true
		}
		hit := false
		ast.Inspect(n, func(x ast.Node) bool {
			if id, ok := x.(*ast.Ident); ok {
				if o := info.Uses[id]; o != nil && tainted[o] {
					hit = true
				}
			}
			return true
		})
		return hit
	}
	base := func(e ast.Expr) types.Object {
		for {
			switch x := ast.Unparen(e).(type) {
			case *ast.IndexExpr:
				e = x.X
			case *ast.SelectorExpr:
				e = x.X
			case *ast.StarExpr:
				e = x.X
			default:
				return kit.ObjOf(info, e)
			}
		}
	}
	for changed := true; changed; {
		changed = false
		mark := func(e ast.Expr) {
			if o := base(e); o != nil && !tainted[o] {
				tainted[o] = true
				changed = true
			}
		}
		var walk func(n ast.Node, ctl bool)
		walk = func(n ast.Node, ctl bool) {
			ast.Inspect(n, func(x ast.Node) bool {
				switch y := x.(type) {
				case *ast.FuncLit:
					return false
				case *ast.AssignStmt:
					dep := ctl
					for _, r := range y.Rhs {
						dep = dep || mentions(r)
					}
					for _, l := range y.Lhs {
						if ix, ok := ast.Unparen(l).(*ast.IndexExpr); ok && mentions(ix.Index) {
							dep = true
						}
					}
					if dep {
						for _, l := range y.Lhs {
							mark(l)
						}
					}
				case *ast.IncDecStmt:
					if ctl {
						mark(y.X)
					}
				case *ast.ValueSpec:
					for _, v := range y.Values {
						if mentions(v) || ctl {
							for _, nm := range y.Names {
								mark(nm)
							}
						}
					}
				case *ast.ExprStmt:
					if call, ok := y.X.(*ast.CallExpr); ok && len(call.Args) > 0 {
						if b, ok := kit.Callee(info, call).(*types.Builtin); ok && (b.Name() == "delete" || b.Name() == "copy" || b.Name() == "clear") {
							dep := ctl
							for _, a := range call.Args[1:] {
								dep = dep || mentions(a)
							}
							if dep {
								mark(call.Args[0])
							}
						}
					}
				case *ast.IfStmt:
					if x != n {
						inner := ctl || mentions(y.Cond) || mentions(y.Init)
						if y.Init != nil {
							walk(y.Init, ctl)
						}
						walk(y.Body, inner)
						if y.Else != nil {
							walk(y.Else, inner)
						}
						return false
					}
				case *ast.ForStmt:
					if x != n {
						inner := ctl || mentions(y.Cond) || mentions(y.Init)
						if y.Init != nil {
							walk(y.Init, ctl)
						}
						if y.Post != nil {
							walk(y.Post, inner)
						}
						walk(y.Body, inner)
						return false
					}
				case *ast.RangeStmt:
					if x != n {
						inner := ctl || mentions(y.X)
						if inner {
							if y.Key != nil {
								mark(y.Key)
							}
							if y.Value != nil {
								mark(y.Value)
							}
						}
						walk(y.Body, inner)
						return false
					}
				case *ast.SwitchStmt:
					if x != n {
						inner := ctl || mentions(y.Tag) || mentions(y.Init)
						for _, st := range y.Body.List {
							cc := st.(*ast.CaseClause)
							in2 := inner
							for _, e := range cc.List {
								in2 = in2 || mentions(e)
							}
							for _, b := range cc.Body {
								walk(b, in2)
							}
						}
						return false
					}
				}
				return true
			})
		}
		walk(arm.Body, false)
	}
	// deciding conditions: branches inside the arm from which the nil-out is
	// reachable on one edge only
	g := c.P.Graph(f)
	for i, no := range nilOuts {
		o := r6.Ob(f, no, fmt.Sprintf("pointer nil-out #%d", i+1), "the branch that decides to set the pointer to nil depends on the enumeration of the struct's fields")
		nb, _ := g.BlockOf(no)
		if nb == nil {
			o.Undecided("nil-out not found in the control-flow graph")
			continue
		}
		reach := map[int32]bool{}
		// backward reachability to nb
		preds := map[int32][]int32{}
		for _, b := range g.G.Blocks {
			for _, s := range b.Succs {
				preds[s.Index] = append(preds[s.Index], b.Index)
			}
		}
		work := []int32{nb.Index}
		reach[nb.Index] = true
		for len(work) > 0 {
			x := work[len(work)-1]
			work = work[:len(work)-1]
			for _, p := range preds[x] {
				if !reach[p] {
					reach[p] = true
					work = append(work, p)
				}
			}
		}
		var deciding []ast.Expr
		var opaque []string
		for _, b := range g.G.Blocks {
			if !b.Live || len(b.Succs) != 2 || !reach[b.Index] {
				continue
			}
			if reach[b.Succs[0].Index] == reach[b.Succs[1].Index] {
				continue
			}
			br := g.BranchOf(b)
			var e ast.Expr
			switch {
			case br.Cond != nil:
				e = br.Cond
			case br.Tag != nil:
				e = br.Tag
			case br.Range != nil:
				e = br.Range.X
			}
			if e == nil {
				if len(b.Nodes) > 0 && c10Within(b.Nodes[len(b.Nodes)-1], arm.Body) {
					opaque = append(opaque, f.At(b.Nodes[len(b.Nodes)-1]))
				}
				continue
			}
			if c10Within(e, arm.Body) {
				deciding = append(deciding, e)
			}
		}
		if len(opaque) > 0 {
			o.Undecided("deciding branch of unknown shape at %s", strings.Join(opaque, ", "))
			continue
		}
		if len(deciding) == 0 {
			o.Violation("inside the pointer-to-struct case the pointer is set to nil unconditionally")
			continue
		}
		var dep, indep []string
		for _, e := range deciding {
			if mentions(e) {
				dep = append(dep, "`"+f.Str(e)+"` ("+f.At(e)+")")
			} else {
				indep = append(indep, "`"+f.Str(e)+"`")
			}
		}
		if len(dep) == 0 {
			o.Violation("the pointer is set to nil on %s, which is computed without reading the fields of the pointed-to struct "+
				"(no NumField/Field enumeration flows into it): a batch that tombstones only some members — e.g. the diff of one optional member becoming nil — nils the whole struct",
				strings.Join(indep, ", "))
			continue
		}
		o.OK("decided by %s, computed from the struct's field enumeration", strings.Join(dep, ", "))
	}
}
