package props

import (
	"go/ast"
	"go/token"
	"go/types"
	"strings"

	"siotcheck/kit"
)

// subjPart is a piece of a bus subject: literal text or a variable of the
// function the subject is built in.
type subjPart struct {
	lit string
	obj types.Object
	fn  *kit.Func // a function value bound in the environment (subject-building closure)
}

// subjectParts resolves the string expression e of f into literal text and
// variable references, through fmt.Sprintf with plain verbs, concatenation,
// single-assignment locals and same-package helpers with one return.
func subjectParts(f *kit.Func, e ast.Expr, env map[types.Object][]subjPart, depth int) ([]subjPart, bool) {
	info := f.Info()
	e = ast.Unparen(e)
	if s, ok := kit.ConstString(info, e); ok {
		return []subjPart{{lit: s}}, true
	}
	if depth > 4 {
		return nil, false
	}
	switch x := e.(type) {
	case *ast.Ident:
		o := kit.ObjOf(info, x)
		if o == nil {
			return nil, false
		}
		if ps, ok := env[o]; ok {
			return ps, true
		}
		v, ok := o.(*types.Var)
		if !ok {
			return nil, false
		}
		for _, p := range f.Params() {
			if p == v {
				return []subjPart{{obj: o}}, true
			}
		}
		// a local assigned exactly once
		var def ast.Expr
		n := 0
		ast.Inspect(f.Body, func(y ast.Node) bool {
			switch as := y.(type) {
			case *ast.AssignStmt:
				for i, l := range as.Lhs {
					if kit.ObjOf(info, l) == o {
						n++
						if len(as.Lhs) == len(as.Rhs) {
							def = as.Rhs[i]
						} else {
							n++
						}
					}
				}
			case *ast.ValueSpec:
				for i, nm := range as.Names {
					if info.Defs[nm] == o && i < len(as.Values) {
						n++
						def = as.Values[i]
					}
				}
			}
			return true
		})
		if n == 1 && def != nil {
			if ps, ok := subjectParts(f, def, env, depth+1); ok {
				return ps, true
			}
		}
		return []subjPart{{obj: o}}, true
	case *ast.SelectorExpr:
		// a field bound in the environment (receiver field of a small type, set by its creator)
		if o := kit.ObjOf(info, x); o != nil {
			if ps, ok := env[o]; ok {
				return ps, true
			}
		}
		return nil, false
	case *ast.BinaryExpr:
		if x.Op != token.ADD {
			return nil, false
		}
		a, ok1 := subjectParts(f, x.X, env, depth)
		b, ok2 := subjectParts(f, x.Y, env, depth)
		if !ok1 || !ok2 {
			return nil, false
		}
		return append(append([]subjPart{}, a...), b...), true
	case *ast.CallExpr:
		if tv, ok := info.Types[x.Fun]; ok && tv.IsType() && len(x.Args) == 1 {
			return subjectParts(f, x.Args[0], env, depth)
		}
		if kit.CallIs(info, x, "fmt.Sprintf") && len(x.Args) > 0 {
			format, ok := kit.ConstString(info, x.Args[0])
			if !ok {
				return nil, false
			}
			var out []subjPart
			arg := 1
			for len(format) > 0 {
				i := strings.Index(format, "%")
				if i < 0 {
					out = append(out, subjPart{lit: format})
					break
				}
				if i > 0 {
					out = append(out, subjPart{lit: format[:i]})
				}
				if i+1 >= len(format) {
					return nil, false
				}
				switch format[i+1] {
				case 'v', 's':
					if arg >= len(x.Args) {
						return nil, false
					}
					ps, ok := subjectParts(f, x.Args[arg], env, depth)
					if !ok {
						return nil, false
					}
					out = append(out, ps...)
					arg++
				case '%':
					out = append(out, subjPart{lit: "%"})
				default:
					return nil, false
				}
				format = format[i+2:]
			}
			if arg != len(x.Args) {
				return nil, false
			}
			return out, true
		}
		if kit.CallIs(info, x, "strings.Join") && len(x.Args) == 2 {
			// strings.Join([]string{a, b, c}, sep) with a literal list
			sep, ok := kit.ConstString(info, x.Args[1])
			lit, isLit := ast.Unparen(x.Args[0]).(*ast.CompositeLit)
			if !ok || !isLit {
				return nil, false
			}
			var out []subjPart
			for i, el := range lit.Elts {
				if _, isKV := el.(*ast.KeyValueExpr); isKV {
					return nil, false
				}
				ps, ok := subjectParts(f, el, env, depth)
				if !ok {
					return nil, false
				}
				if i > 0 {
					out = append(out, subjPart{lit: sep})
				}
				out = append(out, ps...)
			}
			return out, true
		}
		// a function value bound in the environment: its single return, with its parameter bound to the argument
		if fo := kit.ObjOf(info, x.Fun); fo != nil {
			if ps, ok := env[fo]; ok && len(ps) == 1 && ps[0].fn != nil {
				lit := ps[0].fn
				rets := returnsOf(lit)
				if len(rets) != 1 || len(rets[0]) != 1 || len(lit.Params()) != len(x.Args) {
					return nil, false
				}
				env2 := map[types.Object][]subjPart{}
				for i, lp := range lit.Params() {
					ap, ok := subjectParts(f, x.Args[i], env, depth+1)
					if !ok {
						return nil, false
					}
					env2[lp] = ap
				}
				return subjectParts(lit, rets[0][0], env2, depth+1)
			}
		}
		cf := f.CalleeFunc(x)
		if cf == nil || cf.Body == nil || cf.Pkg != f.Pkg {
			return nil, false
		}
		rets := returnsOf(cf)
		if len(rets) != 1 || len(rets[0]) != 1 {
			return nil, false
		}
		env2 := map[types.Object][]subjPart{}
		ps := cf.Params()
		if len(ps) != len(x.Args) {
			return nil, false
		}
		for i, p := range ps {
			ap, ok := subjectParts(f, x.Args[i], env, depth+1)
			if !ok {
				return nil, false
			}
			env2[p] = ap
		}
		return subjectParts(cf, rets[0][0], env2, depth+1)
	}
	return nil, false
}

// subjectLayout joins adjacent literals and splits the subject at '.': each
// token is literal text or exactly one variable; ok=false when a token mixes both.
func subjectLayout(parts []subjPart) (tokens []subjPart, ok bool) {
	cur := subjPart{}
	curSet := false
	flush := func() {
		tokens = append(tokens, cur)
		cur, curSet = subjPart{}, false
	}
	for _, p := range parts {
		if p.obj != nil {
			if curSet {
				return nil, false
			}
			cur, curSet = p, true
			continue
		}
		segs := strings.Split(p.lit, ".")
		for i, sg := range segs {
			if i > 0 {
				flush()
			}
			if sg != "" {
				if curSet {
					if cur.obj != nil {
						return nil, false
					}
					cur.lit += sg
				} else {
					cur, curSet = subjPart{lit: sg}, true
				}
			}
		}
	}
	flush()
	return tokens, true
}
