//go:build wip_c18

package props

import (
	"fmt"
	"os"

	"siotcheck/kit"
)

func init() {
	kit.Register(&kit.Prop{ID: "C18DBG", Title: "dbg", Run: func(c *kit.Ctx) {
		r := c.Rule("R2", "bounds", 0)
		for _, f := range c.P.Funcs("modbus") {
			if f.Body == nil {
				continue
			}
			if only := os.Getenv("DBG_FUNC"); only != "" && f.Name != only {
				continue
			}
			b := kit.AnalyseBounds(c.P, f)
			for _, ob := range b.Obs {
				o := r.Ob(f, ob.Node, ob.Kind+" "+ob.Text, fmt.Sprint(ob.Goals))
				if ob.Proved {
					o.OK("%s", ob.Describe())
					if os.Getenv("DBG_ALL") != "" {
						fmt.Printf("OK   %s %s %s: %s\n", f.Name, ob.Kind, ob.Text, ob.Describe())
					}
				} else {
					fmt.Printf("FAIL %s %s %s %s: %s\n", f.At(ob.Node), f.Name, ob.Kind, ob.Text, ob.Failed)
					if os.Getenv("DBG_FACTS") != "" {
						for _, ft := range ob.Facts.List() {
							fmt.Printf("       fact %s\n", ft.Pretty())
						}
					}
					o.OK("dbg")
				}
			}
		}
	}})
}
