package props

import (
	"go/ast"
	"go/token"
	"go/types"

	"siotcheck/kit"
)

// c14Chain follows the schedule from the rule client into the schedule code:
// the constructor call that receives the condition's start/end/date fields,
// the schedule struct it fills, and the predicate method (time.Time) →
// (bool, error) of that struct.
type c14Chain struct {
	ctorCall    *ast.CallExpr
	ctorIn      *kit.Func
	ctor        *kit.Func
	sched       *types.Named
	startF      *types.Var
	endF        *types.Var
	wdF         *types.Var
	dateF       *types.Var
	aft         *kit.Func
	aftCall     *ast.CallExpr
	aftIn       *kit.Func // function containing aftCall
	ctorProblem string    // definite defect of the construction
	ctorUnknown string    // construction not recognised (undecided)
}

func c14IsTime(t types.Type) bool { return kit.IsNamedType(t, "time", "Time") && !c14IsPtr(t) }

func c14IsPtr(t types.Type) bool { _, ok := t.(*types.Pointer); return ok }

func c14IsWeekdaySlice(t types.Type) bool {
	el := ruSliceElem(t)
	return el != nil && kit.IsNamedType(el, "time", "Weekday")
}

func c14IsStringSlice(t types.Type) bool {
	el := ruSliceElem(t)
	if el == nil {
		return false
	}
	b, ok := el.Underlying().(*types.Basic)
	return ok && b.Kind() == types.String
}

func newC14Chain(c *kit.Ctx, m *ruModel) *c14Chain {
	if m.chain != nil {
		return m.chain
	}
	ch := &c14Chain{}
	m.chain = ch
	// 1. constructor call: receives <cond>.start and <cond>.end
	for _, f := range c.P.Funcs(ruClientPkg) {
		if f.Body == nil {
			continue
		}
		ruInspectOwn(f, func(n ast.Node) bool {
			call, ok := n.(*ast.CallExpr)
			if !ok || ch.ctorCall != nil {
				return true
			}
			hasS, hasE := false, false
			for _, a := range call.Args {
				if tag, ok := m.condField(f, a); ok {
					hasS = hasS || tag == "start"
					hasE = hasE || tag == "end"
				}
			}
			if hasS && hasE && f.CalleeFunc(call) != nil {
				ch.ctorCall, ch.ctorIn = call, f
			}
			return true
		})
	}
	if ch.ctorCall == nil {
		c.Fatalf("no call receives the condition's start and end fields (schedule constructor not found)")
	}
	f := ch.ctorIn
	ch.ctor = f.CalleeFunc(ch.ctorCall)
	// result type
	if ch.ctor.Obj != nil {
		sig := ch.ctor.Obj.Type().(*types.Signature)
		if sig.Results().Len() >= 1 {
			t := sig.Results().At(0).Type()
			if p, ok := t.(*types.Pointer); ok {
				t = p.Elem()
			}
			ch.sched, _ = t.(*types.Named)
		}
	}
	if ch.sched == nil {
		c.Fatalf("schedule constructor %s does not return a named struct", ch.ctor.Name)
	}
	if _, ok := ch.sched.Underlying().(*types.Struct); !ok {
		c.Fatalf("schedule type %s is not a struct", ch.sched.Obj().Name())
	}
	// 2. parameter → field map of the constructor
	params := ch.ctor.Params()
	p2f := map[*types.Var]*types.Var{}
	info := ch.ctor.Info()
	st := ch.sched.Underlying().(*types.Struct)
	ast.Inspect(ch.ctor.Body, func(n ast.Node) bool {
		switch x := n.(type) {
		case *ast.CompositeLit:
			t := info.TypeOf(x)
			if t == nil || !types.Identical(t, ch.sched) {
				return true
			}
			for i, el := range x.Elts {
				var fv *types.Var
				var val ast.Expr
				if kv, ok := el.(*ast.KeyValueExpr); ok {
					if kid, ok := kv.Key.(*ast.Ident); ok {
						fv, _ = info.Uses[kid].(*types.Var)
					}
					val = kv.Value
				} else if i < st.NumFields() {
					fv, val = st.Field(i), el
				}
				if p, ok := kit.ObjOf(info, val).(*types.Var); ok && fv != nil {
					p2f[p] = fv
				}
			}
		case *ast.AssignStmt:
			if len(x.Lhs) != len(x.Rhs) {
				return true
			}
			for i, l := range x.Lhs {
				if _, fv, ok := kit.FieldSel(info, l); ok {
					if p, ok := kit.ObjOf(info, x.Rhs[i]).(*types.Var); ok {
						p2f[p] = fv
					}
				}
			}
		}
		return true
	})
	problem := func(s string) {
		if ch.ctorProblem == "" {
			ch.ctorProblem = s
		}
	}
	unknown := func(s string) {
		if ch.ctorUnknown == "" {
			ch.ctorUnknown = s
		}
	}
	for i, a := range ch.ctorCall.Args {
		if i >= len(params) {
			break
		}
		fv := p2f[params[i]]
		tag, isCond := m.condField(f, a)
		switch {
		case isCond && tag == "start":
			ch.startF = fv
		case isCond && tag == "end":
			ch.endF = fv
		case isCond && tag == "date":
			ch.dateF = fv
		case c14IsWeekdaySlice(f.Info().TypeOf(a)):
			ch.wdF = fv
			switch c14WeekdaysFrom(m, f, a) {
			case "bad":
				problem("the weekday list handed to the schedule constructor at " + f.At(a) + " does not select exactly the days i with condition.weekday[i] set (witness: weekday flags {Mon: true} → another set of days reaches the schedule)")
			case "unknown":
				unknown("the weekday list handed to the schedule constructor at " + f.At(a) + " is not built by the recognised loop {time.Weekday(i) : condition.weekday[i]}")
			}
		case i < len(params) && c14IsStringSlice(params[i].Type()) && !isCond:
			if kit.IsNilIdent(f.Info(), a) {
				problem("the schedule constructor at " + f.At(ch.ctorCall) + " receives nil instead of the condition's date list (witness: a condition restricted to one date is active on every day)")
			} else {
				unknown("the date list handed to the schedule constructor at " + f.At(a) + " is not the condition's date field")
			}
		}
	}
	switch {
	case ch.startF == nil || ch.endF == nil:
		c.Fatalf("schedule constructor %s does not store the start/end parameters into fields of %s", ch.ctor.Name, ch.sched.Obj().Name())
	case ch.startF == ch.endF:
		problem("start and end of the condition reach the same schedule field")
	case ch.dateF == nil || !c14IsStringSlice(ch.dateF.Type()):
		unknown("the condition's date list is not seen to reach a []string field of the schedule (constructor call at " + f.At(ch.ctorCall) + ")")
	case ch.wdF == nil || !c14IsWeekdaySlice(ch.wdF.Type()):
		unknown("no weekday list is seen to reach a []time.Weekday field of the schedule (constructor call at " + f.At(ch.ctorCall) + ")")
	}
	if ch.dateF == nil || ch.wdF == nil {
		// still needed as anchors by C14: pick by type
		for i := 0; i < st.NumFields(); i++ {
			if ch.dateF == nil && c14IsStringSlice(st.Field(i).Type()) {
				ch.dateF = st.Field(i)
			}
			if ch.wdF == nil && c14IsWeekdaySlice(st.Field(i).Type()) {
				ch.wdF = st.Field(i)
			}
		}
		if ch.dateF == nil || ch.wdF == nil {
			c.Fatalf("schedule struct %s lacks a []string or []time.Weekday field", ch.sched.Obj().Name())
		}
	}
	// 3. predicate: method of the schedule type (time.Time) → (bool, error)
	for _, g := range c.P.Funcs(ruClientPkg) {
		if g.Obj == nil || g.Body == nil {
			continue
		}
		sig := g.Obj.Type().(*types.Signature)
		if sig.Recv() == nil || !kit.IsNamedType(sig.Recv().Type(), ch.sched.Obj().Pkg().Path(), ch.sched.Obj().Name()) {
			continue
		}
		if sig.Params().Len() == 1 && c14IsTime(sig.Params().At(0).Type()) && sig.Results().Len() == 2 &&
			kit.IsBoolType(sig.Results().At(0).Type()) && isErrorType(sig.Results().At(1).Type()) {
			if ch.aft != nil {
				c.Fatalf("two predicate methods (time.Time)→(bool,error) on %s", ch.sched.Obj().Name())
			}
			ch.aft = g
		}
	}
	if ch.aft == nil {
		c.Fatalf("no method (time.Time) → (bool, error) on %s", ch.sched.Obj().Name())
	}
	aftIn := f
	ruInspectOwn(f, func(n ast.Node) bool {
		if call, ok := n.(*ast.CallExpr); ok && ch.aftCall == nil && f.CalleeFunc(call) == ch.aft {
			ch.aftCall = call
		}
		return true
	})
	if ch.aftCall == nil {
		// the schedule may be built by a helper and used by its caller
		for _, g := range c.P.Funcs(ruClientPkg) {
			if g.Body == nil || g.Outer != nil || ch.aftCall != nil {
				continue
			}
			ast.Inspect(g.Body, func(n ast.Node) bool {
				if call, ok := n.(*ast.CallExpr); ok && ch.aftCall == nil && g.CalleeFunc(call) == ch.aft {
					if sel, isSel := ast.Unparen(call.Fun).(*ast.SelectorExpr); isSel {
						if rc, isCall := ast.Unparen(sel.X).(*ast.CallExpr); isCall && g.CalleeFunc(rc) == f {
							ch.aftCall, aftIn = call, g
						}
					}
				}
				return true
			})
		}
	}
	if ch.aftCall == nil {
		c.Fatalf("%s builds a schedule but its predicate %s is not called on it", f.Name, ch.aft.Name)
	}
	ch.aftIn = aftIn
	// the predicate must be applied to the schedule just built
	if sel, ok := ast.Unparen(ch.aftCall.Fun).(*ast.SelectorExpr); ok && aftIn == f {
		recv := kit.ObjOf(f.Info(), sel.X)
		okRecv := false
		if recv != nil {
			ruInspectOwn(f, func(n ast.Node) bool {
				if as, ok := n.(*ast.AssignStmt); ok && len(as.Lhs) == 1 && len(as.Rhs) == 1 &&
					kit.ObjOf(f.Info(), as.Lhs[0]) == recv && ast.Unparen(as.Rhs[0]) == ast.Expr(ch.ctorCall) {
					okRecv = true
				}
				return true
			})
		} else if ast.Unparen(sel.X) == ast.Expr(ch.ctorCall) {
			okRecv = true
		}
		if !okRecv {
			unknown("the schedule predicate at " + f.At(ch.aftCall) + " is not seen to be applied to the schedule built from this condition")
		}
	}
	return ch
}

// c14WeekdaysFrom classifies the weekday argument: "ok" = a local slice whose
// only appends are `append(w, time.Weekday(k))` with k the key of a range
// over the condition's weekday field, each guarded by the range value;
// "bad" = such a loop whose guard is missing or negated; "unknown" otherwise.
func c14WeekdaysFrom(m *ruModel, f *kit.Func, arg ast.Expr) string {
	info := f.Info()
	w := kit.ObjOf(info, arg)
	if w == nil {
		return "unknown"
	}
	appends, good, bad, other := 0, 0, 0, 0
	ruInspectOwn(f, func(n ast.Node) bool {
		as, ok := n.(*ast.AssignStmt)
		if !ok || len(as.Lhs) != 1 || len(as.Rhs) != 1 || kit.ObjOf(info, as.Lhs[0]) != w {
			return true
		}
		call, ok := ast.Unparen(as.Rhs[0]).(*ast.CallExpr)
		if !ok {
			// initialisation with an empty literal / nil is fine
			if cl, isLit := ast.Unparen(as.Rhs[0]).(*ast.CompositeLit); isLit && len(cl.Elts) == 0 {
				return true
			}
			if kit.IsNilIdent(info, as.Rhs[0]) {
				return true
			}
			other++
			return true
		}
		if b, isB := kit.Callee(info, call).(*types.Builtin); !isB || b.Name() != "append" || len(call.Args) != 2 || kit.ObjOf(info, call.Args[0]) != w {
			other++
			return true
		}
		appends++
		conv, ok := ast.Unparen(call.Args[1]).(*ast.CallExpr)
		if !ok || len(conv.Args) != 1 || !kit.IsNamedType(info.TypeOf(conv), "time", "Weekday") {
			other++
			return true
		}
		ko := kit.ObjOf(info, conv.Args[0])
		rs := m.rangesOf(f).key[ko]
		if rs == nil || !(rs.Body.Pos() <= as.Pos() && as.End() <= rs.Body.End()) {
			other++
			return true
		}
		if tag, isCond := m.condField(f, rs.X); !isCond || tag != "weekday" {
			other++
			return true
		}
		vo := kit.LoopElemVar(info, rs)
		isV := func(x ast.Expr) bool {
			if vo != nil && kit.ObjOf(info, x) == vo {
				if _, isId := ast.Unparen(x).(*ast.Ident); isId {
					return true
				}
			}
			return kit.LoopElem(info, rs, x)
		}
		// the statement must be the then-branch of `if v` directly in the loop body
		ifs, _ := f.Enclosing(as, func(x ast.Node) bool { _, ok := x.(*ast.IfStmt); return ok }).(*ast.IfStmt)
		if ifs == nil || ifs.Pos() < rs.Body.Pos() {
			// no enclosing if: look for a guard of the form `if !v { continue }`
			// among the earlier statements of the loop body
			guard := ""
			for _, stmt := range rs.Body.List {
				if stmt.Pos() >= as.Pos() {
					break
				}
				g, isIf := stmt.(*ast.IfStmt)
				if !isIf || g.Else != nil || len(g.Body.List) != 1 {
					continue
				}
				br, isBr := g.Body.List[0].(*ast.BranchStmt)
				if !isBr || br.Tok != token.CONTINUE || br.Label != nil {
					continue
				}
				gc := ast.Unparen(g.Cond)
				if u, isNot := gc.(*ast.UnaryExpr); isNot && u.Op == token.NOT && isV(u.X) {
					guard = "good"
				} else if isV(gc) {
					guard = "bad"
				} else if a, b, neg, isEq := ruEqLeaf(gc); isEq && isV(a) {
					if tv, has := info.Types[b]; has && tv.Value != nil {
						if (tv.Value.String() == "false") != neg {
							guard = "good"
						} else {
							guard = "bad"
						}
					}
				} else {
					guard = "unknown"
				}
			}
			direct := false
			for _, stmt := range rs.Body.List {
				if stmt == ast.Stmt(as) {
					direct = true
				}
			}
			switch {
			case !direct || guard == "unknown":
				other++
			case guard == "good":
				good++
			default:
				bad++ // unconditional (or inverted) append inside the loop
			}
			return true
		}
		inThen := ifs.Body.Pos() <= as.Pos() && as.End() <= ifs.Body.End()
		cond := ast.Unparen(ifs.Cond)
		// `b := v; if b {`
		if id, isId := cond.(*ast.Ident); isId && !isV(id) {
			if rhs, _, _, n := c13SingleDef(f, kit.ObjOf(info, id)); n == 1 && rhs != nil {
				cond = ast.Unparen(rhs)
			}
		}
		pos, known := false, false
		if isV(cond) {
			pos, known = true, true
		} else if u, isNot := cond.(*ast.UnaryExpr); isNot && u.Op == token.NOT && isV(u.X) {
			pos, known = false, true
		} else if a, b, neg, isEq := ruEqLeaf(cond); isEq {
			if tv, has := info.Types[b]; has && tv.Value != nil && isV(a) {
				pos, known = (tv.Value.String() == "true") != neg, true
			}
		}
		switch {
		case !known:
			other++
		case pos == inThen:
			good++
		default:
			bad++
		}
		return true
	})
	switch {
	case other > 0 || appends == 0:
		return "unknown"
	case bad > 0:
		return "bad"
	}
	return "ok"
}
