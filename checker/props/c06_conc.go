package props

import (
	"fmt"
	"go/ast"
	"go/token"
	"go/types"
	"strings"

	"siotcheck/kit"
)

// Recursion that does not sit in the loop body itself but in a function literal
// there: `func() { … }()` runs as part of the body; `go func() { … }()` runs
// beside it (which parent it walks depends on what the literal captured, and the
// walker has to wait for it); anything else (a stored or handed-on function
// value, defer) is not followed.

// c06Lit is a function literal of a walker and how it is put to use.
type c06Lit struct {
	lit  *ast.FuncLit
	how  string        // "call" func(){…}(), "go", "defer", "value" (stored or handed on)
	stmt ast.Node      // the go/defer statement, or the invoking call
	call *ast.CallExpr // the invoking call (call/go/defer)
}

// c06RecSite is one recursive call and the literals around it, outermost first.
type c06RecSite struct {
	call *ast.CallExpr
	lits []*c06Lit
}

// c06RecSites lists the calls of f to itself, wherever they sit in f.
func c06RecSites(f *kit.Func) []*c06RecSite {
	var out []*c06RecSite
	var stack []ast.Node
	var lits []*c06Lit
	ast.Inspect(f.Body, func(n ast.Node) bool {
		if n == nil {
			top := stack[len(stack)-1]
			stack = stack[:len(stack)-1]
			if _, ok := top.(*ast.FuncLit); ok {
				lits = lits[:len(lits)-1]
			}
			return true
		}
		switch x := n.(type) {
		case *ast.FuncLit:
			l := &c06Lit{lit: x, how: "value"}
			if len(stack) > 0 {
				if call, ok := stack[len(stack)-1].(*ast.CallExpr); ok && ast.Unparen(call.Fun) == ast.Expr(x) {
					l.how, l.call, l.stmt = "call", call, call
					if len(stack) > 1 {
						switch st := stack[len(stack)-2].(type) {
						case *ast.GoStmt:
							l.how, l.stmt = "go", st
						case *ast.DeferStmt:
							l.how, l.stmt = "defer", st
						}
					}
				}
			}
			lits = append(lits, l)
		case *ast.CallExpr:
			if f.CalleeFunc(x) == f {
				out = append(out, &c06RecSite{call: x, lits: append([]*c06Lit(nil), lits...)})
			}
		}
		stack = append(stack, n)
		return true
	})
	return out
}

// c06SelfRecursive: f calls itself, in its body or in a function literal there.
func c06SelfRecursive(f *kit.Func) bool {
	for _, call := range f.AllCalls(true) {
		if f.CalleeFunc(call) == f {
			return true
		}
	}
	return false
}

// c06GoVersion is the language version that applies to f's file: what go/types
// recorded for the file (go directive of the module, or a //go:build line), else
// the module's go directive.
func c06GoVersion(f *kit.Func) (minor int, shown string, ok bool) {
	v := ""
	if fv := f.Info().FileVersions; fv != nil {
		v = fv[f.File]
	}
	if v == "" && f.Pkg.Module != nil {
		v = f.Pkg.Module.GoVersion
	}
	var maj int
	if _, err := fmt.Sscanf(strings.TrimPrefix(v, "go"), "%d.%d", &maj, &minor); err != nil || maj != 1 {
		return 0, v, false
	}
	return minor, "go" + strings.TrimPrefix(v, "go"), true
}

// c06LoopVars: the variables a loop over the parents declares or assigns per
// iteration; fresh = the loop declares them itself (`:=`), so that from Go 1.22
// on every iteration has its own.
func c06LoopVars(info *types.Info, loop *ast.RangeStmt) (vars map[types.Object]bool, declared bool) {
	vars = map[types.Object]bool{}
	for _, e := range []ast.Expr{loop.Key, loop.Value} {
		if e == nil {
			continue
		}
		if o := kit.ObjOf(info, e); o != nil && o.Name() != "_" {
			vars[o] = true
		}
	}
	return vars, loop.Tok == token.DEFINE
}

// c06Captured: the loop variables a literal's body reads (by object, so a
// parameter of the literal or a per-iteration copy of the same name does not count).
func c06Captured(info *types.Info, lit *ast.FuncLit, vars map[types.Object]bool) []string {
	var out []string
	seen := map[types.Object]bool{}
	ast.Inspect(lit.Body, func(n ast.Node) bool {
		if id, ok := n.(*ast.Ident); ok {
			if o := info.Uses[id]; o != nil && vars[o] && !seen[o] {
				seen[o] = true
				out = append(out, o.Name())
			}
		}
		return true
	})
	return out
}

// c06PerIteration decides the obligation "each iteration's recursion uses that
// iteration's parent" for the recursion sites inside loop.
func c06PerIteration(f *kit.Func, o *kit.Ob, loop *ast.RangeStmt, sites []*c06RecSite) {
	info := f.Info()
	vars, declared := c06LoopVars(info, loop)
	minor, shown, vok := c06GoVersion(f)
	viol, undec, okBy := "", "", "the recursive call is a statement of the loop body"
	for _, s := range sites {
		for _, l := range s.lits {
			if l.how == "call" || !(loop.Body.Pos() <= l.lit.Pos() && l.lit.End() <= loop.Body.End()) {
				continue
			}
			capt := c06Captured(info, l.lit, vars)
			switch {
			case len(capt) == 0:
				okBy = "the function literal at " + f.At(l.lit) + " reads no loop variable (the parent is passed as an argument or copied per iteration)"
			case !vok:
				undec = "language version of " + f.Prog.Pos(f.File.Pos()) + " not known (`" + shown + "`)"
			case declared && minor >= 22:
				okBy = shown + ": every iteration has its own `" + strings.Join(capt, "`, `") + "`"
			case l.how == "go":
				viol = fmt.Sprintf("the function literal started with `go` at %s reads the loop variable `%s`; with %s (before Go 1.22) that is one variable for all iterations: all goroutines started by the loop read the same variable; they walk the last parent only",
					f.At(l.stmt), strings.Join(capt, "`, `"), shown)
				if !declared {
					viol = fmt.Sprintf("the function literal started with `go` at %s reads `%s`, which the loop assigns but does not declare: all goroutines started by the loop read the same variable; they walk the last parent only",
						f.At(l.stmt), strings.Join(capt, "`, `"))
				}
			case l.how == "defer":
				viol = fmt.Sprintf("the deferred function literal at %s reads the loop variable `%s`, one variable for all iterations (%s): when the deferred calls run they all walk the last parent",
					f.At(l.stmt), strings.Join(capt, "`, `"), shown)
			default:
				undec = "the function literal at " + f.At(l.lit) + " reads the loop variable `" + strings.Join(capt, "`, `") + "` (shared by all iterations, " + shown + ") and is stored or handed on; when it runs is not followed"
			}
			break // the outermost literal that is not run in place decides
		}
	}
	switch {
	case viol != "":
		o.Violation("%s", viol)
	case undec != "":
		o.Undecided("%s", undec)
	default:
		o.OK("%s", okBy)
	}
}

// c06WaitGroupOf: the WaitGroup variable a wg.Add/Done/Wait call works on (a
// local of the walker, possibly handed to the literal by address).
func c06WaitGroupOf(info *types.Info, call *ast.CallExpr, resolve func(ast.Expr) ast.Expr) types.Object {
	sel, ok := ast.Unparen(call.Fun).(*ast.SelectorExpr)
	if !ok {
		return nil
	}
	x := ast.Unparen(resolve(sel.X))
	for i := 0; i < 3; i++ {
		switch y := x.(type) {
		case *ast.UnaryExpr:
			if y.Op == token.AND {
				x = ast.Unparen(resolve(y.X))
			}
		case *ast.StarExpr:
			x = ast.Unparen(resolve(y.X))
		}
	}
	v, ok := kit.ObjOf(info, x).(*types.Var)
	if !ok || v.IsField() || v.Pkg() == nil || v.Parent() == v.Pkg().Scope() {
		return nil
	}
	return v
}

// c06OtherJoin: f has something else a goroutine could be waited for with (a
// channel receive, select, or a Wait method of another type such as errgroup).
func c06OtherJoin(f *kit.Func) bool {
	info := f.Info()
	found := false
	ast.Inspect(f.Body, func(n ast.Node) bool {
		switch x := n.(type) {
		case *ast.UnaryExpr:
			if x.Op == token.ARROW {
				found = true
			}
		case *ast.SelectStmt:
			found = true
		case *ast.RangeStmt:
			if _, isChan := info.TypeOf(x.X).Underlying().(*types.Chan); isChan {
				found = true
			}
		case *ast.CallExpr:
			if fn, ok := kit.Callee(info, x).(*types.Func); ok && fn.Name() == "Wait" && kit.QualName(fn) != "sync.(*WaitGroup).Wait" {
				found = true
			}
		}
		return true
	})
	return found
}
