package props

import (
	"fmt"
	"go/ast"
	"go/token"
	"go/types"
	"sort"
	"strings"

	"siotcheck/kit"
)

// Recursion that does not sit in the loop body itself but in a function literal
// there: `func() { … }()` runs as part of the body; `go func() { … }()` runs
// beside it (which parent it walks depends on what the literal captured, and the
// walker has to wait for it); anything else (a stored or handed-on function
// value, defer) is not followed.

// c06Lit is a function literal of a walker and how it is put to use.
type c06Lit struct {
	lit  *ast.FuncLit
	how  string        // "call" func(){…}(), "go", "defer", "value" (stored or handed on)
	stmt ast.Node      // the go/defer statement, or the invoking call
	call *ast.CallExpr // the invoking call (call/go/defer)
}

// c06RecSite is one recursive call and the literals around it, outermost first.
type c06RecSite struct {
	call *ast.CallExpr
	lits []*c06Lit
}

// c06RecSites lists the calls of f to itself, wherever they sit in f.
func c06RecSites(f *kit.Func) []*c06RecSite {
	var out []*c06RecSite
	var stack []ast.Node
	var lits []*c06Lit
	ast.Inspect(f.Body, func(n ast.Node) bool {
		if n == nil {
			top := stack[len(stack)-1]
			stack = stack[:len(stack)-1]
			if _, ok := top.(*ast.FuncLit); ok {
				lits = lits[:len(lits)-1]
			}
			return true
		}
		switch x := n.(type) {
		case *ast.FuncLit:
			l := &c06Lit{lit: x, how: "value"}
			if len(stack) > 0 {
				if call, ok := stack[len(stack)-1].(*ast.CallExpr); ok && ast.Unparen(call.Fun) == ast.Expr(x) {
					l.how, l.call, l.stmt = "call", call, call
					if len(stack) > 1 {
						switch st := stack[len(stack)-2].(type) {
						case *ast.GoStmt:
							l.how, l.stmt = "go", st
						case *ast.DeferStmt:
							l.how, l.stmt = "defer", st
						}
					}
				}
			}
			lits = append(lits, l)
		case *ast.CallExpr:
			if f.CalleeFunc(x) == f {
				out = append(out, &c06RecSite{call: x, lits: append([]*c06Lit(nil), lits...)})
			}
		}
		stack = append(stack, n)
		return true
	})
	return out
}

// c06SelfRecursive: f calls itself, in its body or in a function literal there.
func c06SelfRecursive(f *kit.Func) bool {
	for _, call := range f.AllCalls(true) {
		if f.CalleeFunc(call) == f {
			return true
		}
	}
	return false
}

// c06GoVersion is the language version that applies to f's file: what go/types
// recorded for the file (go directive of the module, or a //go:build line), else
// the module's go directive.
func c06GoVersion(f *kit.Func) (minor int, shown string, ok bool) {
	v := ""
	if fv := f.Info().FileVersions; fv != nil {
		v = fv[f.File]
	}
	if v == "" && f.Pkg.Module != nil {
		v = f.Pkg.Module.GoVersion
	}
	var maj int
	if _, err := fmt.Sscanf(strings.TrimPrefix(v, "go"), "%d.%d", &maj, &minor); err != nil || maj != 1 {
		return 0, v, false
	}
	return minor, "go" + strings.TrimPrefix(v, "go"), true
}

// c06LoopVars: the variables that change from one iteration of loop to the
// next: its key/value variables (value true = declared by the loop with `:=`, so
// that from Go 1.22 on every iteration has its own), and variables declared
// outside the loop body that the body assigns (one variable in every version).
func c06LoopVars(info *types.Info, loop *ast.RangeStmt) map[types.Object]bool {
	vars := map[types.Object]bool{}
	for _, e := range []ast.Expr{loop.Key, loop.Value} {
		if e == nil {
			continue
		}
		if o := kit.ObjOf(info, e); o != nil && o.Name() != "_" {
			vars[o] = loop.Tok == token.DEFINE
		}
	}
	outer := func(e ast.Expr) {
		id, ok := ast.Unparen(e).(*ast.Ident)
		if !ok {
			return
		}
		v, ok := info.Uses[id].(*types.Var)
		if !ok || v.IsField() || (loop.Body.Pos() <= v.Pos() && v.Pos() <= loop.Body.End()) {
			return
		}
		if _, isLoopVar := vars[v]; !isLoopVar {
			vars[v] = false
		}
	}
	ast.Inspect(loop.Body, func(n ast.Node) bool {
		switch x := n.(type) {
		case *ast.AssignStmt:
			for _, l := range x.Lhs {
				outer(l)
			}
		case *ast.IncDecStmt:
			outer(x.X)
		}
		return true
	})
	return vars
}

// c06ArgReads: the variables from outside lit that the value of e (an expression
// in lit's body) is computed from: locals of the literal are followed to what
// they are assigned, parameters of the literal are not (their arguments are
// evaluated when the literal is called or started).
func c06ArgReads(info *types.Info, lit *ast.FuncLit, e ast.Expr) map[types.Object]bool {
	out := map[types.Object]bool{}
	done := map[types.Object]bool{}
	var visit func(e ast.Node)
	visit = func(e ast.Node) {
		ast.Inspect(e, func(n ast.Node) bool {
			id, ok := n.(*ast.Ident)
			if !ok {
				return true
			}
			v, ok := info.Uses[id].(*types.Var)
			if !ok || v.IsField() || done[v] {
				return true
			}
			done[v] = true
			if !(lit.Pos() <= v.Pos() && v.Pos() <= lit.End()) {
				out[v] = true
				return true
			}
			if v.Pos() < lit.Body.Pos() {
				return true // parameter of the literal
			}
			ast.Inspect(lit.Body, func(m ast.Node) bool {
				switch as := m.(type) {
				case *ast.AssignStmt:
					for i, l := range as.Lhs {
						if kit.ObjOf(info, l) != types.Object(v) {
							continue
						}
						if len(as.Lhs) == len(as.Rhs) {
							visit(as.Rhs[i])
						} else {
							for _, r := range as.Rhs {
								visit(r)
							}
						}
					}
				case *ast.ValueSpec:
					for _, nm := range as.Names {
						if info.Defs[nm] == types.Object(v) {
							for _, r := range as.Values {
								visit(r)
							}
						}
					}
				case *ast.RangeStmt:
					if (as.Key != nil && kit.ObjOf(info, as.Key) == types.Object(v)) || (as.Value != nil && kit.ObjOf(info, as.Value) == types.Object(v)) {
						visit(as.X)
					}
				}
				return true
			})
			return true
		})
	}
	visit(e)
	return out
}

// c06PerIteration decides the obligation "each iteration's recursion uses that
// iteration's parent" for the recursion sites inside loop.  ancIdx is the
// position of the ancestor among the walker's parameters; outlive = a goroutine
// started in an iteration may still run when the next iteration begins.
func c06PerIteration(f *kit.Func, o *kit.Ob, loop *ast.RangeStmt, sites []*c06RecSite, ancIdx int, outlive bool) {
	info := f.Info()
	vars := c06LoopVars(info, loop)
	minor, shown, vok := c06GoVersion(f)
	viol, undec, okBy := "", "", "the recursive call is a statement of the loop body"
	for _, s := range sites {
		for _, l := range s.lits {
			if l.how == "call" || !(loop.Body.Pos() <= l.lit.Pos() && l.lit.End() <= loop.Body.End()) {
				continue
			}
			// what the parent handed to the recursion is computed from, seen from outside the literal
			var perIter, always []string
			if ancIdx >= 0 && ancIdx < len(s.call.Args) {
				for v := range c06ArgReads(info, l.lit, s.call.Args[ancIdx]) {
					if declared, changes := vars[v]; changes && declared {
						perIter = append(perIter, v.Name())
					} else if changes {
						always = append(always, v.Name())
					}
				}
			}
			sort.Strings(perIter)
			sort.Strings(always)
			capt := "`" + strings.Join(append(append([]string{}, always...), perIter...), "`, `") + "`"
			why := "with " + shown + " (before Go 1.22) that is one variable for all iterations"
			if len(always) > 0 {
				why = "`" + strings.Join(always, "`, `") + "` is declared outside the loop, one variable for all iterations"
			}
			switch {
			case len(perIter)+len(always) == 0:
				okBy = "the parent the function literal at " + f.At(l.lit) + " recurses with does not come from a loop variable it captured (it is passed as an argument or copied per iteration)"
			case l.how == "go" && !outlive:
				okBy = "the goroutine started at " + f.At(l.stmt) + " is waited for before the next iteration begins"
			case len(always) == 0 && !vok:
				undec = "language version of " + f.Prog.Pos(f.File.Pos()) + " not known (`" + shown + "`)"
			case len(always) == 0 && minor >= 22:
				okBy = shown + ": every iteration has its own " + capt
			case l.how == "go":
				viol = fmt.Sprintf("the function literal started with `go` at %s recurses with a parent read from the loop variable %s; %s: all goroutines started by the loop read the same variable; they walk the last parent only",
					f.At(l.stmt), capt, why)
			case l.how == "defer":
				viol = fmt.Sprintf("the deferred function literal at %s recurses with a parent read from the loop variable %s; %s: when the deferred calls run they all walk the last parent",
					f.At(l.stmt), capt, why)
			default:
				undec = "the function literal at " + f.At(l.lit) + " recurses with a parent read from the loop variable " + capt + " (" + why + ") and is stored or handed on; when it runs is not followed"
			}
			break // the outermost literal that is not run in place decides
		}
	}
	switch {
	case viol != "":
		o.Violation("%s", viol)
	case undec != "":
		o.Undecided("%s", undec)
	default:
		o.OK("%s", okBy)
	}
}

// c06WaitGroupOf: the WaitGroup variable a wg.Add/Done/Wait call works on (a
// local of the walker, possibly handed to the literal by address).
func c06WaitGroupOf(info *types.Info, call *ast.CallExpr, resolve func(ast.Expr) ast.Expr) types.Object {
	sel, ok := ast.Unparen(call.Fun).(*ast.SelectorExpr)
	if !ok {
		return nil
	}
	x := ast.Unparen(resolve(sel.X))
	for i := 0; i < 3; i++ {
		switch y := x.(type) {
		case *ast.UnaryExpr:
			if y.Op == token.AND {
				x = ast.Unparen(resolve(y.X))
			}
		case *ast.StarExpr:
			x = ast.Unparen(resolve(y.X))
		}
	}
	v, ok := kit.ObjOf(info, x).(*types.Var)
	if !ok || v.IsField() || v.Pkg() == nil || v.Parent() == v.Pkg().Scope() {
		return nil
	}
	return v
}

// c06OtherJoin: f has something else a goroutine could be waited for with (a
// channel receive, select, or a Wait method of another type such as errgroup).
func c06OtherJoin(f *kit.Func) bool {
	info := f.Info()
	found := false
	ast.Inspect(f.Body, func(n ast.Node) bool {
		switch x := n.(type) {
		case *ast.UnaryExpr:
			if x.Op == token.ARROW {
				found = true
			}
		case *ast.SelectStmt:
			found = true
		case *ast.RangeStmt:
			if _, isChan := info.TypeOf(x.X).Underlying().(*types.Chan); isChan {
				found = true
			}
		case *ast.CallExpr:
			if fn, ok := kit.Callee(info, x).(*types.Func); ok && fn.Name() == "Wait" && kit.QualName(fn) != "sync.(*WaitGroup).Wait" {
				found = true
			}
		}
		return true
	})
	return found
}
