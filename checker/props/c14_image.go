package props

import (
	"fmt"
	"go/ast"
	"go/types"

	"siotcheck/kit"
)

// c14Taint computes, flow-insensitively, the local variables of f whose value
// derives from an expression satisfying seed: assignments, multi-value calls
// (every result of a call with a derived argument), range statements over a
// derived operand and appends of derived elements.
func c14Taint(f *kit.Func, seed func(ast.Expr) bool) (tainted map[types.Object]bool, derived func(ast.Node) bool) {
	info := f.Info()
	tainted = map[types.Object]bool{}
	derived = func(n ast.Node) bool {
		if n == nil {
			return false
		}
		return ruMentions(n, func(x ast.Expr) bool {
			if seed(x) {
				return true
			}
			if id, ok := x.(*ast.Ident); ok {
				if o := kit.ObjOf(info, id); o != nil && tainted[o] {
					return true
				}
			}
			return false
		})
	}
	mark := func(l ast.Expr) bool {
		id, ok := ast.Unparen(l).(*ast.Ident)
		if !ok {
			// x.f = …, x[i] = … taint the root variable
			root := ast.Unparen(l)
			for {
				switch y := root.(type) {
				case *ast.SelectorExpr:
					root = ast.Unparen(y.X)
					continue
				case *ast.IndexExpr:
					root = ast.Unparen(y.X)
					continue
				case *ast.StarExpr:
					root = ast.Unparen(y.X)
					continue
				}
				break
			}
			id, ok = root.(*ast.Ident)
			if !ok {
				return false
			}
		}
		o := kit.ObjOf(info, id)
		if o == nil || tainted[o] {
			return false
		}
		if _, isVar := o.(*types.Var); !isVar {
			return false
		}
		tainted[o] = true
		return true
	}
	for changed := true; changed; {
		changed = false
		ast.Inspect(f.Body, func(n ast.Node) bool {
			switch s := n.(type) {
			case *ast.AssignStmt:
				if len(s.Lhs) == len(s.Rhs) {
					for i, l := range s.Lhs {
						if derived(s.Rhs[i]) && mark(l) {
							changed = true
						}
					}
				} else if len(s.Rhs) == 1 && derived(s.Rhs[0]) {
					for _, l := range s.Lhs {
						if mark(l) {
							changed = true
						}
					}
				}
			case *ast.ValueSpec:
				for i, nm := range s.Names {
					switch {
					case len(s.Values) == len(s.Names) && derived(s.Values[i]),
						len(s.Values) == 1 && len(s.Names) > 1 && derived(s.Values[0]):
						if mark(nm) {
							changed = true
						}
					}
				}
			case *ast.RangeStmt:
				if derived(s.X) {
					if s.Value != nil && mark(s.Value) {
						changed = true
					}
				}
			}
			return true
		})
	}
	return tainted, derived
}

// c14DecidingLoops: loops over the window list whose body appends their own
// current window to a list (the keep decision).
func c14DecidingLoops(cm *c14Model, f *kit.Func) map[*ast.RangeStmt]bool {
	info := f.Info()
	out := map[*ast.RangeStmt]bool{}
	for rs := range c14ListLoops(cm, f) {
		ast.Inspect(rs.Body, func(n ast.Node) bool {
			call, ok := n.(*ast.CallExpr)
			if !ok {
				return true
			}
			if b, isB := kit.Callee(info, call).(*types.Builtin); !isB || b.Name() != "append" {
				return true
			}
			for _, a := range call.Args[1:] {
				if cm.m.isElemOf(f, a, cm.tr) && cm.m.elemRange(f, a) == rs {
					out[rs] = true
				}
			}
			return true
		})
	}
	return out
}

// c14ForeignReads decides the "own start" clause: the decision about a window
// must not depend on another window's fields.  A read of a window field whose
// base is not the current element of a deciding loop is foreign; if a value
// derived from it meets a value derived from the filter's parameter in a
// comparison of a branch condition, the keep decision of every window depends
// on that other window: violation.  A foreign read that reaches a branch
// condition in another way is undecided; one that reaches none is ignored.
func c14ForeignReads(cm *c14Model, f *kit.Func, fparam *types.Var) (viol, undec []string) {
	info := f.Info()
	deciding := c14DecidingLoops(cm, f)
	foreign := map[ast.Expr]bool{}
	ast.Inspect(f.Body, func(n ast.Node) bool {
		sel, ok := n.(*ast.SelectorExpr)
		if !ok {
			return true
		}
		base, fv, ok := kit.FieldSel(info, sel)
		if !ok || (fv != cm.trF[0] && fv != cm.trF[1] && (cm.wdCache == nil || fv != cm.wdCache)) {
			return true
		}
		if cm.m.isElemOf(f, base, cm.tr) && deciding[cm.m.elemRange(f, base)] {
			return true
		}
		foreign[sel] = true
		return true
	})
	if len(foreign) == 0 {
		return nil, nil
	}
	_, fromForeign := c14Taint(f, func(x ast.Expr) bool { return foreign[x] })
	_, fromFilter := c14Taint(f, func(x ast.Expr) bool {
		id, ok := x.(*ast.Ident)
		return ok && kit.ObjOf(info, id) == types.Object(fparam)
	})
	var firstForeign ast.Expr
	for x := range foreign {
		if firstForeign == nil || x.Pos() < firstForeign.Pos() {
			firstForeign = x
		}
	}
	check := func(cond ast.Expr) {
		if cond == nil {
			return
		}
		for _, l := range ruLeaves(cond) {
			if !fromForeign(l) {
				continue
			}
			a, b, _, isCmp := kit.CmpAtom(l)
			if isCmp && ((fromForeign(a) && fromFilter(b)) || (fromForeign(b) && fromFilter(a))) {
				viol = append(viol, fmt.Sprintf("`%s` at %s compares a filter value with a value derived from `%s` (%s), which is not the start of the window being decided", f.Str(l), f.At(l), f.Str(firstForeign), f.At(firstForeign)))
			} else {
				undec = append(undec, fmt.Sprintf("`%s` at %s depends on `%s`, a field of a window other than the one being decided", f.Str(l), f.At(l), f.Str(firstForeign)))
			}
		}
	}
	ast.Inspect(f.Body, func(n ast.Node) bool {
		switch s := n.(type) {
		case *ast.IfStmt:
			check(s.Cond)
		case *ast.ForStmt:
			check(s.Cond)
		case *ast.SwitchStmt:
			if s.Tag != nil && fromForeign(s.Tag) {
				undec = append(undec, fmt.Sprintf("switch at %s depends on a field of a window other than the one being decided", f.At(s)))
			}
		case *ast.CaseClause:
			for _, e := range s.List {
				if kit.IsBoolType(info.TypeOf(e)) {
					check(e)
				}
			}
		}
		return true
	})
	return uniqStrings(viol), uniqStrings(undec)
}

// c14Image describes a list of parsed filter values built before the window
// loop: `for _, d := range dates { p, err := parse(d); …; list = append(list, p) }`
// (or an inline composite literal of Atoi results).  exact=true means the
// list is the image of the whole parameter: the append is unconditional apart
// from the error return.
type c14Image struct {
	list    types.Object
	loop    *ast.RangeStmt
	elem    *types.Named
	groups  map[*types.Var]int // struct field → group of the YYYY-MM-DD pattern
	exact   bool
	why     string
	helpers []*kit.Func
}

func c14DateImage(cm *c14Model, f *kit.Func, fparam *types.Var) *c14Image {
	info := f.Info()
	var img *c14Image
	deciding := c14DecidingLoops(cm, f)
	visit := func(rs *ast.RangeStmt) bool {
		if kit.ObjOf(info, rs.X) != types.Object(fparam) || img != nil {
			return true
		}
		for d := range deciding {
			if d.Body.Pos() <= rs.Pos() && rs.End() <= d.Body.End() {
				return true // nested in the window loop: the classic shape
			}
		}
		dv := kit.LoopElemVar(info, rs)
		if dv == nil {
			return true
		}
		// the append
		var app *ast.AssignStmt
		nApp := 0
		ast.Inspect(rs.Body, func(x ast.Node) bool {
			as, ok := x.(*ast.AssignStmt)
			if !ok || len(as.Lhs) != 1 || len(as.Rhs) != 1 {
				return true
			}
			call, ok := ast.Unparen(as.Rhs[0]).(*ast.CallExpr)
			if !ok || len(call.Args) != 2 {
				return true
			}
			if b, isB := kit.Callee(info, call).(*types.Builtin); !isB || b.Name() != "append" || kit.ObjOf(info, call.Args[0]) != kit.ObjOf(info, as.Lhs[0]) {
				return true
			}
			nApp++
			app = as
			return true
		})
		if nApp != 1 {
			return true
		}
		lo := kit.ObjOf(info, app.Lhs[0])
		el, _ := ruSliceElem(lo.Type()).(*types.Named)
		if el == nil {
			return true
		}
		est, ok := el.Underlying().(*types.Struct)
		if !ok {
			return true
		}
		im := &c14Image{list: lo, loop: rs, elem: el, groups: map[*types.Var]int{}, exact: true}
		arg := ast.Unparen(ast.Unparen(app.Rhs[0]).(*ast.CallExpr).Args[1])
		// groups of the struct fields from the literals that build the element
		litGroups := func(g *kit.Func, grp map[types.Object]int) bool {
			found := false
			ginfo := g.Info()
			ast.Inspect(g.Body, func(x ast.Node) bool {
				cl, ok := x.(*ast.CompositeLit)
				if !ok || len(cl.Elts) == 0 {
					return true
				}
				if t := ginfo.TypeOf(cl); t == nil || !types.Identical(types.Unalias(t), el) {
					return true
				}
				found = true
				for i, e := range cl.Elts {
					var fv *types.Var
					val := e
					if kv, isKV := e.(*ast.KeyValueExpr); isKV {
						if kid, isId := kv.Key.(*ast.Ident); isId {
							fv, _ = ginfo.Uses[kid].(*types.Var)
						}
						val = kv.Value
					} else if i < est.NumFields() {
						fv = est.Field(i)
					}
					if fv == nil {
						continue
					}
					k, has := grp[kit.ObjOf(ginfo, val)]
					if !has {
						k = -1
					}
					if prev, seen := im.groups[fv]; seen && prev != k {
						k = -1
					}
					im.groups[fv] = k
				}
				return true
			})
			return found
		}
		switch a := arg.(type) {
		case *ast.CompositeLit:
			if !litGroups(f, c14AtoiGroups(f)) {
				return true
			}
		case *ast.Ident:
			// p, err := H(d)
			po := kit.ObjOf(info, a)
			var h *kit.Func
			ndef := 0
			ast.Inspect(f.Body, func(x ast.Node) bool {
				as, ok := x.(*ast.AssignStmt)
				if !ok {
					return true
				}
				for _, l := range as.Lhs {
					if kit.ObjOf(info, l) == po {
						if _, isId := ast.Unparen(l).(*ast.Ident); isId {
							ndef++
							if len(as.Rhs) == 1 {
								if call, isCall := ast.Unparen(as.Rhs[0]).(*ast.CallExpr); isCall && l == as.Lhs[0] {
									usesD := false
									for _, ca := range call.Args {
										if kit.ObjOf(info, ca) == dv {
											usesD = true
										}
									}
									if usesD && rs.Body.Pos() <= as.Pos() && as.End() <= rs.Body.End() {
										h = f.CalleeFunc(call)
									}
								}
							}
						}
					}
				}
				return true
			})
			if ndef != 1 || h == nil || h.Body == nil {
				return true
			}
			if !litGroups(h, c14AtoiGroups(h)) {
				return true
			}
			im.helpers = append(im.helpers, h)
		default:
			return true
		}
		// exactness: the append is a direct statement of the loop body and the
		// body contains no continue/break; other `if`s may only return
		direct := false
		for _, stmt := range rs.Body.List {
			if stmt == ast.Stmt(app) {
				direct = true
			}
		}
		if !direct {
			im.exact, im.why = false, fmt.Sprintf("the append at %s is conditional", f.At(app))
		}
		ast.Inspect(rs.Body, func(x ast.Node) bool {
			if _, isLit := x.(*ast.FuncLit); isLit {
				return false
			}
			if br, ok := x.(*ast.BranchStmt); ok {
				im.exact, im.why = false, fmt.Sprintf("`%s` at %s drops filter values before the windows are looked at", br.Tok, f.At(br))
			}
			return true
		})
		img = im
		return true
	}
	for _, rs := range ruOwnLoops(f) {
		visit(rs)
	}
	return img
}
