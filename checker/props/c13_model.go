package props

import (
	"go/ast"
	"go/token"
	"go/types"
	"sort"

	"siotcheck/kit"
)

// ruModel holds the anchors shared by C13 and C14.  Everything is found by
// type and effect:
//
//   - the condition struct is the struct of package client decoded from the
//     point types "operator", "valueType", "value", "valueText", "active",
//     "conditionType" … (struct tags are the wire protocol between the UI and
//     the rule client);
//   - the rule struct is the one that owns a `child` list of conditions; its
//     action lists are the `child:"action"` / `child:"actionInactive"` fields;
//   - the evaluator is the function that stores into the active field of an
//     element of a condition list;
//   - the schedule chain (constructor, schedule struct, activeForTime) is
//     followed from the call that receives the condition's start/end fields.
type ruModel struct {
	c                                    *kit.Ctx
	cond                                 *types.Named
	rule                                 *types.Named
	action                               *types.Named
	point                                *types.Named
	cf                                   map[string]*types.Var // condition fields by point tag
	af                                   map[string]*types.Var // action fields by point tag
	pf                                   map[string]*types.Var // data.Point fields by name
	rID, rActive, rConds, rActs, rInacts *types.Var
	aID                                  *types.Var
	evals                                []*kit.Func
	ranges                               map[*kit.Func]*ruRanges
	chain                                *c14Chain // schedule chain, built on demand (no package-level state: runs may be concurrent)
	// set while a flow run evaluates helpers inline (kit.Std): res maps a
	// helper's parameter to the argument expression it is bound to, cur is the
	// function whose body is being evaluated
	res func(ast.Expr) ast.Expr
	cur func() *kit.Func
	// counting loops whose condition carries extra guards (`flag && i < len(xs)`)
	guarded map[*kit.Func][]*ruGuarded
}

// ruGuarded is a counting loop over a slice whose condition is the
// conjunction of the canonical bound test and further guards:
// `for i := 0; ok && i < len(xs); i++`.  It leaves when a guard fails (like a
// break at the top of the next iteration) or when the slice is exhausted.
type ruGuarded struct {
	fs     *ast.ForStmt
	rs     *ast.RangeStmt // synthetic: Key i, X xs, Body
	bound  ast.Expr       // the `i < len(xs)` leaf
	guards []ast.Expr
}

func (m *ruModel) guardedLoops(f *kit.Func) []*ruGuarded {
	if m.guarded == nil {
		m.guarded = map[*kit.Func][]*ruGuarded{}
	}
	if g, ok := m.guarded[f]; ok {
		return g
	}
	var out []*ruGuarded
	ast.Inspect(f.Body, func(n ast.Node) bool {
		fs, ok := n.(*ast.ForStmt)
		if !ok || fs.Cond == nil || f.CanonLoop(fs) != nil {
			return true
		}
		var leaves []ast.Expr
		var flat func(e ast.Expr) bool
		flat = func(e ast.Expr) bool {
			e = ast.Unparen(e)
			if b, isB := e.(*ast.BinaryExpr); isB && b.Op == token.LAND {
				return flat(b.X) && flat(b.Y)
			}
			leaves = append(leaves, e)
			return true
		}
		flat(fs.Cond)
		if len(leaves) < 2 {
			return true
		}
		var g *ruGuarded
		for _, l := range leaves {
			tmp := *fs
			tmp.Cond = l
			if rs := f.CanonLoop(&tmp); rs != nil {
				if g != nil {
					return true // two bound tests: not this shape
				}
				g = &ruGuarded{fs: fs, rs: rs, bound: l}
			}
		}
		if g == nil {
			return true
		}
		for _, l := range leaves {
			if l != g.bound {
				g.guards = append(g.guards, l)
			}
		}
		out = append(out, g)
		return true
	})
	m.guarded[f] = out
	return out
}

// follow installs the inline-evaluation view of st for the duration of a run;
// the returned function removes it.
func (m *ruModel) follow(st *kit.Std) func() {
	m.res, m.cur = st.Resolve, st.Cur
	return func() { m.res, m.cur = nil, nil }
}

// scopes: the functions whose range variables can be in play: f and, during
// an inline evaluation, the helper being evaluated.
func (m *ruModel) scopes(f *kit.Func) []*kit.Func {
	if m.cur != nil {
		if c := m.cur(); c != nil && c != f {
			return []*kit.Func{f, c}
		}
	}
	return []*kit.Func{f}
}

const ruClientPkg = "client"

var ruCondTags = []string{"operator", "valueType", "value", "valueText", "active", "conditionType",
	"nodeID", "pointType", "pointKey", "start", "end", "weekday", "date"}

func newRuModel(c *kit.Ctx) *ruModel {
	m := &ruModel{c: c, cf: map[string]*types.Var{}, af: map[string]*types.Var{}, pf: map[string]*types.Var{}, ranges: map[*kit.Func]*ruRanges{}}
	pk := c.P.MustPkg(ruClientPkg)
	dp := c.P.MustPkg("data")
	if tn, ok := dp.Types.Scope().Lookup("Point").(*types.TypeName); ok {
		m.point, _ = tn.Type().(*types.Named)
	}
	if m.point == nil {
		c.Fatalf("type data.Point not found")
	}
	pst, ok := m.point.Underlying().(*types.Struct)
	if !ok {
		c.Fatalf("data.Point is not a struct")
	}
	for i := 0; i < pst.NumFields(); i++ {
		m.pf[pst.Field(i).Name()] = pst.Field(i)
	}
	for _, need := range []string{"Type", "Key", "Value", "Text", "Time", "Origin"} {
		if m.pf[need] == nil {
			c.Fatalf("data.Point has no field %s", need)
		}
	}
	scope := pk.Types.Scope()
	names := scope.Names()
	sort.Strings(names)
	var conds []*types.Named
	for _, nm := range names {
		tn, ok := scope.Lookup(nm).(*types.TypeName)
		if !ok || tn.IsAlias() {
			continue
		}
		named, ok := tn.Type().(*types.Named)
		if !ok {
			continue
		}
		if _, ok := named.Underlying().(*types.Struct); !ok {
			continue
		}
		all := true
		for _, tag := range ruCondTags {
			if kit.FieldByTag(named, "point", tag) == nil {
				all = false
				break
			}
		}
		if all {
			conds = append(conds, named)
		}
	}
	if len(conds) != 1 {
		c.Fatalf("condition struct (point tags %v) not identified uniquely in package client: %d candidates", ruCondTags, len(conds))
	}
	m.cond = conds[0]
	for _, tag := range ruCondTags {
		m.cf[tag] = kit.FieldByTag(m.cond, "point", tag)
	}
	// rule struct: owns a child list of conditions
	for _, nm := range names {
		tn, ok := scope.Lookup(nm).(*types.TypeName)
		if !ok || tn.IsAlias() {
			continue
		}
		named, ok := tn.Type().(*types.Named)
		if !ok {
			continue
		}
		st, ok := named.Underlying().(*types.Struct)
		if !ok {
			continue
		}
		for i := 0; i < st.NumFields(); i++ {
			if el := ruSliceElem(st.Field(i).Type()); el != nil && types.Identical(el, m.cond) && kit.FieldByTag(named, "child", "condition") == st.Field(i) {
				if m.rule != nil && m.rule != named {
					c.Fatalf("two structs own a child list of conditions: %s and %s", m.rule.Obj().Name(), named.Obj().Name())
				}
				m.rule = named
				m.rConds = st.Field(i)
			}
		}
	}
	if m.rule == nil {
		c.Fatalf("rule struct (owner of the `child:\"condition\"` list of %s) not found", m.cond.Obj().Name())
	}
	m.rID = kit.FieldByTag(m.rule, "node", "id")
	m.rActive = kit.FieldByTag(m.rule, "point", "active")
	m.rActs = kit.FieldByTag(m.rule, "child", "action")
	m.rInacts = kit.FieldByTag(m.rule, "child", "actionInactive")
	if m.rID == nil || m.rActive == nil || m.rActs == nil || m.rInacts == nil {
		c.Fatalf("rule struct %s lacks one of: node id, point active, child action, child actionInactive", m.rule.Obj().Name())
	}
	el := ruSliceElem(m.rActs.Type())
	el2 := ruSliceElem(m.rInacts.Type())
	if el == nil || el2 == nil || !types.Identical(el, el2) {
		c.Fatalf("the two action lists of %s do not share an element type", m.rule.Obj().Name())
	}
	m.action, _ = el.(*types.Named)
	if m.action == nil {
		c.Fatalf("action element type is not a named struct")
	}
	for _, tag := range []string{"action", "nodeID", "pointType", "value", "valueText", "active", "valueType"} {
		m.af[tag] = kit.FieldByTag(m.action, "point", tag)
		if m.af[tag] == nil {
			c.Fatalf("action struct %s has no field for point type %q", m.action.Obj().Name(), tag)
		}
	}
	m.aID = kit.FieldByTag(m.action, "node", "id")
	if m.aID == nil {
		c.Fatalf("action struct has no node id field")
	}
	// evaluator(s): store into <[]cond>[i].active
	for _, f := range c.P.Funcs(ruClientPkg) {
		if f.Body == nil {
			continue
		}
		if len(m.condStores(f)) > 0 {
			m.evals = append(m.evals, f)
		}
	}
	return m
}

func ruSliceElem(t types.Type) types.Type {
	if t == nil {
		return nil
	}
	if p, ok := t.Underlying().(*types.Pointer); ok {
		t = p.Elem()
	}
	if s, ok := t.Underlying().(*types.Slice); ok {
		return s.Elem()
	}
	return nil
}

// ownStmts visits the nodes of f's body without descending into nested
// function literals.
func ruInspectOwn(f *kit.Func, fn func(ast.Node) bool) {
	ast.Inspect(f.Body, func(n ast.Node) bool {
		if _, ok := n.(*ast.FuncLit); ok {
			return false
		}
		if n == nil {
			return true
		}
		return fn(n)
	})
}

// condStores lists the assignments of f (own body) that store into the
// active field of an indexed condition-list element.
func (m *ruModel) condStores(f *kit.Func) []*ast.AssignStmt {
	var out []*ast.AssignStmt
	ruInspectOwn(f, func(n ast.Node) bool {
		as, ok := n.(*ast.AssignStmt)
		if !ok {
			return true
		}
		for _, l := range as.Lhs {
			if m.isStoreTo(f, l, m.cf["active"], m.cond) {
				out = append(out, as)
				break
			}
		}
		return true
	})
	return out
}

// isStoreTo: l is `<X>[i].field` with X a slice of elem, or `<v>.field` with v
// a pointer to elem.
func (m *ruModel) isStoreTo(f *kit.Func, l ast.Expr, field *types.Var, elem types.Type) bool {
	base, fv, ok := kit.FieldSel(f.Info(), l)
	if !ok || fv != field {
		return false
	}
	base = ast.Unparen(base)
	if ix, ok := base.(*ast.IndexExpr); ok {
		el := ruSliceElem(f.Info().TypeOf(ix.X))
		return el != nil && types.Identical(el, elem)
	}
	if p, ok := f.Info().TypeOf(base).(*types.Pointer); ok {
		return types.Identical(p.Elem(), elem)
	}
	return false
}

// ---------------------------------------------------------------------------
// range variables

type ruRanges struct {
	val map[types.Object]*ast.RangeStmt
	key map[types.Object]*ast.RangeStmt
}

func (m *ruModel) rangesOf(f *kit.Func) *ruRanges {
	if r, ok := m.ranges[f]; ok {
		return r
	}
	r := &ruRanges{val: map[types.Object]*ast.RangeStmt{}, key: map[types.Object]*ast.RangeStmt{}}
	info := f.Info()
	// range statements and canonical counting loops (synthetic range statement
	// with Key only); the element is named by the value variable or by a local
	// defined once as X[key]
	for _, rs := range f.SliceLoops(f.Body) {
		if rs.Key != nil {
			if o := kit.ObjOf(info, rs.Key); o != nil {
				r.key[o] = rs
			}
		}
		if rs.Value != nil {
			if o := kit.ObjOf(info, rs.Value); o != nil {
				r.val[o] = rs
			}
		}
		for o := range kit.ElemAliases(info, rs) {
			if _, has := r.val[o]; !has {
				r.val[o] = rs
			}
		}
	}
	for _, g := range m.guardedLoops(f) {
		if o := kit.ObjOf(info, g.rs.Key); o != nil {
			r.key[o] = g.rs
		}
		for o := range kit.ElemAliases(info, g.rs) {
			if _, has := r.val[o]; !has {
				r.val[o] = g.rs
			}
		}
	}
	m.ranges[f] = r
	return r
}

// isElemOf reports whether e denotes "the current element" of a list of
// elem: the value variable of a range over a slice of elem, `X[k]` with k the
// key variable of a range over the same X, or a parameter of type elem/*elem.
func (m *ruModel) isElemOf(f *kit.Func, e ast.Expr, elem types.Type) bool {
	info := f.Info()
	e = ast.Unparen(e)
	if m.res != nil {
		e = ast.Unparen(m.res(e))
	}
	// &elem / *elem around the element
	for {
		if u, ok := e.(*ast.UnaryExpr); ok && u.Op == token.AND {
			e = ast.Unparen(u.X)
			continue
		}
		if st, ok := e.(*ast.StarExpr); ok {
			e = ast.Unparen(st.X)
			if m.res != nil {
				e = ast.Unparen(m.res(e))
			}
			continue
		}
		break
	}
	switch x := e.(type) {
	case *ast.Ident:
		o := kit.ObjOf(info, x)
		if o == nil {
			return false
		}
		for _, sc := range m.scopes(f) {
			if rs := m.rangesOf(sc).val[o]; rs != nil {
				el := ruSliceElem(info.TypeOf(rs.X))
				return el != nil && types.Identical(el, elem)
			}
		}
		for _, p := range f.Params() {
			if p == o {
				t := p.Type()
				if pt, ok := t.(*types.Pointer); ok {
					t = pt.Elem()
				}
				return types.Identical(t, elem)
			}
		}
		if rv := c14RecvVar(f); rv != nil && types.Object(rv) == o {
			return types.Identical(ruDeref(rv.Type()), elem)
		}
		// a local copy all of whose bindings are `X[k]`, k the key of a range over X
		if rs := m.copyRange(f, o, elem); rs != nil {
			return true
		}
	case *ast.IndexExpr:
		el := ruSliceElem(info.TypeOf(x.X))
		if el == nil || !types.Identical(el, elem) {
			return false
		}
		o := kit.ObjOf(info, x.Index)
		if o == nil {
			return false
		}
		for _, sc := range m.scopes(f) {
			if rs := m.rangesOf(sc).key[o]; rs != nil && kit.SameExpr(info, rs.X, x.X) {
				return true
			}
		}
	}
	return false
}

// elemRange returns the range statement whose current element e denotes.
func (m *ruModel) elemRange(f *kit.Func, e ast.Expr) *ast.RangeStmt {
	info := f.Info()
	e = ast.Unparen(e)
	if m.res != nil {
		e = ast.Unparen(m.res(e))
	}
	if u, ok := e.(*ast.UnaryExpr); ok && u.Op == token.AND {
		e = ast.Unparen(u.X)
	}
	rg := m.rangesOf(f)
	for _, sc := range m.scopes(f) {
		if sc == f {
			continue
		}
		switch x := e.(type) {
		case *ast.Ident:
			if rs := m.rangesOf(sc).val[kit.ObjOf(info, x)]; rs != nil {
				return rs
			}
		case *ast.IndexExpr:
			if rs := m.rangesOf(sc).key[kit.ObjOf(info, x.Index)]; rs != nil {
				return rs
			}
		}
	}
	switch x := e.(type) {
	case *ast.Ident:
		if o := kit.ObjOf(info, x); o != nil {
			if rs := rg.val[o]; rs != nil {
				return rs
			}
			if el := o.Type(); el != nil {
				return m.copyRange(f, o, ruDeref(el))
			}
		}
	case *ast.IndexExpr:
		if o := kit.ObjOf(info, x.Index); o != nil {
			return rg.key[o]
		}
	}
	return nil
}

// condField matches `<current condition>.<field>`; it returns the point tag.
func (m *ruModel) condField(f *kit.Func, e ast.Expr) (string, bool) {
	base, fv, ok := kit.FieldSel(f.Info(), e)
	if !ok {
		return "", false
	}
	for tag, v := range m.cf {
		if v == fv {
			if m.isElemOf(f, base, m.cond) {
				return tag, true
			}
			return "", false
		}
	}
	return "", false
}

// actionField matches `<current action>.<field>`.
func (m *ruModel) actionField(f *kit.Func, e ast.Expr) (string, bool) {
	base, fv, ok := kit.FieldSel(f.Info(), e)
	if !ok {
		return "", false
	}
	if fv == m.aID && m.isElemOf(f, base, m.action) {
		return "id", true
	}
	for tag, v := range m.af {
		if v == fv {
			if m.isElemOf(f, base, m.action) {
				return tag, true
			}
			return "", false
		}
	}
	return "", false
}

// pointField matches `<current point>.<Field>` where the current point is an
// element of an incoming batch (range value over a []data.Point) or a
// data.Point parameter — never a point built locally.
func (m *ruModel) pointField(f *kit.Func, e ast.Expr) (string, bool) {
	base, fv, ok := kit.FieldSel(f.Info(), e)
	if !ok {
		return "", false
	}
	if m.pf[fv.Name()] != fv {
		return "", false
	}
	if !m.isElemOf(f, base, m.point) {
		return "", false
	}
	return fv.Name(), true
}

// ruleField matches `<…>.<field of the rule struct>`.
func (m *ruModel) ruleField(f *kit.Func, e ast.Expr) *types.Var {
	_, fv, ok := kit.FieldSel(f.Info(), e)
	if !ok {
		return nil
	}
	switch fv {
	case m.rID, m.rActive, m.rConds, m.rActs, m.rInacts:
		return fv
	}
	return nil
}

// cmpLeaf decomposes `a OP b` and `!…`-free leaves; helper for both orders.
func ruEqLeaf(e ast.Expr) (a, b ast.Expr, neg, ok bool) {
	x, y, op, isCmp := kit.CmpAtom(e)
	if !isCmp || (op != token.EQL && op != token.NEQ) {
		return nil, nil, false, false
	}
	return x, y, op == token.NEQ, true
}

func ruFlip(op token.Token) token.Token {
	switch op {
	case token.LSS:
		return token.GTR
	case token.GTR:
		return token.LSS
	case token.LEQ:
		return token.GEQ
	case token.GEQ:
		return token.LEQ
	}
	return op
}

// ruOrdHolds evaluates `X op Y` under ord ∈ {"lt","eq","gt"} (X ord Y).
func ruOrdHolds(ord string, op token.Token) bool {
	switch op {
	case token.LSS:
		return ord == "lt"
	case token.LEQ:
		return ord != "gt"
	case token.GTR:
		return ord == "gt"
	case token.GEQ:
		return ord != "lt"
	case token.EQL:
		return ord == "eq"
	case token.NEQ:
		return ord != "eq"
	}
	return false
}

// leaves lists the leaves of a boolean expression (through parens, !, &&, ||).
func ruLeaves(e ast.Expr) []ast.Expr {
	e = ast.Unparen(e)
	switch x := e.(type) {
	case *ast.UnaryExpr:
		if x.Op == token.NOT {
			return ruLeaves(x.X)
		}
	case *ast.BinaryExpr:
		if x.Op == token.LAND || x.Op == token.LOR {
			return append(ruLeaves(x.X), ruLeaves(x.Y)...)
		}
	}
	return []ast.Expr{e}
}

// ruMentions reports whether n contains an expression satisfying pred (not
// descending into function literals).
func ruMentions(n ast.Node, pred func(ast.Expr) bool) bool {
	found := false
	ast.Inspect(n, func(x ast.Node) bool {
		if found {
			return false
		}
		if _, ok := x.(*ast.FuncLit); ok {
			return false
		}
		if e, ok := x.(ast.Expr); ok && pred(e) {
			found = true
			return false
		}
		return true
	})
	return found
}

// ruCorr collects the condition leaves (and switch tags) that the run could
// not interpret although they read the operands the rule quantifies over.
// Such a leaf is correlated with the valuation, so forking it both ways
// proves nothing: a mismatch found in such a run is reported as undecided
// (CHECKER-ERROR), never as a violation.
type ruCorr struct {
	f      *kit.Func
	pred   func(ast.Expr) bool
	leaves []string
}

func (rc *ruCorr) add(e ast.Node) {
	if e == nil || !ruMentions(e, rc.pred) {
		return
	}
	s := "`" + rc.f.Str(e) + "` at " + rc.f.At(e)
	for _, l := range rc.leaves {
		if l == s {
			return
		}
	}
	rc.leaves = append(rc.leaves, s)
}

func (rc *ruCorr) hook(st *kit.Std) {
	st.Eval.OnUnknown = func(e ast.Expr) { rc.add(e) }
}

// tag is to be called for a tagged switch decision the client did not fold.
func (rc *ruCorr) tag(st *kit.Std, br kit.Branch, s kit.S) {
	if br.Kind == kit.BrCase && br.Tag != nil {
		if _, ok := st.FoldExpr(br.Tag, s); !ok {
			rc.add(br.Tag)
		}
	}
}

func (rc *ruCorr) any() bool { return len(rc.leaves) > 0 }

func (rc *ruCorr) String() string {
	out := ""
	for i, l := range rc.leaves {
		if i > 0 {
			out += ", "
		}
		out += l
	}
	return out
}

// copyRange: o is a local variable of type elem every binding of which is
// `X[k]` with k the key variable of one range statement over X; that range
// statement is returned (nil otherwise).
func (m *ruModel) copyRange(f *kit.Func, o types.Object, elem types.Type) *ast.RangeStmt {
	if o == nil || !types.Identical(ruDeref(o.Type()), elem) {
		return nil
	}
	_, isPtr := o.Type().(*types.Pointer)
	info := f.Info()
	rg := m.rangesOf(f)
	var found *ast.RangeStmt
	ok, n := true, 0
	check := func(rhs ast.Expr) {
		n++
		rhs = ast.Unparen(rhs)
		if u, isU := rhs.(*ast.UnaryExpr); isU && u.Op == token.AND && isPtr {
			rhs = ast.Unparen(u.X) // p := &X[k]
		} else if isPtr {
			ok = false
			return
		}
		ix, isIx := rhs.(*ast.IndexExpr)
		if !isIx {
			ok = false
			return
		}
		rs := rg.key[kit.ObjOf(info, ix.Index)]
		if rs == nil || !kit.SameExpr(info, rs.X, ix.X) || (found != nil && found != rs) {
			ok = false
			return
		}
		found = rs
	}
	ast.Inspect(f.Body, func(x ast.Node) bool {
		switch s := x.(type) {
		case *ast.AssignStmt:
			for i, l := range s.Lhs {
				if id, isId := ast.Unparen(l).(*ast.Ident); isId && kit.ObjOf(info, id) == o {
					if len(s.Lhs) != len(s.Rhs) {
						ok = false
						continue
					}
					check(s.Rhs[i])
				}
			}
		case *ast.ValueSpec:
			for i, nm := range s.Names {
				if info.Defs[nm] == o {
					if len(s.Values) != len(s.Names) {
						ok = false
						continue
					}
					check(s.Values[i])
				}
			}
		}
		return true
	})
	if !ok || n == 0 {
		return nil
	}
	return found
}

// ruOwnLoops lists the loops over a slice of f's own body (range statements
// and canonical counting loops, the latter as synthetic range statements),
// not those of nested function literals.
func ruOwnLoops(f *kit.Func) []*ast.RangeStmt {
	var lits []*ast.FuncLit
	ast.Inspect(f.Body, func(n ast.Node) bool {
		if l, ok := n.(*ast.FuncLit); ok {
			lits = append(lits, l)
			return false
		}
		return true
	})
	var out []*ast.RangeStmt
	for _, rs := range f.SliceLoops(f.Body) {
		inLit := false
		for _, l := range lits {
			if l.Pos() <= rs.Pos() && rs.End() <= l.End() {
				inLit = true
			}
		}
		if !inLit {
			out = append(out, rs)
		}
	}
	return out
}

// condStoresIn: stores into a condition's state inside node n of f.
func (m *ruModel) condStoresIn(f *kit.Func, n ast.Node) []*ast.AssignStmt {
	var out []*ast.AssignStmt
	for _, st := range m.condStores(f) {
		if n.Pos() <= st.Pos() && st.End() <= n.End() {
			out = append(out, st)
		}
	}
	return out
}
