package props

import (
	"fmt"
	"go/ast"
	"go/token"
	"go/types"
	"sort"
	"strings"

	"golang.org/x/tools/go/cfg"

	"siotcheck/kit"
)

func init() {
	kit.Register(&kit.Prop{
		ID:    "C15",
		Title: "Export followed by import reproduces the tree",
		Explanation: "Structural necessary conditions of the export/import round trip decided on every CFG path of the exporter, its recursive helper, the id replacer and the importer (DESIGN.md §3/C15); YAML fidelity over all strings is NOT decided. " +
			"R1 every listing call reachable from the exporter passes includeDeleted=false; the recursive helper lists the children of its node (no type filter), and on every path through the loop over them recurses into a NodeEdgeChildren built from the element and appends it to Children afterwards; the marshalled value is built from the root after the helper ran; in every function the exporter reaches (declared helper or function literal) each exit that follows a failed listing call or failed callee reports the failure (non-nil error result, or for a literal a non-nil error variable of the enclosing function, which the exporter examines); " +
			"R2 a key rewrite `Key = B` in the exporter is reachable only when the key equals A, where the store's point writer of that kind of point maps B back to A; the compaction of edge points drops a point only when its type is tombstone and its value is 0 and never leaves its loop early (enumerated over the 4 valuations); " +
			"R3 in the id replacer every identifier written to a node or to the text of a point was looked up in the one map under the OLD value and, on a miss, freshly generated and stored under that old value (empty node ids excepted); exactly the node-id points with non-empty text are rewritten (an empty reference stays empty); every node receives the parent given by its caller and every child is visited through its slice element with the parent's NEW id; a replacement split into several recursive walks of one enclosing function (assign the ids, then rewrite the references) is judged walk by walk against the duties it takes on, with one map shared by all walks (the order of the walks is not followed: shapes that depend on it are undecided); " +
			"R6 the recursive import helper sends its own node on every successful path and recurses into every child; a skip keyed on the node id alone (not id and parent) is a violation because the send also creates the edge; " +
			"R4 a string constant is concatenated to a point text only in the importer itself, on an element of Nodes[0].Points whose type is description; with preserve-ids no replacer call is reachable, without it every path to the send passes the replacer on &Nodes[0] with the requested parent; the top node's Parent is set to the requested parent before the send.",
		Assumptions: []string{
			"the YAML marshaller round-trips the exported structs (third-party, not analysed)",
			"github.com/google/uuid.New returns a fresh identifier; map values stored are never empty",
			"the store normalises point keys as decided by C01 (\"\" and \"0\" are the same key)",
			"non-atom conditions are nondeterministic (both edges explored)",
			"node references held in point types other than nodeID, and SendNode's own defaults, are not decided",
		},
		Run: runC15,
	})
}

const (
	c15Yaml = "github.com/goccy/go-yaml"
	c15UUID = "github.com/google/uuid"
)

// ---------------------------------------------------------------------------
// anchors

type c15Anchors struct {
	c *kit.Ctx
	// listing function: the single bool parameter selects deleted nodes
	list               *kit.Func
	delIdx             int // argument index of includeDeleted
	parentIdx, idIdx   int // argument indices of the two subject parts nodes.<parent>.<id>
	typIdx             int // the remaining string parameter (type filter), -1 if none
	exporter, importer *kit.Func
	decoder            *kit.Func    // the function that calls yaml.Unmarshal (the importer or a helper of it)
	viaCall            []*kit.Func  // functions between importer and decoder
	doc                types.Object // the importer's local that holds the decoded document
	marshal, unmarshal *ast.CallExpr
	helper             *kit.Func // recursive export helper
	helperNode         *types.Var
	helperIn           *types.Var // by-value shape: the NodeEdge parameter the returned NodeEdgeChildren is built from
	helperByValue      bool
	replacer           *kit.Func // function (literal) that holds the map accesses
	replacerOuter      map[*kit.Func]bool
	replHelpers        []*kit.Func // same-package helpers of the replacer that look up / generate ids
	// the replacement split into several recursive walks over the tree (literals of
	// one enclosing function, e.g. "assign the ids" then "rewrite the references"):
	// every walk in source order; a single entry (the replacer) in the usual shape
	replPasses      []*kit.Func
	replPassHelpers map[*kit.Func][]*kit.Func
	exportSet       []*kit.Func
}

func c15IsNEC(t types.Type) bool { return kit.IsNamedType(t, dataPkg, "NodeEdgeChildren") }

func c15HasNECSlice(t types.Type) bool {
	if p, ok := t.(*types.Pointer); ok {
		t = p.Elem()
	}
	st, ok := t.Underlying().(*types.Struct)
	if !ok {
		return false
	}
	for i := 0; i < st.NumFields(); i++ {
		if sl, ok := st.Field(i).Type().Underlying().(*types.Slice); ok && c15IsNEC(sl.Elem()) {
			if _, isPtr := sl.Elem().(*types.Pointer); !isPtr {
				return true
			}
		}
	}
	return false
}

func c15Reach(from *kit.Func, stop map[*kit.Func]bool) []*kit.Func {
	seen := map[*kit.Func]bool{from: true}
	order := []*kit.Func{from}
	for i := 0; i < len(order); i++ {
		f := order[i]
		if f.Body == nil {
			continue
		}
		for _, call := range f.AllCalls(true) {
			// the call may sit in a nested literal: resolve it from the literal's Func
			cf := f.CalleeFunc(call)
			if cf == nil || seen[cf] || stop[cf] || cf.PkgRel() != from.PkgRel() {
				continue
			}
			seen[cf] = true
			order = append(order, cf)
		}
	}
	return order
}

func c15Find(c *kit.Ctx) *c15Anchors {
	a := &c15Anchors{c: c, typIdx: -1, replacerOuter: map[*kit.Func]bool{}}
	funcs := c.P.Funcs("client")
	// listing function
	for _, f := range funcs {
		if f.Decl == nil || f.Body == nil || f.Type.Results == nil {
			continue
		}
		nb, bi := 0, -1
		for i, p := range f.Params() {
			if b, ok := p.Type().Underlying().(*types.Basic); ok && b.Kind() == types.Bool {
				nb++
				bi = i
			}
		}
		if nb != 1 {
			continue
		}
		retNE := false
		for _, r := range f.Type.Results.List {
			if sl, ok := f.Info().TypeOf(r.Type).Underlying().(*types.Slice); ok && kit.IsNamedType(sl.Elem(), dataPkg, "NodeEdge") {
				retNE = true
			}
		}
		if !retNE {
			continue
		}
		req := false
		var sp *ast.CallExpr
		for _, call := range f.AllCalls(false) {
			if kit.CallIs(f.Info(), call, natsPkg+".(*Conn).Request") {
				req = true
			}
			if kit.CallIs(f.Info(), call, "fmt.Sprintf") && len(call.Args) == 3 {
				if s, ok := kit.ConstString(f.Info(), call.Args[0]); ok && strings.HasPrefix(s, "nodes.") && strings.Count(s, "%") == 2 {
					sp = call
				}
			}
		}
		if !req || sp == nil {
			continue
		}
		if a.list != nil {
			c.Fatalf("two listing functions in package client: %s and %s", a.list.Name, f.Name)
		}
		a.list, a.delIdx = f, bi
		a.parentIdx, a.idIdx = -1, -1
		for i, p := range f.Params() {
			if kit.ObjOf(f.Info(), sp.Args[1]) == p {
				a.parentIdx = i
			}
			if kit.ObjOf(f.Info(), sp.Args[2]) == p {
				a.idIdx = i
			}
		}
		for i, p := range f.Params() {
			if b, ok := p.Type().Underlying().(*types.Basic); ok && b.Kind() == types.String && i != a.parentIdx && i != a.idIdx {
				a.typIdx = i
			}
		}
		if a.parentIdx < 0 || a.idIdx < 0 {
			c.Fatalf("listing function %s: the subject nodes.<parent>.<id> is not formatted from two parameters", f.Name)
		}
	}
	if a.list == nil {
		c.Fatalf("listing function (bool includeDeleted parameter, nats Request on nodes.<parent>.<id>, []data.NodeEdge result) not found in package client")
	}
	// exporter / importer
	for _, f := range funcs {
		if f.Decl == nil || f.Body == nil {
			continue
		}
		for _, call := range f.AllCalls(false) {
			if kit.CallIs(f.Info(), call, c15Yaml+".Marshal", c15Yaml+".MarshalWithOptions") && len(call.Args) >= 1 && c15HasNECSlice(f.Info().TypeOf(call.Args[0])) {
				if a.exporter != nil && a.exporter != f {
					c.Fatalf("two exporters: %s and %s", a.exporter.Name, f.Name)
				}
				a.exporter, a.marshal = f, call
			}
			if kit.CallIs(f.Info(), call, c15Yaml+".Unmarshal", c15Yaml+".UnmarshalWithOptions") && len(call.Args) >= 2 && c15HasNECSlice(f.Info().TypeOf(call.Args[1])) {
				if a.importer != nil && a.importer != f {
					c.Fatalf("two importers: %s and %s", a.importer.Name, f.Name)
				}
				a.importer, a.unmarshal = f, call
			}
		}
	}
	// the importer proper: the function with the preserve-ids flag that obtains
	// the decoded document — the decoder itself or a caller of it (depth <= 2)
	if a.importer != nil {
		a.decoder = a.importer
		hasBool := func(f *kit.Func) bool {
			n := 0
			for _, p := range f.Params() {
				if b, ok := p.Type().Underlying().(*types.Basic); ok && b.Kind() == types.Bool {
					n++
				}
			}
			return n == 1
		}
		cand := []*kit.Func{a.importer}
		for depth := 0; depth < 2 && !hasBool(a.importer); depth++ {
			var next []*kit.Func
			for _, f := range funcs {
				if f.Decl == nil || f.Body == nil {
					continue
				}
				for _, call := range f.AllCalls(false) {
					for _, d := range cand {
						if f.CalleeFunc(call) == d && f != d {
							next = append(next, f)
						}
					}
				}
			}
			var withBool []*kit.Func
			for _, f := range next {
				if hasBool(f) {
					withBool = append(withBool, f)
				}
			}
			if len(withBool) == 1 {
				a.importer = withBool[0]
				a.viaCall = cand
				break
			}
			if len(withBool) > 1 {
				c.Fatalf("the YAML decoder %s is used by several functions with a bool parameter", a.decoder.Name)
			}
			cand = next
		}
		// the local variable that holds the decoded document in the importer
		f := a.importer
		if f == a.decoder {
			if u, ok := ast.Unparen(a.unmarshal.Args[1]).(*ast.UnaryExpr); ok && u.Op == token.AND {
				a.doc = kit.ObjOf(f.Info(), u.X)
			}
		} else {
			ast.Inspect(f.Body, func(n ast.Node) bool {
				if _, ok := n.(*ast.FuncLit); ok {
					return false
				}
				as, ok := n.(*ast.AssignStmt)
				if !ok || len(as.Rhs) != 1 {
					return true
				}
				call, ok := ast.Unparen(as.Rhs[0]).(*ast.CallExpr)
				if !ok {
					return true
				}
				cf := f.CalleeFunc(call)
				isVia := cf == a.decoder
				for _, d := range a.viaCall {
					if cf == d {
						isVia = true
					}
				}
				if !isVia {
					return true
				}
				for _, l := range as.Lhs {
					if o := kit.ObjOf(f.Info(), l); o != nil && c15HasNECSlice(o.Type()) {
						a.doc = o
					}
				}
				return true
			})
		}
	}
	if a.exporter == nil || a.importer == nil {
		c.Fatalf("exporter (yaml.Marshal of a struct holding []NodeEdgeChildren) or importer (yaml.Unmarshal into one) not found: exporter=%v importer=%v", a.exporter != nil, a.importer != nil)
	}
	a.exportSet = c15Reach(a.exporter, map[*kit.Func]bool{a.list: true})
	for _, f := range a.exportSet {
		if f.Body == nil {
			continue
		}
		var np *types.Var
		for _, p := range f.Params() {
			if _, isPtr := p.Type().(*types.Pointer); isPtr && c15IsNEC(p.Type()) {
				np = p
			}
		}
		// by-value shape: takes a NodeEdge, returns the finished NodeEdgeChildren
		var in, res *types.Var
		if np == nil {
			for _, p := range f.Params() {
				if _, isPtr := p.Type().(*types.Pointer); !isPtr && kit.IsNamedType(p.Type(), dataPkg, "NodeEdge") {
					in = p
				}
			}
			res = c15ResultNEC(f)
			if in == nil || res == nil {
				continue
			}
		}
		for _, call := range f.AllCalls(false) {
			if f.CalleeFunc(call) == f {
				if a.helper != nil && a.helper != f {
					c.Fatalf("two recursive export helpers: %s and %s", a.helper.Name, f.Name)
				}
				if np != nil {
					a.helper, a.helperNode = f, np
				} else {
					a.helper, a.helperNode, a.helperIn, a.helperByValue = f, res, in, true
				}
			}
		}
	}
	if a.helper == nil {
		c.Fatalf("recursive export helper (calls itself; takes *data.NodeEdgeChildren, or takes a data.NodeEdge and returns the data.NodeEdgeChildren) not reachable from %s", a.exporter.Name)
	}
	// replacer: a self-recursive function on a *NodeEdgeChildren that — itself or
	// through same-package helpers (depth <= 2) — indexes a map[string]string
	// and generates uuids
	own := func(f *kit.Func) (hasMap, hasUUID bool) {
		ast.Inspect(f.Body, func(n ast.Node) bool {
			switch x := n.(type) {
			case *ast.FuncLit:
				return false
			case *ast.IndexExpr:
				if c15IsStrMap(f.Info().TypeOf(x.X)) {
					hasMap = true
				}
			case *ast.CallExpr:
				if strings.HasPrefix(kit.QualName(kit.Callee(f.Info(), x)), c15UUID+".New") {
					hasUUID = true
				}
			}
			return true
		})
		return
	}
	var full, cands []*kit.Func // full: map and uuid; cands: either (a pass of a split replacement)
	a.replPassHelpers = map[*kit.Func][]*kit.Func{}
	candMap := map[*kit.Func]bool{} // the walk (or a helper of it) indexes a string map
	for _, f := range funcs {
		if f.Body == nil {
			continue
		}
		hasNEC, rec := false, false
		for _, p := range f.Params() {
			if _, isPtr := p.Type().(*types.Pointer); isPtr && c15IsNEC(p.Type()) {
				hasNEC = true
			}
		}
		if !hasNEC {
			continue
		}
		for _, call := range f.AllCalls(false) {
			if f.CalleeFunc(call) == f {
				rec = true
			}
		}
		if !rec {
			continue
		}
		hasMap, hasUUID := own(f)
		var helpers []*kit.Func
		seen := map[*kit.Func]bool{f: true}
		frontier := []*kit.Func{f}
		for depth := 0; depth < 2; depth++ {
			var next []*kit.Func
			for _, g := range frontier {
				for _, call := range g.AllCalls(false) {
					cf := g.CalleeFunc(call)
					if cf == nil || cf.Body == nil || cf.Pkg != f.Pkg || seen[cf] || cf.Lit != nil {
						continue
					}
					seen[cf] = true
					m, u := own(cf)
					if m || u {
						helpers = append(helpers, cf)
						hasMap, hasUUID = hasMap || m, hasUUID || u
					}
					next = append(next, cf)
				}
			}
			frontier = next
		}
		if hasMap && hasUUID {
			full = append(full, f)
		}
		if hasMap || hasUUID {
			cands = append(cands, f)
			a.replPassHelpers[f] = helpers
			candMap[f] = hasMap
		}
	}
	// several recursive walks are passes of one replacement when they are literals of
	// the same enclosing function (they can then share the one map declared there)
	sameOuter := func(fs []*kit.Func) bool {
		for _, f := range fs {
			if f.Lit == nil || f.Outer == nil || f.Outer != fs[0].Outer {
				return false
			}
		}
		return true
	}
	switch {
	case len(full) == 0:
		// no walk both looks up and generates: a split where one walk only generates
		// and another only looks up is still one replacement (judged by R3)
		nm := 0
		for _, f := range cands {
			if candMap[f] {
				nm++
			}
		}
		if len(cands) < 2 || nm == 0 || nm == len(cands) || !sameOuter(cands) {
			c.Fatalf("id replacer (self-recursive, *data.NodeEdgeChildren parameter, map[string]string lookups and uuid generation in it or its helpers) not found in package client")
		}
		a.replacer, a.replPasses = cands[0], cands
	case len(cands) == 1:
		a.replacer = cands[0]
	default:
		a.replacer = full[0]
		for _, f := range cands {
			if !sameOuter([]*kit.Func{a.replacer, f}) {
				for _, g := range full {
					if g == f {
						c.Fatalf("two id replacers: %s and %s", a.replacer.Name, f.Name)
					}
				}
				// an unrelated recursive function that merely touches a string map or makes a uuid
				continue
			}
			a.replPasses = append(a.replPasses, f)
		}
	}
	if len(a.replPasses) < 2 {
		a.replPasses = []*kit.Func{a.replacer}
	}
	// further recursive walks of the same enclosing function that take over a duty of
	// the replacement (the node's ID or Parent, the text of its points) without
	// touching the map themselves
	if a.replacer.Lit != nil && a.replacer.Outer != nil {
		for _, f := range funcs {
			if f.Body == nil || f.Lit == nil || f.Outer != a.replacer.Outer {
				continue
			}
			isPass := false
			for _, g := range a.replPasses {
				isPass = isPass || g == f
			}
			if isPass {
				continue
			}
			var np *types.Var
			for _, p := range f.Params() {
				if _, isPtr := p.Type().(*types.Pointer); isPtr && c15IsNEC(p.Type()) {
					np = p
				}
			}
			rec := false
			for _, call := range f.AllCalls(false) {
				rec = rec || f.CalleeFunc(call) == f
			}
			if np == nil || !rec {
				continue
			}
			isN := c15IsVar(f.Info(), np)
			duty := false
			ast.Inspect(f.Body, func(n ast.Node) bool {
				if as, ok := n.(*ast.AssignStmt); ok {
					for _, l := range as.Lhs {
						if c15Field(f.Info(), l, "ID", isN) || c15Field(f.Info(), l, "Parent", isN) {
							duty = true
						}
						if sel, ok := ast.Unparen(l).(*ast.SelectorExpr); ok && sel.Sel.Name == "Text" && kit.IsNamedType(f.Info().TypeOf(sel.X), dataPkg, "Point") {
							duty = true
						}
					}
				}
				return true
			})
			if duty {
				a.replPasses = append(a.replPasses, f)
			}
		}
	}
	sort.Slice(a.replPasses, func(i, j int) bool { return a.replPasses[i].Pos() < a.replPasses[j].Pos() })
	seenH := map[*kit.Func]bool{}
	for _, f := range a.replPasses {
		for _, h := range a.replPassHelpers[f] {
			if !seenH[h] {
				seenH[h] = true
				a.replHelpers = append(a.replHelpers, h)
			}
		}
	}
	// functions through which the replacer is entered: its enclosing functions and
	// the functions on a *NodeEdgeChildren that call one of them
	for f := a.replacer; f != nil; f = f.Outer {
		a.replacerOuter[f] = true
	}
	for changed := true; changed; {
		changed = false
		for _, f := range funcs {
			if f.Body == nil || a.replacerOuter[f] || f.Lit != nil {
				continue
			}
			hasNEC := false
			for _, p := range f.Params() {
				if _, isPtr := p.Type().(*types.Pointer); isPtr && c15IsNEC(p.Type()) {
					hasNEC = true
				}
			}
			if !hasNEC {
				continue
			}
			for _, call := range f.AllCalls(false) {
				if cf := f.CalleeFunc(call); cf != nil && a.replacerOuter[cf] {
					a.replacerOuter[f] = true
					changed = true
					break
				}
			}
		}
	}
	return a
}

func c15IsStrMap(t types.Type) bool {
	if t == nil {
		return false
	}
	m, ok := t.Underlying().(*types.Map)
	if !ok {
		return false
	}
	k, ok1 := m.Key().Underlying().(*types.Basic)
	v, ok2 := m.Elem().Underlying().(*types.Basic)
	return ok1 && ok2 && k.Kind() == types.String && v.Kind() == types.String
}

// c15Field matches `<base>.<field>` (through the embedded NodeEdge) where
// base satisfies pred; field is a data-model field name.
func c15Field(info *types.Info, e ast.Expr, field string, pred func(ast.Expr) bool) bool {
	sel, ok := ast.Unparen(e).(*ast.SelectorExpr)
	if !ok || sel.Sel.Name != field {
		return false
	}
	fo, ok := kit.ObjOf(info, sel).(*types.Var)
	if !ok || !fo.IsField() {
		return false
	}
	x := ast.Unparen(sel.X)
	// explicit embedded selector: n.NodeEdge.ID
	if s2, ok := x.(*ast.SelectorExpr); ok && s2.Sel.Name == "NodeEdge" {
		if pred(s2.X) {
			return true
		}
	}
	return pred(x)
}

func c15IsVar(info *types.Info, v types.Object) func(ast.Expr) bool {
	return func(e ast.Expr) bool {
		e = ast.Unparen(e)
		if st, ok := e.(*ast.StarExpr); ok {
			e = ast.Unparen(st.X)
		}
		return v != nil && kit.ObjOf(info, e) == v
	}
}

// c15Violations collects distinct messages.
type c15Msgs struct{ v, u []string }

func (m *c15Msgs) viol(format string, a ...any)  { c16Add(&m.v, fmt.Sprintf(format, a...)) }
func (m *c15Msgs) undec(format string, a ...any) { c16Add(&m.u, fmt.Sprintf(format, a...)) }
func (m *c15Msgs) settle(o *kit.Ob, okFmt string, a ...any) {
	switch {
	case len(m.v) > 0:
		o.Violation("%s", strings.Join(m.v, "; "))
	case len(m.u) > 0:
		o.Undecided("%s", strings.Join(m.u, "; "))
	default:
		o.OK(okFmt, a...)
	}
}

// ---------------------------------------------------------------------------

func runC15(c *kit.Ctx) {
	a := c15Find(c)
	c.Analysed(a.exporter, a.importer, a.helper, a.replacer)
	c.Analysed(a.replPasses...)
	r1 := c.Rule("R1", "export lists live nodes only, descends into every child, reports failures", 8)
	r2 := c.Rule("R2", "export noise reduction is undone by the store / drops only tombstone-0 edge points", 3)
	r3 := c.Rule("R3", "id replacement is a function of the old id", 5)
	r4 := c.Rule("R4", "import marker on the top description only; preserve-ids excludes replacement", 4)
	c15R1(c, a, r1)
	c15R2(c, a, r2)
	c15R3(c, a, r3)
	c15R4(c, a, r4)
	r6 := c.Rule("R6", "import sends every node of the document with its own id and parent", 1)
	c15R6(c, a, r6)
	r5 := c.Rule("R5", "the store listing honours includeDeleted for every edge", 4)
	c15ListingFilter(c, r5)
}

// ---------------------------------------------------------------------------
// R1

func c15R1(c *kit.Ctx, a *c15Anchors, r1 *kit.Rule) {
	// (a) every listing call reachable from the exporter passes includeDeleted = false
	n := 0
	for _, f := range a.exportSet {
		if f.Body == nil {
			continue
		}
		k := 0
		for _, call := range f.AllCalls(false) {
			if f.CalleeFunc(call) != a.list {
				continue
			}
			n++
			k++
			key := fmt.Sprintf("listing call in %s", f.Name)
			if k > 1 {
				key += fmt.Sprintf(" #%d", k)
			}
			o := r1.Ob(f, call, key, "includeDeleted argument is the constant false")
			if a.delIdx >= len(call.Args) {
				o.Undecided("call has %d arguments", len(call.Args))
				continue
			}
			tv := f.Info().Types[call.Args[a.delIdx]]
			switch {
			case tv.Value == nil:
				o.Undecided("includeDeleted argument %s is not a constant", f.Str(call.Args[a.delIdx]))
			case tv.Value.String() == "true":
				o.Violation("%s lists deleted nodes too (includeDeleted=true): deleted nodes are exported and re-created by the import", f.Str(call))
			default:
				o.OK("constant false")
			}
		}
	}
	if n == 0 {
		c.Fatalf("no call of %s reachable from %s", a.list.Name, a.exporter.Name)
	}
	// serialisation options are third-party behaviour: not decided either way
	if len(a.marshal.Args) > 1 || len(a.unmarshal.Args) > 2 {
		r1.Ob(a.exporter, a.marshal, "serialisation options", "export and import use the plain Marshal/Unmarshal pair").
			Undecided("the YAML marshaller is called with options (%s / %s): whether they preserve every string is a property of the third-party library, not decided here", a.exporter.Str(a.marshal), a.importer.Str(a.unmarshal))
	}
	c15HelperLoop(c, a, r1)
	c15ExporterRoot(c, a, r1)
	c15ErrProp(c, a, r1)
}

// c15HelperLoop: the recursive helper lists the children of its node and
// descends into each of them.
func c15HelperLoop(c *kit.Ctx, a *c15Anchors, r1 *kit.Rule) {
	f := a.helper
	info := f.Info()
	N := a.helperNode
	isN := a.helperIsNode()
	var listCall *ast.CallExpr
	var listVar types.Object
	ast.Inspect(f.Body, func(n ast.Node) bool {
		as, ok := n.(*ast.AssignStmt)
		if !ok || len(as.Rhs) != 1 {
			return true
		}
		if call, ok := ast.Unparen(as.Rhs[0]).(*ast.CallExpr); ok && f.CalleeFunc(call) == a.list {
			if listCall != nil {
				listVar = nil
				return true
			}
			listCall = call
			listVar = kit.ObjOf(info, as.Lhs[0])
		}
		return true
	})
	o1 := r1.Ob(f, listCall, "children listing", "the helper lists nodes.<its node's id>.all without type filter")
	if listCall == nil || listVar == nil {
		o1.Undecided("the helper %s does not assign exactly one listing call to a variable", f.Name)
		return
	}
	{
		var m c15Msgs
		arg := func(i int) ast.Expr {
			if i >= 0 && i < len(listCall.Args) {
				return listCall.Args[i]
			}
			return nil
		}
		if p := arg(a.parentIdx); p == nil || !c15Field(info, p, "ID", isN) {
			m.viol("the parent argument of %s is %s, not the id of the node being exported: the children of another node are exported", f.Str(listCall), f.Str(p))
		}
		if id := arg(a.idIdx); id != nil {
			if s, ok := kit.ConstString(info, id); !ok {
				m.undec("the id argument %s is not a constant", f.Str(id))
			} else if s != "all" && s != "" {
				m.viol("the id argument is %q: only that child is exported", s)
			}
		}
		if a.typIdx >= 0 {
			if t := arg(a.typIdx); t != nil {
				if s, ok := kit.ConstString(info, t); !ok {
					m.undec("the type argument %s is not a constant", f.Str(t))
				} else if s != "" {
					m.viol("the listing is filtered on node type %q: children of other types are not exported", s)
				}
			}
		}
		m.settle(o1, "%s", f.Str(listCall))
	}

	o2 := r1.Ob(f, listCall, "descent into children", "on every path through the loop over the listed children the helper recurses into a NodeEdgeChildren built from the element and appends it to Children afterwards; every non-error exit has completed the loop")
	var m c15Msgs
	st := &kit.Std{F: f}
	// element copies: X := NodeEdgeChildren{NodeEdge: <elem>}
	elemOf := func(s kit.S, e ast.Expr) bool {
		if o := kit.ObjOf(info, e); o != nil && s.Get("el") == kit.VarID(o) {
			return true
		}
		// <listing>[i] under `for i := range <listing>` is the element as well
		if ix, ok := ast.Unparen(e).(*ast.IndexExpr); ok && kit.ObjOf(info, ix.X) == listVar {
			k := kit.ObjOf(info, ix.Index)
			return k != nil && s.Get("elk") == kit.VarID(k)
		}
		return false
	}
	st.OnBranch = func(br kit.Branch, s kit.S) (t, fs []kit.S, handled bool) {
		if br.Kind != kit.BrRange || kit.ObjOf(info, br.Range.X) != listVar {
			return nil, nil, false
		}
		if s.Get("lst") != "1" {
			m.undec("the loop over %s can be reached before the listing call", listVar.Name())
		}
		if s.Get("it") == "1" {
			// "?" = a recursion / an append the rule could not follow (reported as undecided where it was met)
			switch {
			case s.Get("rec") == "?" || s.Get("app") == "?":
			case s.Get("rec") != "1":
				m.viol("a path through the loop body at %s reaches the next child without recursing into the current one: that child's subtree (or the child itself) is missing from the export", f.At(br.Range))
			case s.Get("app") != "1":
				m.viol("a path through the loop body at %s does not append the exported child to Children", f.At(br.Range))
			}
		}
		elem := ""
		if o := kit.LoopElemVar(info, br.Range); o != nil {
			elem = kit.VarID(o)
		}
		key := ""
		if br.Range.Key != nil {
			if o := kit.ObjOf(info, br.Range.Key); o != nil {
				key = kit.VarID(o)
			}
		}
		if elem == "" && key == "" {
			m.undec("the loop over the children binds neither the element nor its index to a variable")
		}
		base := s.Del("rec").Del("app").Del("x").Del("inplace")
		return []kit.S{base.Set("it", "1").Set("el", elem).Set("elk", key)}, []kit.S{base.Del("it").Del("el").Del("elk").Set("done", "1")}, true
	}
	st.OnCall = func(call *ast.CallExpr, n ast.Node, s kit.S) []kit.S {
		if f.CalleeFunc(call) == a.list && call == listCall {
			return []kit.S{s.Set("lst", "1")}
		}
		if f.CalleeFunc(call) == f && s.Get("it") == "1" && a.helperByValue {
			for _, arg := range call.Args {
				if elemOf(s, arg) {
					return []kit.S{s.Set("recel", "1")}
				}
			}
			m.undec("the recursive call %s is not made on the loop element", f.Str(call))
			return nil
		}
		if f.CalleeFunc(call) == f && s.Get("it") == "1" {
			for _, arg := range call.Args {
				if u, ok := ast.Unparen(arg).(*ast.UnaryExpr); ok && u.Op == token.AND {
					if o := kit.ObjOf(info, u.X); o != nil && s.Get("x") == kit.VarID(o) {
						return []kit.S{s.Set("rec", "1")}
					}
					// &N.Children[len(N.Children)-1] right after the element was appended in place
					if ix, ok := ast.Unparen(u.X).(*ast.IndexExpr); ok && c15Field(info, ix.X, "Children", isN) && s.Get("inplace") == "1" {
						if be, ok := ast.Unparen(ix.Index).(*ast.BinaryExpr); ok && be.Op == token.SUB {
							if k, ok := kit.ConstInt(info, be.Y); ok && k == 1 {
								if lc, ok := ast.Unparen(be.X).(*ast.CallExpr); ok && len(lc.Args) == 1 && c15Field(info, lc.Args[0], "Children", isN) {
									if bi, ok := kit.Callee(info, lc).(*types.Builtin); ok && bi.Name() == "len" {
										return []kit.S{s.Set("rec", "1").Set("app", "1")}
									}
								}
							}
						}
					}
				}
			}
			m.undec("the recursive call %s does not pass the address of a NodeEdgeChildren built from the loop element", f.Str(call))
			return []kit.S{s.Set("rec", "?")}
		}
		return nil
	}
	st.OnNode = func(n ast.Node, s kit.S) []kit.S {
		as, ok := n.(*ast.AssignStmt)
		// child, err := helper(nc, elem): the finished child comes back by value
		if ok && len(as.Rhs) == 1 && s.Get("recel") == "1" {
			if call, isCall := ast.Unparen(as.Rhs[0]).(*ast.CallExpr); isCall && f.CalleeFunc(call) == f {
				s = s.Del("recel")
				if o := kit.ObjOf(info, as.Lhs[0]); o != nil && c15IsNEC(o.Type()) {
					return []kit.S{s.Set("x", kit.VarID(o)).Set("rec", "1").Del("app")}
				}
				m.undec("%s: the exported child is not kept in a variable", f.Str(as))
				return []kit.S{s}
			}
		}
		if !ok || len(as.Lhs) != 1 || len(as.Rhs) != 1 {
			return []kit.S{s}
		}
		// X := data.NodeEdgeChildren{NodeEdge: elem …}
		if cl, ok := ast.Unparen(as.Rhs[0]).(*ast.CompositeLit); ok && c15IsNEC(info.TypeOf(cl)) && s.Get("it") == "1" {
			for _, el := range cl.Elts {
				if kv, ok := el.(*ast.KeyValueExpr); ok {
					if k, ok := kv.Key.(*ast.Ident); ok && k.Name == "NodeEdge" && elemOf(s, kv.Value) {
						if o := kit.ObjOf(info, as.Lhs[0]); o != nil {
							return []kit.S{s.Set("x", kit.VarID(o)).Del("rec").Del("app")}
						}
					}
				}
			}
		}
		// N.Children = append(N.Children, X)
		if c15Field(info, as.Lhs[0], "Children", isN) {
			if call, ok := ast.Unparen(as.Rhs[0]).(*ast.CallExpr); ok {
				if bi, ok := kit.Callee(info, call).(*types.Builtin); ok && bi.Name() == "append" && len(call.Args) == 2 &&
					c15Field(info, call.Args[0], "Children", isN) {
					// the element is built in place: append(N.Children, NodeEdgeChildren{NodeEdge: elem})
					if cl, ok := ast.Unparen(call.Args[1]).(*ast.CompositeLit); ok && c15IsNEC(info.TypeOf(cl)) && s.Get("it") == "1" {
						for _, el := range cl.Elts {
							if kv, ok := el.(*ast.KeyValueExpr); ok {
								if k, ok := kv.Key.(*ast.Ident); ok && k.Name == "NodeEdge" && elemOf(s, kv.Value) {
									return []kit.S{s.Set("inplace", "1").Del("rec").Del("app")}
								}
							}
						}
					}
					if o := kit.ObjOf(info, call.Args[1]); o != nil && s.Get("x") == kit.VarID(o) && s.Get("it") == "1" {
						if s.Get("rec") != "1" {
							m.viol("%s copies the child into Children before the recursive call has filled it in: the grandchildren are lost", f.Str(as))
							return []kit.S{s}
						}
						return []kit.S{s.Set("app", "1")}
					}
				}
			}
			// an empty slice with capacity before the loop changes nothing
			if mk, ok := ast.Unparen(as.Rhs[0]).(*ast.CallExpr); ok && s.Get("it") != "1" {
				if bi, ok := kit.Callee(info, mk).(*types.Builtin); ok && bi.Name() == "make" && len(mk.Args) >= 2 {
					if k, ok := kit.ConstInt(info, mk.Args[1]); ok && k == 0 {
						return []kit.S{s}
					}
				}
			}
			// slices.Grow(N.Children, n) adds capacity only
			if gr, ok := ast.Unparen(as.Rhs[0]).(*ast.CallExpr); ok && len(gr.Args) == 2 && c15Field(info, gr.Args[0], "Children", isN) {
				if fn, ok := kit.Callee(info, gr).(*types.Func); ok && fn.Pkg() != nil && fn.Pkg().Path() == "slices" && fn.Name() == "Grow" {
					return []kit.S{s}
				}
			}
			m.undec("%s: Children is assigned in a way the rule does not model", f.Str(as))
			if s.Get("it") == "1" {
				return []kit.S{s.Set("app", "?")}
			}
		}
		return []kit.S{s}
	}
	res := c.P.Graph(f).Run(kit.NewS(), st.Client())
	if res.Overflow {
		c.Fatalf("C15/R1: state overflow in %s", f.Name)
	}
	nOK := 0
	for _, e := range res.Exits {
		if c15FailureExit(f, st, e) {
			continue
		}
		at := f.At(f.Node())
		what := "the end of the function"
		if e.Return != nil {
			at, what = f.At(e.Return), f.Str(e.Return)
		}
		switch {
		case e.State.Get("it") == "1":
			m.viol("the loop over the children can be left early (%s at %s): the remaining children are not exported", what, at)
		case e.State.Get("done") != "1":
			m.viol("%s can return without signalling an error at %s although it has not listed and visited the children", f.Name, at)
		case a.helperByValue && e.Return != nil && len(e.Return.Results) > 0 && kit.ObjOf(info, e.Return.Results[0]) != N:
			m.undec("%s returns %s at %s, not the node it built (%s)", f.Name, f.Str(e.Return.Results[0]), at, N.Name())
		default:
			nOK++
		}
	}
	if nOK == 0 && len(m.v) == 0 {
		m.undec("no successful exit of %s found", f.Name)
	}
	m.settle(o2, "recursion then append on every path through the loop; %d successful exit(s) after the loop", nOK)
}

// c15ExporterRoot: the marshalled value is built from the root element after
// the helper ran on it.
func c15ExporterRoot(c *kit.Ctx, a *c15Anchors, r1 *kit.Rule) {
	f := a.exporter
	info := f.Info()
	o := r1.Ob(f, a.marshal, "root of the marshalled value", "the value handed to yaml.Marshal is built from the NodeEdgeChildren the helper was run on, after that call")
	var m c15Msgs
	st := &kit.Std{F: f}
	mentions := func(e ast.Node, s kit.S, want string) bool {
		found := false
		ast.Inspect(e, func(x ast.Node) bool {
			if id, ok := x.(*ast.Ident); ok {
				if ob := kit.ObjOf(info, id); ob != nil && s.Get("t:"+kit.VarID(ob)) == want {
					found = true
				}
			}
			return !found
		})
		return found
	}
	reached := false
	st.OnCall = func(call *ast.CallExpr, n ast.Node, s kit.S) []kit.S {
		if f.CalleeFunc(call) == a.helper {
			for _, arg := range call.Args {
				if u, ok := ast.Unparen(arg).(*ast.UnaryExpr); ok && u.Op == token.AND {
					if ob := kit.ObjOf(info, u.X); ob != nil && c15IsNEC(ob.Type()) {
						return []kit.S{s.Set("t:"+kit.VarID(ob), "fresh")}
					}
					// &X.Nodes[0], &list[0]: the helper fills in a NodeEdgeChildren held
					// (through fields and slice elements) by the local X, so X carries it
					if ob := c15PathRoot(info, u.X); ob != nil && c15IsNEC(info.TypeOf(u.X)) {
						return []kit.S{s.Set("t:"+kit.VarID(ob), "fresh")}
					}
				}
			}
			if !a.helperByValue {
				m.undec("%s: the helper is not called on the address of a local NodeEdgeChildren", f.Str(call))
			}
		}
		if call == a.marshal {
			reached = true
			switch {
			case mentions(call.Args[0], s, "fresh"):
			case mentions(call.Args[0], s, "stale"):
				m.viol("the marshalled value %s was copied from the root before the helper filled in its children: only the top node is exported", f.Str(call.Args[0]))
			default:
				m.undec("the marshalled value %s is not visibly built from the node the helper was run on", f.Str(call.Args[0]))
			}
		}
		return nil
	}
	st.OnNode = func(n ast.Node, s kit.S) []kit.S {
		as, ok := n.(*ast.AssignStmt)
		if !ok {
			if vs, ok := n.(*ast.ValueSpec); ok {
				for i, nm := range vs.Names {
					if i < len(vs.Values) {
						if ob := info.Defs[nm]; ob != nil {
							s = c15Taint(s, ob, vs.Values[i], mentions)
						}
					}
				}
			}
			return []kit.S{s}
		}
		if a.helperByValue && len(as.Rhs) == 1 {
			if call, isCall := ast.Unparen(as.Rhs[0]).(*ast.CallExpr); isCall && f.CalleeFunc(call) == a.helper {
				if ob := kit.ObjOf(info, as.Lhs[0]); ob != nil && c15IsNEC(ob.Type()) {
					return []kit.S{s.Set("t:"+kit.VarID(ob), "fresh")}
				}
				m.undec("%s: the exported root is not kept in a variable", f.Str(as))
				return []kit.S{s}
			}
		}
		if len(as.Lhs) != len(as.Rhs) {
			return []kit.S{s}
		}
		for i, l := range as.Lhs {
			ob := kit.ObjOf(info, l)
			if ob == nil {
				continue
			}
			// a root candidate: X := NodeEdgeChildren{…} is "stale" until the helper ran on it
			if cl, ok := ast.Unparen(as.Rhs[i]).(*ast.CompositeLit); ok && c15IsNEC(info.TypeOf(cl)) {
				s = s.Set("t:"+kit.VarID(ob), "stale")
				continue
			}
			s = c15Taint(s, ob, as.Rhs[i], mentions)
		}
		return []kit.S{s}
	}
	res := c.P.Graph(f).Run(kit.NewS(), st.Client())
	if res.Overflow {
		c.Fatalf("C15/R1: state overflow in %s", f.Name)
	}
	if !reached {
		m.undec("yaml.Marshal is not reached")
	}
	m.settle(o, "marshalled value carries the root after the helper call")
}

// c15PathRoot returns the local variable at the root of a path of field
// selections and index expressions (x.F[i].G …), nil for anything else.
func c15PathRoot(info *types.Info, e ast.Expr) types.Object {
	steps := 0
	for {
		switch x := ast.Unparen(e).(type) {
		case *ast.SelectorExpr:
			if sel := info.Selections[x]; sel == nil || sel.Kind() != types.FieldVal {
				return nil
			}
			e = x.X
		case *ast.IndexExpr:
			e = x.X
		case *ast.Ident:
			v, ok := info.ObjectOf(x).(*types.Var)
			if !ok || steps == 0 || v.IsField() || v.Parent() == nil || v.Parent() == v.Pkg().Scope() {
				return nil
			}
			return v
		default:
			return nil
		}
		steps++
	}
}

func c15Taint(s kit.S, ob types.Object, rhs ast.Expr, mentions func(ast.Node, kit.S, string) bool) kit.S {
	k := "t:" + kit.VarID(ob)
	switch {
	case mentions(rhs, s, "stale"):
		return s.Set(k, "stale")
	case mentions(rhs, s, "fresh"):
		return s.Set(k, "fresh")
	}
	return s
}

// ---------------------------------------------------------------------------
// R2

type c15Norm struct{ from, to string }

// c15StoreNorms returns the key normalisations `if X.Key == from { X.Key = to }`
// found in function f.
func c15KeyRewrites(f *kit.Func) []c15Norm {
	var out []c15Norm
	seen := map[*kit.Func]bool{}
	var visit func(g *kit.Func, depth int)
	visit = func(g *kit.Func, depth int) {
		if g == nil || g.Body == nil || seen[g] {
			return
		}
		seen[g] = true
		out = append(out, c15KeyRewritesIn(g)...)
		if depth >= 2 {
			return
		}
		for _, call := range g.AllCalls(true) {
			if cf := g.CalleeFunc(call); cf != nil && cf.Pkg == f.Pkg {
				visit(cf, depth+1)
			}
		}
	}
	visit(f, 0)
	return out
}

func c15KeyRewritesIn(f *kit.Func) []c15Norm {
	info := f.Info()
	var out []c15Norm
	ast.Inspect(f.Body, func(n ast.Node) bool {
		is, ok := n.(*ast.IfStmt)
		if !ok {
			return true
		}
		a, b, op, isCmp := kit.CmpAtom(kit.NormaliseEmptyTest(info, is.Cond))
		if !isCmp || op != token.EQL {
			return true
		}
		if _, ok := kit.ConstString(info, a); ok {
			a, b = b, a
		}
		from, ok := kit.ConstString(info, b)
		sel, ok2 := ast.Unparen(a).(*ast.SelectorExpr)
		if !ok || !ok2 || sel.Sel.Name != "Key" {
			return true
		}
		for _, st := range is.Body.List {
			as, ok := st.(*ast.AssignStmt)
			if !ok || len(as.Lhs) != 1 || len(as.Rhs) != 1 || as.Tok != token.ASSIGN {
				continue
			}
			to, ok := kit.ConstString(info, as.Rhs[0])
			if ok && kit.SameExpr(info, as.Lhs[0], a) {
				out = append(out, c15Norm{from, to})
			}
		}
		return true
	})
	return out
}

func c15R2(c *kit.Ctx, a *c15Anchors, r2 *kit.Rule) {
	// the store's point writers: the functions that execute the prepared INSERT
	// into node_points / edge_points (found here without the store model's own
	// floors, so that an unrelated store refactoring does not stop this property)
	sql := c.P.SQLModelOf("store")
	find := func(table string) *pointWriter {
		var w *pointWriter
		for _, s := range sql.Sites {
			if s.Recv == "stmt" && s.Method == "Exec" && s.HasVerb("INSERT", table) {
				if w != nil && w.F != s.F.Root() {
					c.Fatalf("two store writers insert into %s: %s and %s", table, w.F.Name, s.F.Root().Name)
				}
				w = &pointWriter{F: s.F.Root(), Table: table, Exec: s}
			}
		}
		return w
	}
	writers := map[string]*pointWriter{"Points": find("node_points"), "EdgePoints": find("edge_points")}
	for k, w := range writers {
		if w == nil {
			c.Fatalf("store point writer for %s not found", k)
		}
		c.Note("C15/R2 reads the key normalisation of %s", w.F.Name)
	}
	c15Noise(c, a, r2, writers)
}

// c15BodyEntry returns the CFG block that starts the body of a range loop.
func c15BodyEntry(g *kit.Graph, rs *ast.RangeStmt) *cfg.Block {
	// a canonical counting loop presented as a range statement: the body of its for statement
	for _, b := range g.G.Blocks {
		if b.Live && b.Kind == cfg.KindForBody {
			if fs, ok := b.Stmt.(*ast.ForStmt); ok && fs.Body == rs.Body {
				return b
			}
		}
	}
	for _, b := range g.G.Blocks {
		if !b.Live || len(b.Succs) != 2 {
			continue
		}
		if br := g.BranchOf(b); br.Kind == kit.BrRange && br.Range == rs {
			return b.Succs[0]
		}
	}
	return nil
}

// ---------------------------------------------------------------------------
// failure signalling and error propagation (R1)

func c15HasErrResult(f *kit.Func) bool {
	if f.Type.Results == nil || len(f.Type.Results.List) == 0 {
		return false
	}
	last := f.Type.Results.List[len(f.Type.Results.List)-1]
	return isErrorType(f.Info().TypeOf(last.Type))
}

// c15Sig lists the error variables of enclosing functions that a function
// literal assigns: the only channel through which a literal without error
// result can report a failure.
func c15Sig(f *kit.Func) []*types.Var {
	if f.Lit == nil {
		return nil
	}
	info := f.Info()
	seen := map[*types.Var]bool{}
	var out []*types.Var
	ast.Inspect(f.Body, func(n ast.Node) bool {
		if _, ok := n.(*ast.FuncLit); ok {
			return false
		}
		as, ok := n.(*ast.AssignStmt)
		if !ok || as.Tok == token.DEFINE {
			// `x, err := …` inside the literal declares new variables unless err
			// already exists in the literal's own scope; types.Info tells which
			if ok {
				for _, l := range as.Lhs {
					if id, isID := l.(*ast.Ident); isID && info.Defs[id] == nil {
						if v, isVar := info.Uses[id].(*types.Var); isVar && isErrorType(v.Type()) && !v.IsField() &&
							!(f.Lit.Pos() <= v.Pos() && v.Pos() <= f.Lit.End()) && !seen[v] {
							seen[v] = true
							out = append(out, v)
						}
					}
				}
			}
			return true
		}
		for _, l := range as.Lhs {
			if v, isVar := kit.ObjOf(info, l).(*types.Var); isVar && isErrorType(v.Type()) && !v.IsField() &&
				!(f.Lit.Pos() <= v.Pos() && v.Pos() <= f.Lit.End()) && !seen[v] {
				seen[v] = true
				out = append(out, v)
			}
		}
		return true
	})
	return out
}

// c15FailureExit: the exit reports a failure to the caller (non-nil error
// result, or a captured error variable known non-nil for a literal).
func c15FailureExit(f *kit.Func, st *kit.Std, e kit.Exit) bool {
	if c15HasErrResult(f) {
		if e.Return == nil {
			return true // panic / no-return call
		}
		if st.ReturnsNil(e.Return, e.State) == "nonnil" {
			return true
		}
		if len(e.Return.Results) > 0 {
			if o := kit.ObjOf(f.Info(), e.Return.Results[len(e.Return.Results)-1]); o != nil && e.State.Get("my:nn:"+kit.VarID(o)) == "T" {
				return true
			}
		}
		return false
	}
	for _, v := range c15Sig(f) {
		if e.State.Get("nn:"+kit.VarID(v)) == "T" || e.State.Get("my:nn:"+kit.VarID(v)) == "T" {
			return true
		}
	}
	return false
}

// c15ErrProp: in every function the exporter reaches, the failure of a
// listing call (or of a callee that lists) is reported by every exit that
// follows it.
func c15ErrProp(c *kit.Ctx, a *c15Anchors, r1 *kit.Rule) {
	inSet := map[*kit.Func]bool{a.list: true}
	for _, f := range a.exportSet {
		inSet[f] = true
	}
	// functions that can fail: error result, or a literal that contains a failing call
	canFail := map[*kit.Func]bool{a.list: true}
	for changed := true; changed; {
		changed = false
		for _, f := range a.exportSet {
			if canFail[f] || f.Body == nil {
				continue
			}
			for _, call := range f.AllCalls(false) {
				if cf := f.CalleeFunc(call); cf != nil && canFail[cf] && inSet[cf] {
					canFail[f] = true
					changed = true
					break
				}
			}
		}
	}
	for _, f := range a.exportSet {
		if f.Body == nil || !canFail[f] || f == a.list {
			continue
		}
		c15ErrPropFunc(c, a, r1, f, canFail)
	}
}

func c15ErrPropFunc(c *kit.Ctx, a *c15Anchors, r1 *kit.Rule, f *kit.Func, canFail map[*kit.Func]bool) {
	info := f.Info()
	c.Analysed(f)
	o := r1.Ob(f, f.Node(), "error propagation", "every exit that follows a failed listing call (or failed callee that lists) reports the failure: non-nil error result, or for a function literal a non-nil error variable of the enclosing function")
	var m c15Msgs
	type site struct {
		call *ast.CallExpr
		cf   *kit.Func
		key  string
	}
	sites := map[*ast.CallExpr]*site{}
	var order []*site
	for _, call := range f.AllCalls(false) {
		cf := f.CalleeFunc(call)
		if cf == nil || !canFail[cf] {
			continue
		}
		st := &site{call: call, cf: cf, key: fmt.Sprintf("s%d", len(order))}
		sites[call] = st
		order = append(order, st)
	}
	if len(order) == 0 {
		o.OK("no failing call")
		return
	}
	mySig := c15Sig(f)
	isMySig := func(id string) bool {
		for _, v := range mySig {
			if kit.VarID(v) == id {
				return true
			}
		}
		return false
	}
	st := &kit.Std{F: f}
	st.OnErrEdge = func(tag string, isErr bool, s kit.S) (kit.S, bool) {
		parts := strings.SplitN(tag, "|", 2)
		if len(parts) != 2 || !strings.HasPrefix(parts[0], "s") {
			return s, true
		}
		if isErr {
			return s.Set("p:"+parts[0], "failed").Set("my:nn:"+parts[1], "T"), true
		}
		if s.Get("p:"+parts[0]) == "pending" {
			s = s.Set("p:"+parts[0], "ok")
		}
		return s.Del("my:nn:" + parts[1]), true
	}
	st.OnCall = func(call *ast.CallExpr, n ast.Node, s kit.S) []kit.S {
		si := sites[call]
		if si == nil {
			return nil
		}
		if c15HasErrResult(si.cf) {
			return []kit.S{s.Set("p:"+si.key, "pending")}
		}
		// a literal without error result: its channel variables may now be non-nil
		ch := c15Sig(si.cf)
		if len(ch) == 0 {
			return nil // reported inside the literal
		}
		for _, v := range ch {
			id := kit.VarID(v)
			s = s.Del("nn:"+id).Del("v:"+id).Del("my:nn:"+id).Set("ev:"+id, si.key+"|"+id).Set("ch:"+si.key, id)
		}
		return []kit.S{s.Set("p:"+si.key, "pending")}
	}
	st.OnNode = func(n ast.Node, s kit.S) []kit.S {
		as, ok := n.(*ast.AssignStmt)
		if !ok {
			return []kit.S{s}
		}
		for _, l := range as.Lhs {
			if lo := kit.ObjOf(info, l); lo != nil {
				s = s.Del("my:nn:" + kit.VarID(lo))
			}
		}
		if len(as.Rhs) == 1 {
			if call, ok := ast.Unparen(as.Rhs[0]).(*ast.CallExpr); ok {
				if si := sites[call]; si != nil && c15HasErrResult(si.cf) {
					last := as.Lhs[len(as.Lhs)-1]
					if lo := kit.ObjOf(info, last); lo != nil && isErrorType(lo.Type()) {
						id := kit.VarID(lo)
						s = s.Set("ev:"+id, si.key+"|"+id).Set("ch:"+si.key, id)
					} else {
						m.viol("the error result of %s is discarded at %s", f.Str(call), f.At(call))
						s = s.Set("p:"+si.key, "ok")
					}
				}
			}
		}
		// an error variable that receives a fresh non-nil error
		if len(as.Lhs) == len(as.Rhs) {
			for i, l := range as.Lhs {
				if lo := kit.ObjOf(info, l); lo != nil && isErrorType(lo.Type()) {
					if call, ok := ast.Unparen(as.Rhs[i]).(*ast.CallExpr); ok {
						if q := kit.QualName(kit.Callee(info, call)); q == "fmt.Errorf" || q == "errors.New" {
							s = s.Set("my:nn:"+kit.VarID(lo), "T")
						}
					}
				}
			}
		}
		return []kit.S{s}
	}
	res := c.P.Graph(f).Run(kit.NewS(), st.Client())
	if res.Overflow {
		c.Fatalf("C15/R1: state overflow in %s", f.Name)
	}
	// calls used as statements: error result dropped
	ast.Inspect(f.Body, func(n ast.Node) bool {
		if _, ok := n.(*ast.FuncLit); ok {
			return false
		}
		if es, ok := n.(*ast.ExprStmt); ok {
			if call, ok := ast.Unparen(es.X).(*ast.CallExpr); ok {
				if si := sites[call]; si != nil && c15HasErrResult(si.cf) {
					m.viol("the error result of %s is discarded at %s", f.Str(call), f.At(call))
				}
			}
		}
		return true
	})
	for _, e := range res.Exits {
		fails := c15FailureExit(f, st, e)
		at := f.At(f.Node())
		if e.Return != nil {
			at = f.At(e.Return)
		}
		for _, si := range order {
			ch := e.State.Get("ch:" + si.key)
			switch e.State.Get("p:" + si.key) {
			case "failed":
				if fails {
					continue
				}
				// the failure still sits in a variable this literal reports through
				if !c15HasErrResult(f) && isMySig(ch) {
					continue
				}
				if c15HasErrResult(f) {
					m.viol("after %s (at %s) failed, the exit at %s can return a nil error: the export succeeds with that part of the tree missing", f.Str(si.call.Fun), f.At(si.call), at)
				} else {
					m.viol("after %s (at %s) failed, %s returns at %s without a non-nil error in a variable of the enclosing function (assigned error variables of the enclosing function: %d): the caller cannot see the failure and exports a truncated tree", f.Str(si.call.Fun), f.At(si.call), f.Name, at, len(mySig))
				}
			case "pending":
				// never tested: fine only when the error itself is handed on
				if c15HasErrResult(f) && e.Return != nil && len(e.Return.Results) > 0 {
					last := e.Return.Results[len(e.Return.Results)-1]
					if lo := kit.ObjOf(info, last); lo != nil && kit.VarID(lo) == ch {
						continue
					}
					if call, ok := ast.Unparen(last).(*ast.CallExpr); ok && call == si.call {
						continue
					}
					if len(e.Return.Results) == 1 {
						if call, ok := ast.Unparen(e.Return.Results[0]).(*ast.CallExpr); ok && call == si.call {
							continue
						}
					}
				}
				if !c15HasErrResult(f) && isMySig(ch) {
					continue
				}
				m.viol("the result of %s (at %s) is never examined on a path to the exit at %s: a failure is lost", f.Str(si.call.Fun), f.At(si.call), at)
			}
		}
	}
	m.settle(o, "%d failing call(s); every exit after a failure reports it", len(order))
}

// c15ResultNEC returns the variable that holds the NodeEdgeChildren a function
// returns by value: the named result, or the one local every return hands back.
func c15ResultNEC(f *kit.Func) *types.Var {
	if f.Type.Results == nil {
		return nil
	}
	info := f.Info()
	idx := -1
	i := 0
	for _, fl := range f.Type.Results.List {
		t := info.TypeOf(fl.Type)
		_, isPtr := t.(*types.Pointer)
		n := len(fl.Names)
		if n == 0 {
			n = 1
		}
		if !isPtr && c15IsNEC(t) {
			if len(fl.Names) == 1 {
				if v, ok := info.Defs[fl.Names[0]].(*types.Var); ok {
					return v
				}
			}
			idx = i
		}
		i += n
	}
	if idx < 0 {
		return nil
	}
	var res *types.Var
	same := true
	ast.Inspect(f.Body, func(n ast.Node) bool {
		if _, ok := n.(*ast.FuncLit); ok {
			return false
		}
		if r, ok := n.(*ast.ReturnStmt); ok && idx < len(r.Results) {
			v, ok := kit.ObjOf(info, r.Results[idx]).(*types.Var)
			if !ok {
				if _, isLit := ast.Unparen(r.Results[idx]).(*ast.CompositeLit); !isLit {
					same = false
				}
				return true
			}
			if res != nil && res != v {
				same = false
			}
			res = v
		}
		return true
	})
	if !same {
		return nil
	}
	return res
}

// helperIsNode: the expression denotes the node the export helper works on:
// the *NodeEdgeChildren parameter, or (by-value shape) the returned variable
// or the NodeEdge parameter it is built from.
func (a *c15Anchors) helperIsNode() func(ast.Expr) bool {
	info := a.helper.Info()
	isN := c15IsVar(info, a.helperNode)
	if !a.helperByValue {
		return isN
	}
	// the result must be built from the parameter: N.NodeEdge = in  /  N = NEC{NodeEdge: in}
	built := false
	ast.Inspect(a.helper.Body, func(n ast.Node) bool {
		as, ok := n.(*ast.AssignStmt)
		if !ok || len(as.Lhs) != len(as.Rhs) {
			return true
		}
		for i, l := range as.Lhs {
			if sel, ok := ast.Unparen(l).(*ast.SelectorExpr); ok && sel.Sel.Name == "NodeEdge" && isN(sel.X) && kit.ObjOf(info, as.Rhs[i]) == a.helperIn {
				built = true
			}
			if isN(l) {
				if cl, ok := ast.Unparen(as.Rhs[i]).(*ast.CompositeLit); ok {
					for _, el := range cl.Elts {
						if kv, ok := el.(*ast.KeyValueExpr); ok {
							if k, ok := kv.Key.(*ast.Ident); ok && k.Name == "NodeEdge" && kit.ObjOf(info, kv.Value) == a.helperIn {
								built = true
							}
						}
					}
				}
			}
		}
		return true
	})
	if !built {
		return isN
	}
	return func(e ast.Expr) bool { return isN(e) || kit.ObjOf(info, ast.Unparen(e)) == a.helperIn }
}
