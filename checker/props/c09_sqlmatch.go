package props

import (
	"fmt"
	"go/ast"
	"go/types"
	"strings"

	"siotcheck/kit"
)

// R5 (continued, added after seed C09-f) — a credential that is matched by the
// database instead of by a Go comparison.
//
// The match table of R5 requires an EXACT comparison of each entered
// credential with the stored one.  When the comparison with the user's field
// is missing in the Go code, the credential parameter may still be compared by
// the query that selects the candidates: `… node_points.type = ? AND
// node_points.text = ?` bound to the point type and the parameter is such a
// comparison; `text LIKE ?` (GLOB, REGEXP, MATCH, a range operator) is not —
// the entered value then acts as a pattern — and neither is a parameter that is
// pasted into the statement text.  The same holds for Go predicates that test a
// part of the stored value (strings.HasPrefix, Contains, regexp, path.Match).

// c09CredUse is one use of a string parameter of the credential check in an
// SQL statement of that function.
type c09CredUse struct {
	site  *kit.SQLSite
	param types.Object
	// kind: "eq" (compared with `=` against column text of node_points, in a
	// purely conjunctive condition that pins the row's type), "inexact" (pattern
	// or range operator, or a value derived from the parameter bound to one),
	// "interp" (part of the statement text), "unknown".
	kind  string
	op    string // SQL operator of the comparison ("" = none found)
	ptype string // point type the statement pins the compared row to ("" = not established)
	what  string
}

// c09InexactFuncs are library predicates that do not compare for equality.
var c09InexactFuncs = []string{
	"strings.HasPrefix", "strings.HasSuffix", "strings.Contains", "strings.ContainsAny", "strings.Index", "strings.LastIndex",
	"regexp.MatchString", "regexp.Match", "regexp.(*Regexp).MatchString", "regexp.(*Regexp).Match", "regexp.(*Regexp).FindString",
	"regexp.(*Regexp).FindStringIndex", "path.Match", "path/filepath.Match",
}

func c09IsPatternOp(op string) bool {
	op = strings.TrimPrefix(op, "NOT ")
	for _, p := range []string{"LIKE", "GLOB", "REGEXP", "MATCH"} {
		if op == p || strings.HasPrefix(op, p+" ") {
			return true
		}
	}
	switch op {
	case "<", ">", "<=", ">=", "!=", "<>":
		return true
	}
	return false
}

// c09Mentions reports whether expression e of g mentions object o, looking
// through local variables of g that are assigned in g's outermost function.
func c09Mentions(g *kit.Func, e ast.Expr, o types.Object, depth int) bool {
	if e == nil || depth > 3 {
		return false
	}
	info := g.Info()
	found := false
	ast.Inspect(e, func(n ast.Node) bool {
		id, ok := n.(*ast.Ident)
		if !ok || found {
			return !found
		}
		obj := kit.ObjOf(info, id)
		if obj == o {
			found = true
			return false
		}
		v, isVar := obj.(*types.Var)
		root := g.Root()
		if !isVar || v.IsField() || root.Body == nil || v.Pos() < root.Body.Pos() || v.Pos() > root.Body.End() {
			return true
		}
		ast.Inspect(root.Body, func(x ast.Node) bool {
			as, ok := x.(*ast.AssignStmt)
			if !ok || found {
				return !found
			}
			for i, l := range as.Lhs {
				if kit.ObjOf(info, l) != obj {
					continue
				}
				switch {
				case len(as.Rhs) == len(as.Lhs):
					if c09Mentions(g, as.Rhs[i], o, depth+1) {
						found = true
					}
				case len(as.Rhs) == 1:
					if c09Mentions(g, as.Rhs[0], o, depth+1) {
						found = true
					}
				}
			}
			return true
		})
		return true
	})
	return found
}

// c09CredSQLUses lists how the string parameters of the credential check f are
// used by the SQL statements executed in f (and in its closures).
func c09CredSQLUses(m *storeModel, f *kit.Func) []c09CredUse {
	var out []c09CredUse
	params := map[types.Object]bool{}
	for _, p := range f.Params() {
		if c09IsString(p.Type()) {
			params[p] = true
		}
	}
	for _, s := range m.sql.Sites {
		if s.F.Root() != f.Root() {
			continue
		}
		g := s.F
		info := g.Info()
		// the query text: the argument in front of the bind arguments
		if qi := len(s.Call.Args) - len(s.Args) - 1; qi >= 0 && s.Recv != "stmt" {
			for p := range params {
				if c09Mentions(g, s.Call.Args[qi], p, 0) {
					out = append(out, c09CredUse{site: s, param: p, kind: "interp",
						what: fmt.Sprintf("parameter `%s` is pasted into the text of the statement executed at %s", p.Name(), g.At(s.Call))})
				}
			}
		}
		for i, arg := range s.Args {
			for p := range params {
				direct := kit.ObjOf(info, arg) == p
				if !direct && !c09Mentions(g, arg, p, 0) {
					continue
				}
				if len(s.Stmts) == 0 {
					out = append(out, c09CredUse{site: s, param: p, kind: "unknown", what: fmt.Sprintf("`%s` is bound to a statement at %s whose text is not known", g.Str(arg), g.At(s.Call))})
					continue
				}
				for _, st := range s.Stmts {
					u := c09CredUse{site: s, param: p, kind: "unknown"}
					conds, ok := kit.SQLCondsOf(st.Raw)
					var cmp *kit.SQLCmp
					for k := range conds.Cmps {
						if conds.Cmps[k].Bind == i {
							cmp = &conds.Cmps[k]
						}
					}
					if !ok || cmp == nil {
						u.what = fmt.Sprintf("`%s` is bound to a placeholder of the statement at %s that is not the plain operand of a comparison with a column", g.Str(arg), g.At(s.Call))
						out = append(out, u)
						continue
					}
					col := cmp.Col
					if cmp.Qual != "" {
						col = cmp.Qual + "." + col
					}
					u.op = cmp.Op
					u.what = fmt.Sprintf("`%s %s ?` bound to `%s` in the statement at %s", col, cmp.Op, g.Str(arg), g.At(s.Call))
					// the point type the same (conjunctive) condition pins the row to
					if conds.Conjunctive {
						for _, c2 := range conds.Cmps {
							if c2.Col != "type" || c2.Qual != cmp.Qual || c2.Op != "=" {
								continue
							}
							switch {
							case c2.HasLit && !c2.Interp:
								u.ptype = c2.Lit
							case c2.Bind >= 0 && c2.Bind < len(s.Args):
								if v, isConst := kit.ConstString(info, s.Args[c2.Bind]); isConst {
									u.ptype = v
								}
							}
						}
					}
					op := strings.TrimSuffix(cmp.Op, " COLLATE BINARY")
					onPoints := strings.Contains(strings.ToLower(st.Raw), "node_points") && cmp.Qual != "edge_points" && cmp.Qual != "edges"
					switch {
					case c09IsPatternOp(op):
						u.kind = "inexact"
					case !direct:
						// a value computed from the parameter compared with `=`: not judged
					case op == "=" && cmp.Col == "text" && onPoints && conds.Conjunctive && u.ptype != "":
						u.kind = "eq"
					}
					out = append(out, u)
				}
			}
		}
	}
	return out
}

// c09RowsFeed reports whether the rows selected at site end up in the slice
// that loop ranges over: the call's first result is that slice, or it is a
// rows handle whose scanned column is appended to that slice.
func c09RowsFeed(f *kit.Func, site *kit.SQLSite, loop *ast.RangeStmt) bool {
	g := site.F
	info := g.Info()
	target := kit.ObjOf(info, loop.X)
	if target == nil {
		return false
	}
	as, ok := g.Prog.Parent(g.File, site.Call).(*ast.AssignStmt)
	if !ok || len(as.Lhs) == 0 || len(as.Rhs) != 1 {
		return false
	}
	res := kit.ObjOf(info, as.Lhs[0])
	if res == nil {
		return false
	}
	if res == target {
		return true
	}
	scanned := map[types.Object]bool{}
	for _, call := range g.AllCalls(false) {
		if !kit.CallIs(info, call, "database/sql.(*Rows).Scan") {
			continue
		}
		sel, ok := ast.Unparen(call.Fun).(*ast.SelectorExpr)
		if !ok || kit.ObjOf(info, sel.X) != res {
			continue
		}
		for _, arg := range call.Args {
			if u, ok := ast.Unparen(arg).(*ast.UnaryExpr); ok {
				if o := kit.ObjOf(info, u.X); o != nil {
					scanned[o] = true
				}
			}
		}
	}
	feeds := false
	ast.Inspect(g.Body, func(n ast.Node) bool {
		o, call := c09AppendTo(info, n)
		if call == nil || o != target {
			return true
		}
		for _, arg := range call.Args[1:] {
			if scanned[kit.ObjOf(info, arg)] {
				feeds = true
			}
		}
		return true
	})
	return feeds
}

// c09GoCredReads tells how the Go code of the credential check (f and the
// same-package functions it reaches) touches a credential apart from the
// recognised comparison: inexact = descriptions of library predicates applied to
// the user's field; other = the field is read elsewhere, or the point type
// constant is named outside the bind arguments of the SQL statements.
func c09GoCredReads(f *kit.Func, field *types.Var, ptype string, uses []c09CredUse) (inexact []string, other bool) {
	bindArgs := map[ast.Node]bool{}
	for _, u := range uses {
		for _, a := range u.site.Args {
			bindArgs[ast.Unparen(a)] = true
		}
	}
	for _, g := range c09Closure(f) {
		if g.Body == nil {
			continue
		}
		info := g.Info()
		inexactArg := map[ast.Node]bool{}
		for _, call := range g.AllCalls(true) {
			if !kit.CallIs(info, call, c09InexactFuncs...) {
				continue
			}
			for _, arg := range call.Args {
				if sel, ok := ast.Unparen(arg).(*ast.SelectorExpr); ok && kit.ObjOf(info, sel) == types.Object(field) {
					inexactArg[sel] = true
					inexact = append(inexact, fmt.Sprintf("`%s` at %s", g.Str(call), g.At(call)))
				}
			}
		}
		ast.Inspect(g.Body, func(n ast.Node) bool {
			e, ok := n.(ast.Expr)
			if !ok {
				return true
			}
			if bindArgs[e] {
				return false
			}
			if sel, isSel := e.(*ast.SelectorExpr); isSel && kit.ObjOf(info, sel) == types.Object(field) && !inexactArg[sel] {
				other = true
			}
			switch e.(type) {
			case *ast.Ident, *ast.SelectorExpr, *ast.BasicLit:
				if v, isConst := kit.ConstString(info, e); isConst && v == ptype && !bindArgs[e] {
					other = true
				}
			}
			return true
		})
	}
	return uniqStrings(inexact), other
}

// c09ParamUsed reports whether parameter p of f is used in f's body (closures
// included) other than as an argument of a logging / formatting call.
func c09ParamUsed(f *kit.Func, p types.Object) bool {
	root := f.Root()
	if root.Body == nil {
		return true
	}
	info := f.Info()
	logged := map[*ast.Ident]bool{}
	ast.Inspect(root.Body, func(n ast.Node) bool {
		call, ok := n.(*ast.CallExpr)
		if !ok {
			return true
		}
		if fn, isFn := kit.Callee(info, call).(*types.Func); isFn && fn.Pkg() != nil && (fn.Pkg().Path() == "log" || (fn.Pkg().Path() == "fmt" && !strings.HasPrefix(fn.Name(), "Sprint"))) {
			for _, arg := range call.Args {
				if id, isID := ast.Unparen(arg).(*ast.Ident); isID {
					logged[id] = true
				}
			}
		}
		return true
	})
	used := false
	ast.Inspect(root.Body, func(n ast.Node) bool {
		if id, ok := n.(*ast.Ident); ok && !logged[id] && info.Uses[id] == p {
			used = true
		}
		return !used
	})
	return used
}
