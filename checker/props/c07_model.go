package props

import (
	"go/ast"
	"go/token"
	"go/types"
	"strings"

	"golang.org/x/tools/go/cfg"

	"siotcheck/kit"
)

// cmModel holds the anchors of the client manager shared by C07 and C08.
// Everything is found by type and effect on the generic bodies:
//
//   - the client-state type is the struct of package client that owns a
//     sync.Once, a channel and a field of the client interface type (the named
//     interface of package client with Points and EdgePoints in its method
//     set — the API every client implements);
//   - the manager type is the struct with a map field whose values are
//     pointers to the client-state type; its stop channel is the chan field a
//     method of the manager closes; its key channels are its chan string fields;
//   - constructors are the functions returning (*client-state, error);
//   - run methods of the client state call the interface's Run, stop methods
//     close the state's stop channel;
//   - the scan function holds the store into the map, the main loop is the
//     method with a select case receiving from the manager's stop channel.
//
// Field objects are compared through Var.Origin() because selections inside a
// generic method body denote the receiver-instantiated copies.
type cmModel struct {
	c *kit.Ctx

	cs       *types.Named // generic origin of the client-state type
	csOnce   *types.Var
	csStopCh *types.Var
	csClient *types.Var
	csNode   *types.Var   // field of type data.NodeEdge
	iface    *types.Named // client interface

	mgr       *types.Named
	mgrMap    *types.Var   // map[string]*clientState
	mgrStopCh *types.Var   // chan closed by a manager method
	mgrKeyCh  []*types.Var // chan string fields

	ctors []*kit.Func
	runM  []*kit.Func
	stopM []*kit.Func
	// functions that run under the client state's sync.Once
	onceBodies map[*kit.Func]bool

	stores []*cmStore

	mainF      *kit.Func
	mainSel    *ast.SelectStmt
	stopClause *ast.CommClause

	// exit channels: key channels whose receiving case deletes the map entry
	// of the received key, or forwards the received key to such a channel.
	exitCh      map[*types.Var]bool
	exitClauses map[*ast.CommClause]*types.Var // clause -> channel it receives from
}

type cmStore struct {
	f    *kit.Func
	stmt *ast.AssignStmt
	key  ast.Expr
	val  ast.Expr
	loop *ast.RangeStmt // innermost enclosing range loop of f (nil if none)
}

func cmOrigin(v *types.Var) *types.Var {
	if v == nil {
		return nil
	}
	return v.Origin()
}

// cmField returns the (origin) field selected by e, or nil.
func cmField(info *types.Info, e ast.Expr) *types.Var {
	sel, ok := ast.Unparen(e).(*ast.SelectorExpr)
	if !ok {
		return nil
	}
	s := info.Selections[sel]
	if s == nil || s.Kind() != types.FieldVal {
		return nil
	}
	v, _ := s.Obj().(*types.Var)
	return cmOrigin(v)
}

// cmFieldOn returns (field, base object) of `<base>.<field>` with base a plain identifier.
func cmFieldOn(info *types.Info, e ast.Expr) (*types.Var, types.Object) {
	sel, ok := ast.Unparen(e).(*ast.SelectorExpr)
	if !ok {
		return nil, nil
	}
	f := cmField(info, e)
	if f == nil {
		return nil, nil
	}
	if _, ok := ast.Unparen(sel.X).(*ast.Ident); !ok {
		return f, nil
	}
	return f, kit.ObjOf(info, sel.X)
}

// cmOwn walks n without descending into function literals (other than n itself).
func cmOwn(n ast.Node, fn func(ast.Node) bool) {
	if n == nil {
		return
	}
	ast.Inspect(n, func(x ast.Node) bool {
		if x == nil {
			return false
		}
		if _, ok := x.(*ast.FuncLit); ok && x != n {
			return false
		}
		return fn(x)
	})
}

func cmNamedOrigin(t types.Type) *types.Named {
	if t == nil {
		return nil
	}
	if p, ok := t.(*types.Pointer); ok {
		t = p.Elem()
	}
	n, ok := types.Unalias(t).(*types.Named)
	if !ok {
		return nil
	}
	return n.Origin()
}

func (m *cmModel) isCS(t types.Type) bool { return m.cs != nil && cmNamedOrigin(t) == m.cs }

func (m *cmModel) isMapExpr(info *types.Info, e ast.Expr) bool {
	return cmField(info, e) == m.mgrMap
}

// recvOf returns the origin named type of f's receiver (nil for functions and literals).
func cmRecvOf(f *kit.Func) *types.Named {
	if f.Obj == nil {
		return nil
	}
	sig, ok := f.Obj.Type().(*types.Signature)
	if !ok || sig.Recv() == nil {
		return nil
	}
	return cmNamedOrigin(sig.Recv().Type())
}

// ifaceCall reports whether call is `<x>.<name>(…)` with x of the client
// interface type; it returns x.
func (m *cmModel) ifaceCall(info *types.Info, call *ast.CallExpr, name string) (ast.Expr, bool) {
	sel, ok := ast.Unparen(call.Fun).(*ast.SelectorExpr)
	if !ok || sel.Sel.Name != name {
		return nil, false
	}
	s := info.Selections[sel]
	if s == nil || s.Kind() != types.MethodVal {
		return nil, false
	}
	t := info.TypeOf(sel.X)
	if t == nil || !types.Identical(t, m.iface) {
		return nil, false
	}
	return sel.X, true
}

// cmRecvComm decomposes the comm statement of a select case that receives:
// `<-ch`, `v := <-ch`, `v, ok := <-ch`.
func cmRecvComm(comm ast.Stmt) (ch ast.Expr, lhs ast.Expr, ok bool) {
	switch s := comm.(type) {
	case *ast.ExprStmt:
		if u, isU := ast.Unparen(s.X).(*ast.UnaryExpr); isU && u.Op == token.ARROW {
			return u.X, nil, true
		}
	case *ast.AssignStmt:
		if len(s.Rhs) == 1 {
			if u, isU := ast.Unparen(s.Rhs[0]).(*ast.UnaryExpr); isU && u.Op == token.ARROW {
				return u.X, s.Lhs[0], true
			}
		}
	}
	return nil, nil, false
}

func cmIsBuiltin(info *types.Info, call *ast.CallExpr, name string) bool {
	b, ok := kit.Callee(info, call).(*types.Builtin)
	return ok && b.Name() == name
}

// cmAssignCount counts the statements of root (including nested literals)
// that assign obj: definitions, assignments, ++/--, range clauses, var specs.
func cmAssignCount(root *kit.Func, obj types.Object) int {
	if obj == nil {
		return 0
	}
	info := root.Info()
	n := 0
	ast.Inspect(root.Body, func(x ast.Node) bool {
		switch s := x.(type) {
		case *ast.AssignStmt:
			for _, l := range s.Lhs {
				if _, isID := ast.Unparen(l).(*ast.Ident); isID && kit.ObjOf(info, l) == obj {
					n++
				}
			}
		case *ast.IncDecStmt:
			if _, isID := ast.Unparen(s.X).(*ast.Ident); isID && kit.ObjOf(info, s.X) == obj {
				n++
			}
		case *ast.RangeStmt:
			for _, e := range []ast.Expr{s.Key, s.Value} {
				if e != nil && kit.ObjOf(info, e) == obj {
					n++
				}
			}
		case *ast.ValueSpec:
			for _, nm := range s.Names {
				if info.Defs[nm] == obj {
					n++
				}
			}
		case *ast.UnaryExpr:
			if s.Op == token.AND {
				if _, isID := ast.Unparen(s.X).(*ast.Ident); isID && kit.ObjOf(info, s.X) == obj {
					n += 2 // address taken: treat as not single-assignment
				}
			}
		}
		return true
	})
	return n
}

// cmAssigned lists the plain variables a CFG node assigns.
func cmAssigned(info *types.Info, n ast.Node) []types.Object {
	var out []types.Object
	add := func(e ast.Expr) {
		if _, isID := ast.Unparen(e).(*ast.Ident); isID {
			if o := kit.ObjOf(info, e); o != nil {
				out = append(out, o)
			}
		}
	}
	switch s := n.(type) {
	case *ast.AssignStmt:
		for _, l := range s.Lhs {
			add(l)
		}
	case *ast.IncDecStmt:
		add(s.X)
	case *ast.ValueSpec:
		for _, nm := range s.Names {
			if o := info.Defs[nm]; o != nil {
				out = append(out, o)
			}
		}
	case *ast.DeclStmt:
		if gd, ok := s.Decl.(*ast.GenDecl); ok {
			for _, sp := range gd.Specs {
				if vs, ok := sp.(*ast.ValueSpec); ok {
					for _, nm := range vs.Names {
						if o := info.Defs[nm]; o != nil {
							out = append(out, o)
						}
					}
				}
			}
		}
	}
	return out
}

// cmSingleDef returns the right-hand side of the only assignment to obj in
// root (nil if there is more than one, or it is not a 1:1 assignment).
func cmSingleDef(root *kit.Func, obj types.Object) ast.Expr {
	if cmAssignCount(root, obj) != 1 {
		return nil
	}
	info := root.Info()
	var rhs ast.Expr
	ast.Inspect(root.Body, func(x ast.Node) bool {
		switch s := x.(type) {
		case *ast.AssignStmt:
			if len(s.Lhs) == len(s.Rhs) {
				for i, l := range s.Lhs {
					if kit.ObjOf(info, l) == obj {
						rhs = s.Rhs[i]
					}
				}
			}
		case *ast.ValueSpec:
			if len(s.Names) == len(s.Values) {
				for i, nm := range s.Names {
					if info.Defs[nm] == obj {
						rhs = s.Values[i]
					}
				}
			}
		}
		return true
	})
	return rhs
}

func cmWithin(n ast.Node, outer ast.Node) bool {
	return outer != nil && n != nil && outer.Pos() <= n.Pos() && n.End() <= outer.End()
}

// cmEnclosingRange returns the innermost range loop of f (not crossing a
// function literal boundary) that contains n.
func cmEnclosingRange(f *kit.Func, n ast.Node) *ast.RangeStmt {
	var best *ast.RangeStmt
	cmOwn(f.Body, func(x ast.Node) bool {
		if rs, ok := x.(*ast.RangeStmt); ok && cmWithin(n, rs.Body) {
			best = rs
		}
		return true
	})
	return best
}

// cmLiftStore gives the view of a store that the loop-based rules (R5, R7)
// need when the insertion was moved out of the start loop into a helper: the
// helper takes the key as a parameter, has exactly one call site in the package
// (not a go statement) and that call passes a plain variable and lies in a
// range loop of the caller. The lifted store names the caller, the caller's
// key/value variables and the caller's loop; stmt stays the assignment in the
// helper. A store that already lies in a loop, or that cannot be lifted (up to
// three levels), is returned unchanged.
func cmLiftStore(c *kit.Ctx, sto *cmStore) *cmStore {
	cur := sto
	for depth := 0; depth < 3 && cur.loop == nil; depth++ {
		f := cur.f
		arg := func(cf *kit.Func, call *ast.CallExpr, e ast.Expr) ast.Expr {
			if e == nil {
				return nil
			}
			if _, isID := ast.Unparen(e).(*ast.Ident); !isID {
				return nil
			}
			o := kit.ObjOf(f.Info(), e)
			ps := f.Params()
			if len(ps) != len(call.Args) {
				return nil
			}
			for i, p := range ps {
				if types.Object(p) == o {
					if _, isID := ast.Unparen(call.Args[i]).(*ast.Ident); isID && cmIsLocal(kit.ObjOf(cf.Info(), call.Args[i])) {
						return call.Args[i]
					}
				}
			}
			return nil
		}
		var site *ast.CallExpr
		var in *kit.Func
		seen := map[*ast.CallExpr]bool{}
		for _, cf := range c.P.Funcs("client") {
			if cf.Body == nil {
				continue
			}
			for _, call := range cf.AllCalls(true) {
				if cf.CalleeFunc(call) == f && !seen[call] {
					seen[call] = true
					site, in = call, cf
				}
			}
		}
		// one call site, in the body proper of a declared function
		if len(seen) != 1 || in.Lit != nil || in == f {
			return sto
		}
		own := false
		for _, call := range in.AllCalls(false) {
			own = own || call == site
		}
		if !own {
			return sto
		}
		if gs, isGo := c.P.Parent(in.File, site).(*ast.GoStmt); isGo && gs.Call == site {
			return sto
		}
		key := arg(in, site, cur.key)
		if key == nil {
			return sto
		}
		cur = &cmStore{f: in, stmt: sto.stmt, key: key, val: arg(in, site, cur.val), loop: cmEnclosingRange(in, site)}
	}
	if cur.loop == nil {
		return sto
	}
	return cur
}

// cmEnclosingClause returns the select clause of f whose body contains n.
func cmEnclosingClause(f *kit.Func, n ast.Node) *ast.CommClause {
	var best *ast.CommClause
	cmOwn(f.Body, func(x ast.Node) bool {
		if cc, ok := x.(*ast.CommClause); ok && cc.Colon < n.Pos() && n.End() <= cc.End() {
			best = cc
		}
		return true
	})
	return best
}

// ---------------------------------------------------------------------------

func newCmModel(c *kit.Ctx) *cmModel {
	m := &cmModel{c: c, exitCh: map[*types.Var]bool{}, exitClauses: map[*ast.CommClause]*types.Var{}}
	pk := c.P.MustPkg("client")
	scope := pk.Types.Scope()

	// ---- client-state type and client interface
	type cand struct {
		n                      *types.Named
		once, ch, client, node *types.Var
		iface                  *types.Named
	}
	var cands []cand
	for _, name := range scope.Names() {
		tn, ok := scope.Lookup(name).(*types.TypeName)
		if !ok || tn.IsAlias() {
			continue
		}
		n, ok := tn.Type().(*types.Named)
		if !ok {
			continue
		}
		st, ok := n.Underlying().(*types.Struct)
		if !ok {
			continue
		}
		var cd cand
		cd.n = n
		nOnce, nCh, nIf := 0, 0, 0
		for i := 0; i < st.NumFields(); i++ {
			fv := st.Field(i)
			ft := fv.Type()
			switch {
			case kit.IsNamedType(ft, "sync", "Once") && !cmIsPointer(ft):
				cd.once = fv
				nOnce++
			case cmIsChan(ft):
				cd.ch = fv
				nCh++
			case kit.IsNamedType(ft, dataPkg, "NodeEdge") && !cmIsPointer(ft):
				cd.node = fv
			default:
				if in, ok := types.Unalias(ft).(*types.Named); ok && in.Obj().Pkg() == pk.Types {
					if it, ok := in.Underlying().(*types.Interface); ok && cmHasMethod(it, "Points") && cmHasMethod(it, "EdgePoints") {
						cd.client, cd.iface = fv, in
						nIf++
					}
				}
			}
		}
		if nOnce == 1 && nCh == 1 && nIf == 1 {
			cands = append(cands, cd)
		}
	}
	if len(cands) != 1 {
		c.Fatalf("client-state type (struct of package client with one sync.Once, one channel and one client-interface field): %d candidates", len(cands))
	}
	m.cs, m.csOnce, m.csStopCh, m.csClient, m.csNode, m.iface = cands[0].n, cands[0].once, cands[0].ch, cands[0].client, cands[0].node, cands[0].iface
	if m.csNode == nil {
		c.Fatalf("client-state type %s has no field of type data.NodeEdge", m.cs.Obj().Name())
	}

	// ---- manager type
	for _, name := range scope.Names() {
		tn, ok := scope.Lookup(name).(*types.TypeName)
		if !ok || tn.IsAlias() {
			continue
		}
		n, ok := tn.Type().(*types.Named)
		if !ok {
			continue
		}
		st, ok := n.Underlying().(*types.Struct)
		if !ok {
			continue
		}
		for i := 0; i < st.NumFields(); i++ {
			fv := st.Field(i)
			mp, ok := fv.Type().Underlying().(*types.Map)
			if !ok || !cmIsPointer(mp.Elem()) || !m.isCS(mp.Elem()) {
				continue
			}
			if m.mgr != nil {
				c.Fatalf("more than one map of client states (%s.%s and %s.%s)", m.mgr.Obj().Name(), m.mgrMap.Name(), n.Obj().Name(), fv.Name())
			}
			m.mgr, m.mgrMap = n, fv
		}
	}
	if m.mgr == nil {
		c.Fatalf("manager type (struct with a map of *%s values) not found", m.cs.Obj().Name())
	}
	mst := m.mgr.Underlying().(*types.Struct)
	for i := 0; i < mst.NumFields(); i++ {
		fv := mst.Field(i)
		if ch, ok := fv.Type().Underlying().(*types.Chan); ok {
			if b, ok := ch.Elem().Underlying().(*types.Basic); ok && b.Kind() == types.String {
				m.mgrKeyCh = append(m.mgrKeyCh, fv)
			}
		}
	}

	// ---- functions
	funcs := c.P.Funcs("client")
	for _, f := range funcs {
		if f.Body == nil {
			continue
		}
		info := f.Info()
		// constructors
		if f.Decl != nil && f.Type.Results != nil {
			var rts []types.Type
			for _, r := range f.Type.Results.List {
				k := len(r.Names)
				if k == 0 {
					k = 1
				}
				for i := 0; i < k; i++ {
					rts = append(rts, info.TypeOf(r.Type))
				}
			}
			if len(rts) == 2 && cmIsPointer(rts[0]) && m.isCS(rts[0]) && isErrorType(rts[1]) {
				m.ctors = append(m.ctors, f)
			}
		}
		rt := cmRecvOf(f)
		if rt == m.mgr {
			for _, call := range f.AllCalls(true) {
				if cmIsBuiltin(info, call, "close") && len(call.Args) == 1 {
					if fv := cmField(info, call.Args[0]); fv != nil && cmIsChan(fv.Type()) && cmFieldOfStruct(mst, fv) {
						if m.mgrStopCh != nil && m.mgrStopCh != fv {
							c.Fatalf("manager closes two of its channels (%s, %s); cannot tell the stop channel", m.mgrStopCh.Name(), fv.Name())
						}
						m.mgrStopCh = fv
					}
				}
			}
		}
		// stores into the map
		ast.Inspect(f.Body, func(x ast.Node) bool {
			if _, isLit := x.(*ast.FuncLit); isLit {
				return false
			}
			as, ok := x.(*ast.AssignStmt)
			if !ok {
				return true
			}
			for i, l := range as.Lhs {
				ix, ok := ast.Unparen(l).(*ast.IndexExpr)
				if !ok || !m.isMapExpr(info, ix.X) {
					continue
				}
				st := &cmStore{f: f, stmt: as, key: ix.Index}
				if len(as.Lhs) == len(as.Rhs) {
					st.val = as.Rhs[i]
				}
				st.loop = cmEnclosingRange(f, as)
				m.stores = append(m.stores, st)
			}
			return true
		})
	}
	m.computeRunStop(funcs)
	if len(m.ctors) == 0 {
		c.Fatalf("no constructor returning (*%s, error) found", m.cs.Obj().Name())
	}
	if len(m.runM) == 0 {
		c.Fatalf("no method of %s calls the client interface's Run", m.cs.Obj().Name())
	}
	if len(m.stopM) == 0 {
		c.Fatalf("no method of %s closes its stop channel", m.cs.Obj().Name())
	}
	if m.mgrStopCh == nil {
		c.Fatalf("no method of %s closes one of its channels (manager stop channel)", m.mgr.Obj().Name())
	}
	if len(m.stores) == 0 {
		c.Fatalf("no store into %s.%s found", m.mgr.Obj().Name(), m.mgrMap.Name())
	}

	// ---- main loop: select with a case receiving from the manager's stop channel
	for _, f := range funcs {
		if f.Body == nil || cmRecvOf(f) != m.mgr {
			continue
		}
		info := f.Info()
		cmOwn(f.Body, func(x ast.Node) bool {
			sel, ok := x.(*ast.SelectStmt)
			if !ok {
				return true
			}
			for _, cl := range sel.Body.List {
				cc := cl.(*ast.CommClause)
				if cc.Comm == nil {
					continue
				}
				ch, _, ok := cmRecvComm(cc.Comm)
				if ok && cmField(info, ch) == m.mgrStopCh {
					if m.mainF != nil && m.stopClause != cc {
						c.Fatalf("two select cases receive from the manager's stop channel")
					}
					m.mainF, m.mainSel, m.stopClause = f, sel, cc
				}
			}
			return true
		})
	}
	if m.mainF == nil {
		c.Fatalf("no select case receives from the manager's stop channel %s", m.mgrStopCh.Name())
	}

	// ---- exit channels
	m.computeExitChannels()
	if len(m.exitCh) == 0 {
		c.Fatalf("no select case of %s receives a key and deletes its entry of %s", m.mgr.Obj().Name(), m.mgrMap.Name())
	}
	return m
}

func cmIsPointer(t types.Type) bool {
	_, ok := t.(*types.Pointer)
	return ok
}

func cmIsChan(t types.Type) bool {
	_, ok := t.Underlying().(*types.Chan)
	return ok
}

func cmHasMethod(it *types.Interface, name string) bool {
	for i := 0; i < it.NumMethods(); i++ {
		if it.Method(i).Name() == name {
			return true
		}
	}
	return false
}

func cmFieldOfStruct(st *types.Struct, fv *types.Var) bool {
	for i := 0; i < st.NumFields(); i++ {
		if st.Field(i) == fv {
			return true
		}
	}
	return false
}

// onceBody resolves the argument of `<r>.<once>.Do(arg)` to the function that
// runs under the Once: a literal, a method value `<r>.g` of the same receiver,
// or a declared function / local closure.  base is r.
func (m *cmModel) onceBody(f *kit.Func, call *ast.CallExpr) (body *kit.Func, base types.Object, recvOfBody types.Object) {
	info := f.Info()
	if !kit.CallIs(info, call, "sync.(*Once).Do") || len(call.Args) != 1 {
		return nil, nil, nil
	}
	sel, ok := ast.Unparen(call.Fun).(*ast.SelectorExpr)
	if !ok {
		return nil, nil, nil
	}
	of, b := cmFieldOn(info, sel.X)
	if of != m.csOnce || b == nil {
		return nil, nil, nil
	}
	arg := ast.Unparen(call.Args[0])
	switch x := arg.(type) {
	case *ast.FuncLit:
		return f.Prog.LitFunc(f.PkgRel(), x), b, b
	case *ast.SelectorExpr:
		// method value r.g
		if s := info.Selections[x]; s != nil && s.Kind() == types.MethodVal {
			if _, isID := ast.Unparen(x.X).(*ast.Ident); isID && kit.ObjOf(info, x.X) == b {
				if g := f.Prog.FuncOf(s.Obj().(*types.Func).Origin()); g != nil && g.Decl != nil && g.Decl.Recv != nil && len(g.Decl.Recv.List[0].Names) > 0 {
					return g, b, g.Info().Defs[g.Decl.Recv.List[0].Names[0]]
				}
			}
		}
	case *ast.Ident:
		if v, ok := kit.ObjOf(info, x).(*types.Var); ok {
			if g := f.LocalClosure(v); g != nil {
				return g, b, b
			}
		}
	}
	return nil, b, nil
}

// isOnceClose: `<r>.<once>.Do(body)` where body closes <r>.<stop channel> on every path.
func (m *cmModel) isOnceClose(f *kit.Func, call *ast.CallExpr) bool {
	body, _, recv := m.onceBody(f, call)
	if body == nil || body.Body == nil || recv == nil {
		return false
	}
	info := body.Info()
	return alwaysCalls(body, func(c2 *ast.CallExpr) bool {
		if !cmIsBuiltin(info, c2, "close") || len(c2.Args) != 1 {
			return false
		}
		cf, cb := cmFieldOn(info, c2.Args[0])
		return cf == m.csStopCh && cb == recv
	})
}

// callSites counts the static call sites of g and reports whether g is also
// reachable from outside a once body (a call in another function, or a use as a
// value other than the argument of the client state's Once.Do).
func (m *cmModel) callSites(funcs []*kit.Func, g *kit.Func) (sites int, outside bool) {
	for _, f := range funcs {
		if f.Body == nil {
			continue
		}
		info := f.Info()
		cmOwn(f.Body, func(n ast.Node) bool {
			switch x := n.(type) {
			case *ast.CallExpr:
				if f.CalleeFunc(x) == g {
					sites++
					if !m.onceBodies[f] {
						outside = true
					}
				}
			case *ast.SelectorExpr, *ast.Ident:
				e := x.(ast.Expr)
				if id, isID := e.(*ast.Ident); isID {
					if _, isSel := f.Prog.Parent(f.File, id).(*ast.SelectorExpr); isSel {
						return true
					}
				}
				var fn *types.Func
				if sel, ok := e.(*ast.SelectorExpr); ok {
					if sn := info.Selections[sel]; sn != nil && sn.Kind() == types.MethodVal {
						fn, _ = sn.Obj().(*types.Func)
					} else {
						fn, _ = info.Uses[sel.Sel].(*types.Func)
					}
				} else {
					fn, _ = info.Uses[e.(*ast.Ident)].(*types.Func)
				}
				if fn == nil || g.Obj == nil || fn.Origin() != g.Obj {
					return true
				}
				par := f.Prog.Parent(f.File, e)
				if call, ok := par.(*ast.CallExpr); ok {
					if ast.Unparen(call.Fun) == e {
						return true // counted as a call
					}
					if body, _, _ := m.onceBody(f, call); body == g {
						return true // the argument of Once.Do
					}
				}
				outside = true
			}
			return true
		})
	}
	return sites, outside
}

// cmAlways reports whether every returning path through f performs a call for
// which pred holds; callees of the same package are evaluated inline (cur is the
// function the call is located in).
func cmAlways(f *kit.Func, pred func(cur *kit.Func, call *ast.CallExpr) bool) bool {
	st := &kit.Std{F: f}
	st.ShouldInline = func(*kit.Func, *ast.CallExpr) bool { return true }
	st.OnCall = func(call *ast.CallExpr, n ast.Node, s kit.S) []kit.S {
		if pred(st.Cur(), call) {
			return []kit.S{s.Set("hit", "1")}
		}
		return nil
	}
	res := f.Prog.Graph(f).Run(kit.NewS(), st.Client())
	n := 0
	for _, e := range res.Exits {
		if e.Return == nil {
			continue
		}
		n++
		if e.State.Get("hit") != "1" {
			return false
		}
	}
	return n > 0 && !res.Overflow
}

// computeRunStop finds the run and stop methods of the client state.
//
//   - once bodies: functions that run under `<r>.<once>.Do(…)`;
//   - stop methods: methods of the client state whose own body performs that
//     Do, or closes the stop channel outside a once body (wrappers around them
//     are seen by inlining);
//   - run methods: methods of the client state from which a call of the
//     interface's Run is reachable through static calls, go statements and
//     literals of the package.
func (m *cmModel) computeRunStop(funcs []*kit.Func) {
	m.onceBodies = map[*kit.Func]bool{}
	for _, f := range funcs {
		if f.Body == nil {
			continue
		}
		for _, call := range f.AllCalls(false) {
			if body, _, _ := m.onceBody(f, call); body != nil {
				m.onceBodies[body] = true
			}
		}
	}
	// helpers that are only ever called from once bodies run under the Once as well
	for changed := true; changed; {
		changed = false
		for _, g := range funcs {
			if g.Body == nil || g.Decl == nil || m.onceBodies[g] {
				continue
			}
			sites, outside := m.callSites(funcs, g)
			if sites > 0 && !outside {
				m.onceBodies[g] = true
				changed = true
			}
		}
	}
	reach := map[*kit.Func]bool{}
	for _, f := range funcs {
		if f.Body == nil {
			continue
		}
		info := f.Info()
		for _, call := range f.AllCalls(false) {
			if x, ok := m.ifaceCall(info, call, "Run"); ok && cmField(info, x) == m.csClient {
				reach[f] = true
			}
		}
	}
	for changed := true; changed; {
		changed = false
		for _, f := range funcs {
			if f.Body == nil || reach[f] {
				continue
			}
			hit := false
			ast.Inspect(f.Body, func(n ast.Node) bool {
				switch x := n.(type) {
				case *ast.FuncLit:
					if lf := f.Prog.LitFunc(f.PkgRel(), x); lf != nil && reach[lf] {
						hit = true
					}
					return false
				case *ast.CallExpr:
					if cf := f.CalleeFunc(x); cf != nil && reach[cf] {
						hit = true
					}
				}
				return true
			})
			if hit {
				reach[f] = true
				changed = true
			}
		}
	}
	for _, f := range funcs {
		if f.Body == nil || f.Decl == nil || cmRecvOf(f) != m.cs {
			continue
		}
		info := f.Info()
		if reach[f] {
			m.runM = cmAppendFunc(m.runM, f)
		}
		if m.onceBodies[f] {
			continue
		}
		isStop := false
		ast.Inspect(f.Body, func(n ast.Node) bool {
			if lit, isLit := n.(*ast.FuncLit); isLit {
				if lf := f.Prog.LitFunc(f.PkgRel(), lit); lf != nil && m.onceBodies[lf] {
					return false
				}
				return true
			}
			call, ok := n.(*ast.CallExpr)
			if !ok {
				return true
			}
			if _, b, _ := m.onceBody(f, call); b != nil {
				isStop = true
			}
			if cmIsBuiltin(info, call, "close") && len(call.Args) == 1 && cmField(info, call.Args[0]) == m.csStopCh {
				isStop = true
			}
			return true
		})
		if isStop {
			m.stopM = cmAppendFunc(m.stopM, f)
		}
	}
}

// isStopCall: call of a stop method of the client state; returns the receiver expression.
func (m *cmModel) isStopCall(f *kit.Func, call *ast.CallExpr) (ast.Expr, bool) {
	cf := f.CalleeFunc(call)
	if cf == nil {
		return nil, false
	}
	for _, s := range m.stopM {
		if s == cf {
			if sel, ok := ast.Unparen(call.Fun).(*ast.SelectorExpr); ok {
				return sel.X, true
			}
		}
	}
	return nil, false
}

// isRunCall: call of a run method of the client state; returns the receiver expression.
func (m *cmModel) isRunCall(f *kit.Func, call *ast.CallExpr) (ast.Expr, bool) {
	cf := f.CalleeFunc(call)
	if cf == nil {
		return nil, false
	}
	for _, s := range m.runM {
		if s == cf {
			if sel, ok := ast.Unparen(call.Fun).(*ast.SelectorExpr); ok {
				return sel.X, true
			}
		}
	}
	return nil, false
}

// keyChan returns the manager key channel denoted by e (nil if none).
func (m *cmModel) keyChan(info *types.Info, e ast.Expr) *types.Var {
	fv := cmField(info, e)
	if fv == nil {
		return nil
	}
	for _, k := range m.mgrKeyCh {
		if k == fv {
			return fv
		}
	}
	return nil
}

// keyClauses lists the select clauses of manager methods that receive a key
// into a fresh variable from a key channel.
type cmKeyClause struct {
	f   *kit.Func
	sel *ast.SelectStmt
	cc  *ast.CommClause
	ch  *types.Var
	key types.Object
}

func (m *cmModel) keyClauses() []cmKeyClause {
	var out []cmKeyClause
	for _, f := range m.c.P.Funcs("client") {
		if f.Body == nil {
			continue
		}
		info := f.Info()
		cmOwn(f.Body, func(x ast.Node) bool {
			sel, ok := x.(*ast.SelectStmt)
			if !ok {
				return true
			}
			for _, cl := range sel.Body.List {
				cc := cl.(*ast.CommClause)
				if cc.Comm == nil {
					continue
				}
				ch, lhs, ok := cmRecvComm(cc.Comm)
				if !ok || lhs == nil {
					continue
				}
				kc := m.keyChan(info, ch)
				if kc == nil {
					continue
				}
				ko := kit.ObjOf(info, lhs)
				if ko == nil {
					continue
				}
				out = append(out, cmKeyClause{f: f, sel: sel, cc: cc, ch: kc, key: ko})
			}
			return true
		})
	}
	return out
}

// deletesKey reports whether node n of f deletes map[key], directly or through
// a function of the package that receives key as an argument (two levels).
func (m *cmModel) deletesKey(f *kit.Func, n ast.Node, key types.Object, depth int) bool {
	info := f.Info()
	found := false
	cmOwn(n, func(x ast.Node) bool {
		call, ok := x.(*ast.CallExpr)
		if !ok || found {
			return true
		}
		if cmIsBuiltin(info, call, "delete") && len(call.Args) == 2 && m.isMapExpr(info, call.Args[0]) && kit.ObjOf(info, call.Args[1]) == key {
			if _, isID := ast.Unparen(call.Args[1]).(*ast.Ident); isID {
				found = true
			}
			return true
		}
		if depth >= 2 {
			return true
		}
		cf := f.CalleeFunc(call)
		if cf == nil || cf.Body == nil || cf.Pkg != f.Pkg {
			return true
		}
		ps := cf.Params()
		for i, a := range call.Args {
			if i < len(ps) && kit.ObjOf(info, a) == key && cmAssignCount(cf, ps[i]) == 0 {
				if _, isID := ast.Unparen(a).(*ast.Ident); isID && m.deletesKey(cf, cf.Body, ps[i], depth+1) {
					found = true
				}
			}
		}
		return true
	})
	return found
}

func (m *cmModel) computeExitChannels() {
	kcs := m.keyClauses()
	// base: the clause deletes map[key] of the received key
	for _, kc := range kcs {
		info := kc.f.Info()
		if cmAssignCount(kc.f.Root(), kc.key) != 1 {
			continue
		}
		_ = info
		found := false
		for _, st := range kc.cc.Body {
			if m.deletesKey(kc.f, st, kc.key, 0) {
				found = true
			}
		}
		if found {
			m.exitCh[kc.ch] = true
			m.exitClauses[kc.cc] = kc.ch
		}
	}
	// closure: the clause forwards the received key to an exit channel on every path
	for changed := true; changed; {
		changed = false
		for _, kc := range kcs {
			if m.exitCh[kc.ch] || cmAssignCount(kc.f.Root(), kc.key) != 1 {
				continue
			}
			info := kc.f.Info()
			st := &kit.Std{F: kc.f}
			st.ShouldInline = func(*kit.Func, *ast.CallExpr) bool { return true }
			st.OnNode = func(n ast.Node, s kit.S) []kit.S {
				if snd, ok := n.(*ast.SendStmt); ok {
					if ch := m.keyChan(info, snd.Chan); ch != nil && m.exitCh[ch] && st.ObjOf(snd.Value) == kc.key {
						s = s.Set("fwd", "1")
					}
				}
				return []kit.S{s}
			}
			res, leaves := cmClauseFlow(m.c.P.Graph(kc.f), kc.sel, kc.cc, kit.NewS(), st.Client())
			if res == nil || res.Overflow {
				continue
			}
			all := len(leaves)+len(res.Exits) > 0
			for _, l := range leaves {
				if l.s.Get("fwd") != "1" {
					all = false
				}
			}
			for _, e := range res.Exits {
				if e.Return != nil && e.State.Get("fwd") != "1" {
					all = false
				}
			}
			if all {
				m.exitCh[kc.ch] = true
				m.exitClauses[kc.cc] = kc.ch
				changed = true
			}
		}
	}
}

// ---------------------------------------------------------------------------
// Flow over the body of one select clause.

type cmLeave struct {
	s    kit.S
	n    ast.Node // first node outside the clause
	back bool     // true: back to the select (next round); false: the select's loop was left
}

// cmClauseFlow propagates init from the first node of the clause body until
// control leaves the clause: back to the select header (back=true), past the
// select (back=false), or out of the function (Result.Exits).
func cmClauseFlow(g *kit.Graph, sel *ast.SelectStmt, cc *ast.CommClause, init kit.S, cl kit.Client) (*kit.Result, []cmLeave) {
	var start *cfg.Block
	for _, b := range g.G.Blocks {
		if b.Live && b.Kind == cfg.KindSelectCaseBody && b.Stmt == ast.Node(cc) {
			start = b
		}
	}
	if start == nil {
		return nil, nil
	}
	comms := map[ast.Node]bool{}
	for _, c := range sel.Body.List {
		if cm := c.(*ast.CommClause).Comm; cm != nil {
			comms[cm] = true
		}
	}
	var leaves []cmLeave
	inner := cl.Node
	cl.Node = func(n ast.Node, s kit.S) []kit.S {
		if comms[n] {
			leaves = append(leaves, cmLeave{s: s, n: n, back: true})
			return nil
		}
		if !(cc.Pos() <= n.Pos() && n.End() <= cc.End()) {
			leaves = append(leaves, cmLeave{s: s, n: n, back: cmWithin(n, sel)})
			return nil
		}
		if inner == nil {
			return []kit.S{s}
		}
		return inner(n, s)
	}
	innerCond := cl.Cond
	cl.Cond = func(cond ast.Expr, s kit.S) (t, f []kit.S) {
		if !(cc.Pos() <= cond.Pos() && cond.End() <= cc.End()) {
			leaves = append(leaves, cmLeave{s: s, n: cond, back: cmWithin(cond, sel)})
			return nil, nil
		}
		if innerCond == nil {
			return []kit.S{s}, []kit.S{s}
		}
		return innerCond(cond, s)
	}
	res := g.RunFrom(start, 0, init, cl)
	return res, leaves
}

// cmLenAtom recognises `len(<map>) OP const` (either operand order) that is
// exactly equivalent to "the map is empty" or to its negation.
// emptyWhenTrue reports which.
func (m *cmModel) cmLenAtom(info *types.Info, e ast.Expr) (emptyWhenTrue, ok bool) {
	a, b, op, isCmp := kit.CmpAtom(e)
	if !isCmp {
		return false, false
	}
	isLen := func(x ast.Expr) bool {
		call, ok := ast.Unparen(x).(*ast.CallExpr)
		return ok && cmIsBuiltin(info, call, "len") && len(call.Args) == 1 && m.isMapExpr(info, call.Args[0])
	}
	var cexpr ast.Expr
	switch {
	case isLen(a):
		cexpr = b
	case isLen(b):
		cexpr = a
		switch op { // mirror so that len is on the left
		case token.LSS:
			op = token.GTR
		case token.GTR:
			op = token.LSS
		case token.LEQ:
			op = token.GEQ
		case token.GEQ:
			op = token.LEQ
		}
	default:
		return false, false
	}
	k, isConst := kit.ConstInt(info, cexpr)
	if !isConst {
		return false, false
	}
	eval := func(n int64) bool {
		switch op {
		case token.EQL:
			return n == k
		case token.NEQ:
			return n != k
		case token.LSS:
			return n < k
		case token.LEQ:
			return n <= k
		case token.GTR:
			return n > k
		case token.GEQ:
			return n >= k
		}
		return false
	}
	at0 := eval(0)
	for _, n := range []int64{1, 2, 3, 4, 1 << 20} {
		if eval(n) == at0 {
			return false, false // truth does not separate empty from non-empty
		}
	}
	return at0, true
}

// cmIsLibraryCall: callee is a function or method declared outside the analysed
// module, or a method of an interface value (its body is not part of the
// analysed functions and cannot reach their locals).
func cmIsLibraryCall(info *types.Info, call *ast.CallExpr) bool {
	if sel, ok := ast.Unparen(call.Fun).(*ast.SelectorExpr); ok {
		if sn := info.Selections[sel]; sn != nil && sn.Kind() == types.MethodVal {
			if t := info.TypeOf(sel.X); t != nil {
				if _, isIface := t.Underlying().(*types.Interface); isIface {
					return true
				}
			}
		}
	}
	obj := kit.Callee(info, call)
	switch o := obj.(type) {
	case *types.Builtin:
		return true
	case *types.Func:
		return o.Pkg() != nil && !strings.HasPrefix(o.Pkg().Path(), kit.ModPath)
	}
	if obj == nil {
		// conversion
		if tv, ok := info.Types[call.Fun]; ok && tv.IsType() {
			return true
		}
	}
	return false
}

func cmAppendFunc(fs []*kit.Func, f *kit.Func) []*kit.Func {
	for _, x := range fs {
		if x == f {
			return fs
		}
	}
	return append(fs, f)
}

// cmTagCase evaluates one case of a tagged switch (`switch len(x) { case 3: … }`)
// as the condition `tag == case` through the flow's own atoms and folds.
func cmTagCase(st *kit.Std, br kit.Branch, s kit.S) (t, f []kit.S, handled bool) {
	if br.Kind != kit.BrCase || br.Tag == nil || br.Case == nil {
		return nil, nil, false
	}
	t, f = st.Eval.Eval(&ast.BinaryExpr{X: br.Tag, Op: token.EQL, Y: br.Case}, s)
	return t, f, true
}
