package props

import (
	"fmt"
	"go/ast"
	"go/token"
	"go/types"
	"sort"
	"strconv"
	"strings"

	"siotcheck/kit"
)

// C11/R4 — native index and slice expressions of the untrusted-input set.
//
// The reflect surface (R1/R2) is not the only place where a point list chosen
// by the sender can crash decoding: the functions of the set also index native
// slices whose LENGTH is data (the points of a group, the list of deleted
// indexes).  R4 decides, for every index expression x[i] and slice expression
// x[lo:hi] on a slice, array or string in a function of the set, that
// 0 <= i < len(x) (0 <= lo <= hi <= len(x)) holds on every CFG path.
//
// The engine is a path-sensitive interval analysis over kit's flow engine with
// three kinds of facts (terms are local integer variables, sequences are local
// variables or field paths rooted at a local variable):
//
//	lb:<t> = c        t >= c
//	ub:<t> = c        t <= c
//	ul:<t>|<x> = d    t <= len(x) + d
//	ll:<x> = c        len(x) >= c
//	eq:<t> = <x>|off  t == len(x) + off (until t or x is assigned)
//
// learnt from assignments (`i := len(x) - 1`, `i--`, `i += 2`), comparisons on
// branch edges (any && / || / ! nesting, both polarities), range loops and
// `switch len(x)`.  Offsets are kept in a small window so that loops converge.
// Two library/containers contracts are used: strings/bytes.Index* return a
// value in [-1, len(arg)-1], and a local map[K]int that never leaves the
// function holds only what is stored in it (if every stored value is a valid
// index of a sequence that is never re-assigned, so is every value found in it).
// A site is OK when both bounds are proved in every reaching state, a
// violation when the index is derived only from constants, len(), loop
// counters and their arithmetic and a bound is missing in some state, and
// undecided otherwise (index that is a parameter, a call result or a field,
// sequence that is not a path, variables whose address is taken).

type c11nSite struct {
	expr   ast.Expr
	what   string
	states int
	bad    string
	und    string
	by     map[string]bool
}

type c11nEng struct {
	f       *kit.Func
	info    *types.Info
	ce      kit.CondEval
	untrack map[types.Object]bool
	sites   map[ast.Expr]*c11nSite
	order   []ast.Expr
	lo, hi  token.Pos
	// local map[K]int variables that never leave the function: the sequences
	// all stored values are valid indexes of (nil: not collected yet)
	maps    map[*types.Var]bool
	inv     map[*types.Var]map[string]bool
	collect map[*types.Var]map[string]bool
	stores  map[*types.Var]int
	fixed   map[string]bool // paths that are assigned somewhere (other than append to themselves)
}

type c11nBound struct {
	lb, ub *int64
	ul     map[string]int64
	known  bool   // the expression has a shape the engine models
	lenOf  string // the expression is len(lenOf)+off
	off    int64
}

func c11nI(v int64) *int64 { return &v }

// c11Native runs R4 over the functions of the set.
func c11Native(c *kit.Ctx, set []*kit.Func) {
	r4 := c.Rule("R4", "native index/slice expressions bounded by 0 and len() of the same sequence", 1)
	nstates := 0
	for _, f := range set {
		if f.Body == nil {
			continue
		}
		e := &c11nEng{f: f, info: f.Info(), untrack: map[types.Object]bool{}, sites: map[ast.Expr]*c11nSite{},
			lo: f.Node().Pos(), hi: f.Node().End(), maps: map[*types.Var]bool{}, collect: map[*types.Var]map[string]bool{},
			stores: map[*types.Var]int{}, fixed: map[string]bool{}}
		e.prepare()
		if len(e.order) == 0 {
			continue
		}
		e.ce = kit.CondEval{Info: e.info, Leaf: e.leaf}
		run := func() *kit.Result {
			for _, st := range e.sites {
				*st = c11nSite{expr: st.expr, what: st.what, by: map[string]bool{}}
			}
			return c.P.Graph(f).Run(e.initState(), kit.Client{
				Node:      e.node,
				Cond:      func(cond ast.Expr, s kit.S) (t, fl []kit.S) { return e.ce.Eval(cond, s) },
				Other:     e.other,
				MaxStates: 60000,
			})
		}
		res := run()
		nstates += res.Visited
		if len(e.maps) > 0 && !res.Overflow {
			// second pass with what the first one learnt about the local maps
			e.inv = map[*types.Var]map[string]bool{}
			useful := false
			for m := range e.maps {
				if e.stores[m] > 0 && len(e.collect[m]) > 0 {
					e.inv[m] = e.collect[m]
					useful = true
				}
			}
			if useful {
				e.collect = nil
				res = run()
				nstates += res.Visited
			}
		}
		ord := map[string]int{}
		for _, x := range e.order {
			st := e.sites[x]
			ord[st.what]++
			o := r4.Ob(f, x, fmt.Sprintf("%s #%d", st.what, ord[st.what]), "0 <= index < len() (0 <= low <= high <= len()) of the same sequence on every path")
			switch {
			case st.bad != "":
				o.Violation("%s", st.bad)
			case res.Overflow:
				o.Undecided("state bound exceeded after %d states", res.Visited)
			case st.und != "":
				o.Undecided("%s", st.und)
			case st.states == 0:
				o.Undecided("the site is not reached by the path engine")
			default:
				var by []string
				for b := range st.by {
					by = append(by, b)
				}
				sort.Strings(by)
				o.OK("%d states: %s", st.states, strings.Join(by, "; "))
			}
		}
	}
	c.AddValuations(nstates)
}

// seqType reports whether t is indexed with a bounds check (slice, array,
// pointer to array, string) and the constant length of an array (-1 otherwise).
func c11nSeqType(t types.Type) (bool, int64) {
	if t == nil {
		return false, -1
	}
	switch u := t.Underlying().(type) {
	case *types.Slice:
		return true, -1
	case *types.Array:
		return true, u.Len()
	case *types.Pointer:
		if a, ok := u.Elem().Underlying().(*types.Array); ok {
			return true, a.Len()
		}
	case *types.Basic:
		if u.Info()&types.IsString != 0 {
			return true, -1
		}
	}
	return false, -1
}

// prepare enumerates the sites in source order and the variables the engine
// must not track (address taken, assigned inside a function literal, target
// of a pointer-receiver method call).
func (e *c11nEng) prepare() {
	root := func(x ast.Expr) types.Object {
		for {
			switch y := ast.Unparen(x).(type) {
			case *ast.SelectorExpr:
				x = y.X
			case *ast.IndexExpr:
				x = y.X
			case *ast.StarExpr:
				x = y.X
			case *ast.Ident:
				return kit.ObjOf(e.info, y)
			default:
				return nil
			}
		}
	}
	var walk func(n ast.Node, inLit bool)
	walk = func(n ast.Node, inLit bool) {
		ast.Inspect(n, func(m ast.Node) bool {
			switch y := m.(type) {
			case *ast.FuncLit:
				if m != n {
					walk(y.Body, true)
					return false
				}
			case *ast.UnaryExpr:
				if y.Op == token.AND {
					if o := root(y.X); o != nil {
						e.untrack[o] = true
					}
				}
			case *ast.CallExpr:
				if sel, ok := ast.Unparen(y.Fun).(*ast.SelectorExpr); ok {
					if s, ok := e.info.Selections[sel]; ok && s.Kind() == types.MethodVal {
						if sig, ok := s.Obj().Type().(*types.Signature); ok && sig.Recv() != nil {
							_, ptrRecv := sig.Recv().Type().(*types.Pointer)
							ptrX := false
							if xt := e.info.TypeOf(sel.X); xt != nil {
								_, ptrX = xt.Underlying().(*types.Pointer)
							}
							if ptrRecv && !ptrX {
								if o := root(sel.X); o != nil {
									e.untrack[o] = true
								}
							}
						}
					}
				}
			case *ast.AssignStmt:
				if inLit {
					for _, l := range y.Lhs {
						if o := root(l); o != nil {
							e.untrack[o] = true
						}
					}
				}
			case *ast.IncDecStmt:
				if inLit {
					if o := root(y.X); o != nil {
						e.untrack[o] = true
					}
				}
			case *ast.RangeStmt:
				if inLit {
					for _, l := range []ast.Expr{y.Key, y.Value} {
						if l != nil {
							if o := root(l); o != nil {
								e.untrack[o] = true
							}
						}
					}
				}
			}
			return true
		})
	}
	walk(e.f.Body, false)
	ast.Inspect(e.f.Body, func(m ast.Node) bool {
		switch y := m.(type) {
		case *ast.FuncLit:
			return false // literals are functions of their own
		case *ast.IndexExpr:
			if ok, _ := c11nSeqType(e.info.TypeOf(y.X)); ok {
				e.addSite(y, "index into "+e.f.Str(y.X))
			}
		case *ast.SliceExpr:
			if ok, _ := c11nSeqType(e.info.TypeOf(y.X)); ok {
				e.addSite(y, "slice of "+e.f.Str(y.X))
			}
		}
		return true
	})
	e.prepareMaps()
}

// prepareMaps finds the local map[K]int variables whose content the engine
// may reason about (only created empty, indexed, ranged over, measured and
// deleted from in this function, never inside a literal) and the paths that
// are assigned somewhere.
func (e *c11nEng) prepareMaps() {
	bad := map[*types.Var]bool{}
	cand := func(x ast.Expr) *types.Var {
		v := e.local(x)
		if v == nil {
			return nil
		}
		m, ok := v.Type().Underlying().(*types.Map)
		if !ok || !c11nIsInt(m.Elem()) {
			return nil
		}
		return v
	}
	emptyMap := func(x ast.Expr) bool {
		switch y := ast.Unparen(x).(type) {
		case *ast.CallExpr:
			return e.isBuiltin(y, "make")
		case *ast.CompositeLit:
			return len(y.Elts) == 0
		}
		return false
	}
	var stack []ast.Node
	lits := 0
	ast.Inspect(e.f.Body, func(n ast.Node) bool {
		if n == nil {
			if _, ok := stack[len(stack)-1].(*ast.FuncLit); ok {
				lits--
			}
			stack = stack[:len(stack)-1]
			return true
		}
		if _, ok := n.(*ast.FuncLit); ok {
			lits++
		}
		var par, gpar ast.Node
		if len(stack) > 0 {
			par = stack[len(stack)-1]
		}
		if len(stack) > 1 {
			gpar = stack[len(stack)-2]
		}
		stack = append(stack, n)
		// assigned paths
		note := func(l ast.Expr, r ast.Expr) {
			p := strings.TrimPrefix(e.path(l), "*")
			if p == "" {
				return
			}
			if call, ok := ast.Unparen(r).(*ast.CallExpr); ok && r != nil && e.isBuiltin(call, "append") && len(call.Args) >= 1 &&
				strings.TrimPrefix(e.path(call.Args[0]), "*") == p {
				return
			}
			e.fixed[p] = true
		}
		switch y := n.(type) {
		case *ast.AssignStmt:
			for i, l := range y.Lhs {
				var r ast.Expr
				if len(y.Lhs) == len(y.Rhs) {
					r = y.Rhs[i]
				}
				if r == nil {
					r = &ast.BadExpr{}
				}
				note(l, r)
			}
		case *ast.IncDecStmt:
			note(y.X, &ast.BadExpr{})
		case *ast.RangeStmt:
			for _, l := range []ast.Expr{y.Key, y.Value} {
				if l != nil {
					note(l, &ast.BadExpr{})
				}
			}
		case *ast.ValueSpec:
			for _, nm := range y.Names {
				note(nm, &ast.BadExpr{})
			}
		}
		id, ok := n.(*ast.Ident)
		if !ok {
			return true
		}
		v := cand(id)
		if v == nil {
			return true
		}
		e.maps[v] = true
		if lits > 0 {
			bad[v] = true
			return true
		}
		switch y := par.(type) {
		case *ast.IndexExpr:
			if y.X != ast.Expr(id) {
				bad[v] = true
				break
			}
			switch g := gpar.(type) {
			case *ast.IncDecStmt:
				bad[v] = true
			case *ast.AssignStmt:
				if g.Tok != token.ASSIGN && g.Tok != token.DEFINE {
					for _, l := range g.Lhs {
						if l == ast.Expr(y) {
							bad[v] = true
						}
					}
				}
			case *ast.UnaryExpr:
				if g.Op == token.AND {
					bad[v] = true
				}
			}
		case *ast.CallExpr:
			if !(e.isBuiltin(y, "len") || e.isBuiltin(y, "delete") || e.isBuiltin(y, "clear")) {
				bad[v] = true
			}
		case *ast.RangeStmt:
			if y.X != ast.Expr(id) {
				bad[v] = true
			}
		case *ast.AssignStmt:
			okDef := false
			if len(y.Lhs) == len(y.Rhs) {
				for i, l := range y.Lhs {
					if l == ast.Expr(id) && emptyMap(y.Rhs[i]) {
						okDef = true
					}
				}
			}
			if !okDef {
				bad[v] = true
			}
		case *ast.ValueSpec:
			okDef := false
			for i, nm := range y.Names {
				if nm == id && (len(y.Values) == 0 || len(y.Values) == len(y.Names) && emptyMap(y.Values[i])) {
					okDef = true
				}
			}
			if !okDef {
				bad[v] = true
			}
		default:
			bad[v] = true
		}
		return true
	})
	for v := range bad {
		delete(e.maps, v)
	}
}

// stable reports whether the length of path x can only grow in this function.
func (e *c11nEng) stable(x string) bool {
	if strings.HasPrefix(x, "*") {
		return false
	}
	for p := range e.fixed {
		if p == x || strings.HasPrefix(x, p+".") || strings.HasPrefix(p, x+".") {
			return false
		}
	}
	return true
}

// mapOf returns the reasoned-about map an expression denotes.
func (e *c11nEng) mapOf(x ast.Expr) *types.Var {
	if v := e.local(x); v != nil && e.maps[v] {
		return v
	}
	return nil
}

// initState: integer parameters hold values the engine does not follow.
func (e *c11nEng) initState() kit.S {
	s := kit.NewS()
	mark := func(fl *ast.FieldList) {
		if fl == nil {
			return
		}
		for _, f := range fl.List {
			for _, nm := range f.Names {
				if t := e.term(nm); t != "" {
					s = s.Set("op:"+t, "T")
				}
			}
		}
	}
	mark(e.f.Type.Params)
	if e.f.Decl != nil {
		mark(e.f.Decl.Recv)
	}
	return s
}

func (e *c11nEng) addSite(x ast.Expr, what string) {
	if _, ok := e.sites[x]; !ok {
		e.sites[x] = &c11nSite{expr: x, what: what, by: map[string]bool{}}
		e.order = append(e.order, x)
	}
}

// local returns the variable an identifier denotes when the engine may track
// it: declared inside the function, not a field, not excluded by prepare.
func (e *c11nEng) local(x ast.Expr) *types.Var {
	id, ok := ast.Unparen(x).(*ast.Ident)
	if !ok {
		return nil
	}
	v, ok := kit.ObjOf(e.info, id).(*types.Var)
	if !ok || v.IsField() || e.untrack[v] || v.Pos() < e.lo || v.Pos() > e.hi {
		return nil
	}
	return v
}

func c11nIsInt(t types.Type) bool {
	if t == nil {
		return false
	}
	b, ok := t.Underlying().(*types.Basic)
	return ok && b.Info()&types.IsInteger != 0
}

// term names a tracked integer variable.
func (e *c11nEng) term(x ast.Expr) string {
	if v := e.local(x); v != nil && c11nIsInt(v.Type()) {
		return kit.VarID(v)
	}
	return ""
}

// path names a variable or a field path rooted at a tracked variable; paths
// that pass through a pointer start with "*" (their facts do not survive calls
// and stores through pointers).
func (e *c11nEng) path(x ast.Expr) string {
	switch y := ast.Unparen(x).(type) {
	case *ast.Ident:
		if v := e.local(y); v != nil {
			if _, isPtr := v.Type().Underlying().(*types.Pointer); isPtr {
				return "*" + kit.VarID(v)
			}
			return kit.VarID(v)
		}
	case *ast.SelectorExpr:
		sel, ok := e.info.Selections[y]
		if !ok || sel.Kind() != types.FieldVal {
			return ""
		}
		b := e.path(y.X)
		if b == "" {
			return ""
		}
		if sel.Indirect() && !strings.HasPrefix(b, "*") {
			b = "*" + b
		}
		p := b + "." + y.Sel.Name
		if _, isPtr := sel.Type().Underlying().(*types.Pointer); isPtr && !strings.HasPrefix(p, "*") {
			p = "*" + p
		}
		return p
	case *ast.StarExpr:
		return e.path(y.X)
	}
	return ""
}

// seq names a sequence-typed path.
func (e *c11nEng) seq(x ast.Expr) string {
	if ok, _ := c11nSeqType(e.info.TypeOf(x)); !ok {
		return ""
	}
	return e.path(x)
}

func c11nGet(s kit.S, k string) *int64 {
	v := s.Get(k)
	if v == "" {
		return nil
	}
	n, err := strconv.ParseInt(v, 10, 64)
	if err != nil {
		return nil
	}
	return &n
}

func c11nSet(s kit.S, k string, v int64) kit.S { return s.Set(k, strconv.FormatInt(v, 10)) }

// ll returns the known minimum length of sequence x.
func (e *c11nEng) ll(s kit.S, x string) int64 {
	if v := c11nGet(s, "ll:"+x); v != nil {
		return *v
	}
	return 0
}

// setLL raises the minimum length (kept within 0..3: weaker facts are sound).
func (e *c11nEng) setLL(s kit.S, x string, v int64) kit.S {
	if v > 3 {
		v = 3
	}
	if v > e.ll(s, x) {
		s = c11nSet(s, "ll:"+x, v)
	}
	return s
}

// setLb raises the lower bound of a term (window -2..2) and the minimum
// length of the sequence the term is an alias of.
func (e *c11nEng) setLb(s kit.S, t string, v int64) kit.S {
	if v < -2 {
		return s
	}
	if al := s.Get("eq:" + t); al != "" {
		if j := strings.LastIndexByte(al, '|'); j > 0 {
			if off, err := strconv.ParseInt(al[j+1:], 10, 64); err == nil {
				s = e.setLL(s, al[:j], v-off)
			}
		}
	}
	if v > 2 {
		v = 2
	}
	if cur := c11nGet(s, "lb:"+t); cur == nil || *cur < v {
		s = c11nSet(s, "lb:"+t, v)
	}
	return s
}

// setUl lowers the length-relative upper bound (window -2..2).
func (e *c11nEng) setUl(s kit.S, t, x string, d int64) kit.S {
	if d > 2 {
		return s
	}
	if d < -2 {
		d = -2
	}
	k := "ul:" + t + "|" + x
	if cur := c11nGet(s, k); cur == nil || *cur > d {
		s = c11nSet(s, k, d)
	}
	return s
}

func (e *c11nEng) setUb(s kit.S, t string, v int64) kit.S {
	if v > 1<<16 {
		return s
	}
	if v < -2 {
		v = -2
	}
	if cur := c11nGet(s, "ub:"+t); cur == nil || *cur > v {
		s = c11nSet(s, "ub:"+t, v)
	}
	return s
}

func (e *c11nEng) termFacts(s kit.S, t string) c11nBound {
	b := c11nBound{lb: c11nGet(s, "lb:"+t), ub: c11nGet(s, "ub:"+t), known: s.Get("op:"+t) != "T"}
	pre := "ul:" + t + "|"
	for _, k := range s.Keys() {
		if strings.HasPrefix(k, pre) {
			if b.ul == nil {
				b.ul = map[string]int64{}
			}
			b.ul[k[len(pre):]] = *c11nGet(s, k)
		}
	}
	if al := s.Get("eq:" + t); al != "" {
		if j := strings.LastIndexByte(al, '|'); j > 0 {
			if off, err := strconv.ParseInt(al[j+1:], 10, 64); err == nil {
				x := al[:j]
				b.lenOf, b.off = x, off
				if v := e.ll(s, x) + off; b.lb == nil || *b.lb < v {
					b.lb = c11nI(v)
				}
				if b.ul == nil {
					b.ul = map[string]int64{}
				}
				if d, ok := b.ul[x]; !ok || d > off {
					b.ul[x] = off
				}
			}
		}
	}
	return b
}

// shift returns the facts of b + c under Go's wrap-around arithmetic: a lower
// bound survives an addition only when an upper bound excludes wrapping, and
// the upper facts survive a subtraction only when a lower bound exists.
func c11nShift(b c11nBound, c int64) c11nBound {
	if c == 0 {
		return b
	}
	out := c11nBound{known: b.known}
	hasUp := b.ub != nil || len(b.ul) > 0
	if c > 0 && !hasUp || c < 0 && b.lb == nil {
		return out
	}
	if b.lb != nil {
		out.lb = c11nI(*b.lb + c)
	}
	if b.ub != nil {
		out.ub = c11nI(*b.ub + c)
	}
	for x, d := range b.ul {
		if out.ul == nil {
			out.ul = map[string]int64{}
		}
		out.ul[x] = d + c
	}
	if b.lenOf != "" {
		out.lenOf, out.off = b.lenOf, b.off+c
	}
	return out
}

func (e *c11nEng) isBuiltin(call *ast.CallExpr, name string) bool {
	b, ok := kit.Callee(e.info, call).(*types.Builtin)
	return ok && b.Name() == name
}

// bounds evaluates an integer expression in state s.
func (e *c11nEng) bounds(x ast.Expr, s kit.S) c11nBound {
	x = ast.Unparen(x)
	if c, ok := kit.ConstInt(e.info, x); ok {
		return c11nBound{lb: c11nI(c), ub: c11nI(c), known: true}
	}
	var b c11nBound
	switch y := x.(type) {
	case *ast.Ident:
		if t := e.term(y); t != "" {
			b = e.termFacts(s, t)
		}
	case *ast.BinaryExpr:
		if y.Op == token.ADD || y.Op == token.SUB {
			if c, ok := kit.ConstInt(e.info, y.Y); ok {
				if y.Op == token.SUB {
					c = -c
				}
				b = c11nShift(e.bounds(y.X, s), c)
			} else if c, ok := kit.ConstInt(e.info, y.X); ok && y.Op == token.ADD {
				b = c11nShift(e.bounds(y.Y, s), c)
			}
		}
	case *ast.CallExpr:
		switch {
		case e.isBuiltin(y, "len") && len(y.Args) == 1:
			if _, n := c11nSeqType(e.info.TypeOf(y.Args[0])); n >= 0 {
				return c11nBound{lb: c11nI(n), ub: c11nI(n), known: true}
			}
			b = c11nBound{lb: c11nI(0), known: true}
			if sq := e.seq(y.Args[0]); sq != "" {
				b.lb = c11nI(e.ll(s, sq))
				b.ul = map[string]int64{sq: 0}
				b.lenOf = sq
			} else if ok, _ := c11nSeqType(e.info.TypeOf(y.Args[0])); !ok {
				b.known = false // len of a map or channel is not related to a sequence
				b.lb = c11nI(0)
			}
		case e.isBuiltin(y, "cap") && len(y.Args) == 1:
			b = c11nBound{lb: c11nI(0)}
		case kit.CallIs(e.info, y, c11nIndexFuncs...) && len(y.Args) >= 1:
			// library contract: -1 (not found) or a position inside the first argument
			b = c11nBound{lb: c11nI(-1)}
			if sq := e.seq(y.Args[0]); sq != "" {
				b.ul = map[string]int64{sq: -1}
				b.known = true
			}
		case e.isBuiltin(y, "min") && len(y.Args) >= 1:
			// min(a, b, …) is below each argument and above the least lower bound
			b = c11nBound{known: true}
			for i, a := range y.Args {
				ab := e.bounds(a, s)
				b.known = b.known && ab.known
				if i == 0 {
					b.lb = ab.lb
				} else if ab.lb == nil || b.lb != nil && *ab.lb < *b.lb {
					b.lb = ab.lb
				}
				if ab.ub != nil && (b.ub == nil || *ab.ub < *b.ub) {
					b.ub = ab.ub
				}
				for sq, d := range ab.ul {
					if b.ul == nil {
						b.ul = map[string]int64{}
					}
					if cur, ok := b.ul[sq]; !ok || d < cur {
						b.ul[sq] = d
					}
				}
			}
		default:
			// a conversion between integer types of at least int width keeps the value
			if tv, ok := e.info.Types[y.Fun]; ok && tv.IsType() && len(y.Args) == 1 {
				if bt, ok := tv.Type.Underlying().(*types.Basic); ok && (bt.Kind() == types.Int || bt.Kind() == types.Int64) {
					if c11nIsInt(e.info.TypeOf(y.Args[0])) && e.info.TypeOf(y.Args[0]).Underlying().(*types.Basic).Info()&types.IsUnsigned == 0 {
						b = e.bounds(y.Args[0], s)
					}
				}
			}
		}
	}
	if ix, ok := x.(*ast.IndexExpr); ok && e.inv != nil {
		// element of a local map: a stored value (all of them valid indexes) or zero
		if m := e.mapOf(ix.X); m != nil && e.inv[m] != nil {
			b = c11nBound{lb: c11nI(0), known: true}
		}
	}
	// the type bounds the value
	if xt := e.info.TypeOf(x); xt == nil {
		return b
	} else if bt, ok := xt.Underlying().(*types.Basic); ok && bt.Info()&types.IsUnsigned != 0 {
		if b.lb == nil || *b.lb < 0 {
			b.lb = c11nI(0)
		}
		if bt.Kind() == types.Uint8 && (b.ub == nil || *b.ub > 255) {
			b.ub = c11nI(255)
		}
	}
	return b
}

// c11nIndexFuncs return -1 or an index into their first argument.
var c11nIndexFuncs = []string{
	"strings.Index", "strings.IndexByte", "strings.IndexRune", "strings.IndexAny", "strings.IndexFunc",
	"strings.LastIndex", "strings.LastIndexByte", "strings.LastIndexAny", "strings.LastIndexFunc",
	"bytes.Index", "bytes.IndexByte", "bytes.IndexRune", "bytes.IndexAny", "bytes.IndexFunc",
	"bytes.LastIndex", "bytes.LastIndexByte", "bytes.LastIndexAny", "bytes.LastIndexFunc",
}

// killTerm forgets the facts of a term.
func (e *c11nEng) killTerm(s kit.S, t string) kit.S {
	for _, k := range s.Keys() {
		if k == "lb:"+t || k == "ub:"+t || k == "eq:"+t || k == "nw:"+t || k == "op:"+t || strings.HasPrefix(k, "ul:"+t+"|") ||
			strings.HasPrefix(k, "pv:") && strings.HasPrefix(s.Get(k), t+"|") {
			s = s.Del(k)
		}
	}
	return s
}

// killPath forgets the facts about the length of p and of the paths below it;
// grown: the length only grew (append to itself), so upper facts relative to
// it and its minimum stay valid.
func (e *c11nEng) killPath(s kit.S, p string, grown bool) kit.S {
	bare := strings.TrimPrefix(p, "*")
	hit := func(x string) bool {
		x = strings.TrimPrefix(x, "*")
		return x == bare || strings.HasPrefix(x, bare+".")
	}
	for _, k := range s.Keys() {
		switch {
		case strings.HasPrefix(k, "ll:"):
			if !grown && hit(k[3:]) {
				s = s.Del(k)
			}
		case strings.HasPrefix(k, "ul:"):
			if j := strings.IndexByte(k, '|'); j > 0 && !grown && hit(k[j+1:]) {
				s = s.Del(k)
			}
		case strings.HasPrefix(k, "eq:"):
			v := s.Get(k)
			if j := strings.LastIndexByte(v, '|'); j > 0 && hit(v[:j]) {
				if grown {
					// t == len(x)+off becomes t <= len(x)+off
					if off, err := strconv.ParseInt(v[j+1:], 10, 64); err == nil {
						t := k[3:]
						if lb := e.termFacts(s, t).lb; lb != nil {
							s = s.Del(k)
							s = e.setLb(s, t, *lb)
						} else {
							s = s.Del(k)
						}
						s = e.setUl(s, t, v[:j], off)
						continue
					}
				}
				s = s.Del(k)
			}
		}
	}
	return s
}

// killVolatile forgets what is known about sequences reached through pointers.
func (e *c11nEng) killVolatile(s kit.S) kit.S {
	for _, k := range s.Keys() {
		switch {
		case strings.HasPrefix(k, "ll:*"):
			s = s.Del(k)
		case strings.HasPrefix(k, "ul:"):
			if j := strings.IndexByte(k, '|'); j > 0 && strings.HasPrefix(k[j+1:], "*") {
				s = s.Del(k)
			}
		case strings.HasPrefix(k, "eq:"):
			if strings.HasPrefix(s.Get(k), "*") {
				s = s.Del(k)
			}
		}
	}
	return s
}

// store replaces the facts of term t.
func (e *c11nEng) store(s kit.S, t string, b c11nBound) kit.S {
	s = e.killTerm(s, t)
	if !b.known {
		s = s.Set("op:"+t, "T") // a value the engine does not follow
	}
	aliased := b.lenOf != "" && b.off >= -3 && b.off <= 3
	if aliased {
		s = s.Set("eq:"+t, b.lenOf+"|"+strconv.FormatInt(b.off, 10))
	}
	if b.lb != nil {
		s = e.setLb(s, t, *b.lb)
	}
	if b.ub != nil {
		s = e.setUb(s, t, *b.ub)
	}
	xs := make([]string, 0, len(b.ul))
	for x := range b.ul {
		xs = append(xs, x)
	}
	sort.Strings(xs)
	for _, x := range xs {
		if aliased && x == b.lenOf {
			continue // carried by the alias
		}
		s = e.setUl(s, t, x, b.ul[x])
	}
	return s
}

// selfShift is t = t + off: widened so that loops converge (an increment
// forgets the constant upper bound, the loop condition re-establishes it; a
// decrement keeps the old constant upper bound, which is weaker).
func (e *c11nEng) selfShift(s kit.S, t string, off int64) kit.S {
	old := e.termFacts(s, t)
	nb := c11nShift(old, off)
	if off == 1 && nb.lb == nil && old.lb != nil && s.Get("nw:"+t) == "T" {
		// t < something was established: t+1 does not wrap
		nb.lb = c11nI(*old.lb + 1)
	}
	if off > 0 {
		nb.ub = nil
	} else if old.lb != nil {
		nb.ub = old.ub
	}
	return e.store(s, t, nb)
}

// applyLE refines s with A <= B + c; ok=false: the fact contradicts the state.
func (e *c11nEng) applyLE(s kit.S, A, B ast.Expr, c int64) (kit.S, bool) {
	bA, bB := e.bounds(A, s), e.bounds(B, s)
	if bA.lb != nil && bB.ub != nil && *bA.lb > *bB.ub+c {
		return s, false
	}
	split := func(x ast.Expr) (t string, sq string, off int64) {
		x = ast.Unparen(x)
		if be, ok := x.(*ast.BinaryExpr); ok && (be.Op == token.ADD || be.Op == token.SUB) {
			if k, ok := kit.ConstInt(e.info, be.Y); ok {
				if be.Op == token.SUB {
					k = -k
				}
				off, x = k, ast.Unparen(be.X)
			}
		}
		if t = e.term(x); t != "" {
			return
		}
		if call, ok := x.(*ast.CallExpr); ok && e.isBuiltin(call, "len") && len(call.Args) == 1 {
			sq = e.seq(call.Args[0])
		}
		return
	}
	tA, _, oA := split(A)
	tB, qB, oB := split(B)
	if tA != "" {
		// tA <= B + c - oA; subtracting needs no wrap on tA + oA, which a
		// comparison evaluated by Go on the wrapped value may not give; the
		// offsets used in bounds tests are tiny and the operands bounded by
		// lengths, so only facts with a known side are transferred
		k := c - oA
		if oA == 0 && c <= -1 {
			s = s.Set("nw:"+tA, "T") // strictly below a value of its type
		}
		if bB.ub != nil {
			s = e.setUb(s, tA, *bB.ub+k)
		}
		xs := make([]string, 0, len(bB.ul))
		for x := range bB.ul {
			xs = append(xs, x)
		}
		sort.Strings(xs)
		for _, x := range xs {
			s = e.setUl(s, tA, x, bB.ul[x]+k)
		}
	}
	if tB != "" && bA.lb != nil {
		s = e.setLb(s, tB, *bA.lb-c-oB)
	}
	if qB != "" && bA.lb != nil {
		s = e.setLL(s, qB, *bA.lb-c-oB)
	}
	return s, true
}

// refine applies `A op B` being true.
func (e *c11nEng) refine(s kit.S, A, B ast.Expr, op token.Token) (kit.S, bool) {
	switch op {
	case token.LSS:
		return e.applyLE(s, A, B, -1)
	case token.LEQ:
		return e.applyLE(s, A, B, 0)
	case token.GTR:
		return e.applyLE(s, B, A, -1)
	case token.GEQ:
		return e.applyLE(s, B, A, 0)
	case token.EQL:
		s, ok := e.applyLE(s, A, B, 0)
		if !ok {
			return s, false
		}
		return e.applyLE(s, B, A, 0)
	case token.NEQ:
		// x != k with x >= k is x >= k+1 (and the mirror image)
		for _, p := range [][2]ast.Expr{{A, B}, {B, A}} {
			k, ok := kit.ConstInt(e.info, ast.Unparen(p[1]))
			if !ok {
				continue
			}
			b := e.bounds(p[0], s)
			if b.lb != nil && b.ub != nil && *b.lb == k && *b.ub == k {
				return s, false
			}
			if b.lb != nil && *b.lb == k {
				return e.applyLE(s, p[1], p[0], -1)
			}
		}
	}
	return s, true
}

func c11nNeg(op token.Token) token.Token {
	switch op {
	case token.LSS:
		return token.GEQ
	case token.LEQ:
		return token.GTR
	case token.GTR:
		return token.LEQ
	case token.GEQ:
		return token.LSS
	case token.EQL:
		return token.NEQ
	case token.NEQ:
		return token.EQL
	}
	return token.ILLEGAL
}

// leaf is the condition leaf handler: the sites inside the leaf are judged in
// the state the short-circuit evaluation reaches it with, then integer
// comparisons refine both edges.
func (e *c11nEng) leaf(x ast.Expr, s kit.S) (t, f []kit.S, handled bool) {
	e.scan(x, s)
	s = e.effects(x, s)
	if id, ok := ast.Unparen(x).(*ast.Ident); ok {
		// the comma-ok result of a lookup in a local map: on the true edge the
		// value is one that was stored
		if v, ok := kit.ObjOf(e.info, id).(*types.Var); ok {
			if pv := s.Get("pv:" + kit.VarID(v)); pv != "" {
				j := strings.IndexByte(pv, '|')
				st := s
				for _, sq := range strings.Split(pv[j+1:], ",") {
					st = e.setUl(st, pv[:j], sq, -1)
				}
				return []kit.S{st}, []kit.S{s}, true
			}
		}
	}
	if a, b, op, ok := kit.CmpAtom(x); ok && c11nIsInt(e.info.TypeOf(a)) && c11nIsInt(e.info.TypeOf(b)) {
		if st, ok := e.refine(s, a, b, op); ok {
			t = append(t, st)
		}
		if sf, ok := e.refine(s, a, b, c11nNeg(op)); ok {
			f = append(f, sf)
		}
		return t, f, true
	}
	return []kit.S{s}, []kit.S{s}, true
}

// scan judges the sites of one CFG node (or condition leaf) in state s.
func (e *c11nEng) scan(n ast.Node, s kit.S) {
	ast.Inspect(n, func(m ast.Node) bool {
		switch y := m.(type) {
		case *ast.FuncLit:
			return false
		case *ast.BinaryExpr:
			if (y.Op == token.LAND || y.Op == token.LOR) && m != n {
				e.ce.Eval(y, s) // the leaves are scanned in short-circuit order
				return false
			}
			if y.Op == token.LAND || y.Op == token.LOR {
				e.scan(y.X, s)
				ts, fs := e.ce.Eval(y.X, s)
				if y.Op == token.LOR {
					ts = fs
				}
				for _, st := range ts {
					e.scan(y.Y, st)
				}
				return false
			}
		case *ast.IndexExpr:
			if st := e.sites[y]; st != nil {
				e.checkIndex(st, y, s)
			}
		case *ast.SliceExpr:
			if st := e.sites[y]; st != nil {
				e.checkSlice(st, y, s)
			}
		}
		return true
	})
}

func (st *c11nSite) fail(format string, a ...any) {
	if st.bad == "" {
		st.bad = fmt.Sprintf(format, a...)
	}
}

func (st *c11nSite) undecided(format string, a ...any) {
	if st.und == "" {
		st.und = fmt.Sprintf(format, a...)
	}
}

const c11nConsequence = "the length of this sequence is chosen by whoever sends the points, so decoding/merging panics with 'index out of range' instead of returning an error"

func (e *c11nEng) checkIndex(st *c11nSite, ix *ast.IndexExpr, s kit.S) {
	st.states++
	_, n := c11nSeqType(e.info.TypeOf(ix.X))
	sq := e.seq(ix.X)
	b := e.bounds(ix.Index, s)
	lower := b.lb != nil && *b.lb >= 0
	upper, how := false, ""
	switch {
	case n >= 0:
		upper, how = b.ub != nil && *b.ub < n, fmt.Sprintf("index below the array length %d", n)
	case sq != "":
		if d, ok := b.ul[sq]; ok && d <= -1 {
			upper, how = true, "index < len() of the same sequence by assignment, loop bound or dominating comparison"
		} else if b.ub != nil && *b.ub < e.ll(s, sq) {
			upper, how = true, "constant index below the established minimum length"
		}
	}
	idx, seqs := e.f.Str(ix.Index), e.f.Str(ix.X)
	switch {
	case lower && upper:
		st.by["index >= 0; "+how] = true
	case !b.known:
		st.undecided("the index %s is not derived from constants, len() of a path, loop counters and ± constants only (parameter, call result, field or container element): its bounds are not followed", idx)
	case n < 0 && sq == "":
		st.undecided("the indexed sequence %s is not a local variable or a field path of one; its length is not followed", seqs)
	case !lower:
		was := "has no lower bound on this path"
		if b.lb != nil {
			was = fmt.Sprintf("may be %d on this path", *b.lb)
		}
		st.fail("%s[%s]: the index %s (0 is not established before the element is read: a decrement, a subtraction from len() of an empty sequence or a scan that runs past the first element); %s",
			seqs, idx, was, c11nConsequence)
	default:
		st.fail("%s[%s]: the index is not bounded above by len(%s) on this path (no loop bound, assignment from len() or dominating comparison against the same sequence); %s",
			seqs, idx, seqs, c11nConsequence)
	}
}

func (e *c11nEng) checkSlice(st *c11nSite, sx *ast.SliceExpr, s kit.S) {
	st.states++
	_, n := c11nSeqType(e.info.TypeOf(sx.X))
	sq := e.seq(sx.X)
	seqs := e.f.Str(sx.X)
	var prev *c11nBound
	var prevX ast.Expr
	for _, p := range []ast.Expr{sx.Low, sx.High, sx.Max} {
		if p == nil {
			continue
		}
		b := e.bounds(p, s)
		ps := e.f.Str(p)
		if (b.lb == nil || *b.lb < 0) && !b.known {
			st.undecided("the bound %s is not derived from constants, len() of a path, loop counters and ± constants only (parameter, call result, field or container element): it is not followed", ps)
			return
		}
		if b.lb == nil || *b.lb < 0 {
			was := "has no lower bound"
			if b.lb != nil {
				was = fmt.Sprintf("may be %d", *b.lb)
			}
			st.fail("%s[%s]: the bound %s %s on this path; %s", seqs, e.sliceStr(sx), ps, was, c11nConsequence)
			return
		}
		if prev != nil && !kit.SameExpr(e.info, prevX, p) && !(prev.ub != nil && *prev.ub <= *b.lb) {
			ordered := false
			for x, d := range prev.ul {
				// prev <= len(x)+d and p == len(x)+off with d <= off
				if b.lenOf == x && d <= b.off {
					ordered = true
				}
			}
			if !ordered && !(prev.known && b.known) {
				st.undecided("%s[%s]: %s <= %s is not established and one of them is a value the engine does not follow", seqs, e.sliceStr(sx), e.f.Str(prevX), ps)
				return
			}
			if !ordered {
				st.fail("%s[%s]: %s <= %s is not established on this path (a high bound below the low bound panics); %s",
					seqs, e.sliceStr(sx), e.f.Str(prevX), ps, c11nConsequence)
				return
			}
		}
		bb := b
		prev, prevX = &bb, p
	}
	if prev == nil {
		st.by["x[:] has no bounds"] = true
		return
	}
	// the last bound given must not exceed len() (for a slice the limit is
	// cap(), which is at least len(): proving len() suffices)
	ok := false
	switch {
	case n >= 0:
		ok = prev.ub != nil && *prev.ub <= n
	case sq != "":
		if d, has := prev.ul[sq]; has && d <= 0 {
			ok = true
		} else if prev.ub != nil && *prev.ub <= e.ll(s, sq) {
			ok = true
		}
	default:
		st.undecided("the sliced sequence %s is not a local variable or a field path of one; its length is not followed", seqs)
		return
	}
	if !ok && !prev.known {
		st.undecided("%s[%s]: the bound %s is a value the engine does not follow (parameter, call result, field or container element)", seqs, e.sliceStr(sx), e.f.Str(prevX))
		return
	}
	if !ok {
		st.fail("%s[%s]: the bound %s is not bounded above by len(%s) on this path; %s", seqs, e.sliceStr(sx), e.f.Str(prevX), seqs, c11nConsequence)
		return
	}
	st.by["0 <= low <= high <= len() of the same sequence"] = true
}

func (e *c11nEng) sliceStr(sx *ast.SliceExpr) string {
	var parts []string
	for i, p := range []ast.Expr{sx.Low, sx.High, sx.Max} {
		if p == nil {
			if i < 2 {
				parts = append(parts, "")
			}
			continue
		}
		parts = append(parts, e.f.Str(p))
	}
	return strings.Join(parts, ":")
}

// effects applies what a node does to paths reached through pointers.
func (e *c11nEng) effects(n ast.Node, s kit.S) kit.S {
	vol := false
	ast.Inspect(n, func(m ast.Node) bool {
		switch y := m.(type) {
		case *ast.FuncLit:
			return false
		case *ast.CallExpr:
			if _, isB := kit.Callee(e.info, y).(*types.Builtin); isB {
				return true
			}
			if tv, ok := e.info.Types[y.Fun]; ok && tv.IsType() {
				return true
			}
			vol = true
		}
		return true
	})
	if vol {
		s = e.killVolatile(s)
	}
	return s
}

// node is the transfer function of a non-branch CFG node.
func (e *c11nEng) node(n ast.Node, s kit.S) []kit.S {
	e.scan(n, s)
	s = e.effects(n, s)
	switch y := n.(type) {
	case *ast.AssignStmt:
		s = e.assign(y, s)
	case *ast.IncDecStmt:
		if t := e.term(y.X); t != "" {
			off := int64(1)
			if y.Tok == token.DEC {
				off = -1
			}
			s = e.selfShift(s, t, off)
		}
	case *ast.ValueSpec:
		for i, nm := range y.Names {
			t := e.term(nm)
			switch {
			case t != "" && len(y.Values) == len(y.Names):
				s = e.store(s, t, e.bounds(y.Values[i], s))
			case t != "" && len(y.Values) == 0:
				s = e.store(s, t, c11nBound{lb: c11nI(0), ub: c11nI(0), known: true})
			case t != "":
				s = e.killTerm(s, t)
			default:
				if p := e.path(nm); p != "" {
					s = e.killPath(s, p, false)
				}
			}
		}
	case *ast.Ident:
		// range key/value placeholder in front of the loop head
		if rs, ok := e.f.Prog.Parent(e.f.File, y).(*ast.RangeStmt); ok && (rs.Key == ast.Expr(y) || rs.Value == ast.Expr(y)) {
			s = e.killLhs(s, y)
		}
	}
	return []kit.S{s}
}

// killLhs forgets what is known about an assigned location.
func (e *c11nEng) killLhs(s kit.S, l ast.Expr) kit.S {
	if t := e.term(l); t != "" {
		return e.killTerm(s, t).Set("op:"+t, "T")
	}
	if v := e.local(l); v != nil {
		s = s.Del("pv:" + kit.VarID(v))
	}
	switch ast.Unparen(l).(type) {
	case *ast.IndexExpr:
		return s // element store: no length changes
	case *ast.StarExpr:
		return e.killVolatile(s)
	}
	if p := e.path(l); p != "" {
		if strings.HasPrefix(p, "*") {
			s = e.killVolatile(s)
		}
		return e.killPath(s, p, false)
	}
	return s
}

func (e *c11nEng) assign(as *ast.AssignStmt, s kit.S) kit.S {
	pre := s
	// stores into a local map: which sequences is every stored value an index of?
	if e.collect != nil && len(as.Lhs) == len(as.Rhs) {
		for i, l := range as.Lhs {
			ix, ok := ast.Unparen(l).(*ast.IndexExpr)
			if !ok {
				continue
			}
			m := e.mapOf(ix.X)
			if m == nil {
				continue
			}
			e.stores[m]++
			b := e.bounds(as.Rhs[i], pre)
			set := map[string]bool{}
			if b.lb != nil && *b.lb >= 0 && as.Tok == token.ASSIGN {
				for sq, d := range b.ul {
					if d <= -1 && e.stable(sq) {
						set[sq] = true
					}
				}
			}
			if cur, seen := e.collect[m]; !seen {
				e.collect[m] = set
			} else {
				for sq := range cur {
					if !set[sq] {
						delete(cur, sq)
					}
				}
			}
		}
	}
	// v, ok := m[k] on such a map
	if e.inv != nil && len(as.Lhs) == 2 && len(as.Rhs) == 1 {
		if ix, ok := ast.Unparen(as.Rhs[0]).(*ast.IndexExpr); ok {
			if m := e.mapOf(ix.X); m != nil && e.inv[m] != nil {
				if t, okv := e.term(as.Lhs[0]), e.local(as.Lhs[1]); t != "" && okv != nil {
					s = e.killLhs(s, as.Lhs[1])
					s = e.store(s, t, c11nBound{lb: c11nI(0), known: true})
					var sqs []string
					for sq := range e.inv[m] {
						sqs = append(sqs, sq)
					}
					sort.Strings(sqs)
					return s.Set("pv:"+kit.VarID(okv), t+"|"+strings.Join(sqs, ","))
				}
			}
		}
	}
	switch {
	case len(as.Lhs) == len(as.Rhs) && (as.Tok == token.ASSIGN || as.Tok == token.DEFINE):
		for i, l := range as.Lhs {
			r := as.Rhs[i]
			if t := e.term(l); t != "" {
				// t = t ± c keeps the relation to the lengths
				if be, ok := ast.Unparen(r).(*ast.BinaryExpr); ok && (be.Op == token.ADD || be.Op == token.SUB) && e.term(be.X) == t {
					if c, ok := kit.ConstInt(e.info, be.Y); ok {
						if be.Op == token.SUB {
							c = -c
						}
						s = e.selfShift(s, t, c)
						continue
					}
				}
				s = e.store(s, t, e.bounds(r, pre))
				continue
			}
			p := e.path(l)
			if p == "" {
				s = e.killLhs(s, l)
				continue
			}
			if ok, _ := c11nSeqType(e.info.TypeOf(l)); !ok {
				s = e.killLhs(s, l)
				continue
			}
			// x = append(x, …): the length only grows
			if call, ok := ast.Unparen(r).(*ast.CallExpr); ok && e.isBuiltin(call, "append") && len(call.Args) >= 1 && e.path(call.Args[0]) == p {
				s = e.killPath(s, p, true)
				if !call.Ellipsis.IsValid() {
					s = e.setLL(s, p, e.ll(s, p)+int64(len(call.Args)-1))
				}
				continue
			}
			s = e.killLhs(s, l)
			// x := make([]T, n): len(x) == n
			if call, ok := ast.Unparen(r).(*ast.CallExpr); ok && e.isBuiltin(call, "make") && len(call.Args) >= 2 {
				nb := e.bounds(call.Args[1], pre)
				if nb.lb != nil {
					s = e.setLL(s, p, *nb.lb)
				}
				if t := e.term(call.Args[1]); t != "" && s.Get("eq:"+t) == "" {
					s = s.Set("eq:"+t, p+"|0")
				}
			}
			// x := y[lo:hi] with constant lo and hi == len-relative is not followed
		}
	case len(as.Lhs) == 1 && len(as.Rhs) == 1 && (as.Tok == token.ADD_ASSIGN || as.Tok == token.SUB_ASSIGN):
		if t := e.term(as.Lhs[0]); t != "" {
			if c, ok := kit.ConstInt(e.info, as.Rhs[0]); ok {
				if as.Tok == token.SUB_ASSIGN {
					c = -c
				}
				s = e.selfShift(s, t, c)
			} else {
				s = e.killTerm(s, t)
			}
		} else {
			s = e.killLhs(s, as.Lhs[0])
		}
	default:
		for _, l := range as.Lhs {
			s = e.killLhs(s, l)
		}
	}
	return s
}

// other handles range loops and tagged switches on an integer.
func (e *c11nEng) other(br kit.Branch, s kit.S) (t, f []kit.S) {
	switch br.Kind {
	case kit.BrCase:
		if br.Tag != nil && c11nIsInt(e.info.TypeOf(br.Tag)) {
			if st, ok := e.refine(s, br.Tag, br.Case, token.EQL); ok {
				t = append(t, st)
			}
			if sf, ok := e.refine(s, br.Tag, br.Case, token.NEQ); ok {
				f = append(f, sf)
			}
			return
		}
	case kit.BrRange:
		rs := br.Range
		ts := s
		if rs.Key != nil {
			ts = e.killLhs(ts, rs.Key)
		}
		if rs.Value != nil {
			ts = e.killLhs(ts, rs.Value)
		}
		kt := ""
		if rs.Key != nil {
			kt = e.term(rs.Key)
		}
		if vt := e.term(rs.Value); rs.Value != nil && vt != "" && e.inv != nil {
			// the values of a local map are what was stored in it
			if m := e.mapOf(rs.X); m != nil && e.inv[m] != nil {
				b := c11nBound{lb: c11nI(0), known: true, ul: map[string]int64{}}
				for sq := range e.inv[m] {
					b.ul[sq] = -1
				}
				ts = e.store(ts, vt, b)
			}
		}
		if kt != "" {
			xt := e.info.TypeOf(rs.X)
			if ok, _ := c11nSeqType(xt); ok || c11nIsInt(xt) {
				ts = ts.Del("op:" + kt) // a loop counter
			}
			if ok, n := c11nSeqType(xt); ok {
				ts = e.setLb(ts, kt, 0)
				if n >= 0 {
					ts = e.setUb(ts, kt, n-1)
				} else if sq := e.seq(rs.X); sq != "" {
					ts = e.setUl(ts, kt, sq, -1)
					ts = e.setLL(ts, sq, 1)
				}
			} else if c11nIsInt(xt) {
				// for i := range n
				ts = e.setLb(ts, kt, 0)
				nb := e.bounds(rs.X, s)
				if nb.ub != nil {
					ts = e.setUb(ts, kt, *nb.ub-1)
				}
				for x, d := range nb.ul {
					ts = e.setUl(ts, kt, x, d-1)
				}
			}
		} else if sq := e.seq(rs.X); sq != "" {
			if ok, n := c11nSeqType(e.info.TypeOf(rs.X)); ok && n < 0 {
				ts = e.setLL(ts, sq, 1)
			}
		}
		return []kit.S{ts}, []kit.S{s}
	}
	return []kit.S{s}, []kit.S{s}
}
