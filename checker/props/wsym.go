package props

import (
	"fmt"
	"go/ast"
	"go/constant"
	"go/token"
	"go/types"
	"os"
	"sort"
	"strconv"
	"strings"

	"siotcheck/kit"
)

// Symbolic evaluation of a point writer (C01/R2–R4, C03/R2).
//
// The writer is run from its entry under one valuation of the merge atoms with
// abstract VALUES instead of roles of variables: the batch is the list [IN],
// the rows of `SELECT * FROM <points table>` are the stored rows DB#k with ids
// DBID#k, slices are lists of values, structs are records, maps are entry
// lists.  What the property is about is read off where it happens: the
// arguments of the prepared INSERT's Exec (which row id, which point), and the
// checksums XORed into the hash delta while an incoming point is processed.
// How the code spells the merge — parallel slices or a slice of pairs, a
// labelled loop, a found flag, an index search with a three-way switch, a map
// index, helper functions or a small type with methods — does not matter.

type sval struct {
	kind  byte // 'a' atom, 'r' record, 'l' list, 'm' map, 'x' xor-set, 'u' unknown
	atom  string
	base  *sval
	f     map[string]*sval
	items []*sval
	ents  [][2]*sval
	xs    []string
	str   string
}

type symRun struct {
	wl   *writerLoop
	v    mergeVal
	st   *kit.Std
	info *types.Info
	pool map[string]*sval
	out  *mergeOutcome
	cols []string // columns of the points table
	tcol int      // index of column `type` in the INSERT column list
	kcol int
	hm   *hashModel
}

var svUnknown = &sval{kind: 'u', str: "?"}

func (r *symRun) intern(v *sval) *sval {
	if v == nil {
		return svUnknown
	}
	if v.str == "" {
		v.str = r.canon(v)
	}
	if old, ok := r.pool[v.str]; ok {
		return old
	}
	r.pool[v.str] = v
	return v
}

func (r *symRun) canon(v *sval) string {
	switch v.kind {
	case 'a':
		return v.atom
	case 'u':
		return "?"
	case 'r':
		var ks []string
		for k := range v.f {
			ks = append(ks, k)
		}
		sort.Strings(ks)
		var sb strings.Builder
		sb.WriteString("{")
		if v.base != nil {
			sb.WriteString("^" + v.base.str)
		}
		for _, k := range ks {
			sb.WriteString("," + k + "=" + v.f[k].str)
		}
		sb.WriteString("}")
		return sb.String()
	case 'l':
		var parts []string
		for _, it := range v.items {
			parts = append(parts, it.str)
		}
		return "[" + strings.Join(parts, "|") + "]"
	case 'm':
		var parts []string
		for _, e := range v.ents {
			parts = append(parts, e[0].str+"=>"+e[1].str)
		}
		return "<" + strings.Join(parts, "|") + ">"
	case 'x':
		return "^{" + strings.Join(v.xs, ",") + "}"
	}
	return "?"
}

func (r *symRun) atom(a string) *sval { return r.intern(&sval{kind: 'a', atom: a}) }
func (r *symRun) list(items []*sval) *sval {
	return r.intern(&sval{kind: 'l', items: append([]*sval{}, items...)})
}
func (r *symRun) record(base *sval, f map[string]*sval) *sval {
	if len(f) == 0 && base != nil {
		return base
	}
	return r.intern(&sval{kind: 'r', base: base, f: f})
}
func (r *symRun) xor(xs []string) *sval {
	m := map[string]bool{}
	for _, x := range xs {
		if m[x] {
			delete(m, x)
		} else {
			m[x] = true
		}
	}
	var l []string
	for x := range m {
		l = append(l, x)
	}
	sort.Strings(l)
	return r.intern(&sval{kind: 'x', xs: l})
}

func (r *symRun) get(s kit.S, o types.Object) (*sval, bool) {
	str := s.Get("sy:" + kit.VarID(o))
	if str == "" {
		return nil, false
	}
	if v, ok := r.pool[str]; ok {
		return v, true
	}
	return svUnknown, true
}

func (r *symRun) set(s kit.S, o types.Object, v *sval) kit.S {
	return s.Set("sy:"+kit.VarID(o), v.str)
}

// baseOf returns the struct atom a value is built on ("IN", "DB#0", …) or "".
func baseOf(v *sval) string {
	for v != nil {
		switch v.kind {
		case 'a':
			if v.atom == "IN" || v.atom == "IN2" || strings.HasPrefix(v.atom, "DB#") {
				return v.atom
			}
			return ""
		case 'r':
			v = v.base
		default:
			return ""
		}
	}
	return ""
}

// project returns field name of v.
func (r *symRun) project(v *sval, name string) *sval {
	switch v.kind {
	case 'r':
		if x, ok := v.f[name]; ok {
			return x
		}
		if v.base != nil {
			return r.project(v.base, name)
		}
		return svUnknown
	case 'a':
		if v.atom == "IN" || v.atom == "IN2" || strings.HasPrefix(v.atom, "DB#") {
			return r.atom(v.atom + "." + name)
		}
	}
	return svUnknown
}

// update returns v with the field path set to nv.
func (r *symRun) update(v *sval, path []string, nv *sval) *sval {
	if len(path) == 0 {
		return nv
	}
	if v == nil {
		v = svUnknown
	}
	f := map[string]*sval{}
	var base *sval
	switch v.kind {
	case 'r':
		for k, x := range v.f {
			f[k] = x
		}
		base = v.base
	case 'a':
		if v.atom == "IN" || v.atom == "IN2" || strings.HasPrefix(v.atom, "DB#") {
			base = v
		}
	}
	cur := svUnknown
	if x, ok := f[path[0]]; ok {
		cur = x
	} else if base != nil {
		cur = r.project(base, path[0])
	} else if v.kind == 'r' {
		cur = r.intern(&sval{kind: 'r', f: map[string]*sval{}})
	}
	if len(path) > 1 && cur.kind == 'u' {
		cur = r.intern(&sval{kind: 'r', f: map[string]*sval{}})
	}
	f[path[0]] = r.update(cur, path[1:], nv)
	return r.intern(&sval{kind: 'r', base: base, f: f})
}

// lvalue resolves an assignable expression to its root variable and field path.
// Parameters of inlined helpers are their own variables unless they are
// pointers or maps (then they alias the caller's value).
func (r *symRun) lvalue(e ast.Expr) (types.Object, []string, bool) {
	e = ast.Unparen(e)
	switch x := e.(type) {
	case *ast.Ident:
		o := kit.ObjOf(r.info, x)
		if o == nil {
			return nil, nil, false
		}
		if r.st.IsFrameParam(o) && r.aliasParam(o) {
			re := r.st.Resolve(x)
			if re != ast.Expr(x) {
				return r.lvalue(re)
			}
		}
		if _, ok := o.(*types.Var); !ok {
			return nil, nil, false
		}
		return o, nil, true
	case *ast.SelectorExpr:
		if _, isPkg := kit.ObjOf(r.info, x.X).(*types.PkgName); isPkg {
			return nil, nil, false
		}
		o, p, ok := r.lvalue(x.X)
		if !ok {
			return nil, nil, false
		}
		return o, append(append([]string{}, p...), x.Sel.Name), true
	case *ast.StarExpr:
		return r.lvalue(x.X)
	case *ast.UnaryExpr:
		if x.Op == token.AND {
			return r.lvalue(x.X)
		}
	}
	return nil, nil, false
}

func (r *symRun) aliasParam(o types.Object) bool {
	switch o.Type().Underlying().(type) {
	case *types.Pointer, *types.Map:
		return true
	}
	return false
}

// varValue reads a variable (lazily initialising a by-value parameter of an
// inlined helper from its argument).
func (r *symRun) varValue(id *ast.Ident, s kit.S) *sval {
	o := kit.ObjOf(r.info, id)
	if o == nil {
		return svUnknown
	}
	if v, ok := r.get(s, o); ok {
		return v
	}
	if r.st.IsFrameParam(o) {
		if re := r.st.Resolve(id); re != ast.Expr(id) {
			return r.eval(re, s)
		}
	}
	// a named result that has not been assigned yet holds its zero value
	if cur := r.st.Cur(); cur != nil && cur.Type != nil && cur.Type.Results != nil {
		for _, fld := range cur.Type.Results.List {
			for _, nm := range fld.Names {
				if r.info.Defs[nm] == o {
					if z := r.zero(o.Type()); z != nil {
						return z
					}
				}
			}
		}
	}
	if types.Object(r.wl.w.Batch) == o {
		switch r.v.second {
		case 1:
			return r.list([]*sval{r.atom("IN"), r.atom("IN2")})
		case 2:
			return r.list([]*sval{r.atom("IN2"), r.atom("IN")})
		}
		return r.list([]*sval{r.atom("IN")})
	}
	return svUnknown
}

func (r *symRun) eval(e ast.Expr, s kit.S) *sval {
	e = ast.Unparen(e)
	if e == ast.Expr(kit.EmptyStringLit) {
		return r.atom(`C:""`)
	}
	if tv, ok := r.info.Types[e]; ok && tv.Value != nil {
		switch tv.Value.Kind() {
		case constant.String:
			return r.atom("C:" + tv.Value.ExactString())
		case constant.Int:
			return r.atom("N:" + tv.Value.ExactString())
		case constant.Bool:
			return r.atom("B:" + tv.Value.ExactString())
		}
	}
	if _, isCall := e.(*ast.CallExpr); !isCall {
		if v, ok := r.st.FoldExpr(e, s); ok {
			switch v.Kind() {
			case constant.String:
				return r.atom("C:" + v.ExactString())
			case constant.Int:
				return r.atom("N:" + v.ExactString())
			case constant.Bool:
				return r.atom("B:" + v.ExactString())
			}
		}
	}
	switch x := e.(type) {
	case *ast.Ident:
		return r.varValue(x, s)
	case *ast.SelectorExpr:
		if _, isPkg := kit.ObjOf(r.info, x.X).(*types.PkgName); isPkg {
			return svUnknown
		}
		return r.project(r.eval(x.X, s), x.Sel.Name)
	case *ast.StarExpr:
		return r.eval(x.X, s)
	case *ast.UnaryExpr:
		if x.Op == token.AND {
			return r.eval(x.X, s)
		}
	case *ast.IndexExpr:
		c := r.eval(x.X, s)
		switch c.kind {
		case 'l':
			if i, ok := r.intOf(x.Index, s); ok && i >= 0 && i < len(c.items) {
				return c.items[i]
			}
		case 'm':
			k := r.eval(x.Index, s)
			if v, found, decided := r.mapLookup(c, k, s); decided && found {
				return v
			}
		}
		return svUnknown
	case *ast.SliceExpr:
		c := r.eval(x.X, s)
		if c.kind == 'l' && x.High == nil && x.Max == nil {
			if x.Low == nil {
				return c
			}
			if i, ok := r.intOf(x.Low, s); ok && i >= 0 && i <= len(c.items) {
				return r.list(c.items[i:])
			}
		}
		if c.kind == 'l' && x.Low == nil && x.Max == nil {
			if i, ok := r.intOf(x.High, s); ok && i >= 0 && i <= len(c.items) {
				return r.list(c.items[:i])
			}
		}
		return svUnknown
	case *ast.CompositeLit:
		t := r.info.TypeOf(x)
		if t == nil {
			return svUnknown
		}
		switch ut := t.Underlying().(type) {
		case *types.Struct:
			f := map[string]*sval{}
			for i, el := range x.Elts {
				if kv, ok := el.(*ast.KeyValueExpr); ok {
					if id, ok := kv.Key.(*ast.Ident); ok {
						f[id.Name] = r.eval(kv.Value, s)
					}
				} else if i < ut.NumFields() {
					f[ut.Field(i).Name()] = r.eval(el, s)
				}
			}
			for i := 0; i < ut.NumFields(); i++ {
				if _, ok := f[ut.Field(i).Name()]; !ok {
					f[ut.Field(i).Name()] = r.zero(ut.Field(i).Type())
				}
			}
			return r.intern(&sval{kind: 'r', f: f})
		case *types.Slice, *types.Array:
			var items []*sval
			for _, el := range x.Elts {
				if kv, ok := el.(*ast.KeyValueExpr); ok {
					el = kv.Value
				}
				items = append(items, r.eval(el, s))
			}
			return r.list(items)
		case *types.Map:
			var ents [][2]*sval
			for _, el := range x.Elts {
				if kv, ok := el.(*ast.KeyValueExpr); ok {
					ents = append(ents, [2]*sval{r.eval(kv.Key, s), r.eval(kv.Value, s)})
				}
			}
			return r.intern(&sval{kind: 'm', ents: ents})
		}
	case *ast.BinaryExpr:
		if x.Op == token.XOR {
			a, b := r.eval(x.X, s), r.eval(x.Y, s)
			return r.xorOf(a, b)
		}
	case *ast.CallExpr:
		return r.evalCall(x, s)
	}
	return svUnknown
}

func (r *symRun) xorOf(a, b *sval) *sval {
	terms := func(v *sval) ([]string, bool) {
		switch v.kind {
		case 'x':
			return v.xs, true
		case 'a':
			if v.atom == "N:0" {
				return nil, true
			}
			return []string{v.atom}, true
		}
		return []string{"?"}, true
	}
	ta, _ := terms(a)
	tb, _ := terms(b)
	return r.xor(append(append([]string{}, ta...), tb...))
}

func (r *symRun) zero(t types.Type) *sval {
	switch ut := t.Underlying().(type) {
	case *types.Basic:
		switch {
		case ut.Info()&types.IsString != 0:
			return r.atom(`C:""`)
		case ut.Info()&types.IsInteger != 0:
			return r.atom("N:0")
		case ut.Info()&types.IsBoolean != 0:
			return r.atom("B:false")
		}
	case *types.Slice:
		return r.list(nil)
	case *types.Map:
		return r.intern(&sval{kind: 'm'})
	case *types.Struct:
		f := map[string]*sval{}
		for i := 0; i < ut.NumFields(); i++ {
			if ut.NumFields() <= 6 {
				f[ut.Field(i).Name()] = r.zero(ut.Field(i).Type())
			}
		}
		if kit.IsNamedType(t, dataPkg, "Point") {
			return r.intern(&sval{kind: 'r', f: map[string]*sval{}})
		}
		return r.intern(&sval{kind: 'r', f: f})
	}
	return svUnknown
}

func (r *symRun) intOf(e ast.Expr, s kit.S) (int, bool) {
	v := r.eval(e, s)
	if v.kind == 'a' && strings.HasPrefix(v.atom, "N:") {
		n, err := strconv.Atoi(v.atom[2:])
		return n, err == nil
	}
	return 0, false
}

func (r *symRun) evalCall(call *ast.CallExpr, s kit.S) *sval {
	// result of a helper evaluated inline in this statement
	if str := s.Get("ret:" + strconv.Itoa(int(call.Pos())) + ":0"); str != "" {
		if v, ok := r.pool[str]; ok {
			return v
		}
	}
	if tv, ok := r.info.Types[call.Fun]; ok && tv.IsType() && len(call.Args) == 1 {
		return r.eval(call.Args[0], s)
	}
	if b, ok := kit.Callee(r.info, call).(*types.Builtin); ok {
		switch b.Name() {
		case "len":
			if len(call.Args) == 1 {
				c := r.eval(call.Args[0], s)
				switch c.kind {
				case 'l':
					return r.atom("N:" + strconv.Itoa(len(c.items)))
				case 'm':
					return r.atom("N:" + strconv.Itoa(len(c.ents)))
				}
			}
		case "append":
			if len(call.Args) >= 1 {
				c := r.eval(call.Args[0], s)
				if c.kind == 'u' {
					if t := r.info.TypeOf(call.Args[0]); t != nil {
						if _, ok := t.Underlying().(*types.Slice); ok && kit.IsNilIdent(r.info, call.Args[0]) {
							c = r.list(nil)
						}
					}
				}
				if c.kind != 'l' {
					return svUnknown
				}
				items := append([]*sval{}, c.items...)
				for i, a := range call.Args[1:] {
					av := r.eval(a, s)
					if call.Ellipsis.IsValid() && i == len(call.Args)-2 {
						if av.kind != 'l' {
							return svUnknown
						}
						items = append(items, av.items...)
					} else {
						items = append(items, av)
					}
				}
				if len(items) > 6 {
					return svUnknown
				}
				return r.list(items)
			}
		case "make":
			if len(call.Args) >= 1 {
				if t := r.info.TypeOf(call.Args[0]); t != nil {
					switch t.Underlying().(type) {
					case *types.Map:
						return r.intern(&sval{kind: 'm'})
					case *types.Slice:
						if len(call.Args) == 1 {
							return r.list(nil)
						}
						if n, ok := r.intOf(call.Args[1], s); ok && n == 0 {
							return r.list(nil)
						}
						if n, ok := r.intOf(call.Args[1], s); ok && n > 0 && n <= 4 {
							if sl, ok := t.Underlying().(*types.Slice); ok {
								var items []*sval
								for i := 0; i < n; i++ {
									items = append(items, r.zero(sl.Elem()))
								}
								return r.list(items)
							}
						}
					}
				}
			}
		}
		return svUnknown
	}
	q := kit.QualName(kit.Callee(r.info, call))
	switch q {
	case dataPkg + ".(Point).CRC", dataPkg + ".(*Point).CRC":
		if sel, ok := ast.Unparen(call.Fun).(*ast.SelectorExpr); ok {
			switch b := baseOf(r.eval(sel.X, s)); {
			case b == "IN":
				return r.xor([]string{"CRC(IN)"})
			case b == "IN2":
				return r.xor([]string{"CRC(IN2)"})
			case strings.HasPrefix(b, "DB#"):
				return r.xor([]string{"CRC(" + b + ")"})
			}
			return r.xor([]string{"CRC(?)"})
		}
	case "time.Unix":
		if len(call.Args) == 2 {
			if v := r.eval(call.Args[1], s); v.kind == 'a' && strings.HasPrefix(v.atom, "DBTIME#") {
				return r.atom("DB#" + v.atom[len("DBTIME#"):] + ".Time")
			}
		}
		return svUnknown
	case "time.Now":
		return r.atom("NOW")
	}
	if strings.HasPrefix(q, "time.(Time).") {
		// a conversion of a point's time: named after the method (UnixNano, Unix, UnixMilli …)
		if sel, ok := ast.Unparen(call.Fun).(*ast.SelectorExpr); ok && len(call.Args) == 0 {
			if t := r.eval(sel.X, s); t.kind == 'a' && (t.atom == "NOW" || strings.HasSuffix(t.atom, ".Time")) {
				return r.atom(t.atom + "." + sel.Sel.Name)
			}
		}
		return svUnknown
	}
	// an opaque call: a string result is a value nobody else has (row ids come from uuid)
	if t := r.info.TypeOf(call); t != nil {
		if b, ok := t.Underlying().(*types.Basic); ok && b.Info()&types.IsString != 0 {
			return r.atom("NEW")
		}
	}
	return svUnknown
}

// mapLookup: value, found, decided.
func (r *symRun) mapLookup(m, k *sval, s kit.S) (*sval, bool, bool) {
	for _, e := range m.ents {
		eq, ok := r.equal(e[0], k, s)
		if !ok {
			return nil, false, false
		}
		if eq {
			return e[1], true, true
		}
	}
	return nil, false, true
}

// equal decides a == b under the run's valuation.
func (r *symRun) equal(a, b *sval, s kit.S) (bool, bool) {
	if a.kind == 'u' || b.kind == 'u' {
		return false, false
	}
	if a.kind == 'r' && b.kind == 'r' && a.base == nil && b.base == nil {
		if len(a.f) != len(b.f) {
			return false, false
		}
		// identities (type, key) of two different stored rows differ: the store keeps
		// one row per identity
		rowOf := func(v *sval) string {
			row := ""
			for _, x := range v.f {
				if x.kind != 'a' || !strings.HasPrefix(x.atom, "DB#") {
					return ""
				}
				i := strings.Index(x.atom, ".")
				if i < 0 {
					return ""
				}
				if row != "" && row != x.atom[:i] {
					return ""
				}
				row = x.atom[:i]
			}
			return row
		}
		if ra, rb := rowOf(a), rowOf(b); ra != "" && rb != "" && ra != rb && len(a.f) >= 2 {
			return false, true
		}
		for k, x := range a.f {
			y, ok := b.f[k]
			if !ok {
				return false, false
			}
			eq, ok := r.equal(x, y, s)
			if !ok {
				return false, false
			}
			if !eq {
				return false, true
			}
		}
		return true, true
	}
	if a.kind != 'a' || b.kind != 'a' {
		return false, false
	}
	if a.atom == b.atom {
		return true, true
	}
	x, y := a.atom, b.atom
	// the bystander point of a two-point batch (mergeVal.second): a valid point whose
	// identity is neither that of a stored row nor that of the other incoming point
	// (Collapse leaves one point per identity), with a non-empty key, not a node-type point
	if strings.HasPrefix(x, "IN2.") || strings.HasPrefix(y, "IN2.") {
		if strings.HasPrefix(y, "IN2.") {
			x, y = y, x
		}
		isID := x == "IN2.Type" || x == "IN2.Key"
		switch {
		case !isID:
			return false, false
		case strings.HasPrefix(y, "DB#") && (strings.HasSuffix(y, ".Type") || strings.HasSuffix(y, ".Key")):
			return false, true
		case y == "IN.Type" || y == "IN.Key":
			return false, true
		case y == `C:""`:
			return false, true
		case x == "IN2.Type" && y == "C:"+strconv.Quote(r.wl.ntype):
			return false, true
		case x == "IN2.Key" && strings.HasPrefix(y, "C:") && s.Get("kn") != "" && y == "C:"+strconv.Quote(s.Get("kn")):
			// compared with the other point's normalised key
			return false, true
		}
		return false, false
	}
	if strings.HasPrefix(y, "IN.") || (strings.HasPrefix(x, "DB#") && !strings.HasPrefix(y, "DB#")) {
		x, y = y, x
	}
	// x is the incoming side (IN.f or a constant that replaced it), y the other
	isC := func(z string) bool { return strings.HasPrefix(z, "C:") }
	switch {
	case isC(x) && isC(y):
		return x == y, true
	case strings.HasPrefix(x, "N:") && strings.HasPrefix(y, "N:"):
		return x == y, true
	case x == "IN.Type" && strings.HasPrefix(y, "DB#") && strings.HasSuffix(y, ".Type"):
		return r.v.row(y).eqType, true
	case x == "IN.Key" && strings.HasPrefix(y, "DB#") && strings.HasSuffix(y, ".Key"):
		if r.v.kempty {
			// "" compared with a stored key (stored keys are never empty)
			r.out.rawCmp = true
			return false, true
		}
		return r.v.row(y).eqKey, true
	case isC(x) && strings.HasPrefix(y, "DB#") && strings.HasSuffix(y, ".Key"):
		// the normalised incoming key
		if s.Get("kn") != "" {
			return r.v.row(y).eqKey, true
		}
		return false, false
	case x == "IN.Key" && isC(y):
		if y == `C:""` {
			return r.v.kempty, true
		}
		return false, false
	case x == "IN.Type" && isC(y):
		if y == "C:"+strconv.Quote(r.wl.ntype) {
			return r.v.isnt, true
		}
		return false, false
	}
	return false, false
}

func (v mergeVal) row(term string) mergeRow {
	// term is DB#k.<field>
	k := 0
	if i := strings.Index(term, "#"); i >= 0 {
		j := strings.Index(term[i:], ".")
		if j > 0 {
			k, _ = strconv.Atoi(term[i+1 : i+j])
		}
	}
	if k < len(v.rowsV) {
		return v.rowsV[k]
	}
	return mergeRow{eqType: v.eqType, eqKey: v.eqKey, order: v.order}
}

type mergeRow struct {
	eqType, eqKey bool
	order         string
}

// runSym evaluates the writer under valuation v (see the file comment).
func (wl *writerLoop) runSym(v mergeVal) *mergeOutcome {
	f := wl.f
	info := f.Info()
	out := &mergeOutcome{}
	r := &symRun{wl: wl, v: v, info: info, pool: map[string]*sval{}, out: out, tcol: -1, kcol: -1}
	r.pool["?"] = svUnknown
	r.cols = wl.m.sql.Tables[wl.w.Table]
	for i, c := range wl.w.Exec.Stmts[0].Cols {
		switch c {
		case "type":
			r.tcol = i
		case "key":
			r.kcol = i
		}
	}
	st := &kit.Std{F: f}
	r.st = st
	st.MaxInline = 4
	st.ShouldInline = func(cf *kit.Func, call *ast.CallExpr) bool {
		if wl.m.writerOf(st.Cur(), call) != nil {
			return false
		}
		if wl.hm != nil {
			if cf == wl.hm.helper || wl.hm.isEntry(cf) {
				return false
			}
			for _, wb := range wl.hm.writeBack {
				if cf == wb {
					return false
				}
			}
		}
		// a helper that executes SQL is followed only when it reads the stored rows of
		// this writer's table (readTxPoints(tx, "SELECT * FROM node_points …", id))
		doesSQL := false
		for _, site := range wl.m.sql.Sites {
			if site.F.Root() == cf {
				doesSQL = true
			}
		}
		if cf == wl.w.Body {
			return true
		}
		if doesSQL {
			for _, a := range call.Args {
				if q, ok := kit.ConstString(info, st.Resolve(a)); ok {
					lq := strings.ToLower(q)
					if strings.HasPrefix(strings.TrimSpace(lq), "select") && strings.Contains(lq, "from "+wl.w.Table) {
						return true
					}
				}
			}
			return false
		}
		return true
	}
	addFx := func(s kit.S, x string) kit.S {
		cur := s.Get("fx")
		parts := []string{}
		if cur != "" {
			parts = strings.Split(cur, "+")
		}
		if len(parts) > 8 {
			return s
		}
		parts = append(parts, x)
		sort.Strings(parts)
		return s.Set("fx", strings.Join(parts, "+"))
	}
	matching := func(k int) bool {
		row := v.row("DB#" + strconv.Itoa(k) + ".x")
		return row.eqType && row.eqKey
	}
	isStoredQuery := func(call *ast.CallExpr, s kit.S) bool {
		if !kit.CallIs(info, call, "database/sql.(*Tx).Query", "database/sql.(*DB).Query", "database/sql.(*Stmt).Query") || len(call.Args) == 0 {
			return false
		}
		q, ok := kit.ConstString(info, st.Resolve(call.Args[0]))
		if !ok {
			if site := wl.m.siteOf(call); site != nil && len(site.Stmts) == 1 {
				return site.Stmts[0].Verb == "SELECT" && site.Stmts[0].Table == wl.w.Table
			}
			return false
		}
		lq := strings.ToLower(q)
		return strings.HasPrefix(strings.TrimSpace(lq), "select") && strings.Contains(lq, "from "+wl.w.Table)
	}
	timeTerm := func(e ast.Expr, s kit.S) string {
		v := r.eval(e, s)
		if v.kind != 'a' {
			return ""
		}
		switch {
		case v.atom == "IN.Time" || v.atom == "NOW":
			return "IN"
		case strings.HasPrefix(v.atom, "DB#") && strings.HasSuffix(v.atom, ".Time"):
			return v.atom
		}
		return ""
	}
	st.Eval.OnUnknown = func(e ast.Expr) {
		if _, _, isErr := kit.ErrCheck(info, e); !isErr {
			out.unknown = append(out.unknown, f.Str(e))
		}
	}
	st.Fold = func(e ast.Expr, s kit.S) (bool, bool) {
		e = ast.Unparen(e)
		if call, ok := e.(*ast.CallExpr); ok {
			if d := s.Get("rnext:" + strconv.Itoa(int(call.Pos()))); d != "" {
				return d == "T", true
			}
			// <incoming>.Time.IsZero(): the valuation says whether the point carries a time
			if sel, ok := ast.Unparen(call.Fun).(*ast.SelectorExpr); ok && len(call.Args) == 0 && kit.QualName(kit.Callee(info, call)) == "time.(Time).IsZero" {
				if t := r.eval(sel.X, s); t.kind == 'a' && t.atom == "IN.Time" {
					out.zeroTest = true
					return v.tzero, true
				} else if t.kind == 'a' && t.atom == "IN2.Time" {
					return false, true
				}
				return false, false
			}
			if len(call.Args) == 1 {
				if sel, ok := ast.Unparen(call.Fun).(*ast.SelectorExpr); ok {
					q := kit.QualName(kit.Callee(info, call))
					if q == "time.(Time).Equal" {
						for _, pr := range [][2]ast.Expr{{sel.X, call.Args[0]}, {call.Args[0], sel.X}} {
							if t := r.eval(pr[0], s); t.kind == 'a' && t.atom == "IN.Time" && isZeroTimeLit(info, pr[1]) {
								out.zeroTest = true
								return v.tzero, true
							}
						}
					}
					if q == "time.(Time).Before" || q == "time.(Time).After" || q == "time.(Time).Equal" {
						a, b := timeTerm(sel.X, s), timeTerm(call.Args[0], s)
						var row mergeRow
						recvDb := false
						switch {
						case strings.HasPrefix(a, "DB#") && b == "IN":
							row, recvDb = v.row(a), true
						case a == "IN" && strings.HasPrefix(b, "DB#"):
							row = v.row(b)
						default:
							return false, false
						}
						// order: relation of the STORED time to the incoming time
						switch q {
						case "time.(Time).Equal":
							return row.order == "eq", true
						case "time.(Time).Before":
							if recvDb {
								return row.order == "lt", true
							}
							return row.order == "gt", true
						default:
							if recvDb {
								return row.order == "gt", true
							}
							return row.order == "lt", true
						}
					}
				}
			}
			return false, false
		}
		a, b, op, ok := kit.CmpAtom(e)
		if !ok {
			return false, false
		}
		if op == token.EQL || op == token.NEQ {
			for _, pr := range [][2]ast.Expr{{a, b}, {b, a}} {
				if isZeroTimeLit(info, pr[1]) {
					if t := r.eval(pr[0], s); t.kind == 'a' && t.atom == "IN.Time" {
						out.zeroTest = true
						return v.tzero == (op == token.EQL), true
					}
				}
			}
		}
		va, vb := r.eval(a, s), r.eval(b, s)
		num := func(x *sval) (int, bool) {
			if x.kind == 'a' && strings.HasPrefix(x.atom, "N:") {
				n, err := strconv.Atoi(x.atom[2:])
				return n, err == nil
			}
			return 0, false
		}
		if na, ok1 := num(va); ok1 {
			if nb, ok2 := num(vb); ok2 {
				switch op {
				case token.EQL:
					return na == nb, true
				case token.NEQ:
					return na != nb, true
				case token.LSS:
					return na < nb, true
				case token.LEQ:
					return na <= nb, true
				case token.GTR:
					return na > nb, true
				case token.GEQ:
					return na >= nb, true
				}
			}
		}
		if op == token.EQL || op == token.NEQ {
			if eq, ok := r.equal(va, vb, s); ok {
				return eq == (op == token.EQL), true
			}
		}
		return false, false
	}
	// ---- calls
	st.OnCall = func(call *ast.CallExpr, n ast.Node, s kit.S) []kit.S {
		if sel, ok := ast.Unparen(call.Fun).(*ast.SelectorExpr); ok {
			switch {
			case kit.CallIs(info, call, "database/sql.(*Rows).Next"):
				if rv := r.eval(sel.X, s); rv.kind == 'a' && rv.atom == "ROWS" {
					n, _ := strconv.Atoi(s.Get("rn"))
					key := "rnext:" + strconv.Itoa(int(call.Pos()))
					if n < v.rows {
						return []kit.S{s.Set("rn", strconv.Itoa(n+1)).Set(key, "T")}
					}
					return []kit.S{s.Set(key, "F")}
				}
			case kit.CallIs(info, call, "database/sql.(*Rows).Scan"):
				if rv := r.eval(sel.X, s); rv.kind == 'a' && rv.atom == "ROWS" {
					n, _ := strconv.Atoi(s.Get("rn"))
					k := strconv.Itoa(n - 1)
					for i, a := range call.Args {
						u, ok := ast.Unparen(a).(*ast.UnaryExpr)
						if !ok || u.Op != token.AND || i >= len(r.cols) {
							continue
						}
						o, path, ok := r.lvalue(u.X)
						if !ok {
							continue
						}
						var val *sval
						switch col := r.cols[i]; {
						case col == "id":
							val = r.atom("DBID#" + k)
						case col == "time":
							val = r.atom("DBTIME#" + k)
						default:
							// a destination inside a data.Point makes that point the stored row
							if len(path) > 0 {
								if dsel, ok := ast.Unparen(u.X).(*ast.SelectorExpr); ok && kit.IsNamedType(info.TypeOf(dsel.X), dataPkg, "Point") {
									path = path[:len(path)-1]
									val = r.atom("DB#" + k)
								}
							}
						}
						if val == nil {
							continue
						}
						cur, _ := r.get(s, o)
						s = r.set(s, o, r.update(cur, path, val))
					}
					return []kit.S{s}
				}
			}
		}
		if call == wl.w.Exec.Call && v.second != 0 && r.tcol >= 0 && r.tcol < len(call.Args) {
			if t := r.eval(call.Args[r.tcol], s); t.kind == 'a' && t.atom == "IN2.Type" {
				// the write of the bystander point: a new row, bound to its own fields
				prob := ""
				if len(call.Args) > 0 {
					if t := r.eval(call.Args[0], s); !(t.kind == 'a' && t.atom == "NEW") {
						prob = "is written under " + describeIDTerm(t)
					}
				}
				for i, col := range wl.w.Exec.Stmts[0].Cols {
					if i == 0 || i >= len(call.Args) || prob != "" {
						continue
					}
					if t := r.eval(call.Args[i], s); t.kind == 'a' && (strings.HasPrefix(t.atom, "IN.") || strings.HasPrefix(t.atom, "DB#")) {
						prob = "has column " + col + " bound to " + t.atom
					}
				}
				n, _ := strconv.Atoi(s.Get("x2"))
				s = s.Set("x2", strconv.Itoa(n+1))
				if prob != "" && s.Get("x2p") == "" {
					s = s.Set("x2p", prob)
				}
				return []kit.S{s}
			}
		}
		if call == wl.w.Exec.Call {
			id := "id:other"
			if len(call.Args) > 0 {
				switch t := r.eval(call.Args[0], s); {
				case t.kind == 'a' && t.atom == "NEW":
					id = "id:new"
				case t.kind == 'a' && strings.HasPrefix(t.atom, "DBID#"):
					k, _ := strconv.Atoi(t.atom[len("DBID#"):])
					if matching(k) {
						id = "id:reuse"
					} else {
						id = "id:wrongrow"
					}
				}
			}
			wp := "wp:other"
			if r.tcol >= 0 && r.tcol < len(call.Args) {
				if t := r.eval(call.Args[r.tcol], s); t.kind == 'a' && t.atom == "IN.Type" {
					wp = "wp:in"
				}
			}
			if r.kcol >= 0 && r.kcol < len(call.Args) && v.kempty {
				if t := r.eval(call.Args[r.kcol], s); t.kind == 'a' && t.atom == "IN.Key" {
					out.rawWrite = true
				}
			}
			// what every column is bound to (C01/R6, C03/R9)
			if out.binds == nil {
				out.binds = map[string]map[string]bool{}
			}
			for i, col := range wl.w.Exec.Stmts[0].Cols {
				if i >= len(call.Args) {
					break
				}
				t := r.eval(call.Args[i], s)
				term := "?"
				switch {
				case t.kind == 'a':
					term = t.atom
				case t.kind == 'u':
					if sel, ok := ast.Unparen(call.Args[i]).(*ast.SelectorExpr); ok {
						if hv := r.eval(sel.X, s); hv.kind == 'r' {
							if _, overridden := hv.f[sel.Sel.Name]; overridden {
								term = "MODIFIED"
							}
						}
					}
				}
				if out.binds[col] == nil {
					out.binds[col] = map[string]bool{}
				}
				out.binds[col][term] = true
			}
			out.execArgs = len(call.Args)
			return []kit.S{addFx(addFx(s, id), wp)}
		}
		// the propagation entry: which value is handed to it (C03/R3)
		if cf := st.Cur().CalleeFunc(call); cf != nil && wl.hm.isEntry(cf) {
			terms := "?"
			for _, a := range call.Args {
				if isUint32(info.TypeOf(a)) {
					if xv := r.xorOf(r.atom("N:0"), r.eval(a, s)); xv.kind == 'x' {
						terms = strings.Join(xv.xs, ",")
					}
				}
			}
			n, _ := strconv.Atoi(s.Get("prop"))
			return []kit.S{s.Set("prop", strconv.Itoa(n+1)).Set("propx", terms)}
		}
		if kit.CallIs(info, call, qCommit) {
			if s.Get("prop") == "" {
				s = s.Set("commitNoProp", "1")
			}
			return []kit.S{s}
		}
		return nil
	}
	// ---- statements
	assignTo := func(s kit.S, lhs ast.Expr, val *sval) kit.S {
		if id, ok := ast.Unparen(lhs).(*ast.Ident); ok && id.Name == "_" {
			return s
		}
		o, path, ok := r.lvalue(lhs)
		if !ok {
			return s
		}
		// key normalisation of the incoming point
		if len(path) > 0 && path[len(path)-1] == "Key" && val.kind == 'a' && strings.HasPrefix(val.atom, "C:") && val.atom != `C:""` {
			cur, _ := r.get(s, o)
			if cur == nil {
				if idn, ok := ast.Unparen(lhs).(*ast.SelectorExpr); ok {
					cur = r.eval(idn.X, s)
				}
			}
			holder := cur
			for _, p := range path[:len(path)-1] {
				if holder != nil {
					holder = r.project(holder, p)
				}
			}
			if holder != nil && baseOf(holder) == "IN" {
				if c, err := strconv.Unquote(val.atom[2:]); err == nil {
					out.normC = c
					s = s.Set("kn", c)
				}
			}
		}
		cur, have := r.get(s, o)
		if !have && len(path) > 0 {
			// first write into a by-value parameter / a not yet seen variable: start from what it holds
			if root := rootIdent(lhs); root != nil {
				cur = r.varValue(root, s)
			}
		}
		return r.set(s, o, r.update(cur, path, val))
	}
	st.OnNode = func(n ast.Node, s kit.S) []kit.S {
		switch x := n.(type) {
		case *ast.Ident:
			// key/value of a range statement, evaluated once before the loop: restart its cursor
			if rs, ok := f.Prog.Parent(st.Cur().File, x).(*ast.RangeStmt); ok {
				s = s.Del("li:" + strconv.Itoa(int(rs.Pos())))
			}
		case *ast.ReturnStmt:
			if call := st.CurCall(); call != nil {
				for i, res := range x.Results {
					s = s.Set("ret:"+strconv.Itoa(int(call.Pos()))+":"+strconv.Itoa(i), r.eval(res, s).str)
				}
			}
		case *ast.ValueSpec:
			// go/cfg hands over the specs of a `var` declaration
			for i, nm := range x.Names {
				o := info.Defs[nm]
				if o == nil {
					continue
				}
				val := r.zero(o.Type())
				if i < len(x.Values) && len(x.Values) == len(x.Names) {
					val = r.eval(x.Values[i], s)
				}
				s = r.set(s, o, val)
			}
		case *ast.AssignStmt:
			switch {
			case len(x.Lhs) == 2 && len(x.Rhs) == 1 && isIndexOfMap(info, x.Rhs[0]):
				// v, ok := m[k]
				ix := ast.Unparen(x.Rhs[0]).(*ast.IndexExpr)
				mv, kv := r.eval(ix.X, s), r.eval(ix.Index, s)
				if mv.kind == 'm' {
					if val, found, decided := r.mapLookup(mv, kv, s); decided {
						if !found {
							val = r.zero(info.TypeOf(x.Lhs[0]))
							if val == nil {
								val = svUnknown
							}
						}
						s = assignTo(s, x.Lhs[0], val)
						if o := kit.ObjOf(info, x.Lhs[1]); o != nil {
							s = s.Set("v:"+kit.VarID(o), strconv.FormatBool(found))
						}
					}
				}
			case len(x.Rhs) == 1 && len(x.Lhs) >= 1:
				if call, ok := ast.Unparen(x.Rhs[0]).(*ast.CallExpr); ok && (len(x.Lhs) > 1 || isStoredQuery(call, s)) {
					if isStoredQuery(call, s) {
						s = assignTo(s, x.Lhs[0], r.atom("ROWS"))
						break
					}
					for i, l := range x.Lhs {
						val := svUnknown
						if str := s.Get("ret:" + strconv.Itoa(int(call.Pos())) + ":" + strconv.Itoa(i)); str != "" {
							if pv, ok := r.pool[str]; ok {
								val = pv
							}
						}
						s = assignTo(s, l, val)
					}
					break
				}
				fallthrough
			case len(x.Lhs) == len(x.Rhs):
				vals := make([]*sval, len(x.Rhs))
				for i, rh := range x.Rhs {
					switch x.Tok {
					case token.ASSIGN, token.DEFINE:
						vals[i] = r.eval(rh, s)
					case token.XOR_ASSIGN:
						rv := r.eval(rh, s)
						vals[i] = r.xorOf(r.eval(x.Lhs[i], s), rv)
						if s.Get("in") == "1" && isUint32(info.TypeOf(x.Lhs[i])) {
							for _, t := range r.xorOf(r.atom("N:0"), rv).xs {
								switch {
								case t == "CRC(IN2)":
								case t == "CRC(IN)":
									s = addFx(s, "x:in")
								case strings.HasPrefix(t, "CRC(DB#"):
									s = addFx(s, "x:db")
								default:
									s = addFx(s, "x:other")
								}
							}
						}
					default:
						vals[i] = svUnknown
					}
				}
				for i, l := range x.Lhs {
					// m[k] = v
					if ix, ok := ast.Unparen(l).(*ast.IndexExpr); ok {
						if mo, mpath, ok := r.lvalue(ix.X); ok {
							cur, _ := r.get(s, mo)
							holder := cur
							for _, p := range mpath {
								if holder != nil {
									holder = r.project(holder, p)
								}
							}
							if holder != nil && holder.kind == 'm' {
								kv := r.eval(ix.Index, s)
								ents := append([][2]*sval{}, holder.ents...)
								replaced := false
								for j, e := range ents {
									if eq, ok := r.equal(e[0], kv, s); ok && eq {
										ents[j] = [2]*sval{e[0], vals[i]}
										replaced = true
									}
								}
								if !replaced {
									ents = append(ents, [2]*sval{kv, vals[i]})
								}
								if len(ents) <= 4 {
									s = r.set(s, mo, r.update(cur, mpath, r.intern(&sval{kind: 'm', ents: ents})))
								}
							}
						}
						continue
					}
					s = assignTo(s, l, vals[i])
				}
			}
		}
		// results of helpers are consumed by the statement that contains the call
		if st.Cur() == f || true {
			for _, k := range s.Keys() {
				if strings.HasPrefix(k, "ret:") {
					var pos int
					if _, err := fmtSscan(k[4:], &pos); err == nil && n.Pos() <= token.Pos(pos) && token.Pos(pos) < n.End() {
						if _, isRet := n.(*ast.ReturnStmt); !isRet {
							s = s.Del(k)
						}
					}
				}
			}
		}
		return []kit.S{s}
	}
	// ---- loops over abstract lists
	st.OnBranch = func(br kit.Branch, s kit.S) (t, fl []kit.S, handled bool) {
		if br.Kind != kit.BrRange {
			return nil, nil, false
		}
		lv := r.eval(br.Range.X, s)
		if os.Getenv("SIOT_DEBUG_SYM") != "" {
			fmt.Printf("sym range %s over %s = %s\n", f.At(br.Range), f.Str(br.Range.X), lv.str)
		}
		if lv.kind != 'l' {
			return nil, nil, false
		}
		isBatch := len(lv.items) > 0
		for _, it := range lv.items {
			if b := baseOf(it); b != "IN" && b != "IN2" {
				isBatch = false
			}
		}
		exit := func(s kit.S) kit.S {
			if isBatch && s.Get("in") == "1" {
				s = s.Set("in", "done")
			}
			return s
		}
		idx := 0
		counting := br.Range.Value == nil && br.Range.Tok == token.DEFINE && br.Range.For.IsValid() && br.Range.Key != nil && isCountingSynth(br.Range)
		key := "li:" + strconv.Itoa(int(br.Range.Pos()))
		if counting {
			// the counter is tracked by the interpreter itself
			n, ok := r.intOf(br.Range.Key, s)
			if !ok {
				return nil, nil, false
			}
			idx = n
		} else {
			idx, _ = strconv.Atoi(s.Get(key))
		}
		if idx >= len(lv.items) {
			return nil, []kit.S{exit(s.Del(key))}, true
		}
		s2 := s
		if !counting {
			s2 = s2.Set(key, strconv.Itoa(idx+1))
			if br.Range.Key != nil {
				if o := kit.ObjOf(info, br.Range.Key); o != nil {
					s2 = s2.Set("v:"+kit.VarID(o), strconv.Itoa(idx))
				}
			}
			if br.Range.Value != nil {
				if o := kit.ObjOf(info, br.Range.Value); o != nil {
					s2 = r.set(s2, o, lv.items[idx])
				}
			}
		}
		if isBatch {
			s2 = s2.Set("in", "1")
		}
		return []kit.S{s2}, nil, true
	}
	init := kit.NewS()
	cl := st.Client()
	cl.MaxStates = 400000
	res := wl.c.P.Graph(f).Run(init, cl)
	if res.Overflow {
		wl.c.Fatalf("symbolic evaluation of %s: state overflow", f.Name)
	}
	seen := map[string]bool{}
	for _, e := range res.Exits {
		if e.Return == nil || e.State.Get("in") == "" {
			continue
		}
		if st.ReturnsNil(e.Return, e.State) == "nonnil" {
			// a sentinel error of the package ("nothing changed") is an outcome of its own:
			// the batch is not written (error exits roll back, C05/R5), so it counts as a
			// path on which the point is ignored; any other error is a failed write
			sentinel := false
			if n := len(e.Return.Results); n > 0 {
				if o := kit.ObjOf(info, e.Return.Results[n-1]); o != nil && f.Prog.IsSentinelErr(o) && o.Pkg() == f.Pkg.Types {
					sentinel = true
				}
			}
			if !sentinel {
				continue
			}
			out.paths++
			if v.second != 0 {
				out.second = append(out.second, "|||")
			}
			if !seen[""] {
				seen[""] = true
				out.fx = append(out.fx, "")
			}
			continue
		}
		out.paths++
		if v.second != 0 {
			folded := 0
			for _, t := range strings.Split(e.State.Get("propx"), ",") {
				if t == "CRC(IN2)" {
					folded++
				}
			}
			out.second = append(out.second, e.State.Get("x2")+"|"+e.State.Get("x2p")+"|"+strconv.Itoa(folded)+"|"+e.State.Get("propx"))
		}
		out.props = append(out.props, e.State.Get("prop")+"|"+e.State.Get("propx")+"|"+e.State.Get("commitNoProp")+"|"+projectFx(e.State.Get("fx"), "x:"))
		fx := e.State.Get("fx")
		if !seen[fx] {
			seen[fx] = true
			out.fx = append(out.fx, fx)
		}
	}
	sort.Strings(out.fx)
	out.unknown = uniqStrings(out.unknown)
	return out
}

// isZeroTimeLit: the literal time.Time{}.
func isZeroTimeLit(info *types.Info, e ast.Expr) bool {
	cl, ok := ast.Unparen(e).(*ast.CompositeLit)
	return ok && len(cl.Elts) == 0 && kit.IsNamedType(info.TypeOf(cl), "time", "Time")
}

// describeIDTerm words the row id a point is written under.
func describeIDTerm(t *sval) string {
	switch {
	case t.kind == 'a' && strings.HasPrefix(t.atom, "DBID#"):
		return "the row id of stored row " + t.atom[len("DBID#"):] + " (a different point)"
	case t.kind == 'a':
		return "the id " + t.atom
	}
	return "an id that is not a fresh one"
}

func rootIdent(e ast.Expr) *ast.Ident {
	for {
		switch x := ast.Unparen(e).(type) {
		case *ast.Ident:
			return x
		case *ast.SelectorExpr:
			e = x.X
		case *ast.StarExpr:
			e = x.X
		case *ast.UnaryExpr:
			e = x.X
		case *ast.IndexExpr:
			e = x.X
		default:
			return nil
		}
	}
}

func isIndexOfMap(info *types.Info, e ast.Expr) bool {
	ix, ok := ast.Unparen(e).(*ast.IndexExpr)
	if !ok {
		return false
	}
	t := info.TypeOf(ix.X)
	if t == nil {
		return false
	}
	_, isMap := t.Underlying().(*types.Map)
	return isMap
}

// isCountingSynth: the synthetic range statement of a canonical counting loop
// (kit.CanonLoop) — its X is the argument of len() in the loop condition.
func isCountingSynth(rs *ast.RangeStmt) bool {
	return rs.Value == nil && rs.Body != nil && rs.TokPos == token.NoPos
}

func fmtSscan(s string, p *int) (int, error) {
	i := strings.Index(s, ":")
	if i < 0 {
		i = len(s)
	}
	n, err := strconv.Atoi(s[:i])
	*p = n
	return 1, err
}
