package props

import (
	"fmt"
	"go/ast"
	"go/token"
	"go/types"
	"sort"
	"strings"

	"golang.org/x/tools/go/cfg"

	"siotcheck/kit"
)

// C13/R9 and R10 — every element is visited.
//
// The property speaks about "the latest matching point" of every condition
// and about "the action list" as a whole.  Both rest on a loop that must see
// every element:
//
//   - R9: the evaluator runs every point of the batch through every
//     condition of the rule.  A condition that is not shown a point keeps the
//     state of an earlier one; the conjunction (R3) is then computed over a
//     stale state.  So the loops that enclose the condition-state store range
//     over the whole list / the whole batch and are left only when exhausted:
//     no break, return, goto or continue of an outer loop out of their bodies,
//     whatever the guard (the stored state is the client's own memory, nothing
//     that happens while evaluating one pair excuses skipping another).
//
//   - R10: the action runner and the inactive-marker visit every element of
//     the list they are handed.  The effect of an action is a send; if a send
//     fails the bus is gone and the rest of the list could not be delivered
//     either (assumption: sends of the rule client succeed), so a path may
//     leave the loop after a failed send.  It may not leave it for any other
//     reason: an input of one action that cannot be obtained (a lookup that
//     fails or returns nothing), or a value of the action's configuration, is
//     a matter of that action alone; the remaining actions (a set-value action
//     further down) must still run, because the caller goes on to send the
//     rule state and to mark the opposite list inactive.
//
// Both are decided by one abstract pass of kit.Std over the function: each
// tracked loop is entered once ("in:<loop>"), coming back to its head ends
// the pass through it (the key is removed on the done edge).  A function
// exit that still carries an "in:" key left that loop early.  Process aborts
// (log.Fatal, panic) are not judged: nothing is sent afterwards either.

type c13Walk struct {
	c     *kit.Ctx
	m     *ruModel
	f     *kit.Func
	loops []*ast.RangeStmt
	// classify (R10): class of a call whose error result is tested
	classify bool

	aborts  int
	unknown []ast.Expr // condition leaves the pass could not interpret
}

type c13Early struct {
	loops []*ast.RangeStmt // tracked loops left before exhaustion, innermost first
	via   ast.Node         // the return / branch statement (nil: not identified)
	at    string           // description of via and its guard
	state kit.S
	path  []string
}

func c13LoopKey(rs *ast.RangeStmt) string { return fmt.Sprintf("in:%d", rs.Pos()) }

const (
	c13FailSend    = "fail:send"
	c13FailInput   = "fail:input"
	c13FailUnknown = "fail:unknown"
)

func (w *c13Walk) run() []c13Early {
	f := w.f
	g := w.c.P.Graph(f)
	st := &kit.Std{F: f}
	bf := &kit.BoolFlow{Std: st, ForkUnknown: true}
	tracked := map[*ast.RangeStmt]bool{}
	for _, rs := range w.loops {
		tracked[rs] = true
	}
	st.OnBranch = func(br kit.Branch, s kit.S) (t, fl []kit.S, handled bool) {
		if br.Kind != kit.BrRange || !tracked[br.Range] {
			return nil, nil, false
		}
		k := c13LoopKey(br.Range)
		if !s.Has(k) {
			return []kit.S{s.Set(k, "1")}, []kit.S{s}, true
		}
		return nil, []kit.S{s.Del(k)}, true
	}
	st.Eval.OnUnknown = func(e ast.Expr) { w.unknown = append(w.unknown, e) }
	if w.classify {
		st.ErrTag = func(call *ast.CallExpr, s kit.S) string {
			cls, what := w.callClass(call)
			return cls + "\x00" + what
		}
		st.OnErrEdge = func(tag string, isErr bool, s kit.S) (kit.S, bool) {
			if !isErr {
				return s, true
			}
			if p := strings.SplitN(tag, "\x00", 2); len(p) == 2 {
				return s.Set(p[0], p[1]), true
			}
			return s, true
		}
	}
	res := g.Run(kit.NewS(), bf.Client())
	if res.Overflow {
		w.c.Fatalf("%s: state space overflow in the element-visit pass", f.Name)
	}
	w.c.AddValuations(1)
	var out []c13Early
	seen := map[string]bool{}
	for _, ex := range res.Exits {
		var left []*ast.RangeStmt
		for _, rs := range w.loops {
			if ex.State.Has(c13LoopKey(rs)) {
				left = append(left, rs)
			}
		}
		if len(left) == 0 {
			continue
		}
		if ex.Return == nil {
			w.aborts++
			continue
		}
		sort.Slice(left, func(i, j int) bool {
			return left[i].Body.End()-left[i].Body.Pos() < left[j].Body.End()-left[j].Body.Pos()
		})
		ee := c13Early{loops: left, state: ex.State}
		blocks := append(res.BlockPath(ex), ex.Block)
		ee.via = w.leftVia(left[0], ex.Return, blocks)
		ee.at = w.describeExit(left[0], ee.via)
		k := ee.at + "|" + ex.State.Get(c13FailSend) + "|" + ex.State.Get(c13FailInput) + "|" + ex.State.Get(c13FailUnknown)
		for _, rs := range left {
			k += "|" + c13LoopKey(rs)
		}
		if seen[k] {
			continue
		}
		seen[k] = true
		ee.path = res.PathTo(ex)
		out = append(out, ee)
	}
	return out
}

func c13Within(n ast.Node, pos token.Pos) bool { return n.Pos() <= pos && pos < n.End() }

// c13BlockAt gives a position that tells inside which loop body a block lies.
func c13BlockAt(b *cfg.Block) token.Pos {
	if len(b.Nodes) > 0 {
		return b.Nodes[0].Pos()
	}
	switch s := b.Stmt.(type) {
	case *ast.IfStmt:
		switch b.Kind {
		case cfg.KindIfThen:
			return s.Body.Pos()
		case cfg.KindIfElse:
			if s.Else != nil {
				return s.Else.Pos()
			}
		}
	case *ast.CaseClause:
		if b.Kind == cfg.KindSwitchCaseBody {
			return s.Colon
		}
	case *ast.CommClause:
		if b.Kind == cfg.KindSelectCaseBody {
			return s.Colon
		}
	case *ast.RangeStmt:
		if b.Kind == cfg.KindRangeBody {
			return s.Body.Pos()
		}
	case *ast.ForStmt:
		if b.Kind == cfg.KindForBody {
			return s.Body.Pos()
		}
	}
	if b.Stmt != nil {
		return b.Stmt.Pos()
	}
	return token.NoPos
}

// leftVia finds the statement through which the path left the body of loop:
// the return itself when it stands in the body, else the branch statement
// that follows the last block of the path inside the body.
func (w *c13Walk) leftVia(loop *ast.RangeStmt, ret *ast.ReturnStmt, blocks []*cfg.Block) ast.Node {
	if c13Within(loop.Body, ret.Pos()) {
		return ret
	}
	var last *cfg.Block
	for _, b := range blocks {
		if p := c13BlockAt(b); p != token.NoPos && c13Within(loop.Body, p) {
			last = b
		}
	}
	if last == nil {
		return nil
	}
	start := c13BlockAt(last)
	if n := len(last.Nodes); n > 0 {
		start = last.Nodes[n-1].End()
	} else if last.Stmt != nil {
		switch last.Kind {
		case cfg.KindIfDone, cfg.KindSwitchDone, cfg.KindSelectDone, cfg.KindRangeDone, cfg.KindForDone:
			start = last.Stmt.End() // the block after a statement nested in the body
		}
	}
	var best *ast.BranchStmt
	ast.Inspect(loop.Body, func(n ast.Node) bool {
		if _, ok := n.(*ast.FuncLit); ok {
			return false
		}
		if br, ok := n.(*ast.BranchStmt); ok && br.Pos() >= start && (best == nil || br.Pos() < best.Pos()) {
			best = br
		}
		return true
	})
	if best == nil {
		return nil
	}
	return best
}

// describeExit renders the exit statement and the innermost decision it
// depends on inside the loop body.
func (w *c13Walk) describeExit(loop *ast.RangeStmt, via ast.Node) string {
	f := w.f
	if via == nil {
		return "a jump out of the loop body"
	}
	txt := f.Str(via)
	if len(txt) > 60 {
		txt = txt[:57] + "..."
	}
	d := fmt.Sprintf("`%s` at %s", txt, f.At(via))
	guard := f.Enclosing(via, func(n ast.Node) bool {
		switch n.(type) {
		case *ast.IfStmt, *ast.CaseClause:
			return true
		}
		return n == ast.Node(loop.Body)
	})
	switch x := guard.(type) {
	case *ast.IfStmt:
		if x.Else != nil && c13Within(x.Else, via.Pos()) {
			d += fmt.Sprintf(" in the else branch of `if %s`", f.Str(x.Cond))
		} else {
			d += fmt.Sprintf(" under `if %s`", f.Str(x.Cond))
		}
	case *ast.CaseClause:
		if len(x.List) == 0 {
			d += " in the default case"
		} else {
			var cs []string
			for _, e := range x.List {
				cs = append(cs, f.Str(e))
			}
			d += fmt.Sprintf(" in `case %s`", strings.Join(cs, ", "))
		}
	default:
		d += " (unconditionally)"
	}
	return d
}

// guardedBy reports whether an uninterpreted leaf satisfying pred stands in
// the condition of an if statement enclosing via (inside the function).
func (w *c13Walk) guardedByUnknown(via ast.Node, pred func(ast.Expr) bool) string {
	if via == nil {
		return ""
	}
	f := w.f
	for x := f.Prog.Parent(f.File, via); x != nil && x != ast.Node(f.Body); x = f.Prog.Parent(f.File, x) {
		ifs, ok := x.(*ast.IfStmt)
		if !ok {
			continue
		}
		for _, u := range w.unknown {
			if c13Within(ifs.Cond, u.Pos()) && ruMentions(u, pred) {
				return fmt.Sprintf("`%s` at %s", f.Str(u), f.At(u))
			}
		}
	}
	return ""
}

// ---------------------------------------------------------------------------
// whole list

// c13Whole judges the operand of a loop: "ok" when it denotes the whole list
// (isWhole, through single-definition locals and full slice expressions),
// "violation" when a slice expression provably cuts elements off, else
// "undecided".
func c13Whole(f *kit.Func, x ast.Expr, isWhole func(ast.Expr) bool, depth int) (status, msg string) {
	info := f.Info()
	x = ast.Unparen(x)
	if isWhole(x) {
		return "ok", ""
	}
	if depth > 3 {
		return "undecided", "the loop operand is not traced back to the list"
	}
	switch y := x.(type) {
	case *ast.Ident:
		o := kit.ObjOf(info, y)
		if o == nil {
			break
		}
		if rhs, _, _, n := c13SingleDef(f, o); n == 1 && rhs != nil {
			return c13Whole(f, rhs, isWhole, depth+1)
		}
	case *ast.SliceExpr:
		if st, msg := c13Whole(f, y.X, isWhole, depth+1); st != "ok" {
			return st, msg
		}
		isLenOf := func(e ast.Expr) bool {
			call, ok := ast.Unparen(e).(*ast.CallExpr)
			if !ok || len(call.Args) != 1 {
				return false
			}
			bi, ok := kit.Callee(info, call).(*types.Builtin)
			return ok && bi.Name() == "len" && kit.SameExpr(info, call.Args[0], y.X)
		}
		if y.Low != nil {
			if k, isC := kit.ConstInt(info, y.Low); isC {
				if k > 0 {
					return "violation", fmt.Sprintf("`%s` skips the first %d element(s) of the list", f.Str(x), k)
				}
			} else if be, ok := ast.Unparen(y.Low).(*ast.BinaryExpr); ok && be.Op == token.SUB && isLenOf(be.X) {
				if k, isC := kit.ConstInt(info, be.Y); isC && k > 0 {
					return "violation", fmt.Sprintf("`%s` keeps only the last %d element(s) of the list", f.Str(x), k)
				}
				return "undecided", fmt.Sprintf("the lower bound of `%s` is not a constant", f.Str(x))
			} else {
				return "undecided", fmt.Sprintf("the lower bound of `%s` is not a constant", f.Str(x))
			}
		}
		if y.High != nil && !isLenOf(y.High) {
			if k, isC := kit.ConstInt(info, y.High); isC {
				return "violation", fmt.Sprintf("`%s` keeps only the first %d element(s) of the list", f.Str(x), k)
			}
			return "undecided", fmt.Sprintf("the upper bound of `%s` is not the length of the list", f.Str(x))
		}
		return "ok", ""
	}
	return "undecided", fmt.Sprintf("the loop operand `%s` is not recognised as the whole list", f.Str(x))
}

// ---------------------------------------------------------------------------
// R9

func c13R9(c *kit.Ctx, m *ruModel, e *kit.Func, r9 *kit.Rule) {
	info := e.Info()
	stores := m.condStores(e)
	encloses := func(rs *ast.RangeStmt) bool {
		for _, st := range stores {
			if rs.Body.Pos() <= st.Pos() && st.End() <= rs.Body.End() {
				return true
			}
		}
		return false
	}
	var condLoops, pointLoops []*ast.RangeStmt
	for rs := range m.evalLoops(e) {
		condLoops = append(condLoops, rs)
	}
	sort.Slice(condLoops, func(i, j int) bool { return condLoops[i].Pos() < condLoops[j].Pos() })
	for _, rs := range ruOwnLoops(e) {
		if m.isPointLoop(e, rs) && encloses(rs) {
			pointLoops = append(pointLoops, rs)
		}
	}
	oAll := r9.Ob(e, nil, "evaluation loops run to the end", "the loops over the batch and over the condition list that enclose the condition-state store are left only when exhausted: every point of the batch is shown to every condition")
	// a counting loop that carries a guard in its condition can end before the list does
	for _, gl := range m.guardedLoops(e) {
		el := ruSliceElem(info.TypeOf(gl.rs.X))
		if el != nil && (types.Identical(el, m.cond) || types.Identical(el, m.point)) && len(m.condStoresIn(e, gl.fs.Body)) > 0 {
			oAll.Undecided("the loop at %s ends when `%s` fails, not only when the list is exhausted; the checker does not judge that guard", e.At(gl.fs), e.Str(gl.fs.Cond))
			return
		}
	}
	if len(condLoops) == 0 || len(pointLoops) == 0 {
		oAll.Undecided("the condition-state store is enclosed by %d loop(s) over the condition list and %d loop(s) over the batch: the pairing of points and conditions is not in a recognised form", len(condLoops), len(pointLoops))
		return
	}
	params := e.Params()
	for i, rs := range condLoops {
		name := "condition loop operand"
		if i > 0 {
			name += fmt.Sprintf(" #%d", i+1)
		}
		o := r9.Ob(e, rs, name, "the evaluation ranges over the rule's whole condition list")
		switch st, msg := c13Whole(e, rs.X, func(x ast.Expr) bool { return m.ruleField(e, x) == m.rConds }, 0); st {
		case "ok":
			o.OK("`%s` is the rule's condition list", e.Str(rs.X))
		case "violation":
			o.Violation("%s: the conditions cut off are never evaluated, their stored state never follows the points, yet the rule state is the conjunction over all of them", msg)
		default:
			o.Undecided("%s", msg)
		}
	}
	for i, rs := range pointLoops {
		name := "point loop operand"
		if i > 0 {
			name += fmt.Sprintf(" #%d", i+1)
		}
		o := r9.Ob(e, rs, name, "the evaluation ranges over the whole batch it was handed")
		isBatch := func(x ast.Expr) bool {
			o := kit.ObjOf(info, x)
			if _, isID := ast.Unparen(x).(*ast.Ident); !isID || o == nil {
				return false
			}
			for _, p := range params {
				if types.Object(p) == o {
					return true
				}
			}
			return false
		}
		switch st, msg := c13Whole(e, rs.X, isBatch, 0); st {
		case "ok":
			o.OK("`%s` is the batch parameter", e.Str(rs.X))
		case "violation":
			o.Violation("%s: a point that is cut off is never compared, so a condition whose latest matching point it is keeps the state of an earlier point", msg)
		default:
			o.Undecided("%s", msg)
		}
	}
	w := &c13Walk{c: c, m: m, f: e, loops: append(append([]*ast.RangeStmt{}, condLoops...), pointLoops...)}
	early := w.run()
	if len(early) == 0 {
		oAll.OK("no path leaves the %d loop(s) over the condition list or the %d loop(s) over the batch before the end (%d process abort(s) not judged)", len(condLoops), len(pointLoops), w.aborts)
		return
	}
	var msgs []string
	anyCond := false
	for _, ee := range early {
		leftCond, leftPoint := false, false
		for _, rs := range ee.loops {
			if m.isPointLoop(e, rs) {
				leftPoint = true
			} else {
				leftCond = true
			}
		}
		var what []string
		if leftCond {
			anyCond = true
			what = append(what, "the conditions after the current one are not shown the current point")
		}
		if leftPoint {
			what = append(what, "the remaining points of the batch are not evaluated at all")
		}
		msgs = append(msgs, fmt.Sprintf("%s leaves the evaluation before the end: %s", ee.at, strings.Join(what, " and ")))
	}
	witness := "conditions [A: any point of node N > 10, B: points of type T of node N > 3]; points T=20 (A, B active), T=0 (A inactive, B must become inactive), then U=50 matching only A: the rule goes active and runs its actions although the latest point matching B fails it"
	if !anyCond {
		witness = "condition [points of type T > 3], batch [T=20, T=0]: only the first point is compared, the condition (and the rule) stays active although the latest matching point fails the comparison"
	}
	oAll.Violation("%s; a skipped condition keeps the state of an earlier point although the latest point matching it may fail (or satisfy) its comparison, and the rule state is computed from that stale state. Witness: %s",
		strings.Join(uniqStrings(msgs), "; "), witness).WithPath(early[0].path)
}

// ---------------------------------------------------------------------------
// R10

const c13NatsPkg = "github.com/nats-io/nats.go"

func c13IsBusType(t types.Type) bool {
	if t == nil {
		return false
	}
	n, ok := ruDeref(t).(*types.Named)
	if !ok || n.Obj().Pkg() == nil || n.Obj().Pkg().Path() != c13NatsPkg {
		return false
	}
	return n.Obj().Name() == "Conn" || n.Obj().Name() == "EncodedConn"
}

// c13CarriesBus: the bus connection itself or a struct holding it in a field.
func c13CarriesBus(t types.Type) bool {
	if t == nil {
		return false
	}
	if c13IsBusType(t) {
		return true
	}
	st, ok := ruDeref(t).Underlying().(*types.Struct)
	if !ok {
		return false
	}
	for i := 0; i < st.NumFields(); i++ {
		if c13IsBusType(st.Field(i).Type()) {
			return true
		}
	}
	return false
}

func c13IsError(t types.Type) bool {
	return t != nil && types.Identical(t, types.Universe.Lookup("error").Type())
}

// callClass classifies a call whose error result is tested, by signature:
//
//	fail:send    nothing comes back but an error and the data goes to the bus:
//	             a method of the bus connection, or a function of the module
//	             that takes the connection (or its holder) and a payload
//	             (point(s), bytes); also the encoding of a payload: a call
//	             without access to the bus whose value is used only as an
//	             argument of such sends;
//	fail:input   the call yields a value the action goes on to use (a lookup),
//	             or checks the action's data without touching the bus;
//	fail:unknown anything else (a function that holds the connection and
//	             returns only an error may send or look something up).
func (w *c13Walk) callClass(call *ast.CallExpr) (cls, what string) {
	f := w.f
	txt := f.Str(call)
	if len(txt) > 50 {
		txt = txt[:47] + "..."
	}
	what = fmt.Sprintf("`%s` at %s", txt, f.At(call))
	cls, payloadOK := w.callClass0(call)
	if cls == c13FailInput && payloadOK && w.payloadOnly(call) {
		return c13FailSend, "the encoding of the payload " + what
	}
	return cls, what
}

func (w *c13Walk) callClass0(call *ast.CallExpr) (cls string, mayBePayload bool) {
	f := w.f
	info := f.Info()
	fn, _ := kit.Callee(info, call).(*types.Func)
	if fn == nil {
		return c13FailUnknown, false
	}
	sig, ok := fn.Type().(*types.Signature)
	if !ok || sig.Results().Len() == 0 || !c13IsError(sig.Results().At(sig.Results().Len()-1).Type()) {
		return c13FailUnknown, false
	}
	bus, recvBus := false, false
	if sel, ok := ast.Unparen(call.Fun).(*ast.SelectorExpr); ok {
		if s := info.Selections[sel]; s != nil && s.Kind() == types.MethodVal {
			recvBus = c13IsBusType(s.Recv())
			bus = c13CarriesBus(s.Recv())
		}
	}
	for _, a := range call.Args {
		if c13CarriesBus(info.TypeOf(a)) {
			bus = true
		}
	}
	switch sig.Results().Len() {
	case 1:
		switch {
		case recvBus:
			return c13FailSend, false
		case bus && f.CalleeFunc(call) != nil && w.hasPayloadParam(sig):
			return c13FailSend, false
		case bus:
			return c13FailUnknown, false
		}
		return c13FailInput, false
	case 2:
		return c13FailInput, !bus
	}
	return c13FailInput, false
}

func (w *c13Walk) hasPayloadParam(sig *types.Signature) bool {
	for i := 0; i < sig.Params().Len(); i++ {
		t := sig.Params().At(i).Type()
		if types.Identical(t, w.m.point) {
			return true
		}
		if sl, ok := t.Underlying().(*types.Slice); ok {
			if types.Identical(sl.Elem(), w.m.point) {
				return true
			}
			if b, ok := sl.Elem().Underlying().(*types.Basic); ok && b.Kind() == types.Byte {
				return true
			}
		}
	}
	return false
}

// payloadOnly: the first result of call is bound to a variable every use of
// which is an argument of a send.
func (w *c13Walk) payloadOnly(call *ast.CallExpr) bool {
	f := w.f
	info := f.Info()
	as, ok := f.Prog.Parent(f.File, call).(*ast.AssignStmt)
	if !ok || len(as.Rhs) != 1 || len(as.Lhs) != 2 {
		return false
	}
	id, ok := as.Lhs[0].(*ast.Ident)
	if !ok || id.Name == "_" {
		return false
	}
	o := kit.ObjOf(info, id)
	if o == nil {
		return false
	}
	if _, _, _, n := c13SingleDef(f, o); n != 1 {
		return false
	}
	uses := 0
	good := true
	ast.Inspect(f.Root().Body, func(n ast.Node) bool {
		u, ok := n.(*ast.Ident)
		if !ok || u == id || info.Uses[u] != o {
			return true
		}
		uses++
		c2, ok := f.Prog.Parent(f.File, u).(*ast.CallExpr)
		if !ok {
			good = false
			return true
		}
		isArg := false
		for _, a := range c2.Args {
			if a == ast.Expr(u) {
				isArg = true
			}
		}
		if cls, _ := w.callClass0(c2); !isArg || cls != c13FailSend {
			good = false
		}
		return true
	})
	return good && uses > 0
}

// sendTaint: the variables that receive (a value computed from) the result
// of a send; a condition over them that the pass cannot interpret may well
// mean "the send failed".
func (w *c13Walk) sendTaint() func(ast.Expr) bool {
	f := w.f
	info := f.Info()
	tainted := map[types.Object]bool{}
	pred := func(x ast.Expr) bool {
		switch y := x.(type) {
		case *ast.CallExpr:
			cls, _ := w.callClass(y)
			return cls == c13FailSend
		case *ast.Ident:
			o := kit.ObjOf(info, y)
			return o != nil && tainted[o]
		}
		return false
	}
	for changed := true; changed; {
		changed = false
		mark := func(lhs []ast.Expr, rhs []ast.Expr) {
			hit := false
			for _, r := range rhs {
				if ruMentions(r, pred) {
					hit = true
				}
			}
			if !hit {
				return
			}
			for _, l := range lhs {
				if id, ok := ast.Unparen(l).(*ast.Ident); ok {
					if o := kit.ObjOf(info, id); o != nil && !tainted[o] {
						tainted[o] = true
						changed = true
					}
				}
			}
		}
		ruInspectOwn(f, func(n ast.Node) bool {
			switch s := n.(type) {
			case *ast.AssignStmt:
				mark(s.Lhs, s.Rhs)
			case *ast.ValueSpec:
				var lhs []ast.Expr
				for _, nm := range s.Names {
					lhs = append(lhs, nm)
				}
				mark(lhs, s.Values)
			}
			return true
		})
	}
	return pred
}

func c13R10(c *kit.Ctx, m *ruModel, r10 *kit.Rule) {
	runners, inactors := m.actionRunners()
	type walker struct {
		f     *kit.Func
		param int
		run   bool
	}
	var ws []walker
	for f, pi := range runners {
		ws = append(ws, walker{f, pi, true})
	}
	for f, pi := range inactors {
		ws = append(ws, walker{f, pi, false})
	}
	sort.Slice(ws, func(i, j int) bool { return ws[i].f.Pos() < ws[j].f.Pos() })
	if len(runners) == 0 || len(inactors) == 0 {
		c.Fatalf("action runner (marks the list's elements active) or inactive-marker not found: %d / %d", len(runners), len(inactors))
	}
	for _, wk := range ws {
		f := wk.f
		c.Analysed(f)
		info := f.Info()
		role, rest := "action runner", "the actions after the current one are not executed — a set-value action further down the list does not write its point to the target node and is not marked active —"
		witness := "list [notify, set-value], the state of the rule changes while the lookup of the notify action fails or finds nothing: the set-value point is never written"
		if !wk.run {
			role, rest = "inactive-marker", "the actions after the current one are not marked inactive"
			witness = "the rule changes state with two actions in the opposite list: the second keeps its active mark although its list is no longer the one in force"
		}
		o := r10.Ob(f, nil, role+" visits the whole list", "the loop over the action list is left before the end only on a path on which a send has failed; a failed lookup, a missing input or a value of one action does not end the run of the list")
		params := f.Params()
		var loops []*ast.RangeStmt
		for _, rs := range ruOwnLoops(f) {
			if el := ruSliceElem(info.TypeOf(rs.X)); el != nil && types.Identical(el, m.action) {
				loops = append(loops, rs)
			}
		}
		for _, gl := range m.guardedLoops(f) {
			if el := ruSliceElem(info.TypeOf(gl.rs.X)); el != nil && types.Identical(el, m.action) {
				o.Undecided("the loop at %s ends when `%s` fails, not only when the list is exhausted; the checker does not judge that guard", f.At(gl.fs), f.Str(gl.fs.Cond))
				loops = nil
			}
		}
		if o.Status == "undecided" {
			continue
		}
		if len(loops) == 0 {
			o.Undecided("no loop over the action list in %s", f.Name)
			continue
		}
		isList := func(x ast.Expr) bool {
			_, isID := ast.Unparen(x).(*ast.Ident)
			return isID && wk.param < len(params) && kit.ObjOf(info, x) == types.Object(params[wk.param])
		}
		whole := true
		for _, rs := range loops {
			switch st, msg := c13Whole(f, rs.X, isList, 0); st {
			case "ok":
			case "violation":
				o.Violation("%s: the actions cut off are never run / marked, while the caller treats the list as handled", msg)
				whole = false
			default:
				o.Undecided("%s", msg)
				whole = false
			}
		}
		if !whole {
			continue
		}
		w := &c13Walk{c: c, m: m, f: f, loops: loops, classify: true}
		early := w.run()
		taint := w.sendTaint()
		var bad, undec, fine []string
		var badPath []string
		for _, ee := range early {
			s := ee.state
			switch {
			case s.Get(c13FailSend) != "":
				fine = append(fine, s.Get(c13FailSend))
			case s.Get(c13FailUnknown) != "":
				undec = append(undec, fmt.Sprintf("%s leaves the loop after %s failed, which the checker can classify neither as a send nor as a lookup", ee.at, s.Get(c13FailUnknown)))
			default:
				if u := w.guardedByUnknown(ee.via, taint); u != "" {
					undec = append(undec, fmt.Sprintf("%s leaves the loop under %s, a condition over the result of a send that the checker does not interpret", ee.at, u))
					continue
				}
				why := "no call has failed on that path: the exit depends on the action's data alone"
				if in := s.Get(c13FailInput); in != "" {
					why = fmt.Sprintf("the only failure on that path is %s, which obtains or checks an input of this one action and sends nothing", in)
				}
				bad = append(bad, fmt.Sprintf("%s leaves the loop over the action list before the end; %s", ee.at, why))
				if badPath == nil {
					badPath = ee.path
				}
			}
		}
		switch {
		case len(bad) > 0:
			o.Violation("%s. Then %s while the caller (which only logs the returned error) goes on as if the list had been handled: the rule state is sent and the opposite list is marked inactive. "+
				"Witness: %s",
				strings.Join(uniqStrings(bad), "; "), rest, witness).WithPath(badPath)
		case len(undec) > 0:
			o.Undecided("%s", strings.Join(uniqStrings(undec), "; "))
		case len(fine) > 0:
			o.OK("the list is left early only after a failed send (%s); %d process abort(s) not judged", strings.Join(uniqStrings(fine), ", "), w.aborts)
		default:
			o.OK("no path leaves the loop over the action list before the end (%d process abort(s) not judged)", w.aborts)
		}
	}
}
