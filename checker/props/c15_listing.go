package props

import (
	"go/ast"
	"go/types"
	"strconv"

	"siotcheck/kit"
)

// C15/R5 (added after the union sensitivity sweep): the store's node listing —
// what every "deleted nodes are not exported / not listed" clause relies on —
// returns an edge iff includeDeleted or the edge is not tombstoned, for every
// edge of the query result (no early loop exit).  Enumerated over
// includeDeleted x tombstoned.
func c15ListingFilter(c *kit.Ctx, r5 *kit.Rule) {
	m := newStoreModel(c)
	var lf *kit.Func
	var incl *types.Var
	for _, f := range c.P.Funcs("store") {
		if f.Decl == nil || f.Type.Results == nil || len(f.Type.Results.List) != 2 {
			continue
		}
		rt := f.Info().TypeOf(f.Type.Results.List[0].Type)
		sl, ok := rt.Underlying().(*types.Slice)
		if !ok || !kit.IsNamedType(sl.Elem(), dataPkg, "NodeEdge") {
			continue
		}
		var b *types.Var
		for _, p := range f.Params() {
			if bt, ok := p.Type().Underlying().(*types.Basic); ok && bt.Kind() == types.Bool {
				b = p
			}
		}
		reads := false
		for _, s := range m.sql.Sites {
			if s.F == f && s.HasVerb("SELECT", "edges") {
				reads = true
			}
		}
		if b != nil && reads {
			lf, incl = f, b
		}
	}
	if lf == nil {
		r5.Ob(nil, nil, "store listing", "exists").Undecided("store function ([]data.NodeEdge, error) with a bool parameter reading table edges not found")
		return
	}
	c.Analysed(lf)
	f := lf
	info := f.Info()
	// the edges result and the loop over it
	var q *kit.SQLSite
	for _, s := range m.sql.Sites {
		if s.F == f && s.HasVerb("SELECT", "edges") {
			q = s
		}
	}
	var edgesVar types.Object
	if as, ok := c.P.Parent(f.File, q.Call).(*ast.AssignStmt); ok && len(as.Lhs) > 0 {
		edgesVar = kit.ObjOf(info, as.Lhs[0])
	}
	var loop *ast.RangeStmt
	for _, rs := range f.SliceLoops(f.Body) {
		if loop == nil && edgesVar != nil && kit.ObjOf(info, rs.X) == edgesVar {
			loop = rs
		}
	}
	if loop == nil {
		r5.Ob(f, nil, "store listing loop", "exists").Undecided("no range over the queried edges in %s", f.Name)
		return
	}
	// variables holding the tombstone verdict: first result of a call of a
	// NodeEdge/Edge method whose body reads the tombstone point
	tombVars := map[types.Object]bool{}
	tomb := dataConst(c, "PointTypeTombstone")
	isTombCall := func(call *ast.CallExpr) bool {
		cf := f.CalleeFunc(call)
		if cf == nil || cf.Body == nil {
			return false
		}
		found := false
		ast.Inspect(cf.Body, func(n ast.Node) bool {
			if e, ok := n.(ast.Expr); ok {
				if s, ok := kit.ConstString(cf.Info(), e); ok && s == tomb {
					found = true
				}
			}
			return true
		})
		return found
	}
	ast.Inspect(loop.Body, func(n ast.Node) bool {
		if as, ok := n.(*ast.AssignStmt); ok && len(as.Rhs) == 1 {
			if call, ok := ast.Unparen(as.Rhs[0]).(*ast.CallExpr); ok && isTombCall(call) {
				if o := kit.ObjOf(info, as.Lhs[0]); o != nil {
					tombVars[o] = true
				}
			}
		}
		return true
	})
	var retVar types.Object
	ast.Inspect(f.Body, func(n ast.Node) bool {
		if r, ok := n.(*ast.ReturnStmt); ok && len(r.Results) == 2 && kit.IsNilIdent(info, r.Results[1]) {
			if o := kit.ObjOf(info, r.Results[0]); o != nil {
				retVar = o
			}
		}
		return true
	})
	for _, inclV := range []bool{false, true} {
		for _, tombV := range []bool{false, true} {
			key := "includeDeleted=" + strconv.FormatBool(inclV) + ", tombstoned=" + strconv.FormatBool(tombV)
			o := r5.Ob(f, loop, "store listing: "+key, "edge listed iff includeDeleted or not tombstoned; the loop goes on to the next edge")
			st := &kit.Std{F: f}
			st.Eval.Atom = func(e ast.Expr) (string, bool, bool) {
				if ob := kit.ObjOf(info, e); ob != nil {
					if ob == types.Object(incl) {
						return "incl", false, true
					}
					if tombVars[ob] {
						return "tomb", false, true
					}
				}
				if call, ok := ast.Unparen(e).(*ast.CallExpr); ok && isTombCall(call) {
					return "tomb", false, true
				}
				return "", false, false
			}
			unknown := ""
			st.Eval.OnUnknown = func(e ast.Expr) {
				if loop.Body.Pos() <= e.Pos() && e.End() <= loop.Body.End() {
					if _, _, isErr := kit.ErrCheck(info, e); !isErr {
						unknown = f.Str(e)
					}
				}
			}
			st.OnCall = func(call *ast.CallExpr, n ast.Node, s kit.S) []kit.S {
				if b, ok := kit.Callee(info, call).(*types.Builtin); ok && b.Name() == "append" && len(call.Args) == 2 && s.Get("it") == "1" {
					if retVar != nil && kit.ObjOf(info, call.Args[0]) == retVar {
						return []kit.S{s.Set("app", "1")}
					}
				}
				return nil
			}
			st.OnBranch = func(br kit.Branch, s kit.S) (t, fl []kit.S, handled bool) {
				if br.Kind == kit.BrRange && br.Range == loop {
					if !s.Has("it") {
						return []kit.S{s.Set("it", "1")}, nil, true
					}
					// back at the loop head after the iteration: the next edge would be examined
					return nil, []kit.S{s.Set("it", "next")}, true
				}
				return nil, nil, false
			}
			init := kit.NewS().Set("a:incl", tbool(inclV)).Set("a:tomb", tbool(tombV))
			res := c.P.Graph(f).Run(init, st.Client())
			c.AddValuations(1)
			outs := map[string]bool{}
			early := false
			for _, e := range res.Exits {
				if e.Return == nil || st.ReturnsNil(e.Return, e.State) == "nonnil" {
					continue
				}
				switch e.State.Get("it") {
				case "next":
					outs[e.State.Get("app")] = true
				case "1":
					early = true // left the loop without coming back to its head
				}
			}
			want := inclV || !tombV
			ws := map[bool]string{true: "listed", false: "skipped"}
			switch {
			case len(outs) == 0 && !early:
				o.Undecided("iteration not traversed")
			case early:
				o.Violation("for %s the loop over the edges can be left before the next edge is examined (break/return): the remaining nodes are not listed", key)
			case len(outs) > 1 && unknown != "":
				o.Violation("for %s the outcome depends on the unrelated condition `%s` (expected always %s)", key, unknown, ws[want])
			case len(outs) != 1:
				o.Undecided("outcome not unique: %v", outs)
			case outs["1"] != want:
				o.Violation("for %s the edge is %s (expected %s)", key, ws[outs["1"]], ws[want])
			default:
				o.OK("%s, next edge examined", ws[want])
			}
		}
	}
}
