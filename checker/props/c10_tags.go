package props

import (
	"fmt"
	"go/ast"
	"go/token"
	"go/types"
	"sort"
	"strings"

	"siotcheck/kit"
)

// Struct-tag rules of C10: R2 (key derivation chain) and R4 (dispatch order).
//
// A string variable assigned from reflect.StructTag.Get(<constant>) is a
//   - key variable when it is assigned more than once or flows into Point.Key;
//   - dispatch variable otherwise (tested against "" to select the treatment
//     of the field).
// A small path-sensitive walk tracks, per variable, whether it is known empty
// and the chain of sources it has been given while empty.

type c10TagVars struct {
	f        *kit.Func
	key      map[types.Object]bool
	dispatch map[types.Object]string // var -> tag name
	order    []types.Object          // key vars in source order
	pseudo   map[ast.Expr]string     // switch tag `X.Tag.Get("t")` -> tag name
	places   map[string]*types.Var   // "p.Key" of a local struct variable p -> stand-in variable
	byBase   map[types.Object][]types.Object
	keyFunc  bool // the function returns the key of a struct field
}

func c10TagGet(info *types.Info, e ast.Expr) (string, bool) {
	call, ok := ast.Unparen(e).(*ast.CallExpr)
	if !ok || !kit.CallIs(info, call, "reflect.(StructTag).Get") || len(call.Args) != 1 {
		return "", false
	}
	return kit.ConstString(info, call.Args[0])
}

// c10NameFn recognises g(<StructField>.Name) and returns g's qualified name.
func c10NameFn(info *types.Info, e ast.Expr) (string, bool) {
	call, ok := ast.Unparen(e).(*ast.CallExpr)
	if !ok || len(call.Args) != 1 {
		return "", false
	}
	sel, ok := ast.Unparen(call.Args[0]).(*ast.SelectorExpr)
	if !ok || sel.Sel.Name != "Name" || kit.RType(info.TypeOf(sel.X)) != "StructField" {
		return "", false
	}
	fn, ok := kit.Callee(info, call).(*types.Func)
	if !ok {
		return "", false
	}
	return kit.QualName(fn), true
}

// obj names what an assignable expression denotes: the variable of an
// identifier, or a stand-in variable for a field path `p.Key` on a local
// struct value p (one per variable and path, so that p.Key of different
// variables are different places).  Other selectors denote nothing here.
func (tv *c10TagVars) obj(e ast.Expr) types.Object {
	info := tv.f.Info()
	switch x := ast.Unparen(e).(type) {
	case *ast.Ident:
		return kit.ObjOf(info, x)
	case *ast.SelectorExpr:
		sel, ok := info.Selections[x]
		if !ok || sel.Kind() != types.FieldVal || sel.Indirect() {
			return nil
		}
		id, ok := ast.Unparen(x.X).(*ast.Ident)
		if !ok {
			return nil
		}
		base, ok := kit.ObjOf(info, id).(*types.Var)
		if !ok || base.IsField() || base.Pkg() == nil || base.Parent() == base.Pkg().Scope() {
			return nil
		}
		key := kit.VarID(base) + "." + x.Sel.Name
		if v, ok := tv.places[key]; ok {
			return v
		}
		v := types.NewVar(base.Pos(), base.Pkg(), base.Name()+"."+x.Sel.Name, sel.Type())
		tv.places[key] = v
		tv.byBase[base] = append(tv.byBase[base], v)
		return v
	}
	return nil
}

func c10CollectTagVars(f *kit.Func) *c10TagVars {
	info := f.Info()
	tv := &c10TagVars{f: f, key: map[types.Object]bool{}, dispatch: map[types.Object]string{}, places: map[string]*types.Var{}, byBase: map[types.Object][]types.Object{}}
	nAssign := map[types.Object]int{}
	tagOf := map[types.Object]string{}
	var seen []types.Object
	ast.Inspect(f.Body, func(n ast.Node) bool {
		as, ok := n.(*ast.AssignStmt)
		if !ok || len(as.Lhs) != len(as.Rhs) {
			return true
		}
		for i, l := range as.Lhs {
			o := tv.obj(l)
			if o == nil {
				continue
			}
			nAssign[o]++
			if t, ok := c10TagGet(info, as.Rhs[i]); ok {
				if _, had := tagOf[o]; !had {
					tagOf[o] = t
					seen = append(seen, o)
				}
			}
		}
		return true
	})
	flowsToKey := map[types.Object]bool{}
	ast.Inspect(f.Body, func(n ast.Node) bool {
		switch x := n.(type) {
		case *ast.KeyValueExpr:
			if id, ok := x.Key.(*ast.Ident); ok && id.Name == "Key" {
				if o := kit.ObjOf(info, x.Value); o != nil {
					flowsToKey[o] = true
				}
			}
		case *ast.AssignStmt:
			for i, l := range x.Lhs {
				if sel, ok := ast.Unparen(l).(*ast.SelectorExpr); ok && sel.Sel.Name == "Key" && i < len(x.Rhs) &&
					kit.IsNamedType(info.TypeOf(sel.X), kit.ModPath+"/data", "Point") {
					if o := kit.ObjOf(info, x.Rhs[i]); o != nil {
						flowsToKey[o] = true
					}
				}
			}
		}
		return true
	})
	tv.pseudo = map[ast.Expr]string{}
	ast.Inspect(f.Body, func(n ast.Node) bool {
		if sw, ok := n.(*ast.SwitchStmt); ok && sw.Tag != nil {
			if t, ok := c10TagGet(info, sw.Tag); ok {
				tv.pseudo[ast.Unparen(sw.Tag)] = t
			}
		}
		return true
	})
	// a function returning the key of one struct field: string result, a
	// reflect.StructField parameter, tags read inside
	if f.Decl != nil && f.Type.Results != nil && len(f.Type.Results.List) == 1 && len(f.Type.Results.List[0].Names) <= 1 {
		if bt, ok := info.TypeOf(f.Type.Results.List[0].Type).Underlying().(*types.Basic); ok && bt.Info()&types.IsString != 0 {
			hasSF := false
			for _, p := range f.Params() {
				if kit.RType(p.Type()) == "StructField" {
					hasSF = true
				}
			}
			reads := false
			ast.Inspect(f.Body, func(n ast.Node) bool {
				if e, ok := n.(ast.Expr); ok {
					if _, ok := c10TagGet(info, e); ok {
						reads = true
					}
				}
				return true
			})
			tv.keyFunc = hasSF && reads
		}
	}
	for _, o := range seen {
		if strings.HasSuffix(o.Name(), ".Key") {
			flowsToKey[o] = true
		}
		if tv.keyFunc && nAssign[o] > 1 {
			// `key := tag; if key == "" { key = next }; return key`: the variable
			// accumulates the derivation like a key variable of an inline site;
			// judged at the returns (not a site of its own)
			tv.key[o] = true
			continue
		}
		if tv.keyFunc {
			tv.dispatch[o] = tagOf[o] // tracked for emptiness; judged at the returns
			continue
		}
		if nAssign[o] > 1 || flowsToKey[o] {
			tv.key[o] = true
			tv.order = append(tv.order, o)
		} else {
			tv.dispatch[o] = tagOf[o]
		}
	}
	return tv
}

type c10TagResult struct {
	uses map[types.Object]map[string]bool // key var -> chains at uses
	seqs map[string]bool                  // dispatch sequences observed
	sub  map[string]map[string]bool       // tag -> constants its dispatch var is compared with
	rets map[string]bool                  // key function: derivation chain at each return
	bad  []string
}

// emptyTest recognises v == "" / v != "" / len(v) == 0 / len(v) > 0 …;
// whenTrueEmpty tells whether the leaf being true means v is empty.
func c10EmptyTest(info *types.Info, objOf func(ast.Expr) types.Object, e ast.Expr) (types.Object, bool, bool) {
	be, ok := ast.Unparen(e).(*ast.BinaryExpr)
	if !ok {
		return nil, false, false
	}
	a, b, op := be.X, be.Y, be.Op
	if s, ok := kit.ConstString(info, a); ok && s == "" {
		a, b = b, a
	}
	if s, ok := kit.ConstString(info, b); ok && s == "" {
		if o := objOf(a); o != nil && (op == token.EQL || op == token.NEQ) {
			return o, op == token.EQL, true
		}
		return nil, false, false
	}
	// len(v) op 0
	call, ok := ast.Unparen(a).(*ast.CallExpr)
	if !ok || len(call.Args) != 1 {
		return nil, false, false
	}
	if bi, ok := kit.Callee(info, call).(*types.Builtin); !ok || bi.Name() != "len" {
		return nil, false, false
	}
	o := objOf(call.Args[0])
	v, isC := kit.ConstInt(info, b)
	if o == nil || !isC {
		return nil, false, false
	}
	switch {
	case v == 0 && (op == token.EQL || op == token.LEQ):
		return o, true, true
	case v == 0 && (op == token.NEQ || op == token.GTR):
		return o, false, true
	case v == 1 && op == token.LSS:
		return o, true, true
	case v == 1 && op == token.GEQ:
		return o, false, true
	}
	return nil, false, false
}

func c10RunTags(c *kit.Ctx, tv *c10TagVars) *c10TagResult {
	f := tv.f
	info := f.Info()
	res := &c10TagResult{uses: map[types.Object]map[string]bool{}, seqs: map[string]bool{}, sub: map[string]map[string]bool{}, rets: map[string]bool{}}
	tracked := func(o types.Object) bool { return o != nil && (tv.key[o] || tv.dispatch[o] != "") }
	use := func(n ast.Node, s kit.S, skip ast.Node) {
		rec := func(o types.Object) {
			if res.uses[o] == nil {
				res.uses[o] = map[string]bool{}
			}
			res.uses[o][s.Get("ch:"+kit.VarID(o))] = true
		}
		ast.Inspect(n, func(x ast.Node) bool {
			if x == skip {
				return false
			}
			switch y := x.(type) {
			case *ast.SelectorExpr:
				if o := tv.obj(y); o != nil {
					if tv.key[o] {
						rec(o)
					}
					return false // p.Other is not a use of p.Key
				}
			case *ast.Ident:
				if o := info.Uses[y]; o != nil {
					if tv.key[o] {
						rec(o)
					}
					for _, pl := range tv.byBase[o] { // the whole struct is used
						if tv.key[pl] {
							rec(pl)
						}
					}
				}
			}
			return true
		})
	}
	testedID := func(s kit.S, id, t string) kit.S {
		if t == "" {
			return s
		}
		for _, d := range strings.Split(s.Get("tst"), ",") {
			if d == id {
				return s
			}
		}
		sq := t
		if cur := s.Get("sq"); cur != "" {
			sq = cur + "," + t
		}
		s = s.Set("tst", s.Get("tst")+","+id).Set("sq", sq)
		res.seqs[sq] = true
		return s
	}
	// tested appends a dispatch variable's tag to the precedence order the
	// first time the variable is tested for emptiness in the current round.
	tested := func(s kit.S, o types.Object) kit.S { return testedID(s, kit.VarID(o), tv.dispatch[o]) }
	// newRound registers a dispatch variable (or switch tag) that has just been
	// given its tag value; one that is given it again starts the next struct field
	newRound := func(s kit.S, id string) kit.S {
		dvs := strings.Split(s.Get("dvs"), ",")
		restart := s.Get("dvs") == ""
		for _, d := range dvs {
			if d == id {
				restart = true
			}
		}
		if restart {
			for _, d := range dvs {
				if d != "" {
					s = s.Del("em:" + d)
				}
			}
			s = s.Set("dvs", id).Del("sq").Del("tst").Del("ks")
		} else {
			s = s.Set("dvs", s.Get("dvs")+","+id)
		}
		return s.Del("em:" + id)
	}
	pseudoID := func(e ast.Expr) string { return fmt.Sprintf("sw@%d", ast.Unparen(e).Pos()) }
	elemOf := func(e ast.Expr) string {
		if t, ok := c10TagGet(info, e); ok {
			return "tag:" + t
		}
		if q, ok := c10NameFn(info, e); ok {
			return "fn:" + q
		}
		if cs, ok := kit.ConstString(info, e); ok {
			return fmt.Sprintf("const:%q", cs)
		}
		return "other:" + f.Str(e)
	}
	// retChain: what a key function returns on this path
	retChain := func(s kit.S, e ast.Expr) string {
		var chain []string
		var last string
		target := ""
		if o := tv.obj(e); o != nil && tv.dispatch[o] != "" {
			target = kit.VarID(o)
		}
		for _, ent := range strings.Split(s.Get("ks"), ";") {
			if ent == "" {
				continue
			}
			j := strings.IndexByte(ent, '>')
			id, el := ent[:j], ent[j+1:]
			if id == target {
				last = el
				continue
			}
			switch s.Get("em:" + id) {
			case "T":
				chain = append(chain, el)
			case "F":
				chain = append(chain, "!nonempty-ignored("+el+")")
			default:
				chain = append(chain, "!untested("+el+")")
			}
		}
		if target == "" {
			last = elemOf(e)
		}
		// an accumulating key variable is returned: its chain continues the
		// tags tested (and found empty) before it
		if o := tv.obj(e); o != nil && tv.key[o] {
			if ch := s.Get("ch:" + kit.VarID(o)); ch != "" {
				last = ch
			}
		}
		return strings.Join(append(chain, last), "|")
	}
	assign := func(s kit.S, as *ast.AssignStmt) kit.S {
		if len(as.Lhs) != len(as.Rhs) {
			for _, l := range as.Lhs {
				if o := tv.obj(l); o != nil {
					for _, pl := range tv.byBase[o] {
						s = s.Del("ch:" + kit.VarID(pl)).Del("em:" + kit.VarID(pl))
					}
				}
				if o := tv.obj(l); tracked(o) {
					id := kit.VarID(o)
					s = s.Del("em:"+id).Set("ch:"+id, s.Get("ch:"+id)+"|other")
				}
			}
			return s
		}
		for i, l := range as.Lhs {
			o := tv.obj(l)
			if o != nil {
				for _, pl := range tv.byBase[o] { // p := … : p.Key starts afresh
					s = s.Del("ch:" + kit.VarID(pl)).Del("em:" + kit.VarID(pl))
				}
			}
			if !tracked(o) {
				continue
			}
			id := kit.VarID(o)
			var elem string
			if t, ok := c10TagGet(info, as.Rhs[i]); ok {
				elem = "tag:" + t
			} else if q, ok := c10NameFn(info, as.Rhs[i]); ok {
				elem = "fn:" + q
			} else if cs, ok := kit.ConstString(info, as.Rhs[i]); ok {
				elem = fmt.Sprintf("const:%q", cs)
			} else {
				elem = "other:" + f.Str(as.Rhs[i])
			}
			if tv.key[o] {
				cur := s.Get("ch:" + id)
				switch {
				case as.Tok == token.DEFINE || cur == "":
					cur = elem
				case strings.Count(cur, "|") > 6:
					// long enough to be judged wrong; keeps loops finite
				case s.Get("em:"+id) == "T":
					cur += "|" + elem
				default:
					cur += "|!overwrite(" + elem + ")"
				}
				s = s.Set("ch:"+id, cur).Del("em:" + id)
				continue
			}
			// dispatch variable
			s = newRound(s, id)
			if tv.keyFunc {
				s = s.Set("ks", s.Get("ks")+";"+id+">"+elem)
			}
		}
		return s
	}
	type sv struct {
		s kit.S
		v bool
	}
	var eval func(e ast.Expr, s kit.S) []sv
	boolLocal := func(e ast.Expr) types.Object {
		id, ok := ast.Unparen(e).(*ast.Ident)
		if !ok {
			return nil
		}
		v, ok := kit.ObjOf(info, id).(*types.Var)
		if !ok || v.IsField() || v.Pkg() == nil || v.Parent() == v.Pkg().Scope() {
			return nil
		}
		if bt, ok := v.Type().Underlying().(*types.Basic); !ok || bt.Info()&types.IsBoolean == 0 {
			return nil
		}
		return v
	}
	node := func(n ast.Node, s kit.S) []kit.S {
		// b := <condition>  is  if <condition> { b = true } else { b = false }
		if as, ok := n.(*ast.AssignStmt); ok && len(as.Lhs) == 1 && len(as.Rhs) == 1 && (as.Tok == token.ASSIGN || as.Tok == token.DEFINE) {
			if b := boolLocal(as.Lhs[0]); b != nil {
				if _, isConst := kit.ConstBool(info, as.Rhs[0]); !isConst {
					var out []kit.S
					for _, r := range eval(as.Rhs[0], s) {
						out = append(out, r.s.Set("bv:"+kit.VarID(b), map[bool]string{true: "T", false: "F"}[r.v]))
					}
					return out
				}
			}
		}
		if e, ok := n.(ast.Expr); ok {
			if _, isTag := tv.pseudo[ast.Unparen(e)]; isTag {
				return []kit.S{newRound(s, pseudoID(e))}
			}
		}
		if r, ok := n.(*ast.ReturnStmt); ok && tv.keyFunc && len(r.Results) == 1 {
			res.rets[retChain(s, r.Results[0])] = true
			return []kit.S{s}
		}
		switch x := n.(type) {
		case *ast.AssignStmt:
			for _, r := range x.Rhs {
				use(r, s, nil)
			}
			for _, l := range x.Lhs {
				if _, plain := ast.Unparen(l).(*ast.Ident); !plain && !tracked(tv.obj(l)) {
					use(l, s, nil) // m[key] = …, q.Key = key; a tracked place being assigned is not used
				}
			}
			s = assign(s, x)
		default:
			use(n, s, nil)
		}
		return []kit.S{s}
	}
	eval = func(e ast.Expr, s kit.S) []sv {
		e = ast.Unparen(e)
		if b := boolLocal(e); b != nil {
			switch s.Get("bv:" + kit.VarID(b)) {
			case "T":
				return []sv{{s, true}}
			case "F":
				return []sv{{s, false}}
			}
		}
		switch x := e.(type) {
		case *ast.UnaryExpr:
			if x.Op == token.NOT {
				rs := eval(x.X, s)
				for i := range rs {
					rs[i].v = !rs[i].v
				}
				return rs
			}
		case *ast.BinaryExpr:
			if x.Op == token.LAND || x.Op == token.LOR {
				var out []sv
				for _, r := range eval(x.X, s) {
					if r.v == (x.Op == token.LOR) {
						out = append(out, r)
					} else {
						out = append(out, eval(x.Y, r.s)...)
					}
				}
				return out
			}
			// sub-key comparison of a dispatch variable
			if x.Op == token.EQL || x.Op == token.NEQ {
				for _, p := range [][2]ast.Expr{{x.X, x.Y}, {x.Y, x.X}} {
					if o := tv.obj(p[0]); o != nil && tv.dispatch[o] != "" {
						if cs, ok := kit.ConstString(info, p[1]); ok && cs != "" {
							t := tv.dispatch[o]
							if res.sub[t] == nil {
								res.sub[t] = map[string]bool{}
							}
							res.sub[t][cs] = true
						}
					}
				}
			}
		}
		if o, whenTrueEmpty, ok := c10EmptyTest(info, tv.obj, e); ok && tracked(o) {
			id := kit.VarID(o)
			s = tested(s, o)
			var out []sv
			for _, empty := range []bool{true, false} {
				val := map[bool]string{true: "T", false: "F"}[empty]
				if cur := s.Get("em:" + id); cur != "" && cur != val {
					continue
				}
				out = append(out, sv{s.Set("em:"+id, val), empty == whenTrueEmpty})
			}
			return out
		}
		use(e, s, nil)
		return []sv{{s, true}, {s, false}}
	}
	cond := func(e ast.Expr, s kit.S) (t, fl []kit.S) {
		for _, r := range eval(e, s) {
			if r.v {
				t = append(t, r.s)
			} else {
				fl = append(fl, r.s)
			}
		}
		return
	}
	other := func(br kit.Branch, s kit.S) (t, fl []kit.S) {
		if br.Kind == kit.BrCase && br.Tag != nil {
			id, tag := "", ""
			if o := tv.obj(br.Tag); tracked(o) {
				id, tag = kit.VarID(o), tv.dispatch[o]
			} else if t, ok := tv.pseudo[ast.Unparen(br.Tag)]; ok {
				id, tag = pseudoID(br.Tag), t
			}
			if cs, ok := kit.ConstString(info, br.Case); ok && id != "" {
				s = testedID(s, id, tag)
				cur := s.Get("em:" + id)
				if cs == "" {
					if cur != "F" {
						t = []kit.S{s.Set("em:"+id, "T")}
					}
					if cur != "T" {
						fl = []kit.S{s.Set("em:"+id, "F")}
					}
					return
				}
				if tag != "" {
					if res.sub[tag] == nil {
						res.sub[tag] = map[string]bool{}
					}
					res.sub[tag][cs] = true
				}
				if cur != "T" {
					t = []kit.S{s.Set("em:"+id, "F")}
				}
				return t, []kit.S{s}
			}
		}
		return []kit.S{s}, []kit.S{s}
	}
	r := c.P.Graph(f).Run(kit.NewS(), kit.Client{Node: node, Cond: cond, Other: other})
	if r.Overflow {
		res.bad = append(res.bad, "state bound exceeded in "+f.Name)
	}
	return res
}

func c10Prefix(a, b []string) bool {
	if len(a) > len(b) {
		return false
	}
	for i := range a {
		if a[i] != b[i] {
			return false
		}
	}
	return true
}

func c10TagRules(c *kit.Ctx, m *c10Model) {
	r2 := c.Rule("R2", "point key derivation: point tag, edgepoint tag, camel-cased field name", 6)
	r4 := c.Rule("R4", "struct-tag dispatch order agrees between Encode, Decode, DiffPoints and the node finder", 8)
	type disp struct {
		f   *kit.Func
		seq []string
		sub map[string]map[string]bool
	}
	var disps []*disp
	var fnSeen []string
	helpers := map[*kit.Func][]*kit.Ob{} // functions that return derived keys -> their derivation sites
	nsites := 0
	for _, f := range c.P.Funcs("data") {
		if f.Body == nil {
			continue
		}
		tv := c10CollectTagVars(f)
		if len(tv.key) == 0 && len(tv.dispatch) == 0 && len(tv.pseudo) == 0 && !tv.keyFunc {
			continue
		}
		c.Analysed(f)
		res := c10RunTags(c, tv)
		for _, b := range res.bad {
			r4.Ob(f, nil, "tag walk of "+f.Name, "the walk is decidable").Undecided("%s", b)
		}
		// ---- R2 per key variable
		for i, o := range tv.order {
			nsites++
			if i == 0 && c10FlowsToReturn(f, tv.key) {
				helpers[f] = nil
			}
			o2 := r2.Ob(f, nil, fmt.Sprintf("key derivation #%d (%s)", i+1, o.Name()),
				"the key is the point tag, else the edgepoint tag, else the camel-cased field name")
			o2.Site = c.P.Pos(o.Pos())
			c10JudgeChains(o2, res.uses[o], &fnSeen, "use")
		}
		if tv.keyFunc {
			nsites++
			helpers[f] = nil
			o2 := r2.Ob(f, nil, "key derivation (returned by "+f.Name+")",
				"the key is the point tag, else the edgepoint tag, else the camel-cased field name")
			c10JudgeChains(o2, res.rets, &fnSeen, "return")
			tv.dispatch = map[types.Object]string{} // not a dispatcher
		}
		if _, isHelper := helpers[f]; isHelper {
			for _, ob := range r2.Obs {
				if ob.Func == f.PkgRel()+"."+f.Name {
					helpers[f] = append(helpers[f], ob)
				}
			}
		}
		// ---- R4 dispatch sequence of this function
		if len(tv.dispatch) > 0 || len(tv.pseudo) > 0 {
			var seqs [][]string
			for s := range res.seqs {
				seqs = append(seqs, strings.Split(s, ","))
			}
			sort.Slice(seqs, func(a, b int) bool { return len(seqs[a]) > len(seqs[b]) })
			if len(seqs) == 0 {
				continue
			}
			d := &disp{f: f, seq: seqs[0], sub: res.sub}
			for _, s := range seqs[1:] {
				if !c10Prefix(s, d.seq) {
					r4.Ob(f, nil, "tag walk of "+f.Name, "one dispatch order").Undecided("two dispatch orders: %v and %v", s, d.seq)
				}
			}
			disps = append(disps, d)
		}
	}
	_ = nsites
	// keys obtained through a helper: each call site is a derivation site whose
	// chain is the helper's
	if len(helpers) > 0 {
		for _, g := range c.P.Funcs("data") {
			if g.Body == nil {
				continue
			}
			n := 0
			for _, call := range g.AllCalls(false) {
				h := g.CalleeFunc(call)
				obs, ok := helpers[h]
				if !ok || h == g {
					continue
				}
				n++
				o := r2.Ob(g, call, fmt.Sprintf("key derivation through %s #%d", h.Name, n),
					"the keys come from a helper whose derivation is the point tag, else the edgepoint tag, else the camel-cased field name")
				bad := ""
				for _, ho := range obs {
					if ho.Status != "ok" {
						bad = ho.Msg
					}
				}
				if bad != "" || len(obs) == 0 {
					o.Violation("%s derives the keys differently: %s", h.Name, bad)
				} else {
					o.OK("%s: %s", h.Name, obs[0].By)
				}
			}
		}
		c10R7(c, helpers)
	} else {
		c.Rule("R7", "a memo of derived keys is keyed injectively on types", 0)
	}
	// roles
	// calls: directly, or through plain helpers (decodeGroup → SetValue)
	calls := func(f, g *kit.Func) bool {
		fns := map[*kit.Func]bool{}
		c10CallsOf(f, f.Body, map[string]bool{}, fns, 0)
		return fns[g]
	}
	var dec, enc, dif *disp
	for _, d := range disps {
		switch {
		case calls(d.f, m.setter.f):
			if dec != nil {
				c.Fatalf("two dispatchers call the group setter: %s and %s", dec.f.Name, d.f.Name)
			}
			dec = d
		case d.f == m.differ.f:
			dif = d
		case calls(d.f, m.appender.f):
			if enc != nil {
				c.Fatalf("two dispatchers call the point appender: %s and %s", enc.f.Name, d.f.Name)
			}
			enc = d
		}
	}
	if dec == nil || enc == nil || dif == nil {
		c.Fatalf("tag dispatchers not found (decoder: %v, encoder: %v, differ: %v)", dec != nil, enc != nil, dif != nil)
	}
	pos := func(seq []string, t string) int {
		for i, x := range seq {
			if x == t {
				return i
			}
		}
		return -1
	}
	for _, d := range disps {
		if d == dec {
			continue
		}
		o := r4.Ob(d.f, nil, "dispatch order vs decoder", "tags tested by both are tested in the same relative order")
		bad := ""
		for i := range d.seq {
			for j := i + 1; j < len(d.seq); j++ {
				pi, pj := pos(dec.seq, d.seq[i]), pos(dec.seq, d.seq[j])
				if pi >= 0 && pj >= 0 && pi > pj {
					bad = fmt.Sprintf("%s tests `%s` before `%s`, %s the other way round: a field carrying both tags is treated differently", d.f.Name, d.seq[i], d.seq[j], dec.f.Name)
				}
			}
		}
		if bad != "" {
			o.Violation("%s", bad)
		} else {
			o.OK("%v is order-consistent with %s %v", d.seq, dec.f.Name, dec.seq)
		}
	}
	for _, d := range []*disp{enc, dif} {
		o := r4.Ob(d.f, nil, "no higher-precedence tag skipped", "every tag the decoder tests before a tag of this producer is tested by the producer too")
		bad := ""
		for _, t := range d.seq {
			p := pos(dec.seq, t)
			for i := 0; i < p; i++ {
				if pos(d.seq, dec.seq[i]) < 0 {
					bad = fmt.Sprintf("%s handles `%s` without testing `%s`, which %s gives precedence", d.f.Name, t, dec.seq[i], dec.f.Name)
				}
			}
		}
		if bad != "" {
			o.Violation("%s", bad)
		} else {
			o.OK("%v against %s %v", d.seq, dec.f.Name, dec.seq)
		}
	}
	{
		o := r4.Ob(enc.f, nil, "encoder tags known to decoder", "every tag the encoder dispatches on is dispatched on by the decoder")
		var missing []string
		for _, t := range enc.seq {
			if pos(dec.seq, t) < 0 {
				missing = append(missing, t)
			}
		}
		if len(missing) > 0 {
			o.Violation("%s emits data for tag(s) %v that %s never reads", enc.f.Name, missing, dec.f.Name)
		} else {
			o.OK("%v ⊆ %v", enc.seq, dec.seq)
		}
	}
	for _, d := range disps {
		if d == dec || len(d.sub) == 0 {
			continue
		}
		o := r4.Ob(d.f, nil, "tag sub-keys known to decoder", "every tag value this function distinguishes (node:\"id\", node:\"parent\") is distinguished by the decoder")
		var missing []string
		n := 0
		for t, vals := range d.sub {
			for v := range vals {
				n++
				if !dec.sub[t][v] {
					missing = append(missing, t+":"+v)
				}
			}
		}
		sort.Strings(missing)
		if len(missing) > 0 {
			o.Violation("%s distinguishes %v, %s does not", d.f.Name, missing, dec.f.Name)
		} else {
			o.OK("%d tag values, all tested by %s", n, dec.f.Name)
		}
	}
}

// c10FlowsToReturn reports whether a key variable of f flows (assignments,
// append, element stores) into a returned value.
func c10FlowsToReturn(f *kit.Func, keys map[types.Object]bool) bool {
	info := f.Info()
	tainted := map[types.Object]bool{}
	for o := range keys {
		tainted[o] = true
	}
	mentions := func(n ast.Node) bool {
		hit := false
		ast.Inspect(n, func(x ast.Node) bool {
			if id, ok := x.(*ast.Ident); ok {
				if o := info.Uses[id]; o != nil && tainted[o] {
					hit = true
				}
			}
			return true
		})
		return hit
	}
	base := func(e ast.Expr) types.Object {
		for {
			switch x := ast.Unparen(e).(type) {
			case *ast.IndexExpr:
				e = x.X
			case *ast.SelectorExpr:
				e = x.X
			default:
				return kit.ObjOf(info, e)
			}
		}
	}
	for changed := true; changed; {
		changed = false
		ast.Inspect(f.Body, func(n ast.Node) bool {
			if as, ok := n.(*ast.AssignStmt); ok {
				dep := false
				for _, r := range as.Rhs {
					dep = dep || mentions(r)
				}
				if dep {
					for _, l := range as.Lhs {
						if o := base(l); o != nil && !tainted[o] {
							tainted[o] = true
							changed = true
						}
					}
				}
			}
			return true
		})
	}
	ret := false
	ast.Inspect(f.Body, func(n ast.Node) bool {
		if _, ok := n.(*ast.FuncLit); ok {
			return false
		}
		if r, ok := n.(*ast.ReturnStmt); ok {
			for _, e := range r.Results {
				if mentions(e) && c10IsKeyish(info.TypeOf(e)) {
					ret = true
				}
			}
		}
		return true
	})
	return ret
}

// c10IsKeyish: string, or slice/array/map of strings (a table of keys).
func c10IsKeyish(t types.Type) bool {
	if t == nil {
		return false
	}
	isStr := func(t types.Type) bool {
		b, ok := t.Underlying().(*types.Basic)
		return ok && b.Info()&types.IsString != 0
	}
	switch u := t.Underlying().(type) {
	case *types.Basic:
		return isStr(t)
	case *types.Slice:
		return isStr(u.Elem())
	case *types.Array:
		return isStr(u.Elem())
	case *types.Map:
		return isStr(u.Elem()) || isStr(u.Key())
	}
	return false
}

// c10JudgeChains decides one derivation site from the chains seen at its uses / returns.
func c10JudgeChains(o2 *kit.Ob, seen map[string]bool, fnSeen *[]string, what string) {
	var chains [][]string
	for ch := range seen {
		chains = append(chains, strings.Split(ch, "|"))
	}
	sort.Slice(chains, func(a, b int) bool {
		if len(chains[a]) != len(chains[b]) {
			return len(chains[a]) > len(chains[b])
		}
		return strings.Join(chains[a], "|") < strings.Join(chains[b], "|")
	})
	if len(chains) == 0 {
		o2.Undecided("no %s of the key reached", what)
		return
	}
	full := chains[0]
	for _, ch := range chains[1:] {
		if !c10Prefix(ch, full) {
			o2.Violation("the key is derived as %s on one path and as %s on another", strings.Join(ch, " → "), strings.Join(full, " → "))
			return
		}
	}
	desc := strings.Join(full, " → ")
	switch {
	case len(full) < 1 || full[0] != "tag:point":
		o2.Violation("derivation %s does not start with the point tag", desc)
	case len(full) < 2 || full[1] != "tag:edgepoint":
		o2.Violation("derivation %s lacks the edgepoint-tag fallback in second place: a nested field tagged only `edgepoint` gets a key the other sites do not use", desc)
	case len(full) < 3 || !strings.HasPrefix(full[2], "fn:"):
		o2.Violation("derivation %s lacks the camel-cased field name as last fallback", desc)
	case len(full) > 3:
		o2.Violation("derivation %s has extra steps after the field-name fallback", desc)
	default:
		*fnSeen = append(*fnSeen, full[2])
		if full[2] != (*fnSeen)[0] {
			o2.Violation("field-name fallback uses %s here but %s at the other sites", full[2], (*fnSeen)[0])
		} else {
			o2.OK("%s on every path (%d paths to a %s)", desc, len(chains), what)
		}
	}
}
