package props

import (
	"fmt"
	"go/ast"
	"go/token"
	"go/types"

	"siotcheck/kit"
)

// Encoder model for a packet built in a []byte: make(len[, cap]) gives a
// zeroed head that is filled by p[k] = x / copy(p[a:b], src); append grows
// it; binary.<order>.AppendUint16 appends the checksum.  The result is the
// same segment list the bytes.Buffer model produces.

// c17MadeLocally: o is a local whose first definition is make([]byte, …) and
// whose other assignments are `o = append(o, …)` / `o = <pkg>.AppendXxx(o, …)`.
func c17MadeLocally(f *kit.Func, o types.Object) bool {
	info := f.Info()
	for _, p := range f.Params() {
		if p == o {
			return false
		}
	}
	if v, ok := o.(*types.Var); !ok || v.Pkg() == nil || v.Parent() == v.Pkg().Scope() {
		return false
	}
	made, ok := false, true
	ast.Inspect(f.Body, func(x ast.Node) bool {
		as, isAs := x.(*ast.AssignStmt)
		if !isAs {
			return true
		}
		for i, l := range as.Lhs {
			id, isId := ast.Unparen(l).(*ast.Ident)
			if !isId || kit.ObjOf(info, id) != o {
				continue
			}
			if len(as.Lhs) != len(as.Rhs) {
				ok = false
				continue
			}
			call, isCall := ast.Unparen(as.Rhs[i]).(*ast.CallExpr)
			if !isCall {
				ok = false
				continue
			}
			if b, isB := kit.Callee(info, call).(*types.Builtin); isB && b.Name() == "make" {
				made = true
				continue
			}
			if len(call.Args) > 0 {
				if a0, isId := ast.Unparen(call.Args[0]).(*ast.Ident); isId && kit.ObjOf(info, a0) == o {
					continue // grows itself
				}
			}
			ok = false
		}
		return true
	})
	return made && ok
}

// c17MarshalArg: the message type whose proto.Marshal result e holds (through
// one local and/or one module helper that returns proto.Marshal(…)).
func c17MarshalArg(f *kit.Func, e ast.Expr, depth int) types.Type {
	info := f.Info()
	e = ast.Unparen(e)
	if depth > 3 {
		return nil
	}
	marshal := []string{"google.golang.org/protobuf/proto.Marshal", "github.com/golang/protobuf/proto.Marshal"}
	switch x := e.(type) {
	case *ast.CallExpr:
		if kit.CallIs(info, x, marshal...) && len(x.Args) == 1 {
			return info.TypeOf(x.Args[0])
		}
		if cf := f.CalleeFunc(x); cf != nil && cf.Body != nil && cf.Decl != nil {
			var t types.Type
			ok := true
			ast.Inspect(cf.Body, func(n ast.Node) bool {
				switch y := n.(type) {
				case *ast.FuncLit:
					return false
				case *ast.ReturnStmt:
					if len(y.Results) == 0 {
						ok = false
						return true
					}
					r0 := ast.Unparen(y.Results[0])
					if kit.IsNilIdent(cf.Info(), r0) {
						return true // error return
					}
					if cl, isLit := r0.(*ast.CompositeLit); isLit && len(cl.Elts) == 0 {
						return true
					}
					if mt := c17MarshalArg(cf, r0, depth+1); mt != nil {
						t = mt
					} else {
						ok = false
					}
				}
				return true
			})
			if ok {
				return t
			}
		}
	case *ast.Ident:
		o := kit.ObjOf(info, x)
		if o == nil {
			return nil
		}
		var t types.Type
		n := 0
		ast.Inspect(f.Body, func(nn ast.Node) bool {
			as, isAs := nn.(*ast.AssignStmt)
			if !isAs {
				return true
			}
			for i, l := range as.Lhs {
				if id, isId := ast.Unparen(l).(*ast.Ident); isId && kit.ObjOf(info, id) == o {
					n++
					if len(as.Lhs) == len(as.Rhs) {
						t = c17MarshalArg(f, as.Rhs[i], depth+1)
					} else if len(as.Rhs) == 1 && i == 0 {
						t = c17MarshalArg(f, as.Rhs[0], depth+1)
					}
				}
			}
			return true
		})
		if n == 1 {
			return t
		}
	}
	return nil
}

func c17AnalyseSliceEncoder(c *kit.Ctx, enc *c17Encoder) *c17EncModel {
	f := enc.f
	info := f.Info()
	em := &c17EncModel{sumAfter: -1, subjField: -1, origin: "local", resetFirst: true}
	isObj := func(e ast.Expr, o types.Object) bool {
		id, ok := ast.Unparen(e).(*ast.Ident)
		return ok && o != nil && kit.ObjOf(info, id) == o
	}
	isBuf := func(e ast.Expr) bool { return isObj(e, enc.buf) }
	mentions := func(n ast.Node, o types.Object) bool {
		hit := false
		ast.Inspect(n, func(x ast.Node) bool {
			if id, ok := x.(*ast.Ident); ok && kit.ObjOf(info, id) == o {
				hit = true
			}
			return !hit
		})
		return hit
	}
	var byteParams, strParams []types.Object
	for _, p := range f.Params() {
		if b, ok := p.Type().Underlying().(*types.Basic); ok {
			switch b.Kind() {
			case types.Uint8:
				byteParams = append(byteParams, p)
			case types.String:
				strParams = append(strParams, p)
			}
		}
	}
	isOneOf := func(e ast.Expr, set []types.Object) types.Object {
		o := kit.ObjOf(info, e)
		for _, p := range set {
			if p == o && o != nil {
				return p
			}
		}
		return nil
	}
	problem := func(format string, a ...any) {
		em.problems = append(em.problems, fmt.Sprintf(format, a...))
	}
	tl := &c17Tiler{f: f, em: em, buf: enc.buf, byteParams: byteParams, strParams: strParams}
	constOf, tiles, fixedObject := tl.constOf, tl.tiles, tl.fixedObject
	sumPos := token.NoPos
	headLen := int64(-1)
	sumSeen := false
	sumAppended := 0
	for _, st := range f.Body.List {
		if !mentions(st, enc.buf) {
			continue
		}
		switch y := st.(type) {
		case *ast.AssignStmt:
			if len(y.Lhs) != 1 || len(y.Rhs) != 1 {
				problem("statement %s is not understood", f.Str(y))
				continue
			}
			lhs, rhs := ast.Unparen(y.Lhs[0]), ast.Unparen(y.Rhs[0])
			call, _ := rhs.(*ast.CallExpr)
			switch {
			case isBuf(lhs) && call != nil && func() bool {
				b, ok := kit.Callee(info, call).(*types.Builtin)
				return ok && b.Name() == "make"
			}():
				if headLen >= 0 || len(call.Args) < 2 {
					problem("the packet slice is made twice or without a length")
					continue
				}
				n, ok := constOf(call.Args[1])
				if !ok {
					problem("the initial length %s of the packet is not constant", f.Str(call.Args[1]))
					continue
				}
				headLen = n
			case call == enc.sum:
				if sumSeen {
					problem("the checksum is taken twice")
				}
				sumSeen, sumAppended, sumPos = true, len(em.segs), call.Pos()
			case isBuf(lhs) && call != nil && len(call.Args) >= 2 && isBuf(call.Args[0]):
				// growth
				q := kit.QualName(kit.Callee(info, call))
				if b, ok := kit.Callee(info, call).(*types.Builtin); ok && b.Name() == "append" {
					switch {
					case call.Ellipsis.IsValid() && len(call.Args) == 2:
						if mt := c17MarshalArg(f, call.Args[1], 0); mt != nil {
							em.marshalArg = mt
							em.segs = append(em.segs, c17Seg{role: "payload", size: -1, call: call})
						} else if o, n, ok := fixedObject(call.Args[1]); ok {
							em.segs = append(em.segs, tiles(o, n, "the prepared field "+o.Name(), call.Pos())...)
						} else if dc, isCall := c17DefCall(f, call.Args[1]); isCall {
							if n, g, gp, ok := c17SubjectFieldHelper(f, dc, strParams); ok {
								em.subjField, em.subjParam, em.guardFn = n, gp, g
								em.segs = append(em.segs, c17Seg{role: "subject", size: n, call: call})
							} else {
								em.segs = append(em.segs, c17Seg{size: -1, call: call})
							}
						} else {
							em.segs = append(em.segs, c17Seg{size: -1, call: call})
						}
					case !call.Ellipsis.IsValid() && len(call.Args) == 2:
						seg := c17Seg{size: 1, call: call}
						if isOneOf(call.Args[1], byteParams) != nil {
							seg.role = "seq"
						}
						em.segs = append(em.segs, seg)
					default:
						problem("append %s is not understood", f.Str(call))
					}
					continue
				}
				if fn, ok := kit.Callee(info, call).(*types.Func); ok && c17InBinaryPkg(fn) && (fn.Name() == "AppendUint16" || fn.Name() == "AppendUint32") && len(call.Args) == 2 {
					seg := c17Seg{size: 2, call: call}
					if fn.Name() == "AppendUint32" {
						seg.size = 4
					}
					if sel, ok := ast.Unparen(call.Fun).(*ast.SelectorExpr); ok {
						if t := info.TypeOf(sel.X); t != nil {
							seg.order = t.String()
						}
					}
					if o := kit.ObjOf(info, call.Args[1]); o != nil {
						if def := c12SingleDef(f, o); def != nil && ast.Unparen(def) == ast.Expr(enc.sum) {
							seg.role = "crc"
						}
					} else if ast.Unparen(call.Args[1]) == ast.Expr(enc.sum) {
						// the checksum is taken in the argument: over everything appended so far
						seg.role = "crc"
						if sumSeen {
							problem("the checksum is taken twice")
						}
						sumSeen, sumAppended, sumPos = true, len(em.segs), call.Pos()
					}
					em.segs = append(em.segs, seg)
					continue
				}
				problem("the packet is grown by %s, which is not understood", q)
			default:
				if ix, ok := lhs.(*ast.IndexExpr); ok && isBuf(ix.X) && y.Tok == token.ASSIGN {
					if sumSeen {
						problem("the packet is written after the checksum was taken")
					}
					continue // head store, collected by tiles below
				}
				problem("statement %s is not understood", f.Str(y))
			}
		case *ast.ExprStmt:
			call, ok := ast.Unparen(y.X).(*ast.CallExpr)
			if ok {
				if b, isB := kit.Callee(info, call).(*types.Builtin); isB && b.Name() == "copy" && len(call.Args) == 2 {
					if sumSeen {
						problem("the packet is written after the checksum was taken")
					}
					continue // head copy, collected by tiles below
				}
			}
			problem("statement %s is not understood", f.Str(y))
		case *ast.ReturnStmt:
			// handled by the storage obligation
		default:
			problem("the packet is touched inside %T, which is conditional or repeated", st)
		}
	}
	if headLen < 0 {
		problem("no make of the packet slice at the top level of the encoder")
		headLen = 0
	}
	var head []c17Seg
	if headLen > 0 {
		head = tiles(enc.buf, headLen, "the packet head", token.NoPos)
	}
	if sumSeen {
		em.sumAfter = len(head) + sumAppended
	} else {
		problem("the checksum call is not an unconditional top-level statement")
	}
	_ = sumPos
	em.segs = append(head, em.segs...)
	c17SubjectGuard(f, em)
	return em
}

// c17DefCall: e is a local whose only definition is (the first result of) a call.
func c17DefCall(f *kit.Func, e ast.Expr) (*ast.CallExpr, bool) {
	info := f.Info()
	id, ok := ast.Unparen(e).(*ast.Ident)
	if !ok {
		return nil, false
	}
	o := kit.ObjOf(info, id)
	if o == nil {
		return nil, false
	}
	var call *ast.CallExpr
	n := 0
	ast.Inspect(f.Body, func(x ast.Node) bool {
		as, isAs := x.(*ast.AssignStmt)
		if !isAs {
			return true
		}
		for i, l := range as.Lhs {
			if li, isId := ast.Unparen(l).(*ast.Ident); isId && kit.ObjOf(info, li) == o {
				n++
				if i == 0 && len(as.Rhs) == 1 {
					call, _ = ast.Unparen(as.Rhs[0]).(*ast.CallExpr)
				}
			}
		}
		return true
	})
	if n != 1 || call == nil {
		return nil, false
	}
	return call, true
}
