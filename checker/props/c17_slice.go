package props

import (
	"fmt"
	"go/ast"
	"go/token"
	"go/types"
	"sort"

	"siotcheck/kit"
)

// Encoder model for a packet built in a []byte: make(len[, cap]) gives a
// zeroed head that is filled by p[k] = x / copy(p[a:b], src); append grows
// it; binary.<order>.AppendUint16 appends the checksum.  The result is the
// same segment list the bytes.Buffer model produces.

// c17MadeLocally: o is a local whose first definition is make([]byte, …) and
// whose other assignments are `o = append(o, …)` / `o = <pkg>.AppendXxx(o, …)`.
func c17MadeLocally(f *kit.Func, o types.Object) bool {
	info := f.Info()
	for _, p := range f.Params() {
		if p == o {
			return false
		}
	}
	if v, ok := o.(*types.Var); !ok || v.Pkg() == nil || v.Parent() == v.Pkg().Scope() {
		return false
	}
	made, ok := false, true
	ast.Inspect(f.Body, func(x ast.Node) bool {
		as, isAs := x.(*ast.AssignStmt)
		if !isAs {
			return true
		}
		for i, l := range as.Lhs {
			id, isId := ast.Unparen(l).(*ast.Ident)
			if !isId || kit.ObjOf(info, id) != o {
				continue
			}
			if len(as.Lhs) != len(as.Rhs) {
				ok = false
				continue
			}
			call, isCall := ast.Unparen(as.Rhs[i]).(*ast.CallExpr)
			if !isCall {
				ok = false
				continue
			}
			if b, isB := kit.Callee(info, call).(*types.Builtin); isB && b.Name() == "make" {
				made = true
				continue
			}
			if len(call.Args) > 0 {
				if a0, isId := ast.Unparen(call.Args[0]).(*ast.Ident); isId && kit.ObjOf(info, a0) == o {
					continue // grows itself
				}
			}
			ok = false
		}
		return true
	})
	return made && ok
}

// c17MarshalArg: the message type whose proto.Marshal result e holds (through
// one local and/or one module helper that returns proto.Marshal(…)).
func c17MarshalArg(f *kit.Func, e ast.Expr, depth int) types.Type {
	info := f.Info()
	e = ast.Unparen(e)
	if depth > 3 {
		return nil
	}
	marshal := []string{"google.golang.org/protobuf/proto.Marshal", "github.com/golang/protobuf/proto.Marshal"}
	switch x := e.(type) {
	case *ast.CallExpr:
		if kit.CallIs(info, x, marshal...) && len(x.Args) == 1 {
			return info.TypeOf(x.Args[0])
		}
		if cf := f.CalleeFunc(x); cf != nil && cf.Body != nil && cf.Decl != nil {
			var t types.Type
			ok := true
			ast.Inspect(cf.Body, func(n ast.Node) bool {
				switch y := n.(type) {
				case *ast.FuncLit:
					return false
				case *ast.ReturnStmt:
					if len(y.Results) == 0 {
						ok = false
						return true
					}
					r0 := ast.Unparen(y.Results[0])
					if kit.IsNilIdent(cf.Info(), r0) {
						return true // error return
					}
					if cl, isLit := r0.(*ast.CompositeLit); isLit && len(cl.Elts) == 0 {
						return true
					}
					if mt := c17MarshalArg(cf, r0, depth+1); mt != nil {
						t = mt
					} else {
						ok = false
					}
				}
				return true
			})
			if ok {
				return t
			}
		}
	case *ast.Ident:
		o := kit.ObjOf(info, x)
		if o == nil {
			return nil
		}
		var t types.Type
		n := 0
		ast.Inspect(f.Body, func(nn ast.Node) bool {
			as, isAs := nn.(*ast.AssignStmt)
			if !isAs {
				return true
			}
			for i, l := range as.Lhs {
				if id, isId := ast.Unparen(l).(*ast.Ident); isId && kit.ObjOf(info, id) == o {
					n++
					if len(as.Lhs) == len(as.Rhs) {
						t = c17MarshalArg(f, as.Rhs[i], depth+1)
					} else if len(as.Rhs) == 1 && i == 0 {
						t = c17MarshalArg(f, as.Rhs[0], depth+1)
					}
				}
			}
			return true
		})
		if n == 1 {
			return t
		}
	}
	return nil
}

func c17AnalyseSliceEncoder(c *kit.Ctx, enc *c17Encoder) *c17EncModel {
	f := enc.f
	info := f.Info()
	em := &c17EncModel{sumAfter: -1, subjField: -1, origin: "local", resetFirst: true}
	isBuf := func(e ast.Expr) bool {
		id, ok := ast.Unparen(e).(*ast.Ident)
		return ok && kit.ObjOf(info, id) == enc.buf
	}
	mentions := func(n ast.Node, o types.Object) bool {
		hit := false
		ast.Inspect(n, func(x ast.Node) bool {
			if id, ok := x.(*ast.Ident); ok && kit.ObjOf(info, id) == o {
				hit = true
			}
			return !hit
		})
		return hit
	}
	var constOf func(e ast.Expr) (int64, bool)
	constOf = func(e ast.Expr) (int64, bool) {
		if v, ok := kit.ConstInt(info, e); ok {
			return v, true
		}
		if be, ok := ast.Unparen(e).(*ast.BinaryExpr); ok {
			a, ok1 := constOf(be.X)
			b, ok2 := constOf(be.Y)
			if ok1 && ok2 {
				switch be.Op {
				case token.ADD:
					return a + b, true
				case token.SUB:
					return a - b, true
				case token.MUL:
					return a * b, true
				}
			}
			return 0, false
		}
		if id, ok := ast.Unparen(e).(*ast.Ident); ok {
			if o := kit.ObjOf(info, id); o != nil {
				if def := c12SingleDef(f, o); def != nil {
					return kit.ConstInt(info, def)
				}
			}
		}
		return 0, false
	}
	var byteParams, strParams []types.Object
	for _, p := range f.Params() {
		if b, ok := p.Type().Underlying().(*types.Basic); ok {
			switch b.Kind() {
			case types.Uint8:
				byteParams = append(byteParams, p)
			case types.String:
				strParams = append(strParams, p)
			}
		}
	}
	isOneOf := func(e ast.Expr, set []types.Object) types.Object {
		o := kit.ObjOf(info, e)
		for _, p := range set {
			if p == o && o != nil {
				return p
			}
		}
		return nil
	}
	type region struct {
		lo, hi int64
		role   string
		call   *ast.CallExpr
	}
	var head []region
	headLen := int64(-1)
	sumSeen := false
	sumAppended := 0
	problem := func(format string, a ...any) {
		em.problems = append(em.problems, fmt.Sprintf(format, a...))
	}
	for _, st := range f.Body.List {
		if !mentions(st, enc.buf) {
			continue
		}
		switch y := st.(type) {
		case *ast.AssignStmt:
			if len(y.Lhs) != 1 || len(y.Rhs) != 1 {
				problem("statement %s is not understood", f.Str(y))
				continue
			}
			lhs, rhs := ast.Unparen(y.Lhs[0]), ast.Unparen(y.Rhs[0])
			call, _ := rhs.(*ast.CallExpr)
			switch {
			case isBuf(lhs) && call != nil && func() bool {
				b, ok := kit.Callee(info, call).(*types.Builtin)
				return ok && b.Name() == "make"
			}():
				if headLen >= 0 || len(call.Args) < 2 {
					problem("the packet slice is made twice or without a length")
					continue
				}
				n, ok := constOf(call.Args[1])
				if !ok {
					problem("the initial length %s of the packet is not constant", f.Str(call.Args[1]))
					continue
				}
				headLen = n
			case call == enc.sum || (call != nil && mentions(call, enc.buf) && kit.Callee(info, call) == enc.sumFn):
				if sumSeen {
					problem("the checksum is taken twice")
				}
				sumSeen = true
				sumAppended = len(em.segs) // appended segments that precede the checksum
			case isBuf(lhs) && call != nil && len(call.Args) >= 2 && isBuf(call.Args[0]):
				// growth
				q := kit.QualName(kit.Callee(info, call))
				if b, ok := kit.Callee(info, call).(*types.Builtin); ok && b.Name() == "append" {
					seg := c17Seg{size: -1, call: call}
					switch {
					case call.Ellipsis.IsValid() && len(call.Args) == 2:
						if mt := c17MarshalArg(f, call.Args[1], 0); mt != nil {
							seg.role = "payload"
							em.marshalArg = mt
						} else if o := kit.ObjOf(info, call.Args[1]); o != nil {
							// a fixed field prepared in its own slice: sub := make([]byte, N); copy(sub, subject)
							if def := c12SingleDef(f, o); def != nil {
								if dc, ok := ast.Unparen(def).(*ast.CallExpr); ok && len(dc.Args) == 2 {
									if b, ok := kit.Callee(info, dc).(*types.Builtin); ok && b.Name() == "make" {
										if n, ok := constOf(dc.Args[1]); ok {
											seg.size = n
											for _, cp := range f.AllCalls(false) {
												if b, ok := kit.Callee(info, cp).(*types.Builtin); ok && b.Name() == "copy" && len(cp.Args) == 2 && kit.ObjOf(info, cp.Args[0]) == o && cp.End() < call.Pos() {
													for _, sp := range strParams {
														if mentions(cp.Args[1], sp) {
															seg.role = "subject"
															em.subjField, em.subjParam = n, sp
														}
													}
												}
											}
										}
									}
								}
							}
						}
					case !call.Ellipsis.IsValid() && len(call.Args) == 2:
						seg.size = 1
						if isOneOf(call.Args[1], byteParams) != nil {
							seg.role = "seq"
						}
					default:
						problem("append %s is not understood", f.Str(call))
					}
					em.segs = append(em.segs, seg)
					continue
				}
				if fn, ok := kit.Callee(info, call).(*types.Func); ok && c17InBinaryPkg(fn) && (fn.Name() == "AppendUint16" || fn.Name() == "AppendUint32") && len(call.Args) == 2 {
					seg := c17Seg{size: 2, call: call}
					if fn.Name() == "AppendUint32" {
						seg.size = 4
					}
					if sel, ok := ast.Unparen(call.Fun).(*ast.SelectorExpr); ok {
						if t := info.TypeOf(sel.X); t != nil {
							seg.order = t.String()
						}
					}
					if o := kit.ObjOf(info, call.Args[1]); o != nil {
						if def := c12SingleDef(f, o); def != nil && ast.Unparen(def) == ast.Expr(enc.sum) {
							seg.role = "crc"
						}
					} else if ast.Unparen(call.Args[1]) == ast.Expr(enc.sum) {
						seg.role = "crc"
					}
					em.segs = append(em.segs, seg)
					continue
				}
				problem("the packet is grown by %s, which is not understood", q)
			default:
				// p[k] = x
				if ix, ok := lhs.(*ast.IndexExpr); ok && isBuf(ix.X) && y.Tok == token.ASSIGN {
					k, okk := constOf(ix.Index)
					if !okk {
						problem("store at non-constant offset %s", f.Str(ix.Index))
						continue
					}
					if sumSeen {
						problem("the packet is written after the checksum was taken")
					}
					r := region{lo: k, hi: k + 1}
					if isOneOf(rhs, byteParams) != nil {
						r.role = "seq"
					}
					head = append(head, r)
					continue
				}
				problem("statement %s is not understood", f.Str(y))
			}
		case *ast.ExprStmt:
			call, ok := ast.Unparen(y.X).(*ast.CallExpr)
			if !ok {
				problem("statement %s is not understood", f.Str(y))
				continue
			}
			if b, isB := kit.Callee(info, call).(*types.Builtin); isB && b.Name() == "copy" && len(call.Args) == 2 {
				dst := ast.Unparen(call.Args[0])
				se, isSl := dst.(*ast.SliceExpr)
				if !isSl || !isBuf(se.X) || se.Low == nil || se.High == nil {
					problem("copy destination %s is not a constant window of the packet", f.Str(dst))
					continue
				}
				lo, ok1 := constOf(se.Low)
				hi, ok2 := constOf(se.High)
				if !ok1 || !ok2 || lo > hi {
					problem("copy destination %s is not a constant window of the packet", f.Str(dst))
					continue
				}
				if sumSeen {
					problem("the packet is written after the checksum was taken")
				}
				r := region{lo: lo, hi: hi, call: call}
				for _, sp := range strParams {
					if mentions(call.Args[1], sp) {
						r.role = "subject"
						em.subjField, em.subjParam = hi-lo, sp
					}
				}
				head = append(head, r)
				continue
			}
			problem("statement %s is not understood", f.Str(y))
		case *ast.ReturnStmt:
			// handled by the storage obligation
		default:
			problem("the packet is touched inside %T, which is conditional or repeated", st)
		}
	}
	// the zeroed head must be tiled exactly by the stores
	var segs []c17Seg
	if headLen < 0 {
		problem("no make of the packet slice at the top level of the encoder")
		headLen = 0
	}
	sort.Slice(head, func(i, j int) bool { return head[i].lo < head[j].lo })
	pos := int64(0)
	for _, r := range head {
		if r.lo != pos {
			problem("bytes [%d:%d) of the packet head are never written (they stay zero) or are written twice", pos, r.lo)
		}
		segs = append(segs, c17Seg{role: r.role, size: r.hi - r.lo, call: r.call})
		pos = r.hi
	}
	if pos != headLen {
		problem("the packet head has %d bytes but the stores cover %d", headLen, pos)
	}
	nHead := len(segs)
	if sumSeen {
		em.sumAfter = nHead + sumAppended
	}
	em.segs = append(segs, em.segs...)
	if !sumSeen {
		problem("the checksum call is not an unconditional top-level statement")
	}
	// subject length guard: at the copy, len(subject) <= field size on every path
	if em.subjParam != nil {
		lf := &kit.LenFlow{F: f, X: em.subjParam}
		em.guardOK, em.guardMsg = true, ""
		seen := false
		lf.Visit = func(n ast.Node, s kit.S) {
			for _, cp := range kit.CallsIn(n) {
				if b, ok := kit.Callee(info, cp).(*types.Builtin); !ok || b.Name() != "copy" || len(cp.Args) != 2 || !mentions(cp.Args[1], em.subjParam) {
					continue
				}
				seen = true
				_, max, ok := lf.LenRange(s)
				switch {
				case !ok:
					em.guardOK, em.guardMsg = false, "undecided: length of the subject unknown at the copy"
				case max < 0 || max > em.subjField:
					em.guardOK = false
					em.guardMsg = fmt.Sprintf("a subject of %d bytes reaches `%s` and is silently truncated to %d bytes (no dominating length refusal)", em.subjField+1, f.Str(cp), em.subjField)
					if s.Get("u") != "" {
						em.guardMsg = "undecided: " + em.guardMsg
					}
				}
			}
		}
		lf.Run()
		if lf.Problem != "" {
			em.guardOK, em.guardMsg = false, "undecided: "+lf.Problem
		} else if !seen {
			em.guardOK, em.guardMsg = false, "undecided: the subject copy was not reached by the path engine"
		}
	}
	return em
}
