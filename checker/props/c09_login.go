package props

import (
	"fmt"
	"go/ast"
	"go/constant"
	"go/token"
	"go/types"
	"strings"

	"siotcheck/kit"
)

// R4 (continued) — the path of the credentials from the login request to the
// credential check, and of the answer back to the HTTP client.

// c09CredParams returns the positions of the credential check's parameters
// that are compared with the user's e-mail and password fields (-1 = none).
func c09CredParams(c *kit.Ctx, a *c09Anchors) (emailIdx, passIdx int) {
	emailIdx, passIdx = -1, -1
	f := a.credFn
	info := f.Info()
	emailF, passF := c09UserFields(c)
	params := f.Params()
	ast.Inspect(f.Body, func(n ast.Node) bool {
		e, ok := n.(ast.Expr)
		if !ok {
			return true
		}
		x, y, op, ok := kit.CmpAtom(e)
		if !ok || (op != token.EQL && op != token.NEQ) {
			return true
		}
		for i := 0; i < 2; i++ {
			if sel, ok := ast.Unparen(x).(*ast.SelectorExpr); ok {
				for k, p := range params {
					if kit.ObjOf(info, y) != types.Object(p) {
						continue
					}
					switch kit.ObjOf(info, sel) {
					case types.Object(emailF):
						emailIdx = k
					case types.Object(passF):
						passIdx = k
					}
				}
			}
			x, y = y, x
		}
		return true
	})
	// a credential that is matched by the candidate query instead (c09_sqlmatch.go):
	// the parameter bound against the text of the point of its type
	if emailIdx < 0 || passIdx < 0 {
		emailT, passT := dataConst(c, "PointTypeEmail"), dataConst(c, "PointTypePass")
		for _, u := range c09CredSQLUses(newStoreModel(c), f) {
			if u.kind != "eq" && u.kind != "inexact" {
				continue
			}
			for k, p := range params {
				if types.Object(p) != u.param {
					continue
				}
				switch {
				case u.ptype == emailT && emailIdx < 0:
					emailIdx = k
				case u.ptype == passT && passIdx < 0:
					passIdx = k
				}
			}
		}
	}
	// … or that is not compared exactly at all (R5 reports that): of two string
	// parameters, the one that is not the other credential
	var strs []int
	for k, p := range params {
		if c09IsString(p.Type()) {
			strs = append(strs, k)
		}
	}
	if len(strs) == 2 && emailIdx != passIdx {
		switch {
		case emailIdx < 0:
			emailIdx = strs[0] + strs[1] - passIdx
		case passIdx < 0:
			passIdx = strs[0] + strs[1] - emailIdx
		}
	}
	return
}

func c09Login(c *kit.Ctx, a *c09Anchors, r4 *kit.Rule) {
	emailT, passT := dataConst(c, "PointTypeEmail"), dataConst(c, "PointTypePass")
	emailIdx, passIdx := c09CredParams(c, a)

	// ---- store: the arguments of the credential check come from the points
	// of type email / pass of the request, in the order of its parameters
	{
		f := a.authHandler
		info := f.Info()
		var credCall *ast.CallExpr
		credIn := f
		for _, g := range c09Closure(f) {
			if g.Body == nil || g == a.credFn {
				continue
			}
			for _, call := range g.AllCalls(false) {
				if g.CalleeFunc(call) == a.credFn {
					credCall, credIn = call, g
				}
			}
		}
		o := r4.Ob(credIn, credCall, "credential plumbing (store)", "the credential check receives the text of the request's e-mail point as its e-mail parameter and of the password point as its password parameter")
		// the call that defines variable vo in g, and the position of vo among its results
		defCall := func(g *kit.Func, vo types.Object) (*ast.CallExpr, int) {
			var call *ast.CallExpr
			idx := -1
			n := 0
			ast.Inspect(g.Body, func(x ast.Node) bool {
				as, isAs := x.(*ast.AssignStmt)
				if !isAs {
					return true
				}
				for i, l := range as.Lhs {
					if kit.ObjOf(info, l) != vo {
						continue
					}
					n++
					if len(as.Rhs) == 1 {
						if cx, isCall := ast.Unparen(as.Rhs[0]).(*ast.CallExpr); isCall {
							call, idx = cx, i
						}
					} else if i < len(as.Rhs) {
						if cx, isCall := ast.Unparen(as.Rhs[i]).(*ast.CallExpr); isCall {
							call, idx = cx, 0
						}
					}
				}
				return true
			})
			if n != 1 {
				return nil, -1
			}
			return call, idx
		}
		// point type behind an expression of g: <v>.Text with v defined from a call
		// naming the point type, or a variable defined from a same-package helper
		// whose corresponding result is such an expression on every value-carrying return
		var typeOf func(g *kit.Func, arg ast.Expr, depth int) string
		typeOf = func(g *kit.Func, arg ast.Expr, depth int) string {
			if depth > 3 {
				return ""
			}
			arg = ast.Unparen(arg)
			if sel, ok := arg.(*ast.SelectorExpr); ok {
				if id, isID := ast.Unparen(sel.X).(*ast.Ident); isID {
					if call, _ := defCall(g, kit.ObjOf(info, id)); call != nil {
						for _, a2 := range call.Args {
							if v, ok := kit.ConstString(info, a2); ok && (v == emailT || v == passT) {
								return v
							}
						}
					}
				}
				return ""
			}
			id, isID := arg.(*ast.Ident)
			if !isID {
				return ""
			}
			call, idx := defCall(g, kit.ObjOf(info, id))
			if call == nil {
				return ""
			}
			cf := g.CalleeFunc(call)
			if cf == nil || cf.Body == nil || cf.Pkg != g.Pkg {
				return ""
			}
			res := ""
			okAll := true
			ast.Inspect(cf.Body, func(x ast.Node) bool {
				if _, isLit := x.(*ast.FuncLit); isLit {
					return false
				}
				r, isRet := x.(*ast.ReturnStmt)
				if !isRet {
					return true
				}
				exprs := c09ResultExprs(cf, r)
				if idx >= len(exprs) {
					okAll = false
					return true
				}
				if v, isConst := kit.ConstString(info, exprs[idx]); isConst && v == "" {
					return true // refusal path: no credential handed out
				}
				t := typeOf(cf, exprs[idx], depth+1)
				if t == "" || (res != "" && res != t) {
					okAll = false
				}
				res = t
				return true
			})
			if !okAll {
				return ""
			}
			return res
		}
		switch {
		case credCall == nil:
			o.Undecided("credential check call not found")
		case emailIdx < 0 || passIdx < 0:
			o.Undecided("the parameters the credential check compares e-mail and password with were not found (see R5 match table)")
		case emailIdx >= len(credCall.Args) || passIdx >= len(credCall.Args):
			o.Undecided("argument count of %s", f.Str(credCall))
		default:
			te, tp := typeOf(credIn, credCall.Args[emailIdx], 0), typeOf(credIn, credCall.Args[passIdx], 0)
			switch {
			case te == "" || tp == "":
				o.Undecided("cannot relate the arguments of `%s` to the points of the request", f.Str(credCall))
			case te != emailT || tp != passT:
				o.Violation("`%s` hands the %q point to the e-mail parameter and the %q point to the password parameter: no valid user can log in", f.Str(credCall), te, tp)
			default:
				o.OK("argument %d ← point %q, argument %d ← point %q", emailIdx+1, emailT, passIdx+1, passT)
			}
		}
	}

	// ---- client: the request carries each credential parameter in the point of its type
	for _, cf := range c.P.Funcs("client") {
		if cf.Obj == nil || !a.credClients[cf.Obj] {
			continue
		}
		c.Analysed(cf)
		info := cf.Info()
		o := r4.Ob(cf, nil, "credential plumbing (client)", "the login request carries two different string parameters, one in the e-mail point and one in the password point")
		src := map[string]types.Object{}
		ast.Inspect(cf.Body, func(n ast.Node) bool {
			lit, ok := n.(*ast.CompositeLit)
			if !ok {
				return true
			}
			var typ string
			var text types.Object
			for _, el := range lit.Elts {
				kv, ok := el.(*ast.KeyValueExpr)
				if !ok {
					continue
				}
				if v, ok := kit.ConstString(info, kv.Value); ok && (v == emailT || v == passT) {
					typ = v
				} else if po := kit.ObjOf(info, kv.Value); po != nil {
					for _, p := range cf.Params() {
						if types.Object(p) == po && c09IsString(p.Type()) {
							text = po
						}
					}
				}
			}
			if typ != "" && text != nil {
				src[typ] = text
			}
			return true
		})
		switch {
		case src[emailT] == nil || src[passT] == nil:
			o.Undecided("%s: point literals carrying a string parameter were found for e-mail: %v, password: %v", cf.Name, src[emailT] != nil, src[passT] != nil)
		case src[emailT] == src[passT]:
			o.Violation("%s sends the same parameter %s as e-mail and as password", cf.Name, src[emailT].Name())
		default:
			o.OK("point %q ← %s, point %q ← %s", emailT, src[emailT].Name(), passT, src[passT].Name())
		}
	}

	// ---- api: the login handler answers with a body only after a successful check
	for _, f := range a.entries {
		var credCall *ast.CallExpr
		for _, call := range f.AllCalls(false) {
			if a.credClients[kit.Callee(f.Info(), call)] {
				credCall = call
			}
		}
		if credCall == nil || a.bus[f] {
			continue
		}
		info := f.Info()
		resP, _ := a.handlerParams(f)
		o := r4.Ob(f, credCall, "login response", "a response body is written only after the credential-check request returned no error and at least one node; every such path writes it")
		if resP == nil {
			o.Undecided("no ResponseWriter parameter")
			continue
		}
		fl := newC09Flow(f)
		fl0 := kit.NewS()
		flObj := func(e ast.Expr) types.Object { return fl.obj(e) }
		// a call that writes a success body: the ResponseWriter handed over as
		// an argument (or its Write method) without an error status constant
		isBody := func(call *ast.CallExpr) bool {
			hasRes, errStatus := false, false
			for _, arg := range call.Args {
				if flObj(arg) == types.Object(resP) {
					hasRes = true
				}
				if v, ok := kit.ConstInt(info, arg); ok && v >= 400 && v < 600 {
					errStatus = true
				}
			}
			if sel, ok := ast.Unparen(call.Fun).(*ast.SelectorExpr); ok && flObj(sel.X) == types.Object(resP) && sel.Sel.Name == "Write" {
				hasRes = true
			}
			if sel, ok := ast.Unparen(call.Fun).(*ast.SelectorExpr); ok && flObj(sel.X) == types.Object(resP) && sel.Sel.Name == "WriteHeader" {
				return false
			}
			if cf, inl := fl.willInline(call, nil); cf != nil && inl {
				return false // judged inside the helper
			}
			return hasRes && !errStatus
		}
		isRefusal := func(call *ast.CallExpr) bool {
			hasRes, errStatus := false, false
			for _, arg := range call.Args {
				if flObj(arg) == types.Object(resP) {
					hasRes = true
				}
				if v, ok := kit.ConstInt(info, arg); ok && v >= 400 && v < 600 {
					errStatus = true
				} else if v, ok := fl.st.FoldExpr(arg, fl0); ok && v.Kind() == constant.Int {
					if iv, _ := constant.Int64Val(v); iv >= 400 && iv < 600 {
						errStatus = true
					}
				}
			}
			if sel, ok := ast.Unparen(call.Fun).(*ast.SelectorExpr); ok && flObj(sel.X) == types.Object(resP) {
				hasRes = true
			}
			return hasRes && errStatus
		}
		fl.inline = func(cf *kit.Func, call *ast.CallExpr) bool { return !a.isEntry(cf) }
		fl.roles = func(call *ast.CallExpr) []string {
			if a.credClients[kit.Callee(info, call)] {
				return []string{"ln", "le"}
			}
			return nil
		}
		fl.opaque = func(call *ast.CallExpr, s kit.S) []string {
			for _, arg := range call.Args {
				if flObj(arg) == types.Object(resP) {
					return []string{"res"}
				}
			}
			return nil
		}
		bad := ""
		badMurky := false
		fl.onCall = func(call *ast.CallExpr, n ast.Node, s kit.S) []kit.S {
			switch {
			case isBody(call):
				if (s.Get("a:le") != "F" || s.Get("a:ln.nonempty") != "T") && bad == "" {
					badMurky = (s.Get("a:le") == "" && s.Get("opq:le") == "1") || (s.Get("a:ln.nonempty") == "" && s.Get("opq:ln") == "1")
					if s.Get("a:le") == "T" || s.Get("a:ln.nonempty") == "F" {
						badMurky = false
					}
					bad = fmt.Sprintf("the response body is written at %s with: credential-check error %s, node list %s", f.At(call),
						c09Fact(s, "a:le", "non-nil", "nil", "not tested"), c09Fact(s, "a:ln.nonempty", "non-empty", "empty", "not tested for emptiness"))
				}
				return []kit.S{s.Set("body", "1")}
			case isRefusal(call):
				return []kit.S{s.Set("refused", "1")}
			}
			return nil
		}
		res := fl.run(c, kit.NewS())
		good := 0
		var badExit *kit.Exit
		for i, e := range res.Exits {
			if e.State.Get("a:le") == "F" && e.State.Get("a:ln.nonempty") == "T" {
				if e.State.Get("body") == "1" && e.State.Get("refused") != "1" {
					good++
				} else if badExit == nil {
					badExit = &res.Exits[i]
				}
			}
		}
		switch {
		case bad != "" && !badMurky:
			o.Violation("%s", bad)
		case bad != "":
			o.Undecided("%s — on a path where the credential-check results were tested by code that was not interpreted", bad)
		case badExit != nil && badExit.State.Get("opq:res") != "1":
			o.Violation("a successful credential check can end without the token being written to the response (or after an error status): the valid user does not get logged in").WithPath(res.PathTo(*badExit))
		case badExit != nil:
			o.Undecided("after a successful credential check the response writer is handed to a function that was not interpreted")
		case good == 0:
			o.Undecided("no interpreted path answers a successful credential check: %s", strings.TrimSpace(f.Name))
		default:
			o.OK("%d exit state(s) after a successful check, all with a body and no error status", good)
		}
	}
}
