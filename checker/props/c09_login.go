package props

import (
	"fmt"
	"go/ast"
	"go/token"
	"go/types"
	"strings"

	"siotcheck/kit"
)

// R4 (continued) — the path of the credentials from the login request to the
// credential check, and of the answer back to the HTTP client.

// c09CredParams returns the positions of the credential check's parameters
// that are compared with the user's e-mail and password fields (-1 = none).
func c09CredParams(c *kit.Ctx, a *c09Anchors) (emailIdx, passIdx int) {
	emailIdx, passIdx = -1, -1
	f := a.credFn
	info := f.Info()
	emailF, passF := c09UserFields(c)
	params := f.Params()
	ast.Inspect(f.Body, func(n ast.Node) bool {
		e, ok := n.(ast.Expr)
		if !ok {
			return true
		}
		x, y, op, ok := kit.CmpAtom(e)
		if !ok || (op != token.EQL && op != token.NEQ) {
			return true
		}
		for i := 0; i < 2; i++ {
			if sel, ok := ast.Unparen(x).(*ast.SelectorExpr); ok {
				for k, p := range params {
					if kit.ObjOf(info, y) != types.Object(p) {
						continue
					}
					switch kit.ObjOf(info, sel) {
					case types.Object(emailF):
						emailIdx = k
					case types.Object(passF):
						passIdx = k
					}
				}
			}
			x, y = y, x
		}
		return true
	})
	return
}

func c09Login(c *kit.Ctx, a *c09Anchors, r4 *kit.Rule) {
	emailT, passT := dataConst(c, "PointTypeEmail"), dataConst(c, "PointTypePass")
	emailIdx, passIdx := c09CredParams(c, a)

	// ---- store: the arguments of the credential check come from the points
	// of type email / pass of the request, in the order of its parameters
	{
		f := a.authHandler
		info := f.Info()
		var credCall *ast.CallExpr
		for _, call := range f.AllCalls(false) {
			if f.CalleeFunc(call) == a.credFn {
				credCall = call
			}
		}
		o := r4.Ob(f, credCall, "credential plumbing (store)", "the credential check receives the text of the request's e-mail point as its e-mail parameter and of the password point as its password parameter")
		// point type behind an argument: <v>.Text with v defined from a call naming the point type
		typeOf := func(arg ast.Expr) string {
			sel, ok := ast.Unparen(arg).(*ast.SelectorExpr)
			if !ok {
				return ""
			}
			def := c09LocalDef(f, sel.X)
			call, ok := ast.Unparen(def).(*ast.CallExpr)
			if !ok {
				// v, ok := call(...)
				if id, isID := ast.Unparen(sel.X).(*ast.Ident); isID {
					vo := kit.ObjOf(info, id)
					ast.Inspect(f.Body, func(n ast.Node) bool {
						as, isAs := n.(*ast.AssignStmt)
						if !isAs || len(as.Rhs) != 1 || len(as.Lhs) < 1 || kit.ObjOf(info, as.Lhs[0]) != vo {
							return true
						}
						if cx, isCall := ast.Unparen(as.Rhs[0]).(*ast.CallExpr); isCall {
							call = cx
						}
						return true
					})
				}
			}
			if call == nil {
				return ""
			}
			for _, a2 := range call.Args {
				if v, ok := kit.ConstString(info, a2); ok && (v == emailT || v == passT) {
					return v
				}
			}
			return ""
		}
		switch {
		case credCall == nil:
			o.Undecided("credential check call not found")
		case emailIdx < 0 || passIdx < 0:
			o.Violation("the credential check compares: e-mail with a parameter: %v, password with a parameter: %v", emailIdx >= 0, passIdx >= 0)
		case emailIdx >= len(credCall.Args) || passIdx >= len(credCall.Args):
			o.Undecided("argument count of %s", f.Str(credCall))
		default:
			te, tp := typeOf(credCall.Args[emailIdx]), typeOf(credCall.Args[passIdx])
			switch {
			case te == "" || tp == "":
				o.Undecided("cannot relate the arguments of `%s` to the points of the request", f.Str(credCall))
			case te != emailT || tp != passT:
				o.Violation("`%s` hands the %q point to the e-mail parameter and the %q point to the password parameter: no valid user can log in", f.Str(credCall), te, tp)
			default:
				o.OK("argument %d ← point %q, argument %d ← point %q", emailIdx+1, emailT, passIdx+1, passT)
			}
		}
	}

	// ---- client: the request carries each credential parameter in the point of its type
	for _, cf := range c.P.Funcs("client") {
		if cf.Obj == nil || !a.credClients[cf.Obj] {
			continue
		}
		c.Analysed(cf)
		info := cf.Info()
		o := r4.Ob(cf, nil, "credential plumbing (client)", "the login request carries two different string parameters, one in the e-mail point and one in the password point")
		src := map[string]types.Object{}
		ast.Inspect(cf.Body, func(n ast.Node) bool {
			lit, ok := n.(*ast.CompositeLit)
			if !ok {
				return true
			}
			var typ string
			var text types.Object
			for _, el := range lit.Elts {
				kv, ok := el.(*ast.KeyValueExpr)
				if !ok {
					continue
				}
				if v, ok := kit.ConstString(info, kv.Value); ok && (v == emailT || v == passT) {
					typ = v
				} else if po := kit.ObjOf(info, kv.Value); po != nil {
					for _, p := range cf.Params() {
						if types.Object(p) == po && c09IsString(p.Type()) {
							text = po
						}
					}
				}
			}
			if typ != "" && text != nil {
				src[typ] = text
			}
			return true
		})
		switch {
		case src[emailT] == nil || src[passT] == nil:
			o.Violation("%s sends e-mail point from a parameter: %v, password point from a parameter: %v", cf.Name, src[emailT] != nil, src[passT] != nil)
		case src[emailT] == src[passT]:
			o.Violation("%s sends the same parameter %s as e-mail and as password", cf.Name, src[emailT].Name())
		default:
			o.OK("point %q ← %s, point %q ← %s", emailT, src[emailT].Name(), passT, src[passT].Name())
		}
	}

	// ---- api: the login handler answers with a body only after a successful check
	for _, f := range a.entries {
		var credCall *ast.CallExpr
		for _, call := range f.AllCalls(false) {
			if a.credClients[kit.Callee(f.Info(), call)] {
				credCall = call
			}
		}
		if credCall == nil || a.bus[f] {
			continue
		}
		info := f.Info()
		resP, _ := a.handlerParams(f)
		o := r4.Ob(f, credCall, "login response", "a response body is written only after the credential-check request returned no error and at least one node; every such path writes it")
		if resP == nil {
			o.Undecided("no ResponseWriter parameter")
			continue
		}
		// a call that writes a success body: the ResponseWriter handed over as
		// an argument (or its Write method) without an error status constant
		isBody := func(call *ast.CallExpr) bool {
			hasRes, errStatus := false, false
			for _, arg := range call.Args {
				if kit.ObjOf(info, arg) == types.Object(resP) {
					hasRes = true
				}
				if v, ok := kit.ConstInt(info, arg); ok && v >= 400 && v < 600 {
					errStatus = true
				}
			}
			if sel, ok := ast.Unparen(call.Fun).(*ast.SelectorExpr); ok && kit.ObjOf(info, sel.X) == types.Object(resP) && sel.Sel.Name == "Write" {
				hasRes = true
			}
			return hasRes && !errStatus
		}
		isRefusal := func(call *ast.CallExpr) bool {
			hasRes, errStatus := false, false
			for _, arg := range call.Args {
				if kit.ObjOf(info, arg) == types.Object(resP) {
					hasRes = true
				}
				if v, ok := kit.ConstInt(info, arg); ok && v >= 400 && v < 600 {
					errStatus = true
				}
			}
			if sel, ok := ast.Unparen(call.Fun).(*ast.SelectorExpr); ok && kit.ObjOf(info, sel.X) == types.Object(resP) {
				hasRes = true
			}
			return hasRes && errStatus
		}
		fl := newC09Flow(f)
		fl.roles = func(call *ast.CallExpr) []string {
			if call == credCall {
				return []string{"ln", "le"}
			}
			return nil
		}
		bad := ""
		fl.onCall = func(call *ast.CallExpr, n ast.Node, s kit.S) []kit.S {
			switch {
			case isBody(call):
				if (s.Get("a:le") != "F" || s.Get("a:ln.nonempty") != "T") && bad == "" {
					bad = fmt.Sprintf("the response body is written at %s with: credential-check error %s, node list %s", f.At(call),
						c09Fact(s, "a:le", "non-nil", "nil", "not tested"), c09Fact(s, "a:ln.nonempty", "non-empty", "empty", "not tested for emptiness"))
				}
				return []kit.S{s.Set("body", "1")}
			case isRefusal(call):
				return []kit.S{s.Set("refused", "1")}
			}
			return nil
		}
		res := fl.run(c, kit.NewS())
		good := 0
		var badExit *kit.Exit
		for i, e := range res.Exits {
			if e.State.Get("a:le") == "F" && e.State.Get("a:ln.nonempty") == "T" {
				if e.State.Get("body") == "1" && e.State.Get("refused") != "1" {
					good++
				} else if badExit == nil {
					badExit = &res.Exits[i]
				}
			}
		}
		switch {
		case bad != "":
			o.Violation("%s", bad)
		case badExit != nil:
			o.Violation("a successful credential check can end without the token being written to the response (or after an error status): the valid user does not get logged in").WithPath(res.PathTo(*badExit))
		case good == 0:
			o.Violation("no path answers a successful credential check: %s", strings.TrimSpace(f.Name))
		default:
			o.OK("%d exit state(s) after a successful check, all with a body and no error status", good)
		}
	}
}
