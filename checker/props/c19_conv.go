package props

import (
	"fmt"
	"go/ast"
	"go/token"
	"go/types"
	"sort"
	"strings"

	"siotcheck/kit"
)

// C19/R1: register <-> 32-bit value conversions are inverse byte permutations.

// convModel is the symbolic meaning of one conversion function.
type convModel struct {
	F       *kit.Func
	Decoder bool       // []uint16 -> []T
	T       types.Type // element type T
	// perm[j] = (word k, half h) for value byte j (0 = most significant);
	// h = 0 high byte of the register, 1 low byte
	perm [4][2]int
	// bits[b] = register bit (16*word + position, position 0 = least
	// significant) that value bit b (0 = least significant) travels to/from
	bits   [32]int
	probed bool   // the model was obtained by evaluating the function on single-bit inputs
	conv   string // "id", "int32", "uint32", "frombits", "bits"
	stride int64  // registers per value
	lenOK  bool   // output length is len(in)/2 resp. len(in)*2
	err    string // shape not recognised
	bad    string // recognised and certainly not invertible
}

// fillBits derives the bit map from the byte permutation.
func (cm *convModel) fillBits() {
	for j := 0; j < 4; j++ {
		for t := 0; t < 8; t++ {
			vb := (3-j)*8 + t
			pos := t
			if cm.perm[j][1] == 0 {
				pos += 8
			}
			cm.bits[vb] = 16*cm.perm[j][0] + pos
		}
	}
}

// flipWords exchanges the two registers of the model.
func (cm *convModel) flipWords() {
	for j := 0; j < 4; j++ {
		cm.perm[j][0] = 1 - cm.perm[j][0]
	}
	for b := range cm.bits {
		cm.bits[b] = (cm.bits[b] + 16) % 32
	}
}

// bytePerm derives the byte permutation from the bit map, if it is one.
func (cm *convModel) bytePerm() bool {
	for j := 0; j < 4; j++ {
		base := cm.bits[(3-j)*8]
		if base%8 != 0 {
			return false
		}
		for t := 0; t < 8; t++ {
			if cm.bits[(3-j)*8+t] != base+t {
				return false
			}
		}
		half := 1
		if base%16 == 8 {
			half = 0
		}
		cm.perm[j] = [2]int{base / 16, half}
	}
	return true
}

func (cm *convModel) permString() string {
	if cm.probed && !cm.bytePerm() {
		return fmt.Sprintf("bit map %v", cm.bits)
	}
	var p []string
	for j := 0; j < 4; j++ {
		p = append(p, fmt.Sprintf("b%d=r%d.%s", j, cm.perm[j][0], []string{"hi", "lo"}[cm.perm[j][1]]))
	}
	return strings.Join(p, " ")
}

func c19ConvFuncs(c *kit.Ctx, m *c19Model) (decs, encs []*convModel) {
	u16 := types.Typ[types.Uint16]
	for _, f := range c.P.Funcs("modbus") {
		if f.Decl == nil || f.Obj == nil {
			continue
		}
		sig := f.Obj.Type().(*types.Signature)
		if sig.Recv() != nil || sig.Params().Len() != 1 || sig.Results().Len() != 1 || sig.Variadic() {
			continue
		}
		ps, ok1 := sig.Params().At(0).Type().Underlying().(*types.Slice)
		rs, ok2 := sig.Results().At(0).Type().Underlying().(*types.Slice)
		if !ok1 || !ok2 {
			continue
		}
		is32 := func(t types.Type) bool {
			b, ok := t.Underlying().(*types.Basic)
			return ok && (b.Kind() == types.Uint32 || b.Kind() == types.Int32 || b.Kind() == types.Float32)
		}
		switch {
		case types.Identical(ps.Elem(), u16) && is32(rs.Elem()):
			decs = append(decs, c19ParseConv(c, f, true, rs.Elem()))
		case is32(ps.Elem()) && types.Identical(rs.Elem(), u16):
			encs = append(encs, c19ParseConv(c, f, false, ps.Elem()))
		}
	}
	return
}

// c19ParseConv recognises
//
//	decoder: for i := range ret { buf := make([]byte,4); O.PutUint16(buf[a:], in[2i+k]) ×2; ret[i] = CONV(O.Uint32(buf)) }
//	encoder: for i, v := range in { buf := make([]byte,4); O.PutUint32(buf, CONV(v)); ret[2i+k] = O.Uint16(buf[a:]) ×2 }
func c19ParseConv(c *kit.Ctx, f *kit.Func, decoder bool, T types.Type) *convModel {
	return c19ParseConvDepth(c, f, decoder, T, 0)
}

func c19ParseConvDepth(c *kit.Ctx, f *kit.Func, decoder bool, T types.Type, depth int) *convModel {
	cm := c19ParseConvSyntax(c, f, decoder, T, depth)
	if cm.err != "" && cm.bad == "" {
		// not one of the recognised spellings: evaluate it on single-bit inputs
		pm, why := c19ProbeConv(c, f, decoder, T)
		if pm != nil {
			return pm
		}
		cm.err += "; not evaluated on single bits either: " + why
	}
	return cm
}

func c19ParseConvSyntax(c *kit.Ctx, f *kit.Func, decoder bool, T types.Type, depth int) *convModel {
	if comp := c19Composed(c, f, decoder, T, depth); comp != nil {
		return comp
	}
	cm := &convModel{F: f, Decoder: decoder, T: T, conv: "id"}
	info := f.Info()
	in := f.Params()[0]
	fail := func(format string, a ...any) *convModel {
		if cm.err == "" {
			cm.err = fmt.Sprintf(format, a...)
		}
		return cm
	}
	// the single range loop
	var rs *ast.RangeStmt
	n := 0
	ast.Inspect(f.Body, func(x ast.Node) bool {
		switch y := x.(type) {
		case *ast.RangeStmt:
			rs = y
			n++
		case *ast.ForStmt:
			// `for i := 0; i < len(xs); i++` is the same loop as `for i := range xs`
			if cl := f.CanonLoop(y); cl != nil {
				rs = cl
				n++
			} else {
				n += 2
			}
		}
		return true
	})
	if n != 1 || rs == nil || rs.Key == nil {
		return fail("expected exactly one loop over a slice with an index")
	}
	iv := kit.ObjOf(info, rs.Key)
	var elemV types.Object
	if rs.Value != nil {
		elemV = kit.ObjOf(info, rs.Value)
	}
	// the returned slice and its length
	var ret types.Object
	ast.Inspect(f.Body, func(x ast.Node) bool {
		if r, ok := x.(*ast.ReturnStmt); ok && len(r.Results) == 1 {
			ret = kit.ObjOf(info, r.Results[0])
		}
		return true
	})
	if ret == nil {
		return fail("the result is not a local slice variable")
	}
	b := kit.AnalyseBounds(c.P, f)
	cm.lenOK = c19LenShape(f, b, rs, ret, in, decoder)
	// index forms 2*i+k
	idxOf := func(e ast.Expr) (int64, bool) {
		fs, _ := b.FactsBefore(e)
		t := b.Term(e)
		if fs == nil || t == nil {
			return 0, false
		}
		l := b.EnvAt(fs, nil).LinOf(t)
		it := b.Term(rs.Key)
		d := l.Sub(kit.LinAtom(it)).Sub(kit.LinAtom(it))
		k, isC := d.IsConst()
		if !isC || k < 0 || k > 1 {
			return 0, false
		}
		return k, true
	}
	_ = iv
	var buf types.Object
	bufAt := map[int][2]int{} // buf byte -> (word, half)
	valAt := map[int]int{}    // buf byte -> value byte
	haveVal := false
	wordsSeen := map[int64]bool{}
	bufOff := func(e ast.Expr) (int64, bool) {
		e = ast.Unparen(e)
		if se, ok := e.(*ast.SliceExpr); ok && se.High == nil && !se.Slice3 && kit.ObjOf(info, se.X) == buf {
			if se.Low == nil {
				return 0, true
			}
			v, isC := kit.ConstInt(info, se.Low)
			return v, isC
		}
		if kit.ObjOf(info, e) == buf && buf != nil {
			return 0, true
		}
		return 0, false
	}
	unwrapConv := func(e ast.Expr) (ast.Expr, string, bool) {
		e = ast.Unparen(e)
		call, ok := e.(*ast.CallExpr)
		if !ok || len(call.Args) != 1 {
			return e, "id", true
		}
		if tv, ok := info.Types[call.Fun]; ok && tv.IsType() {
			bt, _ := tv.Type.Underlying().(*types.Basic)
			if bt == nil {
				return e, "", false
			}
			switch bt.Kind() {
			case types.Int32:
				return call.Args[0], "int32", true
			case types.Uint32:
				return call.Args[0], "uint32", true
			}
			return e, "", false
		}
		switch kit.QualName(kit.Callee(info, call)) {
		case "math.Float32frombits":
			return call.Args[0], "frombits", true
		case "math.Float32bits":
			return call.Args[0], "bits", true
		}
		return e, "id", true
	}
	for _, st := range rs.Body.List {
		switch y := st.(type) {
		case *ast.AssignStmt:
			if len(y.Lhs) != 1 || len(y.Rhs) != 1 {
				return fail("unsupported statement `%s`", f.Str(y))
			}
			// `_ = x` does nothing; `v := xs[i]` names the element of this iteration
			if id, isId := y.Lhs[0].(*ast.Ident); isId && id.Name == "_" {
				if _, isCall := ast.Unparen(y.Rhs[0]).(*ast.CallExpr); !isCall {
					continue
				}
			}
			if y.Tok == token.DEFINE && kit.LoopElem(info, rs, y.Rhs[0]) && rs.Value == nil && elemV == nil {
				elemV = kit.ObjOf(info, y.Lhs[0])
				continue
			}
			// buf := make([]byte, 4)
			if call, ok := ast.Unparen(y.Rhs[0]).(*ast.CallExpr); ok {
				if bi, ok := kit.Callee(info, call).(*types.Builtin); ok && bi.Name() == "make" {
					if n, isC := kit.ConstInt(info, call.Args[1]); isC && n == 4 && len(call.Args) == 2 && mbIsByteSlice(info.TypeOf(call)) && buf == nil {
						buf = kit.ObjOf(info, y.Lhs[0])
						continue
					}
					return fail("unsupported make `%s`", f.Str(y))
				}
			}
			ix, isIx := ast.Unparen(y.Lhs[0]).(*ast.IndexExpr)
			if !isIx || kit.ObjOf(info, ix.X) != ret {
				return fail("unsupported assignment `%s`", f.Str(y))
			}
			if decoder {
				// ret[i] = CONV(O.Uint32(buf))
				if kit.ObjOf(info, ix.Index) != iv {
					return fail("decoder stores at `%s`, not at the loop index", f.Str(ix.Index))
				}
				inner, conv, ok := unwrapConv(y.Rhs[0])
				if !ok {
					return fail("unsupported value conversion `%s`", f.Str(y.Rhs[0]))
				}
				call, isCall := ast.Unparen(inner).(*ast.CallExpr)
				if !isCall {
					return fail("unsupported value `%s`", f.Str(inner))
				}
				name, order, _, isBO := kit.ByteOrderCall(info, call)
				off, isBuf := int64(0), false
				if isBO && len(call.Args) == 1 {
					off, isBuf = bufOff(call.Args[0])
				}
				if !isBO || name != "Uint32" || order == "" || !isBuf || off != 0 {
					return fail("unsupported value `%s`", f.Str(inner))
				}
				cm.conv = conv
				for j := 0; j < 4; j++ {
					if order == "big" {
						valAt[j] = j
					} else {
						valAt[j] = 3 - j
					}
				}
				haveVal = true
			} else {
				// ret[2i+k] = O.Uint16(buf[a:])
				k, ok := idxOf(ix.Index)
				if !ok {
					return fail("encoder stores at `%s`, not at 2*i+{0,1}", f.Str(ix.Index))
				}
				call, isCall := ast.Unparen(y.Rhs[0]).(*ast.CallExpr)
				if !isCall {
					return fail("unsupported value `%s`", f.Str(y.Rhs[0]))
				}
				name, order, _, isBO := kit.ByteOrderCall(info, call)
				off, isBuf := int64(0), false
				if isBO && len(call.Args) == 1 {
					off, isBuf = bufOff(call.Args[0])
				}
				if !isBO || name != "Uint16" || order == "" || !isBuf || off < 0 || off > 2 {
					return fail("unsupported value `%s`", f.Str(y.Rhs[0]))
				}
				if wordsSeen[k] {
					cm.bad = fmt.Sprintf("register 2*i+%d is written twice, the other one never", k)
					return cm
				}
				wordsSeen[k] = true
				hi, lo := int(off), int(off)+1
				if order == "little" {
					hi, lo = lo, hi
				}
				bufAt[hi] = [2]int{int(k), 0}
				bufAt[lo] = [2]int{int(k), 1}
			}
		case *ast.ExprStmt:
			call, ok := y.X.(*ast.CallExpr)
			if !ok {
				return fail("unsupported statement `%s`", f.Str(y))
			}
			name, order, _, isBO := kit.ByteOrderCall(info, call)
			if !isBO || order == "" || len(call.Args) != 2 {
				return fail("unsupported call `%s`", f.Str(y))
			}
			off, isBuf := bufOff(call.Args[0])
			if !isBuf {
				return fail("`%s` does not write the 4-byte buffer", f.Str(y))
			}
			if decoder {
				// O.PutUint16(buf[a:], in[2i+k])
				ix, isIx := ast.Unparen(call.Args[1]).(*ast.IndexExpr)
				if name != "PutUint16" || !isIx || kit.ObjOf(info, ix.X) != in || off < 0 || off > 2 {
					return fail("unsupported call `%s`", f.Str(y))
				}
				k, ok := idxOf(ix.Index)
				if !ok {
					return fail("decoder reads `%s`, not register 2*i+{0,1}", f.Str(ix.Index))
				}
				if wordsSeen[k] {
					cm.bad = fmt.Sprintf("register 2*i+%d is read twice, the other one never", k)
					return cm
				}
				wordsSeen[k] = true
				hi, lo := int(off), int(off)+1
				if order == "little" {
					hi, lo = lo, hi
				}
				bufAt[hi] = [2]int{int(k), 0}
				bufAt[lo] = [2]int{int(k), 1}
			} else {
				// O.PutUint32(buf, CONV(v))
				inner, conv, ok := unwrapConv(call.Args[1])
				if name != "PutUint32" || off != 0 || !ok || elemV == nil || kit.ObjOf(info, inner) != elemV {
					return fail("unsupported call `%s`", f.Str(y))
				}
				cm.conv = conv
				for j := 0; j < 4; j++ {
					if order == "big" {
						valAt[j] = j
					} else {
						valAt[j] = 3 - j
					}
				}
				haveVal = true
			}
		default:
			return fail("unsupported statement `%s`", f.Str(st))
		}
	}
	if buf == nil || !haveVal || len(bufAt) != 4 || !wordsSeen[0] || !wordsSeen[1] {
		return fail("the loop body does not move two registers through a 4-byte buffer (buffer bytes assigned: %d)", len(bufAt))
	}
	for bb := 0; bb < 4; bb++ {
		cm.perm[valAt[bb]] = bufAt[bb]
	}
	cm.fillBits()
	cm.stride = 2
	return cm
}

// c19LenShape: decoder: ret = make([]T, len(in)/2) and the loop ranges over ret
// (or an equivalent bound); encoder: ret = make([]uint16, len(in)*2) and the
// loop ranges over in.
func c19LenShape(f *kit.Func, b *kit.Bounds, rs *ast.RangeStmt, ret types.Object, in *types.Var, decoder bool) bool {
	info := f.Info()
	fs, _ := b.FactsBefore(rs.X)
	if fs == nil {
		return false
	}
	env := b.EnvAt(fs, nil)
	var retId, inId *ast.Ident
	ast.Inspect(f.Body, func(n ast.Node) bool {
		if id, ok := n.(*ast.Ident); ok {
			switch kit.ObjOf(info, id) {
			case ret:
				if retId == nil {
					retId = id
				}
			case types.Object(in):
				if inId == nil {
					inId = id
				}
			}
		}
		return true
	})
	if retId == nil || inId == nil {
		return false
	}
	lenOf := func(id *ast.Ident) *kit.Lin {
		t := b.Term(id)
		if t == nil {
			return nil
		}
		return env.LinOf(kit.LenTerm(t))
	}
	lr, li := lenOf(retId), lenOf(inId)
	if lr == nil || li == nil {
		return false
	}
	rangesOver := kit.ObjOf(info, rs.X)
	if decoder {
		// 2*len(ret) <= len(in) < 2*len(ret)+2  ⇔ len(ret) == len(in)/2; accept the syntactic normal form
		want := env.FDiv(li, 2)
		return lr.Sub(want).Key() == "+0" && rangesOver == ret
	}
	d := lr.Sub(li).Sub(li)
	v, isC := d.IsConst()
	return isC && v == 0 && rangesOver == types.Object(in)
}

func convInverse(a, b string) bool {
	switch a + "/" + b {
	case "id/id", "int32/uint32", "frombits/bits":
		return true
	}
	return false
}

func c19R1(c *kit.Ctx, m *c19Model) {
	r := c.Rule("R1", "32-bit conversions: every decoder has exactly one inverse encoder", 24)
	decs, encs := c19ConvFuncs(c, m)
	if len(decs) < 6 || len(encs) < 6 {
		c.Fatalf("expected at least 6 decoders ([]uint16→[]T) and 6 encoders ([]T→[]uint16) of 32-bit values, found %d and %d", len(decs), len(encs))
	}
	inverse := func(d, e *convModel) string {
		if !types.Identical(d.T, e.T) {
			return "different value type"
		}
		// a probed model is bit-preserving by construction; parsed ones name their conversion
		if !d.probed && !e.probed && !convInverse(d.conv, e.conv) {
			return fmt.Sprintf("value conversions %s / %s are not inverse", d.conv, e.conv)
		}
		if d.bits != e.bits {
			return fmt.Sprintf("byte maps differ: decoder %s, encoder %s", d.permString(), e.permString())
		}
		return ""
	}
	ef := newEffects(c)
	for _, x := range append(append([]*convModel(nil), decs...), encs...) {
		c19Purity(c, r, ef, x)
	}
	byT := map[string][]*convModel{}
	for _, d := range decs {
		c.Analysed(d.F)
		o := r.Ob(d.F, nil, "inverse encoder", "exactly one encoder of the same value type undoes this decoder (same register→byte map, inverse value conversion, lengths len/2 and len*2)")
		if d.bad != "" {
			o.Violation("%s cannot be undone: %s", d.F.Name, d.bad)
			continue
		}
		if d.err != "" {
			o.Undecided("decoder shape not recognised: %s", d.err)
			continue
		}
		if !d.lenOK {
			o.Undecided("the result is not make([]T, len(in)/2) ranged over by the loop")
			continue
		}
		byT[d.T.String()] = append(byT[d.T.String()], d)
		var inv []string
		var why []string
		und := ""
		for _, e := range encs {
			if !types.Identical(d.T, e.T) {
				continue
			}
			if e.bad != "" {
				why = append(why, e.F.Name+": "+e.bad)
				continue
			}
			if e.err != "" {
				und = fmt.Sprintf("encoder %s not recognised: %s", e.F.Name, e.err)
				continue
			}
			if !e.lenOK {
				und = fmt.Sprintf("encoder %s: the result is not make([]uint16, len(in)*2) filled by a range over the input", e.F.Name)
				continue
			}
			if msg := inverse(d, e); msg == "" {
				inv = append(inv, e.F.Name)
			} else {
				why = append(why, e.F.Name+": "+msg)
			}
		}
		switch {
		case und != "":
			o.Undecided("%s", und)
		case len(inv) == 1:
			o.OK("%s (%s, %s)", inv[0], d.permString(), d.conv)
		case len(inv) == 0:
			o.Violation("no encoder undoes %s (%s): %s", d.F.Name, d.permString(), strings.Join(why, "; "))
		default:
			o.Violation("%s is undone by %d encoders (%s): the word orders are not distinct", d.F.Name, len(inv), strings.Join(inv, ", "))
		}
	}
	var ts []string
	for t := range byT {
		ts = append(ts, t)
	}
	sort.Strings(ts)
	for _, t := range ts {
		ds := byT[t]
		o := r.Ob(ds[0].F, nil, "word orders of "+t, "the decoders of one value type implement distinct word orders")
		seen := map[[32]int]string{}
		bad := ""
		for _, d := range ds {
			if prev, dup := seen[d.bits]; dup {
				bad = fmt.Sprintf("%s and %s read the registers in the same order (%s)", prev, d.F.Name, d.permString())
			}
			seen[d.bits] = d.F.Name
		}
		if bad != "" {
			o.Violation("%s", bad)
		} else {
			o.OK("%d distinct byte maps", len(ds))
		}
	}
	// register-file siblings: func(int) (T, error) uses a decoder, func(int, T) error the inverse encoder
	find := func(list []*convModel, f *kit.Func) *convModel {
		for _, x := range list {
			if x.F == f {
				return x
			}
		}
		return nil
	}
	type sib struct {
		reader, writer *kit.Func
		dec, enc       *convModel
	}
	sibs := map[string]*sib{}
	for _, f := range c.P.Funcs("modbus") {
		if f.Decl == nil || f.Obj == nil {
			continue
		}
		sig := f.Obj.Type().(*types.Signature)
		if sig.Recv() == nil {
			continue
		}
		rt := sig.Recv().Type()
		if p, ok := rt.(*types.Pointer); ok {
			rt = p.Elem()
		}
		if !types.Identical(rt, m.ProvImpl) {
			continue
		}
		for _, call := range f.AllCalls(false) {
			cf := f.CalleeFunc(call)
			if cf == nil {
				continue
			}
			if d := find(decs, cf); d != nil {
				s := sibs[d.T.String()]
				if s == nil {
					s = &sib{}
					sibs[d.T.String()] = s
				}
				s.reader, s.dec = f, d
			}
			if e := find(encs, cf); e != nil {
				s := sibs[e.T.String()]
				if s == nil {
					s = &sib{}
					sibs[e.T.String()] = s
				}
				s.writer, s.enc = f, e
			}
		}
	}
	ts = ts[:0]
	for t := range sibs {
		ts = append(ts, t)
	}
	sort.Strings(ts)
	for _, t := range ts {
		s := sibs[t]
		if s.reader == nil || s.writer == nil {
			continue
		}
		o := r.Ob(s.reader, nil, "register file "+t, "the register file reads a 32-bit value with the inverse of the conversion it writes it with")
		switch {
		case s.dec.bad != "" || s.enc.bad != "":
			o.Violation("%s / %s: %s%s", s.dec.F.Name, s.enc.F.Name, s.dec.bad, s.enc.bad)
		case s.dec.err != "" || s.enc.err != "":
			o.Undecided("conversion shape not recognised")
		default:
			if msg := inverse(s.dec, s.enc); msg != "" {
				o.Violation("%s reads with %s but %s writes with %s: %s", s.reader.Name, s.dec.F.Name, s.writer.Name, s.enc.F.Name, msg)
			} else {
				o.OK("%s / %s", s.dec.F.Name, s.enc.F.Name)
			}
		}
	}
}
