package props

import (
	"go/ast"
	"go/token"
	"go/types"
	"strings"

	"siotcheck/kit"
)

// Shared model of package store used by C01, C03, C04, C05, C06, C20.

const (
	qBegin    = "database/sql.(*DB).Begin"
	qCommit   = "database/sql.(*Tx).Commit"
	qRollback = "database/sql.(*Tx).Rollback"
	dataPkg   = kit.ModPath + "/data"
	storePkg  = kit.ModPath + "/store"
	clientPkg = kit.ModPath + "/client"
	natsPkg   = "github.com/nats-io/nats.go"
)

type pointWriter struct {
	Body   *kit.Func // the function that executes the prepared INSERT (F, or a body F calls with the transaction)
	F      *kit.Func
	Table  string       // node_points | edge_points
	Exec   *kit.SQLSite // the prepared INSERT's Exec
	Batch  *types.Var   // the data.Points parameter
	IDs    []*types.Var // string parameters
	Begin  *ast.CallExpr
	Commit *ast.CallExpr
	// Entry is the function the message handlers call with the batch: F itself, or a
	// wrapper of F (same package, takes the batch, F's only caller besides tests);
	// EntryBatch is its data.Points parameter.  Pre-checks and the in-batch
	// de-duplication may live there.
	Entry      *kit.Func
	EntryBatch *types.Var
}

type storeModel struct {
	c         *kit.Ctx
	sql       *kit.SQLModel
	writers   []*pointWriter
	rootField *types.Var // field that caches meta.root_id
	wrappers  map[*kit.Func]*pointWriter
}

func isErrorType(t types.Type) bool {
	return t != nil && types.Identical(t, types.Universe.Lookup("error").Type())
}

func newStoreModel(c *kit.Ctx) *storeModel {
	m := &storeModel{c: c, sql: c.P.SQLModelOf("store")}
	if len(m.sql.Unparsed) > 0 {
		c.Fatalf("SQL statements the tokenizer cannot classify: %v", m.sql.Unparsed)
	}
	if len(m.sql.Sites) < 35 {
		c.Fatalf("SQL model: %d SQL call sites found in store, floor is 35", len(m.sql.Sites))
	}
	for _, s := range m.sql.Sites {
		if s.Recv != "stmt" || s.Method != "Exec" {
			continue
		}
		tbl := ""
		for _, t := range []string{"node_points", "edge_points"} {
			if s.HasVerb("INSERT", t) {
				tbl = t
			}
		}
		if tbl == "" {
			continue
		}
		f := s.F.Root()
		w := &pointWriter{F: f, Body: f, Table: tbl, Exec: s}
		// the INSERT may be executed in a body function that receives the transaction
		// (edgePointsTx(tx, …)); the writer is then the function that begins the
		// transaction and calls it
		for hop := 0; hop < 2 && beginCallOf(f) == nil && txParamOf(f) != nil; hop++ {
			var outer *kit.Func
			n := 0
			for _, g := range c.P.Funcs("store") {
				if g.Body == nil || g.Lit != nil || g == f {
					continue
				}
				for _, call := range g.AllCalls(false) {
					if g.CalleeFunc(call) == f {
						outer = g
						n++
					}
				}
			}
			if n != 1 {
				break
			}
			f = outer
		}
		w.F = f
		for _, p := range f.Params() {
			if kit.IsNamedType(p.Type(), dataPkg, "Points") {
				w.Batch = p
			} else if b, ok := p.Type().Underlying().(*types.Basic); ok && b.Kind() == types.String {
				w.IDs = append(w.IDs, p)
			}
		}
		for _, call := range f.AllCalls(false) {
			if isBeginCall(f, call) {
				w.Begin = call
			}
			if kit.CallIs(f.Info(), call, qCommit) {
				w.Commit = call
			}
		}
		w.Entry, w.EntryBatch = f, w.Batch
		for hop := 0; hop < 2; hop++ {
			var outer *kit.Func
			direct := false
			distinct := map[*kit.Func]bool{}
			for _, g := range c.P.Funcs("store") {
				if g.Body == nil || g == w.Entry {
					continue
				}
				for _, call := range g.AllCalls(false) {
					if g.CalleeFunc(call) != w.Entry {
						continue
					}
					root := g.Root()
					if isMsgHandler(root) {
						direct = true
					}
					distinct[root] = true
					outer = root
				}
			}
			if direct || len(distinct) != 1 || outer == w.F || outer == w.Body || !sameRecvType(outer, w.F) {
				break
			}
			var bp *types.Var
			for _, p := range outer.Params() {
				if kit.IsNamedType(p.Type(), dataPkg, "Points") {
					bp = p
				}
			}
			if bp == nil {
				break
			}
			w.Entry, w.EntryBatch = outer, bp
		}
		m.writers = append(m.writers, w)
	}
	// root id cache: destination of the root_id column in the scan of `SELECT … FROM meta`
	for _, s := range m.sql.Sites {
		if !s.HasVerb("SELECT", "meta") || len(s.Stmts) != 1 {
			continue
		}
		idx := -1
		for i, col := range s.Stmts[0].Cols {
			if col == "root_id" {
				idx = i
			}
		}
		if idx < 0 {
			continue
		}
		for _, call := range s.F.AllCalls(false) {
			if kit.CallIs(s.F.Info(), call, "database/sql.(*Rows).Scan", "database/sql.(*Row).Scan") && idx < len(call.Args) {
				if u, ok := ast.Unparen(call.Args[idx]).(*ast.UnaryExpr); ok && u.Op == token.AND {
					if v, ok := kit.ObjOf(s.F.Info(), u.X).(*types.Var); ok && v.IsField() {
						m.rootField = v
					}
				}
			}
		}
	}
	return m
}

// sameRecvType: both are methods of the same named type.
func sameRecvType(a, b *kit.Func) bool {
	ra, rb := recvNamed(a), recvNamed(b)
	return ra != nil && ra == rb
}

func recvNamed(f *kit.Func) *types.TypeName {
	if f.Decl == nil || f.Obj == nil {
		return nil
	}
	sig, ok := f.Obj.Type().(*types.Signature)
	if !ok || sig.Recv() == nil {
		return nil
	}
	t := sig.Recv().Type()
	if p, ok := t.(*types.Pointer); ok {
		t = p.Elem()
	}
	if n, ok := t.(*types.Named); ok {
		return n.Obj()
	}
	return nil
}

// isMsgHandler: a function that receives a bus message.
func isMsgHandler(f *kit.Func) bool {
	for _, p := range f.Params() {
		if kit.IsNamedType(p.Type(), natsPkg, "Msg") {
			return true
		}
	}
	return false
}

// owns reports whether s is executed by this writer: in its transaction function
// or in the body function it hands the transaction to.
func (w *pointWriter) owns(s *kit.SQLSite) bool {
	r := s.F.Root()
	return r == w.F || r == w.Body
}

// idParam traces a bind argument of an owned site to one of the writer's id
// parameters (w.IDs); through the body function the body's own parameter is
// mapped to the argument the writer passes for it.
func (w *pointWriter) idParam(s *kit.SQLSite, e ast.Expr) *types.Var {
	fn := s.F.Root()
	if fn == w.F {
		return traceToParam(w.F, e, w.IDs)
	}
	if fn != w.Body {
		return nil
	}
	var bodyIDs []*types.Var
	for _, p := range w.Body.Params() {
		if b, ok := p.Type().Underlying().(*types.Basic); ok && b.Kind() == types.String {
			bodyIDs = append(bodyIDs, p)
		}
	}
	bp := traceToParam(w.Body, e, bodyIDs)
	if bp == nil {
		return nil
	}
	idx := -1
	for i, p := range w.Body.Params() {
		if p == bp {
			idx = i
		}
	}
	for _, call := range w.F.AllCalls(false) {
		if w.F.CalleeFunc(call) == w.Body && idx >= 0 && idx < len(call.Args) {
			o := kit.ObjOf(w.F.Info(), call.Args[idx])
			for _, p := range w.IDs {
				if types.Object(p) == o {
					return p
				}
			}
		}
	}
	return nil
}

func (m *storeModel) writer(table string) *pointWriter {
	for _, w := range m.writers {
		if w.Table == table {
			return w
		}
	}
	return nil
}

// isWriterCall reports whether call invokes a point writer.
func (m *storeModel) writerOf(f *kit.Func, call *ast.CallExpr) *pointWriter {
	cf := f.CalleeFunc(call)
	if cf == nil {
		return nil
	}
	for _, w := range m.writers {
		if w.F == cf || w.Entry == cf {
			return w
		}
	}
	// a thin wrapper: a function of the package that hands its own batch parameter
	// straight to a writer (kept for callers that do not care about the detailed result)
	if m.wrappers == nil {
		m.wrappers = map[*kit.Func]*pointWriter{}
		for _, g := range m.c.P.Funcs("store") {
			if g.Body == nil || g.Lit != nil {
				continue
			}
			var bp *types.Var
			for _, p := range g.Params() {
				if kit.IsNamedType(p.Type(), dataPkg, "Points") {
					bp = p
				}
			}
			if bp == nil {
				continue
			}
			for _, call := range g.AllCalls(false) {
				for _, w := range m.writers {
					if g != w.F && g != w.Entry && g != w.Body && g.CalleeFunc(call) == w.F && sameRecvType(g, w.F) {
						for _, a := range call.Args {
							if kit.ObjOf(g.Info(), a) == types.Object(bp) {
								m.wrappers[g] = w
							}
						}
					}
				}
			}
		}
	}
	return m.wrappers[cf]
}

// isRootIDExpr recognises a read of the cached root id: the field itself or
// a call of a parameterless accessor that returns it on every path.
func (m *storeModel) isRootIDExpr(f *kit.Func, e ast.Expr) bool {
	if m.rootField == nil {
		return false
	}
	e = ast.Unparen(e)
	if sel, ok := e.(*ast.SelectorExpr); ok {
		return kit.ObjOf(f.Info(), sel) == m.rootField
	}
	if call, ok := e.(*ast.CallExpr); ok && len(call.Args) == 0 {
		cf := f.CalleeFunc(call)
		if cf == nil || cf.Body == nil {
			return false
		}
		n, all := 0, true
		ast.Inspect(cf.Body, func(x ast.Node) bool {
			if _, ok := x.(*ast.FuncLit); ok {
				return false
			}
			if r, ok := x.(*ast.ReturnStmt); ok {
				n++
				if len(r.Results) != 1 {
					all = false
				} else if !m.isRootIDExpr(cf, r.Results[0]) {
					// a local assigned exactly once from the cached field (copy under the lock)
					okLocal := false
					if o := kit.ObjOf(cf.Info(), r.Results[0]); o != nil {
						defs := 0
						var def ast.Expr
						ast.Inspect(cf.Body, func(y ast.Node) bool {
							if as, ok := y.(*ast.AssignStmt); ok && len(as.Lhs) == len(as.Rhs) {
								for i, l := range as.Lhs {
									if kit.ObjOf(cf.Info(), l) == o {
										defs++
										def = as.Rhs[i]
									}
								}
							}
							return true
						})
						if defs == 1 {
							if sel, ok := ast.Unparen(def).(*ast.SelectorExpr); ok && kit.ObjOf(cf.Info(), sel) == types.Object(m.rootField) {
								okLocal = true
							}
						}
					}
					if !okLocal {
						all = false
					}
				}
			}
			return true
		})
		return n > 0 && all
	}
	return false
}

// isRollback reports whether the call performs tx.Rollback on every path:
// the method itself or a local closure / same-package function all of whose
// paths call it.
func isRollback(f *kit.Func, call *ast.CallExpr) bool {
	if kit.CallIs(f.Info(), call, qRollback) {
		return true
	}
	// the rollback function handed back by a transaction opener
	if v, ok := kit.Callee(f.Info(), call).(*types.Var); ok && openerRollbackVar(f, v) {
		return true
	}
	cf := f.CalleeFunc(call)
	if cf == nil || cf.Body == nil || cf.PkgRel() != f.PkgRel() {
		return false
	}
	if cf.Lit == nil {
		return false // only local closures are accepted as rollback wrappers
	}
	return alwaysCalls(cf, func(c *ast.CallExpr) bool { return kit.CallIs(cf.Info(), c, qRollback) })
}

// alwaysCalls reports whether every path through f performs a call matching pred.
func alwaysCalls(f *kit.Func, pred func(*ast.CallExpr) bool) bool {
	g := f.Prog.Graph(f)
	st := &kit.Std{F: f}
	st.OnCall = func(call *ast.CallExpr, n ast.Node, s kit.S) []kit.S {
		if pred(call) {
			return []kit.S{s.Set("hit", "1")}
		}
		return nil
	}
	res := g.Run(kit.NewS(), st.Client())
	if len(res.Exits) == 0 {
		return false
	}
	for _, e := range res.Exits {
		if e.State.Get("hit") != "1" {
			return false
		}
	}
	return true
}

// retKey gives a stable construct key for a return statement: its text plus
// its ordinal among identical texts within the function.
func retKey(f *kit.Func, r *ast.ReturnStmt) string {
	if r == nil {
		return "exit(no return)"
	}
	txt := f.Str(r)
	n := 0
	ast.Inspect(f.Body, func(x ast.Node) bool {
		if rr, ok := x.(*ast.ReturnStmt); ok && rr.Pos() < r.Pos() && f.Str(rr) == txt {
			n++
		}
		return true
	})
	if n == 0 {
		return txt
	}
	return txt + "#" + string(rune('0'+n%10))
}

// publishers computes the functions of package rel that (transitively, through
// static calls inside the package) publish on the bus.
func publishers(c *kit.Ctx, rel string) map[*kit.Func]bool {
	funcs := c.P.Funcs(rel)
	direct := func(f *kit.Func, call *ast.CallExpr) bool {
		obj := kit.Callee(f.Info(), call)
		q := kit.QualName(obj)
		if strings.HasPrefix(q, natsPkg+".(*Conn).Publish") || strings.HasPrefix(q, natsPkg+".(*Conn).Request") ||
			q == natsPkg+".(*Msg).Respond" {
			return true
		}
		// client.* helpers taking a *nats.Conn
		if fn, ok := obj.(*types.Func); ok && fn.Pkg() != nil && fn.Pkg().Path() == clientPkg {
			sig := fn.Type().(*types.Signature)
			for i := 0; i < sig.Params().Len(); i++ {
				if kit.IsNamedType(sig.Params().At(i).Type(), natsPkg, "Conn") {
					return true
				}
			}
		}
		return false
	}
	pub := map[*kit.Func]bool{}
	changed := true
	for changed {
		changed = false
		for _, f := range funcs {
			if pub[f] || f.Body == nil {
				continue
			}
			for _, call := range f.AllCalls(false) {
				if direct(f, call) {
					pub[f] = true
				} else if cf := f.CalleeFunc(call); cf != nil && pub[cf] {
					pub[f] = true
				}
				if pub[f] {
					changed = true
					break
				}
			}
		}
	}
	return pub
}

// msgParam returns the *nats.Msg parameter of a handler, if any.
func msgParam(f *kit.Func) *types.Var {
	for _, p := range f.Params() {
		if kit.IsNamedType(p.Type(), natsPkg, "Msg") {
			return p
		}
	}
	return nil
}

// isMsgField reports whether e is `<msg>.<field>` for the handler's message.
func isMsgField(f *kit.Func, e ast.Expr, msg *types.Var, field string) bool {
	sel, ok := ast.Unparen(e).(*ast.SelectorExpr)
	return ok && sel.Sel.Name == field && kit.ObjOf(f.Info(), sel.X) == msg
}
