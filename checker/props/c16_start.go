package props

import (
	"go/ast"
	"go/token"
	"go/types"
	"strings"

	"golang.org/x/tools/go/cfg"

	"siotcheck/kit"
)

// C16/R6 — the "a packet has started" flag at the first device read.
//
// After k leftover bytes were moved to b[0:k] the flag that makes the scan of
// the device bytes skip leading delimiters must be true iff some moved byte
// is non-zero.  Decided per path at the first device read:
//   - flag true  : a test `b[K] != 0` with K < k was passed on the path;
//   - flag false : k <= 0, or b[0..m-1] are known zero and k <= m, or the path
//     left a counting loop `for i := 0; i < k; i++` every continuing
//     iteration of which established b[i] == 0 (exhaustion);
//     otherwise, when every decision on the path is interpreted and no
//     variable-indexed test of b took part, some input moves a non-zero byte
//     the path never looked at: violation.

type c16ScanLoop struct {
	fs *ast.ForStmt
	x  kit.Affine // the bound: the loop runs while i < x
}

// scanLoops finds the counting loops whose every continuing iteration
// establishes b[i] == 0.
func (fl *c16Flow) scanLoops() []c16ScanLoop {
	rd := fl.rd
	f := rd.f
	info := f.Info()
	g := f.Prog.Graph(f)
	var out []c16ScanLoop
	ast.Inspect(f.Body, func(n ast.Node) bool {
		fs, ok := n.(*ast.ForStmt)
		if !ok || fs.Init == nil || fs.Cond == nil || fs.Post == nil {
			return true
		}
		init, ok := fs.Init.(*ast.AssignStmt)
		if !ok || len(init.Lhs) != 1 || len(init.Rhs) != 1 {
			return true
		}
		if k, ok := kit.ConstInt(info, init.Rhs[0]); !ok || k != 0 {
			return true
		}
		iv := kit.ObjOf(info, init.Lhs[0])
		post, ok := fs.Post.(*ast.IncDecStmt)
		if iv == nil || !ok || post.Tok != token.INC || kit.ObjOf(info, post.X) != iv || rd.unsafe[iv] {
			return true
		}
		d, op, ok := kit.IntCmp(info, fs.Cond)
		if !ok {
			return true
		}
		var x kit.Affine
		switch {
		case op == token.LSS && d.Terms["v"+kit.VarToken(iv)] == 1: // i - X < 0
			x = kit.AffVar(iv).Sub(d)
		case op == token.GTR && d.Terms["v"+kit.VarToken(iv)] == -1: // X - i > 0
			x = d.Add(kit.AffVar(iv))
		default:
			return true
		}
		if x.Mentions(iv) {
			return true
		}
		// no other assignment to i in the body
		clean := true
		ast.Inspect(fs.Body, func(y ast.Node) bool {
			switch z := y.(type) {
			case *ast.AssignStmt:
				for _, l := range z.Lhs {
					if kit.ObjOf(info, l) == iv {
						clean = false
					}
				}
			case *ast.IncDecStmt:
				if kit.ObjOf(info, z.X) == iv {
					clean = false
				}
			}
			return true
		})
		if !clean {
			return true
		}
		var entry *cfg.Block
		for _, b := range g.G.Blocks {
			if b.Live && b.Kind == cfg.KindForBody && b.Stmt == ast.Stmt(fs) {
				entry = b
			}
		}
		if entry == nil {
			return true
		}
		zeroKey := "a:z:b:" + fl.intern(kit.AffVar(iv))
		st := &kit.Std{F: f}
		st.Eval.Atom = fl.atom
		reached, all := false, true
		st.OnNode = func(n ast.Node, s kit.S) []kit.S {
			if n == ast.Node(post) {
				reached = true
				if s.Get(zeroKey) != "T" {
					all = false
				}
				return nil
			}
			if n.Pos() < fs.Pos() || n.Pos() >= fs.End() {
				return nil
			}
			return []kit.S{s}
		}
		res := g.RunFrom(entry, 0, kit.NewS(), st.Client())
		if res.Overflow || !reached || !all {
			return true
		}
		out = append(out, c16ScanLoop{fs, x})
		return true
	})
	return out
}

// startFlags lists the bool locals that are tested inside the loop that
// contains the device read and are declared outside that loop.
func (fl *c16Flow) startFlags(devCall *ast.CallExpr) []types.Object {
	rd := fl.rd
	f := rd.f
	info := f.Info()
	loop, _ := f.Enclosing(devCall, func(n ast.Node) bool { _, ok := n.(*ast.ForStmt); return ok }).(*ast.ForStmt)
	if loop == nil {
		return nil
	}
	seen := map[types.Object]bool{}
	var out []types.Object
	assigned := map[*ast.Ident]bool{}
	ast.Inspect(loop.Body, func(n ast.Node) bool {
		if as, ok := n.(*ast.AssignStmt); ok {
			for _, l := range as.Lhs {
				if id, ok := ast.Unparen(l).(*ast.Ident); ok {
					assigned[id] = true
				}
			}
		}
		return true
	})
	ast.Inspect(loop.Body, func(n ast.Node) bool {
		if _, ok := n.(*ast.FuncLit); ok {
			return false
		}
		x, ok := n.(*ast.Ident)
		if !ok || assigned[x] {
			return true
		}
		o, ok := info.Uses[x].(*types.Var)
		if !ok || o.IsField() || seen[o] || rd.unsafe[o] {
			return true
		}
		if b, ok := o.Type().Underlying().(*types.Basic); !ok || b.Kind() != types.Bool {
			return true
		}
		if loop.Pos() <= o.Pos() && o.Pos() < loop.End() {
			return true // declared inside the loop
		}
		if o.Parent() == nil || !o.Parent().Contains(devCall.Pos()) {
			return true
		}
		seen[o] = true
		out = append(out, o)
		return true
	})
	return out
}

// judgeStartFlag decides R6 for one flag at the first device read; n is the
// position the device read starts at (= the number of moved bytes).
func (fl *c16Flow) judgeStartFlag(s kit.S, flag types.Object, n kit.Affine, okN bool) c16Verdict {
	val := s.Get("v:" + kit.VarID(flag))
	if !okN {
		return c16V("undec", "the number of bytes in b before the first device read is not linear in local variables")
	}
	if k, isC := n.Const(); isC && k == 0 && val == "false" {
		return c16V("ok", "nothing moved, %s is false", flag.Name())
	}
	// `bytes.Count(b[:k], {0}) != k` decided on the path: exactly "some byte of b[0:k] is non-zero"
	for _, k := range s.Keys() {
		if strings.HasPrefix(k, "a:nz:") {
			if K, ok := fl.tab[strings.TrimPrefix(k, "a:nz:")]; ok {
				if d, isC := fl.substEq(K, s).Sub(n).Const(); isC && d == 0 {
					want := "false"
					if s.Get(k) == "T" {
						want = "true"
					}
					if val == want {
						return c16V("ok", "%s is the outcome of counting the delimiters among all %s moved bytes", flag.Name(), n.String())
					}
					if val != "" {
						return c16V("viol", "%s is %s at the first device read although the count of delimiters among the %s moved bytes says the opposite", flag.Name(), val, n.String())
					}
				}
			}
		}
	}
	// the flag was decided while scanning the leftover bytes, which were then moved
	// to b[0:] in order (all of them, or the buffer is full and the scan never runs)
	wholeMove := false
	if mv := s.Get("q:mv"); mv != "" && s.Get("q:lounk") == "" && s.Get("q:mv2") == "" {
		parts := strings.SplitN(mv, "|", 2)
		if mlo, ok1 := fl.tab[parts[0]]; ok1 {
			if mhi, ok2 := fl.tab[parts[1]]; ok2 {
				k, c1 := fl.substEq(mlo, s).Const()
				d, c2 := mhi.Sub(kit.AffLen(fl.rd.buf)).Const()
				wholeMove = c1 && k == 0 && c2 && d == 0
			}
		}
	}
	if wholeMove {
		if val == "true" && s.Get("q:nzev:"+kit.VarID(flag)) == "l" {
			return c16V("ok", "%s was set on a non-zero leftover byte; the leftover bytes were then moved to b[0:]", flag.Name())
		}
		if val == "false" && s.Get("q:exhL") == "1" {
			return c16V("ok", "%s is false after every leftover byte was seen to be zero; the leftover bytes were then moved to b[0:]", flag.Name())
		}
	}
	switch val {
	case "true":
		pre := "a:z:b:"
		for _, k := range s.Keys() {
			if strings.HasPrefix(k, pre) && s.Get(k) == "F" {
				if K, ok := fl.tab[strings.TrimPrefix(k, pre)]; ok && fl.provesLE(s, fl.substEq(K, s).Sub(n), -1) {
					return c16V("ok", "%s is true after b[%s] != 0 was seen among the moved bytes", flag.Name(), K.String())
				}
			}
		}
		if s.Get("q:unk") != "" {
			return c16V("undec", "%s is true at the first device read on a path that passed a decision the rule does not interpret (%s)", flag.Name(), s.Get("q:unk"))
		}
		if why := fl.flagFromCall(flag); why != "" {
			return c16V("undec", "%s is true at the first device read; it receives the result of %s, which the rule does not follow", flag.Name(), why)
		}
		return c16V("viol", "%s is true at the first device read although no byte of b[0:%s] was seen to be non-zero on this path: a delimiter at the start of the device bytes is then taken for the end of a frame", flag.Name(), n.String())
	case "false":
		// a moved byte was seen non-zero and the flag is false nevertheless
		for _, k := range s.Keys() {
			if strings.HasPrefix(k, "a:z:b:") && s.Get(k) == "F" {
				if K, ok := fl.tab[strings.TrimPrefix(k, "a:z:b:")]; ok && fl.provesLE(s, fl.substEq(K, s).Sub(n), -1) {
					return c16V("viol", "%s is false at the first device read although b[%s] != 0 was seen among the moved bytes on this path: the started packet is taken for not started", flag.Name(), K.String())
				}
			}
		}
		if fl.provesLE(s, n, 0) {
			return c16V("ok", "nothing moved, %s is false", flag.Name())
		}
		m := int64(0)
		for s.Get("a:z:b:"+kit.AffConst(m).Key()) == "T" {
			m++
		}
		if m > 0 && fl.provesLE(s, n, m) {
			return c16V("ok", "b[0:%d] known zero and at most %d bytes moved", m, m)
		}
		if ex := s.Get("q:exh"); ex != "" {
			if X, ok := fl.tab[ex]; ok {
				if d, isC := fl.substEq(X, s).Sub(n).Const(); isC && d >= 0 {
					return c16V("ok", "%s is false after a loop established b[i] == 0 for every i < %s", flag.Name(), n.String())
				} else if isC && s.Get("q:unk") == "" {
					return c16V("viol", "%s is false at the first device read after a loop that examined only b[0:%s] of the %s moved bytes: the last %d moved byte(s) are never looked at", flag.Name(), fl.substEq(X, s).String(), n.String(), -d)
				}
			}
		}
		if s.Get("q:unk") != "" || s.Get("q:scan") != "" {
			return c16V("undec", "%s is false at the first device read and the rule cannot establish that every moved byte was examined (%s%s)", flag.Name(), s.Get("q:unk"), s.Get("q:scan"))
		}
		if why := fl.flagFromCall(flag); why != "" {
			return c16V("undec", "%s is false at the first device read; it receives the result of %s, which the rule does not follow", flag.Name(), why)
		}
		return c16V("viol", "%s is false at the first device read although only b[0:%d] of the %s bytes moved from the leftover buffer were examined: when a later moved byte is non-zero (leftover normally starts with the frame's leading null) a started packet is taken for not started, its terminator at the start of the device bytes is skipped and the frame is lost", flag.Name(), m, n.String())
	}
	return c16V("undec", "the value of %s at the first device read is not followed", flag.Name())
}

// flagFromCall: the flag is assigned a value computed by a function call
// somewhere in the reader (the call is named); what the callee looked at is
// then not on the path.
func (fl *c16Flow) flagFromCall(flag types.Object) string {
	f := fl.rd.f
	info := f.Info()
	why := ""
	ast.Inspect(f.Body, func(n ast.Node) bool {
		as, ok := n.(*ast.AssignStmt)
		if !ok || why != "" {
			return why == ""
		}
		for i, l := range as.Lhs {
			if kit.ObjOf(info, l) != flag {
				continue
			}
			rhs := as.Rhs[0]
			if len(as.Lhs) == len(as.Rhs) {
				rhs = as.Rhs[i]
			}
			ast.Inspect(rhs, func(x ast.Node) bool {
				if call, ok := x.(*ast.CallExpr); ok && why == "" {
					if _, isB := kit.Callee(info, call).(*types.Builtin); !isB {
						why = "`" + f.Str(call) + "` at " + f.At(call)
					}
				}
				return why == ""
			})
		}
		return true
	})
	return why
}

// evalBoolAssign gives a bool local that receives a non-constant boolean
// expression its value per path (the expression is decided through the
// rule's atoms, forking where needed).
func (fl *c16Flow) evalBoolAssign(s kit.S, lhs ast.Expr, rhs ast.Expr) ([]kit.S, bool) {
	rd := fl.rd
	info := rd.f.Info()
	o, ok := kit.ObjOf(info, lhs).(*types.Var)
	if !ok || o.IsField() || rd.unsafe[o] {
		return nil, false
	}
	if b, ok := o.Type().Underlying().(*types.Basic); !ok || b.Kind() != types.Bool {
		return nil, false
	}
	if tv, ok := info.Types[rhs]; ok && tv.Value != nil {
		return nil, false // constants are Std's business
	}
	if o.Parent() == nil || o.Pkg() == nil || o.Parent() == o.Pkg().Scope() {
		return nil, false
	}
	known := fl.leafKnown(rhs, s)
	t, f := fl.st.Eval.Eval(rhs, s)
	var out []kit.S
	for _, x := range t {
		x = x.Set("v:"+kit.VarID(o), "true")
		if !known {
			x = x.Set("q:unk", "`"+rd.f.Str(rhs)+"` at "+rd.f.At(rhs))
		}
		out = append(out, x)
	}
	for _, x := range f {
		x = x.Set("v:"+kit.VarID(o), "false")
		if !known {
			x = x.Set("q:unk", "`"+rd.f.Str(rhs)+"` at "+rd.f.At(rhs))
		}
		out = append(out, x)
	}
	return out, true
}

// condHasVarIndexedTest: the condition contains a zero test of b at a
// non-constant index.
func (fl *c16Flow) condHasVarIndexedTest(e ast.Expr) bool {
	e = ast.Unparen(e)
	switch x := e.(type) {
	case *ast.UnaryExpr:
		if x.Op == token.NOT {
			return fl.condHasVarIndexedTest(x.X)
		}
	case *ast.BinaryExpr:
		if x.Op == token.LAND || x.Op == token.LOR {
			return fl.condHasVarIndexedTest(x.X) || fl.condHasVarIndexedTest(x.Y)
		}
	}
	id, _, ok := fl.atom(e)
	if !ok || !strings.HasPrefix(id, "z:b:") {
		return false
	}
	K, ok := fl.tab[strings.TrimPrefix(id, "z:b:")]
	if !ok {
		return true
	}
	_, isC := K.Const()
	return !isC
}

// intAtomsConsistent prunes paths on which an integer comparison contradicts
// the values the engine knows (e.g. `cur > 0` taken true while cur == 0).
func (fl *c16Flow) intAtomsConsistent(s kit.S) bool {
	for _, k := range s.Keys() {
		if !strings.HasPrefix(k, "a:c:") {
			continue
		}
		rest := strings.TrimPrefix(k, "a:c:")
		i := strings.Index(rest, ":")
		if i < 0 {
			continue
		}
		op, ok := c16OpToks[rest[:i]]
		d, ok2 := fl.tab[rest[i+1:]]
		if !ok || !ok2 {
			continue
		}
		c, isC := fl.substEq(d, s).Const()
		if !isC {
			continue
		}
		holds := false
		switch op {
		case token.LSS:
			holds = c < 0
		case token.LEQ:
			holds = c <= 0
		case token.GTR:
			holds = c > 0
		case token.GEQ:
			holds = c >= 0
		case token.EQL:
			holds = c == 0
		case token.NEQ:
			holds = c != 0
		}
		if holds != (s.Get(k) == "T") {
			return false
		}
	}
	return true
}

// countAtom recognises `bytes.Count(<b[0:k]>, D) != k` (== , <, also mirrored)
// where D is a []byte holding the single byte 0: "some byte of b[0:k] is not a
// delimiter".  Atom id "nz:<k>".
func (fl *c16Flow) countAtom(e ast.Expr) (string, bool, bool) {
	rd := fl.rd
	info := rd.f.Info()
	a, b, op, isCmp := kit.CmpAtom(e)
	if !isCmp {
		return "", false, false
	}
	call, ok := ast.Unparen(a).(*ast.CallExpr)
	if !ok || !kit.CallIs(info, call, "bytes.Count") {
		call, ok = ast.Unparen(b).(*ast.CallExpr)
		if !ok || !kit.CallIs(info, call, "bytes.Count") {
			return "", false, false
		}
		a, b = b, a
		switch op {
		case token.LSS:
			op = token.GTR
		case token.GTR:
			op = token.LSS
		case token.LEQ:
			op = token.GEQ
		case token.GEQ:
			op = token.LEQ
		}
	}
	if len(call.Args) != 2 || !fl.isView(call.Args[0]) || !c16IsZeroDelimiter(rd.f, call.Args[1]) {
		return "", false, false
	}
	lo, hi, ok := kit.SliceBounds(info, call.Args[0], rd.buf)
	if !ok {
		return "", false, false
	}
	if k, isC := lo.Const(); !isC || k != 0 {
		return "", false, false
	}
	other, ok := rd.aff(b)
	if !ok {
		return "", false, false
	}
	if d, isC := other.Sub(hi).Const(); !isC || d != 0 {
		return "", false, false
	}
	// count <= k always: `!=` and `<` mean "some byte is non-zero", `==` and `>=` the opposite
	switch op {
	case token.NEQ, token.LSS:
		return "nz:" + fl.intern(hi), false, true
	case token.EQL, token.GEQ:
		return "nz:" + fl.intern(hi), true, true
	}
	return "", false, false
}

// c16IsZeroDelimiter: e is []byte{0} or a package-level variable initialised
// with it that nothing in the package assigns.
func c16IsZeroDelimiter(f *kit.Func, e ast.Expr) bool {
	info := f.Info()
	isLit := func(x ast.Expr) bool {
		cl, ok := ast.Unparen(x).(*ast.CompositeLit)
		if !ok || len(cl.Elts) != 1 || !c16IsByteSlice(info.TypeOf(cl)) {
			return false
		}
		v, ok := kit.ConstInt(info, cl.Elts[0])
		return ok && v == 0
	}
	if isLit(e) {
		return true
	}
	o, ok := kit.ObjOf(info, e).(*types.Var)
	if !ok || o.Pkg() == nil || o.Parent() != o.Pkg().Scope() {
		return false
	}
	initOK := false
	for _, file := range f.Pkg.Syntax {
		for _, d := range file.Decls {
			gd, ok := d.(*ast.GenDecl)
			if !ok {
				continue
			}
			for _, sp := range gd.Specs {
				vs, ok := sp.(*ast.ValueSpec)
				if !ok {
					continue
				}
				for i, nm := range vs.Names {
					if info.Defs[nm] == o && i < len(vs.Values) && isLit(vs.Values[i]) {
						initOK = true
					}
				}
			}
		}
	}
	if !initOK {
		return false
	}
	// never assigned, element never written, address never taken
	for _, g := range f.Prog.Funcs(f.PkgRel()) {
		if g.Body == nil {
			continue
		}
		bad := false
		ast.Inspect(g.Body, func(n ast.Node) bool {
			switch x := n.(type) {
			case *ast.AssignStmt:
				for _, l := range x.Lhs {
					l = ast.Unparen(l)
					if ix, ok := l.(*ast.IndexExpr); ok {
						l = ast.Unparen(ix.X)
					}
					if kit.ObjOf(info, l) == o {
						bad = true
					}
				}
			case *ast.UnaryExpr:
				if x.Op == token.AND && kit.ObjOf(info, x.X) == o {
					bad = true
				}
			}
			return !bad
		})
		if bad {
			return false
		}
	}
	return true
}

// noteFlagEvidence: when a bool local has just become true on a path that
// holds a non-zero test of a leftover byte, remember that (the test itself is
// forgotten when the scan moves on).  Any other assignment clears the note.
func (fl *c16Flow) noteFlagEvidence(s kit.S, lhs ast.Expr) kit.S {
	info := fl.rd.f.Info()
	o, ok := kit.ObjOf(info, lhs).(*types.Var)
	if !ok || o.IsField() {
		return s
	}
	if b, ok := o.Type().Underlying().(*types.Basic); !ok || b.Kind() != types.Bool {
		return s
	}
	key := "q:nzev:" + kit.VarID(o)
	if s.Get("v:"+kit.VarID(o)) != "true" {
		return s.Del(key)
	}
	for _, k := range s.Keys() {
		if strings.HasPrefix(k, "a:z:l:") && s.Get(k) == "F" {
			return s.Set(key, "l")
		}
	}
	return s.Del(key)
}
