package props

import (
	"go/ast"
	"go/token"
	"go/types"
	"sort"
	"strings"

	"siotcheck/kit"
)

// C07/R7 — the listing keeps one entry per placement.
//
// The manager identifies a client by the key it stores it under; the fields of
// the listed element that key is built from (today Parent and ID) are derived
// from the key expression, not assumed.  Every function the listing passes
// through between the listing call and the start/found loop must keep
// elements that differ in one of those fields apart.  Decided exactly for
//
//   - the identity (every return hands the parameter back untouched), and
//   - the de-duplication shape: a range over the parameter that appends the
//     element to the returned slice iff a local map has no entry for a key
//     built (by concatenation / Sprintf) from fields of the element, and
//     records that key.  Such a function merges exactly the elements whose
//     key fields agree: it preserves placements iff its key fields include
//     all fields of the manager's key.
//
// Anything else (library functions, other filters) is undecided.

// c07Chain is the provenance of a listing expression inside one function.
type c07Chain struct {
	in       *kit.Func
	listCall *ast.CallExpr     // the call returning (listing, error)
	literal  *ast.CompositeLit // or: an explicit element list
	param    *types.Var        // or: a parameter of `in` (the listing is handed in by the callers)
	filters  []*ast.CallExpr   // single-argument calls the listing is passed through
	filterIn []*kit.Func
	undec    string
}

func c07IsElemSlice(t types.Type) bool {
	if t == nil {
		return false
	}
	sl, ok := t.Underlying().(*types.Slice)
	return ok && kit.IsNamedType(sl.Elem(), dataPkg, "NodeEdge") && !cmIsPointer(sl.Elem())
}

func c07ParamOf(f *kit.Func, o types.Object) *types.Var {
	for _, p := range f.Params() {
		if types.Object(p) == o {
			return p
		}
	}
	return nil
}

// c07FollowListing follows the listing expression e, as evaluated at position
// `before` of f, back to a listing call, an explicit element list or a
// parameter of f.
func c07FollowListing(f *kit.Func, e ast.Expr, before token.Pos) *c07Chain {
	info := f.Info()
	ch := &c07Chain{in: f}
	e = ast.Unparen(e)
	if lit, ok := e.(*ast.CompositeLit); ok && c07IsElemSlice(info.TypeOf(lit)) {
		ch.literal = lit
		return ch
	}
	if _, isID := e.(*ast.Ident); !isID {
		ch.undec = "`" + f.Str(e) + "` is not a listing variable"
		return ch
	}
	start := kit.ObjOf(info, e)
	if !cmIsLocal(start) {
		ch.undec = "`" + f.Str(e) + "` is not a local variable"
		return ch
	}
	seen := map[types.Object]bool{}
	var follow func(v types.Object)
	follow = func(v types.Object) {
		if seen[v] || ch.undec != "" {
			return
		}
		seen[v] = true
		nAssign := 0
		cmOwn(f.Body, func(n ast.Node) bool {
			as, ok := n.(*ast.AssignStmt)
			if !ok || as.Pos() >= before || ch.undec != "" {
				return true
			}
			idx := -1
			for i, l := range as.Lhs {
				if _, isID := ast.Unparen(l).(*ast.Ident); isID && kit.ObjOf(info, l) == v {
					idx = i
				}
			}
			if idx < 0 {
				return true
			}
			nAssign++
			// listing call: v, err := call(…)
			if len(as.Rhs) == 1 && len(as.Lhs) == 2 && idx == 0 {
				if call, ok := ast.Unparen(as.Rhs[0]).(*ast.CallExpr); ok && isErrorType(info.TypeOf(as.Lhs[1])) {
					if (ch.listCall != nil && ch.listCall != call) || ch.literal != nil {
						ch.undec = "`" + v.Name() + "` is produced in more than one way"
						return true
					}
					ch.listCall = call
					return true
				}
			}
			if len(as.Lhs) != len(as.Rhs) {
				ch.undec = "cannot follow the assignment `" + f.Str(as) + "`"
				return true
			}
			rhs := ast.Unparen(as.Rhs[idx])
			if lit, ok := rhs.(*ast.CompositeLit); ok && c07IsElemSlice(info.TypeOf(lit)) {
				if ch.listCall != nil || (ch.literal != nil && ch.literal != lit) {
					ch.undec = "`" + v.Name() + "` is produced in more than one way"
					return true
				}
				ch.literal = lit
				return true
			}
			// plain copy
			if _, isID := rhs.(*ast.Ident); isID {
				if w := kit.ObjOf(info, rhs); cmIsLocal(w) && c07IsElemSlice(w.Type()) {
					follow(w)
					return true
				}
			}
			call, ok := rhs.(*ast.CallExpr)
			if !ok {
				ch.undec = "cannot follow the assignment `" + f.Str(as) + "`"
				return true
			}
			if tv, isConv := info.Types[call.Fun]; isConv && tv.IsType() && len(call.Args) == 1 {
				if w := kit.ObjOf(info, call.Args[0]); cmIsLocal(w) {
					follow(w)
					return true
				}
			}
			// single-argument filter: exactly one argument, a listing variable
			if len(call.Args) != 1 {
				ch.undec = "`" + f.Str(as) + "` is not a single-argument function of the listing"
				return true
			}
			if _, isID := ast.Unparen(call.Args[0]).(*ast.Ident); !isID {
				ch.undec = "`" + f.Str(as) + "` is not applied to a listing variable"
				return true
			}
			w := kit.ObjOf(info, call.Args[0])
			if !cmIsLocal(w) || !c07IsElemSlice(w.Type()) {
				ch.undec = "`" + f.Str(as) + "` is not applied to a listing variable"
				return true
			}
			ch.filters = append(ch.filters, call)
			ch.filterIn = append(ch.filterIn, f)
			follow(w)
			return true
		})
		if p := c07ParamOf(f, v); p != nil {
			if ch.listCall != nil || ch.literal != nil {
				ch.undec = "parameter `" + v.Name() + "` is also assigned a listing"
				return
			}
			if ch.param != nil && ch.param != p {
				ch.undec = "the listing comes from more than one parameter"
				return
			}
			ch.param = p
			return
		}
		if nAssign == 0 && ch.undec == "" && ch.listCall == nil && ch.literal == nil {
			ch.undec = "`" + v.Name() + "` is not assigned from a listing call before its use"
		}
	}
	follow(start)
	if ch.undec == "" && ch.listCall == nil && ch.literal == nil && ch.param == nil {
		ch.undec = "cannot find the call that produces `" + f.Str(e) + "`"
	}
	return ch
}

// c07Act is one activation of the start function: the listing is produced in
// the function itself (caller == nil), or handed in by a caller together with
// constant arguments for other parameters.
type c07Act struct {
	caller *kit.Func
	call   *ast.CallExpr
	consts map[types.Object]string // boolean parameter -> "true" / "false"
	chain  *c07Chain               // ends in a listing call or an element list
	inner  *c07Chain               // the part inside the start function (filters applied there)
	label  string
}

func c07ConstsStr(a *c07Act) string {
	var ps []string
	for po, v := range a.consts {
		ps = append(ps, po.Name()+"="+v)
	}
	sort.Strings(ps)
	if len(ps) == 0 {
		return "no constant arguments"
	}
	return strings.Join(ps, ", ")
}

// c07Activations resolves where the listing ranged over by loop comes from.
func c07Activations(c *kit.Ctx, f *kit.Func, loop *ast.RangeStmt) ([]*c07Act, string) {
	inner := c07FollowListing(f, loop.X, loop.Pos())
	if inner.undec != "" {
		return nil, inner.undec
	}
	if inner.param == nil {
		return []*c07Act{{chain: inner, inner: inner, label: f.Name}}, ""
	}
	idx := -1
	for i, p := range f.Params() {
		if p == inner.param {
			idx = i
		}
	}
	var acts []*c07Act
	for _, cf := range c.P.Funcs(f.PkgRel()) {
		if cf.Body == nil {
			continue
		}
		for _, call := range cf.AllCalls(false) {
			if cf.CalleeFunc(call) != f || idx < 0 || idx >= len(call.Args) {
				continue
			}
			ch := c07FollowListing(cf, call.Args[idx], call.Pos())
			if ch.undec != "" {
				return nil, "in " + cf.Name + ": " + ch.undec
			}
			if ch.param != nil {
				return nil, "the listing is handed through more than one level of parameters (" + cf.Name + ")"
			}
			a := &c07Act{caller: cf, call: call, consts: map[types.Object]string{}, chain: ch, inner: inner, label: "from " + cf.Name}
			for i, p := range f.Params() {
				if i == idx || i >= len(call.Args) {
					continue
				}
				if tv, ok := cf.Info().Types[call.Args[i]]; ok && tv.Value != nil {
					if b, ok := p.Type().Underlying().(*types.Basic); ok && b.Info()&types.IsBoolean != 0 {
						a.consts[p] = tv.Value.String()
					}
				}
			}
			acts = append(acts, a)
		}
	}
	if len(acts) == 0 {
		return nil, "the listing is parameter `" + inner.param.Name() + "` of " + f.Name + ", which has no caller in the package"
	}
	// stable labels when one caller calls twice
	cnt := map[string]int{}
	for _, a := range acts {
		cnt[a.label]++
		if cnt[a.label] > 1 {
			a.label += "#" + string(rune('0'+cnt[a.label]%10))
		}
	}
	return acts, ""
}

// c07FieldsOf collects the fields of base that e is built from.  ok=false
// when e contains anything but concatenation, constants, Sprintf and string
// conversions of such fields.
func c07FieldsOf(info *types.Info, e ast.Expr, base types.Object, into map[string]bool) bool {
	e = ast.Unparen(e)
	if tv, ok := info.Types[e]; ok && tv.Value != nil {
		return true
	}
	switch x := e.(type) {
	case *ast.BinaryExpr:
		if x.Op != token.ADD {
			return false
		}
		return c07FieldsOf(info, x.X, base, into) && c07FieldsOf(info, x.Y, base, into)
	case *ast.SelectorExpr:
		fv, b := cmFieldOn(info, x)
		if fv == nil || b == nil || b != base {
			return false
		}
		into[fv.Name()] = true
		return true
	case *ast.CallExpr:
		if tv, ok := info.Types[x.Fun]; ok && tv.IsType() && len(x.Args) == 1 {
			return c07FieldsOf(info, x.Args[0], base, into)
		}
		if kit.CallIs(info, x, "fmt.Sprintf", "fmt.Sprint") {
			for _, a := range x.Args {
				if !c07FieldsOf(info, a, base, into) {
					return false
				}
			}
			return true
		}
	}
	return false
}

func c07FieldNames(m map[string]bool) string {
	var ns []string
	for k := range m {
		ns = append(ns, k)
	}
	sort.Strings(ns)
	return strings.Join(ns, "+")
}

// c07ManagerKeyFields derives the fields of the listed element the store key is built from.
func c07ManagerKeyFields(f *kit.Func, sto *cmStore) (map[string]bool, string) {
	info := f.Info()
	keyObj := kit.ObjOf(info, sto.key)
	if sto.loop == nil || sto.loop.Value == nil || !cmIsLocal(keyObj) {
		return nil, "store key or loop element is not a local variable"
	}
	elem := kit.ObjOf(info, sto.loop.Value)
	def := cmSingleDef(f, keyObj)
	if def == nil || elem == nil {
		return nil, "the store key is not assigned exactly once"
	}
	out := map[string]bool{}
	if c07FieldsOf(info, def, elem, out) && len(out) > 0 {
		return out, ""
	}
	call, ok := ast.Unparen(def).(*ast.CallExpr)
	if !ok || len(call.Args) != 1 || kit.ObjOf(info, call.Args[0]) != elem {
		return nil, "the store key `" + f.Str(def) + "` is not a function of the loop element alone"
	}
	cf := f.CalleeFunc(call)
	if cf == nil || cf.Body == nil || len(cf.Params()) != 1 {
		return nil, "the key function of `" + f.Str(def) + "` is not a one-parameter function of the module"
	}
	p := cf.Params()[0]
	out = map[string]bool{}
	nret := 0
	bad := false
	cmOwn(cf.Body, func(n ast.Node) bool {
		if ret, ok := n.(*ast.ReturnStmt); ok {
			nret++
			if len(ret.Results) != 1 || !c07FieldsOf(cf.Info(), ret.Results[0], p, out) {
				bad = true
			}
		}
		return true
	})
	if bad || nret == 0 || len(out) == 0 {
		return nil, "the key function " + cf.Name + " is not a concatenation of fields of its parameter"
	}
	return out, ""
}

// c07FilterVerdict classifies a single-argument function applied to the listing.
// It returns ("ok"|"violation"|"undecided", explanation).
func c07FilterVerdict(c *kit.Ctx, in *kit.Func, call *ast.CallExpr, need map[string]bool) (string, string) {
	g := in.CalleeFunc(call)
	name := in.Str(call.Fun)
	if g == nil || g.Body == nil || g.Decl == nil {
		return "undecided", "`" + name + "` is not a declared function of the analysed module; whether it keeps one entry per placement is not known"
	}
	info := g.Info()
	ps := g.Params()
	if len(ps) != 1 || !c07IsElemSlice(ps[0].Type()) {
		return "undecided", "`" + name + "` does not take exactly the listing"
	}
	p := ps[0]
	c.Analysed(g)
	// ---- identity
	identity := cmAssignCount(g, p) == 0
	nret := 0
	ast.Inspect(g.Body, func(n ast.Node) bool {
		switch x := n.(type) {
		case *ast.FuncLit:
			identity = false
		case *ast.ReturnStmt:
			nret++
			if len(x.Results) != 1 || kit.ObjOf(info, x.Results[0]) != types.Object(p) {
				identity = false
			} else if _, isID := ast.Unparen(x.Results[0]).(*ast.Ident); !isID {
				identity = false
			}
		case *ast.AssignStmt:
			for _, l := range x.Lhs {
				if ix, ok := ast.Unparen(l).(*ast.IndexExpr); ok && kit.ObjOf(info, ix.X) == types.Object(p) {
					identity = false
				}
			}
		case *ast.CallExpr:
			for _, a := range x.Args {
				if kit.ObjOf(info, a) == types.Object(p) && !cmIsBuiltin(info, x, "len") {
					identity = false
				}
			}
		}
		return true
	})
	if identity && nret > 0 {
		return "ok", name + " returns its argument unchanged"
	}
	// ---- de-duplication shape
	var loop *ast.RangeStmt
	nloops := 0
	cmOwn(g.Body, func(n ast.Node) bool {
		if rs, ok := n.(*ast.RangeStmt); ok && kit.ObjOf(info, rs.X) == types.Object(p) {
			loop = rs
			nloops++
		}
		return true
	})
	if nloops != 1 || loop.Value == nil {
		return "undecided", "`" + name + "` is neither the identity nor a single keyed de-duplication loop over its argument"
	}
	elem := kit.ObjOf(info, loop.Value)
	// result variable: the one every return hands back
	var ret types.Object
	retOK := true
	cmOwn(g.Body, func(n ast.Node) bool {
		if rs, ok := n.(*ast.ReturnStmt); ok {
			if len(rs.Results) != 1 {
				retOK = false
				return true
			}
			o := kit.ObjOf(info, rs.Results[0])
			if _, isID := ast.Unparen(rs.Results[0]).(*ast.Ident); !isID || o == nil || (ret != nil && ret != o) {
				retOK = false
				return true
			}
			ret = o
		}
		return true
	})
	if !retOK || ret == nil || !cmIsLocal(ret) || ret == types.Object(p) {
		return "undecided", "`" + name + "`: cannot identify the slice it returns"
	}
	// the keyed map and its key expression
	keyExprOf := func(e ast.Expr) ast.Expr {
		if _, isID := ast.Unparen(e).(*ast.Ident); isID {
			if o := kit.ObjOf(info, e); cmIsLocal(o) {
				if d := cmSingleDef(g, o); d != nil && cmWithin(d, loop.Body) {
					return d
				}
			}
		}
		return e
	}
	var seenMap types.Object
	var keyExpr ast.Expr
	okVars := map[types.Object]bool{}
	lookups := map[ast.Node]bool{}
	shapeBad := ""
	isSeenIx := func(e ast.Expr) (*ast.IndexExpr, bool) {
		ix, ok := ast.Unparen(e).(*ast.IndexExpr)
		if !ok {
			return nil, false
		}
		mo := kit.ObjOf(info, ix.X)
		if !cmIsLocal(mo) {
			return nil, false
		}
		if _, isMap := mo.Type().Underlying().(*types.Map); !isMap {
			return nil, false
		}
		return ix, true
	}
	noteKey := func(ix *ast.IndexExpr) {
		mo := kit.ObjOf(info, ix.X)
		if seenMap != nil && seenMap != mo {
			shapeBad = "more than one map is consulted"
			return
		}
		seenMap = mo
		k := keyExprOf(ix.Index)
		if keyExpr != nil && !kit.SameExpr(info, keyExpr, k) {
			shapeBad = "the map is consulted and filled with different keys"
			return
		}
		keyExpr = k
	}
	cmOwn(loop.Body, func(n ast.Node) bool {
		if as, ok := n.(*ast.AssignStmt); ok && len(as.Rhs) == 1 && len(as.Lhs) == 2 {
			if ix, ok := isSeenIx(as.Rhs[0]); ok {
				noteKey(ix)
				if ov := kit.ObjOf(info, as.Lhs[1]); ov != nil && cmAssignCount(g, ov) == 1 {
					okVars[ov] = true
					lookups[as] = true
				}
			}
		}
		return true
	})
	if seenMap == nil {
		// value form: if seen[key] { … }
		cmOwn(loop.Body, func(n ast.Node) bool {
			if ifs, ok := n.(*ast.IfStmt); ok {
				ast.Inspect(ifs.Cond, func(x ast.Node) bool {
					if e, ok := x.(ast.Expr); ok {
						if ix, ok := isSeenIx(e); ok {
							noteKey(ix)
						}
					}
					return true
				})
			}
			return true
		})
	}
	if seenMap == nil || keyExpr == nil || shapeBad != "" {
		return "undecided", "`" + name + "` ranges over the listing but is not a keyed de-duplication the checker understands" + map[bool]string{true: " (" + shapeBad + ")", false: ""}[shapeBad != ""]
	}
	st := &kit.Std{F: g}
	unknown := ""
	st.Eval.OnUnknown = func(e ast.Expr) {
		if cmWithin(e, loop.Body) {
			unknown = g.Str(e)
		}
	}
	st.Eval.Atom = func(e ast.Expr) (string, bool, bool) {
		e = ast.Unparen(e)
		if id, ok := e.(*ast.Ident); ok && okVars[kit.ObjOf(info, id)] {
			return "seen", false, true
		}
		if ix, ok := isSeenIx(e); ok && kit.ObjOf(info, ix.X) == seenMap && kit.SameExpr(info, keyExprOf(ix.Index), keyExpr) {
			if b, ok := info.TypeOf(e).Underlying().(*types.Basic); ok && b.Info()&types.IsBoolean != 0 {
				return "seen", false, true
			}
		}
		return "", false, false
	}
	st.OnNode = func(n ast.Node, s kit.S) []kit.S {
		if lookups[n] {
			s = s.Del("a:seen")
		}
		as, ok := n.(*ast.AssignStmt)
		if !ok || !s.Has("it") {
			return []kit.S{s}
		}
		for i, l := range as.Lhs {
			if ix, ok := isSeenIx(l); ok && kit.ObjOf(info, ix.X) == seenMap && kit.SameExpr(info, keyExprOf(ix.Index), keyExpr) {
				s = s.Set("rec", "1")
			}
			if kit.ObjOf(info, l) == ret && len(as.Lhs) == len(as.Rhs) {
				if call, ok := ast.Unparen(as.Rhs[i]).(*ast.CallExpr); ok && cmIsBuiltin(info, call, "append") && len(call.Args) == 2 &&
					kit.ObjOf(info, call.Args[0]) == ret && kit.ObjOf(info, call.Args[1]) == elem && call.Ellipsis == token.NoPos {
					s = s.Set("app", "1")
				} else {
					shapeBad = "the returned slice is also assigned `" + g.Str(as.Rhs[i]) + "`"
				}
			}
		}
		return []kit.S{s}
	}
	st.OnBranch = func(br kit.Branch, s kit.S) (t, fl []kit.S, handled bool) {
		if br.Kind != kit.BrRange || br.Range != loop {
			return nil, nil, false
		}
		if s.Has("it") && shapeBad == "" {
			switch s.Get("a:seen") {
			case "T":
				if s.Get("app") == "1" {
					shapeBad = "an element whose key is already recorded is still appended"
				}
			case "F":
				if s.Get("app") != "1" || s.Get("rec") != "1" {
					shapeBad = "an element with a new key is not always appended and recorded"
				}
			default:
				shapeBad = "an iteration does not consult the map"
			}
		}
		s = s.Del("a:seen").Del("app").Del("rec")
		return []kit.S{s.Set("it", "1")}, []kit.S{s.Del("it")}, true
	}
	res := c.P.Graph(g).Run(kit.NewS(), st.Client())
	switch {
	case res.Overflow:
		return "undecided", "`" + name + "`: state overflow"
	case shapeBad != "":
		return "undecided", "`" + name + "` is not a plain keyed de-duplication: " + shapeBad
	case unknown != "":
		return "undecided", "`" + name + "` filters on a condition the checker does not understand: " + unknown
	}
	have := map[string]bool{}
	if !c07FieldsOf(info, keyExpr, elem, have) || len(have) == 0 {
		return "undecided", "`" + name + "` de-duplicates on `" + g.Str(keyExpr) + "`, which is not a concatenation of fields of the element"
	}
	var missing []string
	for k := range need {
		if !have[k] {
			missing = append(missing, k)
		}
	}
	sort.Strings(missing)
	if len(missing) > 0 {
		return "violation", "`" + name + "` keeps one element per " + c07FieldNames(have) + " (key `" + g.Str(keyExpr) + "`), but the manager identifies a client by " + c07FieldNames(need) +
			": listed nodes that differ only in " + strings.Join(missing, ", ") + " are merged, so a node that appears under two parents keeps only the placement listed first and its other placements never get a client"
	}
	return "ok", name + " de-duplicates on " + c07FieldNames(have) + " ⊇ " + c07FieldNames(need)
}

func c07R7(c *kit.Ctx, m *cmModel, r *kit.Rule) {
	seenF := map[*kit.Func]bool{}
	for _, sto := range m.stores {
		sto = cmLiftStore(c, sto) // the caller's loop when the insertion lives in a helper
		f := sto.f
		if seenF[f] || sto.loop == nil {
			continue
		}
		seenF[f] = true
		need, why := c07ManagerKeyFields(f, sto)
		acts, undec := c07Activations(c, f, sto.loop)
		if need == nil || undec != "" {
			r.Ob(f, sto.loop, "listing reaches the start loop", "every function applied to the listing before the start/found loop keeps one entry per placement (fields of the manager's key)").
				Undecided("%s", c07Nz(why, undec))
			continue
		}
		doneFilter := map[*ast.CallExpr]bool{}
		doneHelper := map[*kit.Func]bool{}
		for _, act := range acts {
			construct := "listing reaches the start loop"
			site := ast.Node(sto.loop)
			if act.caller != nil {
				construct += " " + act.label
			}
			o := r.Ob(f, site, construct, "every function applied to the listing before the start/found loop keeps one entry per placement (fields of the manager's key)")
			var filters []*ast.CallExpr
			var filterIn []*kit.Func
			filters = append(filters, act.chain.filters...)
			filterIn = append(filterIn, act.chain.filterIn...)
			if act.inner != act.chain {
				filters = append(filters, act.inner.filters...)
				filterIn = append(filterIn, act.inner.filterIn...)
			}
			src := "an explicit element list"
			if act.chain.listCall != nil {
				src = "`" + act.chain.in.Str(act.chain.listCall.Fun) + "`"
			}
			o.OK("listing from %s, %d intermediate function(s) checked separately; manager key fields: %s", src, len(filters), c07FieldNames(need))
			for i, call := range filters {
				if !doneFilter[call] {
					doneFilter[call] = true
					c07FilterOb(c, r, filterIn[i], call, need)
				}
			}
			// the listing helper itself: single-argument functions applied to element slices inside it
			if act.chain.listCall == nil {
				continue
			}
			hf := act.chain.in.CalleeFunc(act.chain.listCall)
			if hf != nil && doneHelper[hf] {
				continue
			}
			oh := r.Ob(act.chain.in, act.chain.listCall, "listing helper", "functions the helper applies to the collected listing keep one entry per placement")
			if hf == nil || hf.Body == nil {
				oh.OK("the listing call is not a function of the analysed module (bus request)")
				continue
			}
			doneHelper[hf] = true
			c.Analysed(hf)
			n := 0
			hinfo := hf.Info()
			cmOwn(hf.Body, func(x ast.Node) bool {
				call, ok := x.(*ast.CallExpr)
				if !ok || len(call.Args) != 1 || !c07IsElemSlice(hinfo.TypeOf(call.Args[0])) || !c07IsElemSlice(hinfo.TypeOf(call)) {
					return true
				}
				if cmIsBuiltin(hinfo, call, "append") || cmIsBuiltin(hinfo, call, "len") {
					return true
				}
				if tv, isConv := hinfo.Types[call.Fun]; isConv && tv.IsType() {
					return true
				}
				n++
				c07FilterOb(c, r, hf, call, need)
				return true
			})
			oh.OK("%s: %d function(s) applied to the listing", hf.Name, n)
		}
	}
}

// ---------------------------------------------------------------------------
// R8 — the node a client state is constructed from was fetched in the same activation.

// c07Fresh traces the node expression e of function f (evaluated at `before`)
// to its origin: "ok" (element of a listing fetched by a call of this
// activation), "violation" (a value that survives across activations: the
// node kept in a client state, a field of the manager, a package variable),
// or "undecided".
func c07Fresh(m *cmModel, f *kit.Func, e ast.Expr, before token.Pos, depth int) (string, string) {
	info := f.Info()
	e = ast.Unparen(e)
	if depth > 6 {
		return "undecided", "provenance of `" + f.Str(e) + "` is too deep to trace"
	}
	fromSlice := func(x ast.Expr) (string, string) {
		ch := c07FollowListing(f, x, before)
		switch {
		case ch.undec != "":
			return "undecided", ch.undec
		case ch.listCall != nil:
			return "ok", "element of the result of `" + f.Str(ch.listCall.Fun) + "` fetched in " + f.Name
		case ch.literal != nil:
			for _, el := range ch.literal.Elts {
				if v, why := c07Fresh(m, f, el, ch.literal.Pos(), depth+1); v != "ok" {
					return v, why
				}
			}
			return "ok", "explicit list of freshly fetched nodes"
		}
		return "undecided", "`" + f.Str(x) + "` is a parameter of " + f.Name
	}
	switch x := e.(type) {
	case *ast.IndexExpr:
		if c07IsElemSlice(info.TypeOf(x.X)) {
			return fromSlice(x.X)
		}
	case *ast.SelectorExpr:
		if fv := cmField(info, x); fv != nil {
			rootT := cmNamedOrigin(info.TypeOf(x.X))
			switch {
			case fv == m.csNode:
				return "violation", "`" + f.Str(x) + "` is the node kept in an existing client state: it holds the points and edge points of the moment that client was constructed"
			case rootT != nil && (rootT == m.mgr || rootT == m.cs):
				return "violation", "`" + f.Str(x) + "` is a field of " + rootT.Obj().Name() + " and survives across activations"
			}
			return "undecided", "cannot tell where `" + f.Str(x) + "` was fetched"
		}
	case *ast.Ident:
		o := kit.ObjOf(info, x)
		if v, ok := o.(*types.Var); ok && !cmIsLocal(o) && !v.IsField() {
			return "violation", "`" + x.Name + "` is a package variable and survives across activations"
		}
		if !cmIsLocal(o) {
			break
		}
		// range element of a listing
		var rng *ast.RangeStmt
		cmOwn(f.Body, func(n ast.Node) bool {
			if rs, ok := n.(*ast.RangeStmt); ok && rs.Value != nil && kit.ObjOf(info, rs.Value) == o {
				rng = rs
			}
			return true
		})
		if rng != nil && cmAssignCount(f, o) == 1 {
			return fromSlice(rng.X)
		}
		if p := c07ParamOf(f, o); p != nil {
			return "undecided", "`" + x.Name + "` is a parameter of " + f.Name
		}
		if def := cmSingleDef(f, o); def != nil {
			return c07Fresh(m, f, def, def.Pos(), depth+1)
		}
	}
	return "undecided", "cannot trace `" + f.Str(e) + "` to a fetch of this activation"
}

func c07R8(c *kit.Ctx, m *cmModel, r *kit.Rule) {
	for _, f := range c.P.Funcs("client") {
		if f.Body == nil {
			continue
		}
		info := f.Info()
		for _, call := range f.AllCalls(false) {
			cf := f.CalleeFunc(call)
			isCtor := false
			for _, x := range m.ctors {
				if x == cf && cf != nil {
					isCtor = true
				}
			}
			if !isCtor {
				continue
			}
			var arg ast.Expr
			for _, a := range call.Args {
				if t := info.TypeOf(a); t != nil && kit.IsNamedType(t, dataPkg, "NodeEdge") && !cmIsPointer(t) {
					arg = a
				}
			}
			if arg == nil {
				r.Ob(f, call, "node handed to "+cf.Name, "fetched in the same activation").Undecided("the constructor call has no data.NodeEdge argument")
				continue
			}
			// is the argument the element of a loop over a listing that the callers hand in?
			var loop *ast.RangeStmt
			if _, isID := ast.Unparen(arg).(*ast.Ident); isID {
				ao := kit.ObjOf(info, arg)
				cmOwn(f.Body, func(n ast.Node) bool {
					if rs, ok := n.(*ast.RangeStmt); ok && rs.Value != nil && kit.ObjOf(info, rs.Value) == ao && cmWithin(call, rs.Body) {
						loop = rs
					}
					return true
				})
			}
			if loop != nil {
				acts, undec := c07Activations(c, f, loop)
				if undec != "" {
					r.Ob(f, call, "node handed to "+cf.Name, "fetched in the same activation").Undecided("%s", undec)
					continue
				}
				for _, act := range acts {
					construct := "node handed to " + cf.Name
					if act.caller != nil {
						construct += " " + act.label
					}
					o := r.Ob(f, call, construct, "an element of a listing fetched by a call of the same scan/restart activation, never a value kept from an earlier one")
					v, why := "ok", ""
					switch {
					case act.chain.listCall != nil:
						why = "element of the result of `" + act.chain.in.Str(act.chain.listCall.Fun) + "` fetched in " + act.chain.in.Name
					case act.chain.literal != nil:
						why = "explicit list of freshly fetched nodes in " + act.chain.in.Name
						for _, el := range act.chain.literal.Elts {
							if v2, w2 := c07Fresh(m, act.chain.in, el, act.chain.literal.Pos(), 0); v2 != "ok" {
								v, why = v2, w2
								break
							}
						}
					default:
						v, why = "undecided", "listing provenance not resolved"
					}
					c07FreshOb(o, v, why, act)
				}
				continue
			}
			o := r.Ob(f, call, "node handed to "+cf.Name, "an element of a listing fetched by a call of the same scan/restart activation, never a value kept from an earlier one")
			v, why := c07Fresh(m, f, arg, call.Pos(), 0)
			c07FreshOb(o, v, why, nil)
		}
	}
}

func c07FreshOb(o *kit.Ob, v, why string, act *c07Act) {
	switch v {
	case "ok":
		o.OK("%s", why)
	case "violation":
		where := ""
		if act != nil && act.caller != nil {
			where = " (handed in by " + act.caller.Name + ")"
		}
		o.Violation("the client is constructed from a stale node%s: %s; every point change made while the previous client ran is rolled back in the restarted client's configuration", where, why)
	default:
		o.Undecided("%s", why)
	}
}

func c07FilterOb(c *kit.Ctx, r *kit.Rule, in *kit.Func, call *ast.CallExpr, need map[string]bool) {
	o := r.Ob(in, call, "listing passed through "+in.Str(call.Fun), "keeps elements that differ in "+c07FieldNames(need)+" apart")
	v, why := c07FilterVerdict(c, in, call, need)
	switch v {
	case "ok":
		o.OK("%s", why)
	case "violation":
		o.Violation("%s", why)
	default:
		o.Undecided("%s", why)
	}
}
