//go:build wip_c18

package props

import (
	"fmt"
	"os"
	"time"

	"siotcheck/kit"
)

func init() {
	kit.Register(&kit.Prop{ID: "C18DBW", Title: "dbg", Run: func(c *kit.Ctx) {
		c.Rule("R2", "bounds", 0)
		for _, f := range c.P.Funcs("modbus") {
			if f.Body == nil || f.Decl == nil {
				continue
			}
			if only := os.Getenv("DBG_FUNC"); only != "" && f.Name != only {
				continue
			}
			t0 := time.Now()
			ws, st := kit.FindCrashes(c.P, f, 0, nil)
			fmt.Printf("%-40s runs=%d steps=%d exhausted=%v crashes=%d %.2fs\n", f.Name, st.Runs, st.Steps, st.Exhausted, len(ws), time.Since(t0).Seconds())
			for n, w := range ws {
				fmt.Printf("   CRASH %s %s: %s [%s]\n", f.At(n), f.Str(n), w.Msg, w.Inputs)
			}
		}
	}})
}
