package props

import (
	"fmt"
	"go/ast"
	"go/constant"
	"go/token"
	"go/types"
	"strings"

	"siotcheck/kit"
)

func init() {
	kit.Register(&kit.Prop{
		ID:    "C08",
		Title: "A client is told of every foreign change to its subtree, never its own",
		Explanation: "Structural necessary conditions of the per-client subscription handler of the manager (DESIGN.md §3/C08), anchored at the function literal that calls the client interface's Points method: " +
			"R1 the echo filter is enumerated (K4) over the 6 consistent valuations of A=(origin==\"\"), B=(subject node id==own node id), C=(origin==own node id) for uniform batches of one and two points on a three-token subject: " +
			"the batch is dropped iff (A∧B)∨C and otherwise delivered exactly once through Points(subject token 2, the decoded slice unchanged) to the client of the state whose node id the filter compares with; " +
			"R2 on a four-token subject a batch of ordinary edge points from a foreign author is delivered exactly once through EdgePoints(token 2, token 3, the decoded slice), a tombstone (value 0 or 1) or node-type point reaches the client state's stop on every path, and no subject token beyond the arity established on the path is indexed for subjects of 3, 4 or 5 tokens; " +
			"R3 the handler is subscribed on \"up.<own node id>.>\"; " +
			"R4 the node every client-state constructor call is handed is traced (through locals, range clauses, append, the returns of called functions and from parameters to the arguments of all call sites) to calls that are handed the bus connection and return nodes, i.e. it is read from the store by the activation that starts the client: a node kept in a client state, a field of the manager or a package variable lacks the foreign points delivered to the previous client of the node, which are not delivered again; " +
			"R5 the storage behind the slice handed to Points / EdgePoints is traced (into the decoder) to allocations made while the message is handled (make, literal, append onto nil): storage reachable from a variable the handler literal captures, a field or a package variable is decoded into again by the next message while the client still holds the previous batch. " +
			"Delivery order, mixed-author batches, the rebroadcast that feeds the subject (C06) and the folding of points into the configuration (C10/C11) are not decided.",
		Assumptions: []string{
			"NATS delivers the messages published on up.<id>.… to the subscription in publication order; a subject matching up.<id>.> has at least three tokens",
			"the store publishes up.<ancestor>.<node>[.<parent>] (C06/R4), so token 2 is the node the points belong to and token 3 the parent of the edge",
			"node ids are non-empty, hence origin==\"\" and origin==own id exclude each other",
			"each batch carries one author (uniform origin); batches of one and two points are enumerated",
			"the client field of a constructed client state is non-nil",
			"a function that is handed the *nats.Conn and returns data.NodeEdge values reads them from the store (R4); the window between that read and the subscription is not judged",
			"clients keep the slice they are handed after Points / EdgePoints returns (every client of package client passes it to its Run goroutine through a channel) (R5)",
		},
		Run: runC08,
	})
}

type c08Handler struct {
	f       *kit.Func // the literal
	info    *types.Info
	msg     *types.Var
	points  types.Object
	decode  *ast.CallExpr
	chunks  types.Object
	csObj   types.Object
	elems   map[types.Object]bool // range value variables over points
	ptsCall *ast.CallExpr
	edgCall *ast.CallExpr
}

func runC08(c *kit.Ctx) {
	m := newCmModel(c)
	r1 := c.Rule("R1", "echo-filter truth table", 8)
	r2 := c.Rule("R2", "edge points pass through, restart points stop the client", 6)
	r3 := c.Rule("R3", "subscription subject", 1)
	r4 := c.Rule("R4", "a client is started from a node read by the activation that starts it", 1)
	r5 := c.Rule("R5", "the batch handed to the client is not backed by storage the handler reuses", 2)
	c08R4(c, m, r4)
	n := 0
	for _, f := range c.P.Funcs("client") {
		if f.Body == nil || msgParam(f) == nil {
			continue
		}
		var pts *ast.CallExpr
		for _, call := range f.AllCalls(false) {
			if _, ok := m.ifaceCall(f.Info(), call, "Points"); ok {
				pts = call
			}
		}
		if pts == nil {
			continue
		}
		n++
		c.Analysed(f)
		h := c08Anchor(c, m, f, pts)
		c08R1(c, m, r1, h)
		c08R2(c, m, r2, h)
		c08R3(c, m, r3, h)
		c08R5(c, m, r5, h)
	}
	if n == 0 {
		c.Fatalf("no message handler of package client calls the client interface's Points method")
	}
}

func c08Anchor(c *kit.Ctx, m *cmModel, f *kit.Func, pts *ast.CallExpr) *c08Handler {
	info := f.Info()
	h := &c08Handler{f: f, info: info, ptsCall: pts, elems: map[types.Object]bool{}}
	h.msg = msgParam(f)
	if h.msg == nil {
		c.Fatalf("C08: %s calls Points but has no *nats.Msg parameter", f.Name)
	}
	rx, _ := m.ifaceCall(info, pts, "Points")
	fv, base := cmFieldOn(info, rx)
	if fv != m.csClient || base == nil {
		c.Fatalf("C08: receiver `%s` of the Points call is not the client field of a client-state variable", f.Str(rx))
	}
	h.csObj = base
	for _, call := range f.AllCalls(false) {
		if x, ok := m.ifaceCall(info, call, "EdgePoints"); ok {
			if fv2, b2 := cmFieldOn(info, x); fv2 == m.csClient && b2 == base {
				h.edgCall = call
			}
		}
	}
	cmOwn(f.Body, func(n ast.Node) bool {
		as, ok := n.(*ast.AssignStmt)
		if !ok || len(as.Rhs) != 1 {
			return true
		}
		call, ok := ast.Unparen(as.Rhs[0]).(*ast.CallExpr)
		if !ok {
			return true
		}
		switch {
		case kit.CallIs(info, call, "strings.Split") && len(call.Args) == 2 && isMsgField(f, call.Args[0], h.msg, "Subject") && len(as.Lhs) == 1:
			if s, ok := kit.ConstString(info, call.Args[1]); ok && s == "." {
				h.chunks = kit.ObjOf(info, as.Lhs[0])
			}
		case c08TakesPayload(f, call, h.msg) && len(as.Lhs) == 2:
			if t := info.TypeOf(as.Lhs[0]); t != nil {
				if sl, ok := t.Underlying().(*types.Slice); ok && kit.IsNamedType(sl.Elem(), dataPkg, "Point") {
					h.points = kit.ObjOf(info, as.Lhs[0])
					h.decode = call
				}
			}
		}
		return true
	})
	if h.chunks == nil || h.points == nil {
		c.Fatalf("C08: %s: subject split (%v) or point decode (%v) not found", f.Name, h.chunks != nil, h.points != nil)
	}
	cmOwn(f.Body, func(n ast.Node) bool {
		if rs, ok := n.(*ast.RangeStmt); ok && rs.Value != nil && kit.ObjOf(info, rs.X) == h.points {
			if v := kit.ObjOf(info, rs.Value); v != nil {
				h.elems[v] = true
			}
		}
		return true
	})
	return h
}

// c08TakesPayload: one of the arguments of the call is the message's payload
// (`PbDecodePoints(msg.Data)`, a decoder that is also handed a buffer, …).
func c08TakesPayload(f *kit.Func, call *ast.CallExpr, msg *types.Var) bool {
	for _, a := range call.Args {
		if isMsgField(f, a, msg, "Data") {
			return true
		}
	}
	return false
}

// isOwnID: `<cs>.<node field>.ID` (cs = given client-state variable).
func (m *cmModel) isOwnID(info *types.Info, e ast.Expr, cs types.Object) bool {
	sel, ok := ast.Unparen(e).(*ast.SelectorExpr)
	if !ok || sel.Sel.Name != "ID" {
		return false
	}
	if fv := cmField(info, sel); fv == nil || fv.Name() != "ID" {
		return false
	}
	nf, base := cmFieldOn(info, sel.X)
	return nf == m.csNode && base != nil && base == cs
}

func (h *c08Handler) elemField(e ast.Expr, name string) bool {
	sel, ok := ast.Unparen(e).(*ast.SelectorExpr)
	if !ok || sel.Sel.Name != name {
		return false
	}
	if _, isID := ast.Unparen(sel.X).(*ast.Ident); !isID {
		return false
	}
	return h.elems[kit.ObjOf(h.info, sel.X)] && cmField(h.info, sel) != nil
}

// defFunc returns the innermost function of package client whose source range holds o's declaration.
func (h *c08Handler) defFunc(c *kit.Ctx, o types.Object) *kit.Func {
	if o == nil {
		return nil
	}
	var best *kit.Func
	for _, f := range c.P.Funcs("client") {
		if f.Body == nil {
			continue
		}
		n := f.Node()
		if n.Pos() <= o.Pos() && o.Pos() < n.End() {
			if best == nil || (best.Node().Pos() <= n.Pos() && n.End() <= best.Node().End()) {
				best = f
			}
		}
	}
	return best
}

// ctorArgRole classifies `v.ID` for a variable v captured by the handler: if v
// is the node handed to the constructor of the handler's client state it is the
// client's own node ("own") as long as v belongs to the iteration that built
// the client; a loop variable shared by all iterations holds another node by
// the time the handler runs ("other").  "" = unknown.
func (h *c08Handler) ctorArgRole(c *kit.Ctx, m *cmModel, v types.Object) string {
	root := h.f.Root()
	info := root.Info()
	if !cmIsLocal(v) || !kit.IsNamedType(v.Type(), dataPkg, "NodeEdge") {
		return ""
	}
	if n := h.f.Node(); n.Pos() <= v.Pos() && v.Pos() < n.End() {
		return "" // declared inside the handler
	}
	isArg := false
	var at *ast.CallExpr
	cmOwn(root.Body, func(n ast.Node) bool {
		as, ok := n.(*ast.AssignStmt)
		if !ok || len(as.Rhs) != 1 || len(as.Lhs) != 2 || kit.ObjOf(info, as.Lhs[0]) != h.csObj {
			return true
		}
		call, ok := ast.Unparen(as.Rhs[0]).(*ast.CallExpr)
		if !ok {
			return true
		}
		cf := root.CalleeFunc(call)
		for _, x := range m.ctors {
			if x == cf && cf != nil {
				for _, a := range call.Args {
					if _, isID := ast.Unparen(a).(*ast.Ident); isID && kit.ObjOf(info, a) == v {
						isArg, at = true, call
					}
				}
			}
		}
		return true
	})
	if !isArg {
		return ""
	}
	loop := cmEnclosingRange(root, at)
	switch {
	case loop == nil:
		if cmAssignCount(root, v) == 1 {
			return "own"
		}
		return ""
	case loop.Body.Pos() <= v.Pos() && v.Pos() < loop.Body.End() && cmAssignCount(root, v) == 1:
		return "own"
	case loop.Pos() <= v.Pos() && v.Pos() < loop.End() && cmPerIterationLoopVars(root):
		return "own"
	case loop.Pos() <= v.Pos() && v.Pos() < loop.End():
		return "other"
	}
	return ""
}

// c08BusHelper: a function that talks to the bus (takes a *nats.Conn); it can
// neither deliver to nor stop the handler's client and is not evaluated inline.
func c08BusHelper(cf *kit.Func) bool {
	for _, p := range cf.Params() {
		if kit.IsNamedType(p.Type(), natsPkg, "Conn") {
			return true
		}
	}
	return false
}

func (h *c08Handler) token(e ast.Expr) (int, bool) {
	return chunkIndexOf(h.f, e, h.chunks)
}

func (h *c08Handler) related(e ast.Expr) bool {
	rel := false
	ast.Inspect(e, func(n ast.Node) bool {
		if id, ok := n.(*ast.Ident); ok {
			o := kit.ObjOf(h.info, id)
			if o != nil && (h.elems[o] || o == h.points || o == h.chunks || o == h.csObj || o == types.Object(h.msg)) {
				rel = true
			}
		}
		return true
	})
	return rel
}

// c08Scn is one scenario: a uniform batch on a subject of nChunks tokens.
type c08Scn struct {
	nChunks int
	a, b, c bool
	kind    string // "ordinary", "tomb1", "tomb0", "ntype"
	n       int    // points in the batch
}

func (s c08Scn) drop() bool { return (s.a && s.b) || s.c }

func (s c08Scn) String() string {
	t := func(b bool) string {
		if b {
			return "T"
		}
		return "F"
	}
	return fmt.Sprintf("A=%s B=%s C=%s, %d %s point(s), %d-token subject", t(s.a), t(s.b), t(s.c), s.n, s.kind, s.nChunks)
}

type c08Out struct {
	exits      int
	points     map[string]bool // delivery counts over return exits: "", "1", "2+"
	edge       map[string]bool
	stopped    map[string]bool // "1" / ""
	unkRel     []string
	unkOther   []string
	opaque     []string // calls on the judged paths that could deliver / stop but were not evaluated
	shared     string   // explanation when the filter compares with a shared loop variable
	oob        string
	overflow   bool
	sampleExit map[string]kit.Exit
	res        *kit.Result
}

func c08Run(c *kit.Ctx, m *cmModel, h *c08Handler, sc c08Scn, tomb, ntype string) *c08Out {
	f, info := h.f, h.info
	out := &c08Out{points: map[string]bool{}, edge: map[string]bool{}, stopped: map[string]bool{}, sampleExit: map[string]kit.Exit{}}
	ptype := "\x00ordinary"
	var pval *float64
	switch sc.kind {
	case "tomb1":
		ptype = tomb
		v := 1.0
		pval = &v
	case "tomb0":
		ptype = tomb
		v := 0.0
		pval = &v
	case "ntype":
		ptype = ntype
	}
	st := &kit.Std{F: f}
	// norm resolves parameters of inlined helpers to the caller's arguments and
	// single-assignment locals to their definition (`nodeID := chunks[2]`,
	// `clientID := cs.node.ID`, `origin := points[i].Origin`).
	var norm func(e ast.Expr, depth int) ast.Expr
	norm = func(e ast.Expr, depth int) ast.Expr {
		e = ast.Unparen(st.Resolve(ast.Unparen(e)))
		id, ok := e.(*ast.Ident)
		if !ok || depth > 6 {
			return e
		}
		o := kit.ObjOf(info, id)
		if o == nil || !cmIsLocal(o) || o == h.points || o == h.chunks || o == h.csObj || o == types.Object(h.msg) {
			return e
		}
		df := h.defFunc(c, o)
		if df == nil || c07ParamOf(df, o) != nil {
			return e
		}
		def := cmSingleDef(df.Root(), o)
		if def == nil {
			return e
		}
		switch ast.Unparen(def).(type) {
		case *ast.Ident, *ast.SelectorExpr, *ast.IndexExpr:
			return norm(def, depth+1)
		}
		return e
	}
	normObj := func(e ast.Expr) types.Object {
		x := norm(e, 0)
		if _, isID := x.(*ast.Ident); !isID {
			return nil
		}
		return kit.ObjOf(info, x)
	}
	// isElem: an element of the decoded batch (range value over it, or points[i])
	isElem := func(e ast.Expr) bool {
		x := norm(e, 0)
		switch y := x.(type) {
		case *ast.IndexExpr:
			return normObj(y.X) == h.points
		case *ast.Ident:
			o := kit.ObjOf(info, y)
			if h.elems[o] {
				return true
			}
			if df := h.defFunc(c, o); df != nil {
				found := false
				cmOwn(df.Body, func(n ast.Node) bool {
					if rs, ok := n.(*ast.RangeStmt); ok && rs.Value != nil && kit.ObjOf(info, rs.Value) == o && normObj(rs.X) == h.points {
						found = true
					}
					return true
				})
				return found
			}
		}
		return false
	}
	elemField := func(e ast.Expr, name string) bool {
		sel, ok := norm(e, 0).(*ast.SelectorExpr)
		if !ok || sel.Sel.Name != name || cmField(info, sel) == nil {
			return false
		}
		return isElem(sel.X)
	}
	// node-id expressions: own = <cs>.<node>.ID; a captured listing element handed to the
	// constructor of cs is the same node, unless the variable is shared by later iterations
	idRole := func(e ast.Expr) string {
		sel, ok := norm(e, 0).(*ast.SelectorExpr)
		if !ok || sel.Sel.Name != "ID" {
			return ""
		}
		if fv := cmField(info, sel); fv == nil || fv.Name() != "ID" {
			return ""
		}
		if inner, ok := ast.Unparen(sel.X).(*ast.SelectorExpr); ok {
			if nf := cmField(info, inner); nf == m.csNode && normObj(inner.X) == h.csObj {
				return "own"
			}
			return ""
		}
		if v := normObj(sel.X); v != nil {
			r := h.ctorArgRole(c, m, v)
			if r == "other" {
				out.shared = "`" + f.Str(sel) + "` reads `" + v.Name() + "`, a loop variable shared by all iterations of the listing loop: when the handler runs it holds the node listed last, not the client's own node"
			}
			return r
		}
		return ""
	}
	token_ := func(e ast.Expr) (int, bool) {
		x := norm(e, 0)
		if ix, ok := x.(*ast.IndexExpr); ok && normObj(ix.X) == h.chunks {
			if k, ok := kit.ConstInt(info, ix.Index); ok {
				return int(k), true
			}
		}
		return 0, false
	}
	role := func(e ast.Expr) string {
		e = ast.Unparen(e)
		if s, ok := kit.ConstString(info, e); ok {
			if s == "" {
				return "empty"
			}
			return "const:" + s
		}
		switch {
		case elemField(e, "Origin"):
			return "origin"
		case elemField(e, "Type"):
			return "ptype"
		case elemField(e, "Value"):
			return "pvalue"
		}
		if r := idRole(e); r != "" {
			return r
		}
		if k, ok := token_(e); ok {
			switch k {
			case 1:
				return "anc"
			case 2:
				return "subj"
			}
		}
		return ""
	}
	checkOOB := func(n ast.Node) {
		cmOwn(n, func(x ast.Node) bool {
			if ix, ok := x.(*ast.IndexExpr); ok && normObj(ix.X) == h.chunks {
				if k, ok := kit.ConstInt(info, ix.Index); ok && int(k) >= sc.nChunks && out.oob == "" {
					out.oob = fmt.Sprintf("`%s` at %s is evaluated for a subject of %d tokens", f.Str(ix), f.At(ix), sc.nChunks)
				}
			}
			return true
		})
	}
	st.ShouldInline = func(cf *kit.Func, _ *ast.CallExpr) bool { return !c08BusHelper(cf) }
	st.Fold = func(e ast.Expr, s kit.S) (bool, bool) {
		checkOOB(e)
		x, y, op, ok := kit.CmpAtom(e)
		if !ok {
			return false, false
		}
		// len(chunks) OP const, len(points) OP const, len(p.Origin) OP const
		lenOf := func(z ast.Expr) (string, bool) {
			call, ok := ast.Unparen(z).(*ast.CallExpr)
			if !ok || !cmIsBuiltin(info, call, "len") || len(call.Args) != 1 {
				return "", false
			}
			if o := normObj(call.Args[0]); o != nil && o == h.chunks {
				return "chunks", true
			}
			if o := normObj(call.Args[0]); o != nil && o == h.points {
				return "points", true
			}
			if role(call.Args[0]) == "origin" {
				return "origin", true
			}
			return "", false
		}
		cmp := func(a int64, op token.Token, b int64) bool {
			return constant.Compare(constant.MakeInt64(a), op, constant.MakeInt64(b))
		}
		for pass := 0; pass < 2; pass++ {
			if what, ok := lenOf(x); ok {
				if k, isC := kit.ConstInt(info, y); isC {
					switch what {
					case "chunks":
						return cmp(int64(sc.nChunks), op, k), true
					case "points":
						return cmp(int64(sc.n), op, k), true
					case "origin":
						if sc.a {
							return cmp(0, op, k), true
						}
						r1 := cmp(1, op, k)
						for _, n := range []int64{2, 3, 8, 1 << 20} {
							if cmp(n, op, k) != r1 {
								return false, false
							}
						}
						return r1, true
					}
				}
			}
			// mirror
			x, y = y, x
			switch op {
			case token.LSS:
				op = token.GTR
			case token.GTR:
				op = token.LSS
			case token.LEQ:
				op = token.GEQ
			case token.GEQ:
				op = token.LEQ
			}
		}
		// nil-ness of the client field: a constructed state has a client
		if op == token.EQL || op == token.NEQ {
			for _, pr := range [][2]ast.Expr{{x, y}, {y, x}} {
				if kit.IsNilIdent(info, pr[1]) {
					if sel, ok := ast.Unparen(pr[0]).(*ast.SelectorExpr); ok && cmField(info, sel) == m.csClient && normObj(sel.X) == h.csObj {
						return op == token.NEQ, true
					}
				}
			}
		}
		rx, ry := role(x), role(y)
		has := func(a, b string) bool { return (rx == a && ry == b) || (rx == b && ry == a) }
		val, known := false, false
		switch {
		case has("origin", "empty"):
			val, known = sc.a, true
		case has("subj", "own"):
			val, known = sc.b, true
		case has("anc", "own"):
			val, known = true, true // the subscription subject is up.<own id>.>
		case has("origin", "own"):
			val, known = sc.c, true
		case has("origin", "other"):
			// the id of another node: cannot equal an empty origin nor the client's own id
			if sc.a || sc.c {
				val, known = false, true
			}
		case has("subj", "other"):
			if sc.b {
				val, known = false, true
			}
		case has("anc", "other"):
			val, known = false, true
		case rx == "ptype" && strings.HasPrefix(ry, "const:"):
			val, known = ptype == strings.TrimPrefix(ry, "const:"), true
		case ry == "ptype" && strings.HasPrefix(rx, "const:"):
			val, known = ptype == strings.TrimPrefix(rx, "const:"), true
		case rx == "ptype" && ry == "empty", ry == "ptype" && rx == "empty":
			val, known = false, true
		case (rx == "pvalue" || ry == "pvalue") && pval != nil:
			other := y
			o2 := op
			if ry == "pvalue" {
				other = x
				switch op {
				case token.LSS:
					o2 = token.GTR
				case token.GTR:
					o2 = token.LSS
				case token.LEQ:
					o2 = token.GEQ
				case token.GEQ:
					o2 = token.LEQ
				}
			}
			if tv, ok := info.Types[other]; ok && tv.Value != nil && (tv.Value.Kind() == constant.Int || tv.Value.Kind() == constant.Float) {
				return constant.Compare(constant.MakeFloat64(*pval), o2, tv.Value), true
			}
		}
		if known {
			switch op {
			case token.EQL:
				return val, true
			case token.NEQ:
				return !val, true
			}
		}
		return false, false
	}
	relatedN := func(e ast.Expr) bool {
		rel := h.related(e)
		ast.Inspect(e, func(n ast.Node) bool {
			if id, ok := n.(*ast.Ident); ok && !rel {
				if o := normObj(id); o != nil && (o == h.points || o == h.chunks || o == h.csObj || o == types.Object(h.msg)) {
					rel = true
				}
				if _, isTok := token_(id); isTok {
					rel = true
				}
				if isElem(id) {
					rel = true
				}
			}
			return !rel
		})
		return rel
	}
	st.Eval.OnUnknown = func(e ast.Expr) {
		if relatedN(e) {
			out.unkRel = append(out.unkRel, f.Str(e))
		} else {
			out.unkOther = append(out.unkOther, f.Str(e))
		}
	}
	st.ErrTag = func(call *ast.CallExpr, s kit.S) string {
		if call == h.decode {
			return "dec"
		}
		return ""
	}
	st.OnErrEdge = func(tag string, isErr bool, s kit.S) (kit.S, bool) {
		if tag == "dec" && isErr {
			return s, false // the scenario is a decodable message
		}
		return s, true
	}
	inc := func(s kit.S, k string) kit.S {
		if s.Get(k) == "" {
			return s.Set(k, "1")
		}
		return s.Set(k, "2+")
	}
	clientOf := func(x ast.Expr) bool {
		sel, ok := ast.Unparen(norm(x, 0)).(*ast.SelectorExpr)
		return ok && cmField(info, sel) == m.csClient && normObj(sel.X) == h.csObj
	}
	relevantType := func(t types.Type) bool {
		if t == nil {
			return false
		}
		if m.isCS(t) || types.Identical(t, m.iface) || kit.IsNamedType(t, natsPkg, "Msg") {
			return true
		}
		if _, isFn := t.Underlying().(*types.Signature); isFn {
			return true
		}
		if sl, ok := t.Underlying().(*types.Slice); ok && kit.IsNamedType(sl.Elem(), dataPkg, "Point") {
			return true
		}
		return false
	}
	st.OnCall = func(call *ast.CallExpr, n ast.Node, s kit.S) []kit.S {
		if _, isGo := n.(*ast.GoStmt); isGo {
			return nil
		}
		if x, ok := m.ifaceCall(info, call, "Points"); ok && clientOf(x) {
			return []kit.S{inc(s, "dl")}
		}
		if x, ok := m.ifaceCall(info, call, "EdgePoints"); ok && clientOf(x) {
			return []kit.S{inc(s, "el")}
		}
		if rx, ok := m.isStopCall(st.Cur(), call); ok && normObj(rx) == h.csObj {
			return []kit.S{s.Set("stopped", "1")}
		}
		// a call that could deliver or stop but is not evaluated inline
		if !cmIsLibraryCall(info, call) {
			cf := st.Cur().CalleeFunc(call)
			if cf == nil || cf.Body == nil || cf.Pkg != f.Pkg || c08BusHelper(cf) {
				rel := false
				for _, a := range call.Args {
					if relevantType(info.TypeOf(a)) {
						rel = true
					}
				}
				if sel, ok := ast.Unparen(call.Fun).(*ast.SelectorExpr); ok {
					if sn := info.Selections[sel]; sn != nil && relevantType(info.TypeOf(sel.X)) {
						rel = true
					}
				}
				if cf == nil {
					rel = true // a function value
				}
				if rel {
					out.opaque = append(out.opaque, st.Cur().Str(call.Fun))
				}
			}
		}
		return nil
	}
	st.OnNode = func(n ast.Node, s kit.S) []kit.S {
		checkOOB(n)
		// boolean locals assigned from a condition over the atoms (`ownNode := nodeID == clientID`)
		if as, ok := n.(*ast.AssignStmt); ok && len(as.Lhs) == 1 && len(as.Rhs) == 1 {
			if o := kit.ObjOf(info, as.Lhs[0]); o != nil && cmIsLocal(o) {
				if b, ok := o.Type().Underlying().(*types.Basic); ok && b.Info()&types.IsBoolean != 0 {
					if _, isCall := ast.Unparen(as.Rhs[0]).(*ast.CallExpr); !isCall && !s.Has("v:"+kit.VarID(o)) {
						ts, fs := st.Eval.Eval(as.Rhs[0], s)
						var res []kit.S
						for _, x := range ts {
							res = append(res, x.Set("v:"+kit.VarID(o), "true"))
						}
						for _, x := range fs {
							res = append(res, x.Set("v:"+kit.VarID(o), "false"))
						}
						if len(res) > 0 {
							return res
						}
					}
				}
			}
		}
		return []kit.S{s}
	}
	st.OnBranch = func(br kit.Branch, s kit.S) (t, fl []kit.S, handled bool) {
		if br.Kind == kit.BrCase {
			return cmTagCase(st, br, s)
		}
		if br.Kind != kit.BrRange || br.Range == nil || normObj(br.Range.X) != h.points {
			return nil, nil, false
		}
		k := fmt.Sprintf("it%d", br.Range.Pos())
		cnt := 0
		fmt.Sscanf(s.Get(k), "%d", &cnt)
		if cnt < sc.n {
			return []kit.S{s.Set(k, fmt.Sprint(cnt+1))}, nil, true
		}
		return nil, []kit.S{s.Del(k)}, true
	}
	res := c.P.Graph(f).Run(kit.NewS(), st.Client())
	out.res = res
	out.overflow = res.Overflow
	c.AddValuations(1)
	for _, e := range res.Exits {
		if e.Return == nil {
			continue
		}
		out.exits++
		out.points[e.State.Get("dl")] = true
		out.edge[e.State.Get("el")] = true
		out.stopped[e.State.Get("stopped")] = true
		out.sampleExit["dl="+e.State.Get("dl")] = e
		out.sampleExit["el="+e.State.Get("el")] = e
		out.sampleExit["st="+e.State.Get("stopped")] = e
	}
	if out.shared != "" {
		out.unkRel = nil // the forks come from comparing with the shared variable, which is the defect itself
	}
	for _, q := range uniqStrings(out.opaque) {
		out.unkRel = append(out.unkRel, "call of `"+q+"` (not evaluated)")
	}
	return out
}

func c08Only(m map[string]bool, v string) bool { return len(m) == 1 && m[v] }

func c08Keys(m map[string]bool) string {
	var ks []string
	for _, k := range []string{"", "1", "2+"} {
		if m[k] {
			ks = append(ks, map[string]string{"": "none", "1": "once", "2+": "more than once"}[k])
		}
	}
	return strings.Join(ks, " / ")
}

var c08Valuations = [][3]bool{
	{true, true, false}, {true, false, false},
	{false, true, true}, {false, false, true},
	{false, true, false}, {false, false, false},
}

// verdict applies the common triage of an unexpected outcome.
func c08Verdict(o *kit.Ob, out *c08Out, okCond bool, okMsg, badMsg string, sampleKey string) {
	switch {
	case out.overflow:
		o.Undecided("state overflow")
	case out.exits == 0:
		o.Undecided("no return exit reached in this scenario")
	case okCond:
		o.OK("%s", okMsg)
	case len(out.unkRel) > 0:
		o.Undecided("%s; the outcome passes through condition(s) on the message the checker does not understand: %s", badMsg, strings.Join(uniqStrings(out.unkRel), "; "))
	default:
		ob := o.Violation("%s%s", badMsg, c08Unk(out))
		if e, ok := out.sampleExit[sampleKey]; ok {
			ob.WithPath(out.res.PathTo(e))
		}
	}
}

func c08Unk(out *c08Out) string {
	if out.shared != "" {
		return "; " + out.shared
	}
	if len(out.unkOther) == 0 {
		return ""
	}
	return " (paths fork on the unrelated condition(s) " + strings.Join(uniqStrings(out.unkOther), "; ") + ")"
}

func c08R1(c *kit.Ctx, m *cmModel, r *kit.Rule, h *c08Handler) {
	f, info := h.f, h.info
	tomb, ntype := dataConst(c, "PointTypeTombstone"), dataConst(c, "PointTypeNodeType")
	tf := func(b bool) string {
		if b {
			return "T"
		}
		return "F"
	}
	var batchBad []string
	batchUndec := ""
	for _, v := range c08Valuations {
		for _, n := range []int{1, 2} {
			sc := c08Scn{nChunks: 3, a: v[0], b: v[1], c: v[2], kind: "ordinary", n: n}
			out := c08Run(c, m, h, sc, tomb, ntype)
			want := "1"
			wantTxt := "DELIVER"
			if sc.drop() {
				want, wantTxt = "", "DROP"
			}
			good := c08Only(out.points, want) && c08Only(out.edge, "")
			badMsg := fmt.Sprintf("for %s the batch must be %s, but Points is called %s and EdgePoints %s over the paths", sc, map[string]string{"DROP": "dropped", "DELIVER": "delivered exactly once"}[wantTxt], c08Keys(out.points), c08Keys(out.edge))
			sample := "dl="
			if want == "" {
				for _, k := range []string{"1", "2+"} {
					if out.points[k] {
						sample = "dl=" + k
					}
				}
			}
			if n == 1 {
				o := r.Ob(f, h.ptsCall, fmt.Sprintf("A=%s B=%s C=%s", tf(v[0]), tf(v[1]), tf(v[2])), "A=(origin==\"\") B=(subject node==own node) C=(origin==own id): "+wantTxt+" iff "+map[bool]string{true: "", false: "not "}[sc.drop()]+"((A∧B)∨C)")
				c08Verdict(o, out, good, wantTxt, badMsg, sample)
				continue
			}
			switch {
			case out.overflow || out.exits == 0:
				batchUndec = "scenario " + sc.String() + " could not be run"
			case good:
			case len(out.unkRel) > 0:
				batchUndec = badMsg + "; not understood: " + strings.Join(uniqStrings(out.unkRel), "; ")
			default:
				batchBad = append(batchBad, badMsg+c08Unk(out))
			}
		}
	}
	ob := r.Ob(f, h.ptsCall, "two-point batches", "a uniform batch of two points is dropped / delivered exactly once like a single point")
	switch {
	case len(batchBad) > 0:
		ob.Violation("%s", batchBad[0])
	case batchUndec != "":
		ob.Undecided("%s", batchUndec)
	default:
		ob.OK("6 valuations x 2 points agree with the single-point table")
	}
	// delivery arguments
	oa := r.Ob(f, h.ptsCall, "Points arguments", "Points(subject token 2, the decoded slice unchanged)")
	c08Args(h, oa, h.ptsCall, []int{2})
	_ = info
}

// c08Args checks call(tokens…, points).
func c08Args(h *c08Handler, o *kit.Ob, call *ast.CallExpr, toks []int) {
	f, info := h.f, h.info
	if len(call.Args) != len(toks)+1 {
		o.Undecided("unexpected arity of `%s`", f.Str(call))
		return
	}
	for i, want := range toks {
		k, ok := h.token(call.Args[i])
		switch {
		case !ok:
			o.Undecided("cannot tell which token of the message subject argument %d `%s` is (expected token %d)", i+1, f.Str(call.Args[i]), want)
			return
		case k != want:
			o.Violation("argument %d `%s` is subject token %d, expected token %d (up.<ancestor>.<node>[.<parent>])", i+1, f.Str(call.Args[i]), k, want)
			return
		}
	}
	last := ast.Unparen(call.Args[len(toks)])
	if se, ok := last.(*ast.SliceExpr); ok && kit.ObjOf(info, se.X) == h.points {
		o.Violation("the client receives `%s`, a part of the decoded batch", f.Str(last))
		return
	}
	if _, isID := last.(*ast.Ident); !isID || kit.ObjOf(info, last) != h.points {
		o.Undecided("cannot tell whether `%s` is the decoded batch", f.Str(last))
		return
	}
	if n := cmAssignCount(h.f, h.points); n != 1 {
		// look at the other assignments
		trunc := ""
		ast.Inspect(h.f.Body, func(x ast.Node) bool {
			if as, ok := x.(*ast.AssignStmt); ok && len(as.Lhs) == len(as.Rhs) {
				for i, l := range as.Lhs {
					if kit.ObjOf(info, l) == h.points {
						rhs := ast.Unparen(as.Rhs[i])
						if se, ok := rhs.(*ast.SliceExpr); ok && kit.ObjOf(info, se.X) == h.points {
							trunc = f.Str(as)
						}
						if ce, ok := rhs.(*ast.CallExpr); ok && cmIsBuiltin(info, ce, "append") {
							trunc = f.Str(as)
						}
					}
				}
			}
			return true
		})
		if trunc != "" {
			o.Violation("the decoded batch is altered before delivery: `%s`", trunc)
		} else {
			o.Undecided("the decoded batch variable is assigned %d times", n)
		}
		return
	}
	o.OK("%s", f.Str(call))
}

func c08R2(c *kit.Ctx, m *cmModel, r *kit.Rule, h *c08Handler) {
	f := h.f
	tomb, ntype := dataConst(c, "PointTypeTombstone"), dataConst(c, "PointTypeNodeType")
	site := ast.Node(h.ptsCall)
	if h.edgCall != nil {
		site = h.edgCall
	}
	// (1) ordinary edge points from a foreign author are delivered exactly once
	o := r.Ob(f, site, "ordinary edge points", "a foreign batch on a four-token subject is delivered exactly once through EdgePoints")
	viaHelper := ""
	if h.edgCall == nil {
		// the delivery may sit in a function of the package the handler calls (evaluated inline)
		for _, call := range f.AllCalls(false) {
			if cf := f.CalleeFunc(call); cf != nil && cf.Body != nil && cf.Pkg == f.Pkg {
				for _, c2 := range cf.AllCalls(true) {
					if _, ok := m.ifaceCall(cf.Info(), c2, "EdgePoints"); ok {
						viaHelper = cf.Name
					}
				}
			} else if cf == nil && !cmIsLibraryCall(h.info, call) {
				viaHelper = "?" + f.Str(call.Fun)
			}
		}
	}
	switch {
	case h.edgCall == nil && viaHelper == "":
		o.Violation("the handler never calls EdgePoints on its client: edge points of the subtree are not delivered")
	case h.edgCall == nil && strings.HasPrefix(viaHelper, "?"):
		o.Undecided("no EdgePoints call found; the handler calls the function value `%s`", viaHelper[1:])
	default:
		bad, undec := "", ""
		var badOut *c08Out
		for _, v := range c08Valuations {
			for _, n := range []int{1, 2} {
				sc := c08Scn{nChunks: 4, a: v[0], b: v[1], c: v[2], kind: "ordinary", n: n}
				if sc.drop() {
					continue // own echo: either outcome is compatible with the property
				}
				out := c08Run(c, m, h, sc, tomb, ntype)
				good := c08Only(out.edge, "1") && c08Only(out.points, "")
				switch {
				case out.overflow || out.exits == 0:
					undec = "scenario " + sc.String() + " could not be run"
				case good:
				case len(out.unkRel) > 0:
					undec = fmt.Sprintf("for %s EdgePoints is called %s; not understood: %s", sc, c08Keys(out.edge), strings.Join(uniqStrings(out.unkRel), "; "))
				case bad == "":
					bad = fmt.Sprintf("for %s EdgePoints is called %s and Points %s over the paths (expected EdgePoints exactly once)%s", sc, c08Keys(out.edge), c08Keys(out.points), c08Unk(out))
					badOut = out
				}
			}
		}
		switch {
		case bad != "":
			ob := o.Violation("%s", bad)
			for _, k := range []string{"el=", "el=2+"} {
				if e, ok := badOut.sampleExit[k]; ok {
					ob.WithPath(badOut.res.PathTo(e))
					break
				}
			}
		case undec != "":
			o.Undecided("%s", undec)
		default:
			o.OK("EdgePoints exactly once for the 4 foreign valuations x {1,2} points")
		}
	}
	// (2) restart points reach stop
	for _, kind := range []string{"tomb1", "tomb0", "ntype"} {
		desc := map[string]string{"tomb1": "tombstone point with value 1", "tomb0": "tombstone point with value 0", "ntype": "node-type point"}[kind]
		o := r.Ob(f, site, desc, "reaches the client state's stop on every path (the client is restarted with the new children)")
		sc := c08Scn{nChunks: 4, kind: kind, n: 1}
		out := c08Run(c, m, h, sc, tomb, ntype)
		c08Verdict(o, out, c08Only(out.stopped, "1"), "stop on every path",
			"a batch holding a "+desc+" for an edge below the client's node can be handled without stopping the client state: the client keeps running with its old set of children", "st=")
	}
	// (3) arguments
	oa := r.Ob(f, site, "EdgePoints arguments", "EdgePoints(subject token 2, subject token 3, the decoded slice unchanged)")
	switch {
	case h.edgCall != nil:
		c08Args(h, oa, h.edgCall, []int{2, 3})
	case viaHelper != "":
		oa.Undecided("the EdgePoints call is not in the handler itself (%s); its arguments are not traced", strings.TrimPrefix(viaHelper, "?"))
	default:
		oa.Violation("no EdgePoints call on the handler's client")
	}
	// (4) arity
	oi := r.Ob(f, nil, "subject token indexing", "no token at or beyond the subject's arity is indexed (subjects of 3, 4 and 5 tokens)")
	oob := ""
	for _, nc := range []int{3, 4, 5} {
		for _, kind := range []string{"ordinary", "tomb1", "ntype"} {
			out := c08Run(c, m, h, c08Scn{nChunks: nc, kind: kind, n: 1}, tomb, ntype)
			if out.oob != "" && oob == "" {
				oob = out.oob
			}
		}
	}
	if oob != "" {
		oi.Violation("%s: index out of range in the subscription handler", oob)
	} else {
		oi.OK("every chunks[k] lies behind a length test that admits it")
	}
}

func c08R3(c *kit.Ctx, m *cmModel, r *kit.Rule, h *c08Handler) {
	f := h.f
	o := r.Ob(f, f.Node(), "subscription subject", "the handler is subscribed on up.<own node id>.>")
	if f.Lit == nil {
		o.Undecided("the handler is a declared function; its subscription site is not resolved")
		return
	}
	call, ok := c.P.Parent(f.File, f.Lit).(*ast.CallExpr)
	if !ok || f.Outer == nil {
		o.Undecided("the handler literal is not an argument of a call")
		return
	}
	of := f.Outer
	info := of.Info()
	q := kit.QualName(kit.Callee(info, call))
	if !strings.HasPrefix(q, natsPkg+".(*Conn).") || !strings.Contains(q, "Subscribe") || len(call.Args) < 2 {
		o.Undecided("the handler literal is passed to `%s`, not to a NATS subscribe call", f.Str(call.Fun))
		return
	}
	subj := ast.Unparen(call.Args[0])
	if vo := kit.ObjOf(info, subj); vo != nil && cmIsLocal(vo) {
		if _, isID := subj.(*ast.Ident); isID {
			if def := cmSingleDef(of.Root(), vo); def != nil {
				subj = ast.Unparen(def)
			} else {
				o.Undecided("subject variable `%s` is assigned more than once", vo.Name())
				return
			}
		}
	}
	// Sprintf("up.%v.>", own) or "up." + own + ".>"
	var pre, post string
	var mid ast.Expr
	switch x := subj.(type) {
	case *ast.CallExpr:
		if !kit.CallIs(info, x, "fmt.Sprintf") || len(x.Args) != 2 {
			o.Undecided("subject `%s` is not Sprintf(format, id)", of.Str(subj))
			return
		}
		format, ok := kit.ConstString(info, x.Args[0])
		if !ok {
			o.Undecided("subject format is not constant")
			return
		}
		i := strings.Index(format, "%")
		if i < 0 || i+2 > len(format) || (format[i+1] != 'v' && format[i+1] != 's') || strings.Count(format, "%") != 1 {
			o.Violation("subject format %q does not contain exactly one plain verb for the node id", format)
			return
		}
		pre, post, mid = format[:i], format[i+2:], x.Args[1]
	case *ast.BinaryExpr:
		var parts []ast.Expr
		var flat func(e ast.Expr)
		flat = func(e ast.Expr) {
			if b, ok := ast.Unparen(e).(*ast.BinaryExpr); ok && b.Op == token.ADD {
				flat(b.X)
				flat(b.Y)
				return
			}
			parts = append(parts, ast.Unparen(e))
		}
		flat(x)
		if len(parts) != 3 {
			o.Undecided("subject `%s` is not <const> + id + <const>", of.Str(subj))
			return
		}
		var ok1, ok2 bool
		pre, ok1 = kit.ConstString(info, parts[0])
		post, ok2 = kit.ConstString(info, parts[2])
		if !ok1 || !ok2 {
			o.Undecided("subject `%s` is not <const> + id + <const>", of.Str(subj))
			return
		}
		mid = parts[1]
	default:
		o.Undecided("subject `%s` is neither Sprintf nor a concatenation", of.Str(subj))
		return
	}
	switch {
	case pre != "up." || post != ".>":
		o.Violation("subscription subject is %q + id + %q, expected \"up.\" + id + \".>\": %s", pre, post,
			map[bool]string{true: "only three-token subjects match, the edge points of the subtree (four tokens) are lost", false: "the rebroadcast of the subtree is published on up.<id>.…"}[pre == "up." && post == ".*"])
	default:
		// resolve single-assignment locals (`id := cs.node.ID`)
		for i := 0; i < 4; i++ {
			if _, isID := ast.Unparen(mid).(*ast.Ident); !isID {
				break
			}
			vo := kit.ObjOf(info, mid)
			if !cmIsLocal(vo) {
				break
			}
			def := cmSingleDef(of.Root(), vo)
			if def == nil {
				break
			}
			mid = ast.Unparen(def)
		}
		sel, isSel := ast.Unparen(mid).(*ast.SelectorExpr)
		switch {
		case m.isOwnID(info, mid, h.csObj):
			o.OK("%s", of.Str(subj))
		case isSel && sel.Sel.Name == "ID" && h.ctorArgRole(c, m, kit.ObjOf(info, sel.X)) != "":
			// the listing element handed to the constructor of this client state, read synchronously in the same iteration
			o.OK("%s (`%s` is the node the client state was constructed from)", of.Str(subj), of.Str(sel.X))
		case isSel && cmField(info, sel) != nil && func() bool {
			inner, ok := ast.Unparen(sel.X).(*ast.SelectorExpr)
			return ok && cmField(info, inner) == m.csNode
		}():
			o.Violation("the subscription is made for `%s`, another field of the client's node than its id", of.Str(mid))
		case isSel && cmField(info, sel) != nil && cmField(info, sel).Name() == "ID" && m.isCS(info.TypeOf(func() ast.Expr {
			if inner, ok := ast.Unparen(sel.X).(*ast.SelectorExpr); ok {
				return inner.X
			}
			return sel.X
		}())):
			o.Violation("the subscription is made for `%s`, but the filter and the delivery use the node id of client state `%s`", of.Str(mid), h.csObj.Name())
		default:
			o.Undecided("cannot tell whether `%s` is the id of the node of client state `%s`", of.Str(mid), h.csObj.Name())
		}
	}
}
