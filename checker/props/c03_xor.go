package props

import (
	"go/ast"
	"go/token"
	"go/types"
	"sort"
	"strings"

	"siotcheck/kit"
)

// xorTrack evaluates uint32 locals and one distinguished map cell as XOR-sets
// over named symbols (the hash is a XOR fold, so the only algebra needed is the
// symmetric difference).  It is what makes the C03 cache rules independent of
// how the update is spelled: `c[k] ^= d`, `c[k] = c[k] ^ d`, `h, ok := c[k];
// if !ok { h = e.Hash }; c[k] = h ^ d`, `map[..]..{k: h ^ d}` or a helper that
// does any of these all evaluate to the same set.
//
// Values: "{}" zero, "{D,H}" a set, "?" anything else.  State keys: "cell" for
// the map cell, "x:<var>" for locals.
type xorTrack struct {
	st *kit.Std
	// sym names a leaf (after parameter resolution); "" = not a symbol.
	sym func(e ast.Expr) string
	// isCell recognises the distinguished cell `cache[key]`.
	isCell func(e ast.Expr) bool
	// isKey recognises the key of the distinguished cell (for map literals).
	isKey func(e ast.Expr) bool
	// isCache recognises the map itself (for map literals assigned to it); nil = any map local.
	isCache func(o types.Object) bool
	// initial cell value when nothing was stored in this run.
	initCell func(s kit.S) string
	// present collects the `_, ok := cache[key]` variables.
	present map[types.Object]bool
}

func xorSet(syms ...string) string {
	m := map[string]bool{}
	for _, s := range syms {
		if m[s] {
			delete(m, s)
		} else {
			m[s] = true
		}
	}
	var l []string
	for s := range m {
		l = append(l, s)
	}
	sort.Strings(l)
	return "{" + strings.Join(l, ",") + "}"
}

func xorAdd(a, b string) string {
	if a == "?" || b == "?" || a == "" || b == "" {
		return "?"
	}
	var l []string
	for _, v := range []string{a, b} {
		if v = strings.Trim(v, "{}"); v != "" {
			l = append(l, strings.Split(v, ",")...)
		}
	}
	return xorSet(l...)
}

func (x *xorTrack) info() *types.Info { return x.st.F.Info() }

func (x *xorTrack) cell(s kit.S) string {
	if s.Has("cell") {
		return s.Get("cell")
	}
	return x.initCell(s)
}

func (x *xorTrack) eval(e ast.Expr, s kit.S) string {
	e = ast.Unparen(x.st.Resolve(e))
	if x.isCell(e) {
		return x.cell(s)
	}
	if sy := x.sym(e); sy != "" {
		return "{" + sy + "}"
	}
	switch v := e.(type) {
	case *ast.BinaryExpr:
		if v.Op == token.XOR {
			return xorAdd(x.eval(v.X, s), x.eval(v.Y, s))
		}
	case *ast.Ident:
		if o := kit.ObjOf(x.info(), v); o != nil && s.Has("x:"+kit.VarID(o)) {
			return s.Get("x:" + kit.VarID(o))
		}
	case *ast.BasicLit:
		if v.Value == "0" {
			return "{}"
		}
	case *ast.CallExpr:
		// conversion uint32(v)
		if tv, ok := x.info().Types[v.Fun]; ok && tv.IsType() && len(v.Args) == 1 {
			return x.eval(v.Args[0], s)
		}
	}
	return "?"
}

func isUint32(t types.Type) bool {
	if t == nil {
		return false
	}
	b, ok := t.Underlying().(*types.Basic)
	return ok && b.Kind() == types.Uint32
}

// assignTo stores val into lhs if lhs is the cell or a uint32 local.
func (x *xorTrack) assignTo(lhs ast.Expr, val string, s kit.S) kit.S {
	l := ast.Unparen(lhs)
	if rl := ast.Unparen(x.st.Resolve(l)); x.isCell(rl) || x.isCell(l) {
		return s.Set("cell", val)
	}
	if id, ok := l.(*ast.Ident); ok && id.Name != "_" {
		if o := kit.ObjOf(x.info(), id); o != nil && isUint32(o.Type()) {
			if v, ok := o.(*types.Var); ok && !v.IsField() {
				return s.Set("x:"+kit.VarID(o), val)
			}
		}
	}
	return s
}

// node is the OnNode transfer function.
func (x *xorTrack) node(n ast.Node, s kit.S) kit.S {
	switch v := n.(type) {
	case *ast.AssignStmt:
		if len(v.Lhs) == 2 && len(v.Rhs) == 1 {
			if r := ast.Unparen(v.Rhs[0]); x.isCell(r) {
				if o := kit.ObjOf(x.info(), v.Lhs[1]); o != nil {
					x.present[o] = true
				}
				return x.assignTo(v.Lhs[0], x.cell(s), s)
			}
			return s
		}
		if len(v.Lhs) != len(v.Rhs) {
			return s
		}
		vals := make([]string, len(v.Rhs))
		for i, r := range v.Rhs {
			switch v.Tok {
			case token.ASSIGN, token.DEFINE:
				vals[i] = x.eval(r, s)
				// map literal {key: value} creating the cache
				if cl, ok := ast.Unparen(r).(*ast.CompositeLit); ok {
					if _, isMap := x.info().TypeOf(cl).Underlying().(*types.Map); isMap {
						if o := kit.ObjOf(x.info(), v.Lhs[i]); o != nil && (x.isCache == nil || x.isCache(o)) {
							s = s.Set("cell", x.initCell(s))
							for _, el := range cl.Elts {
								if kv, ok := el.(*ast.KeyValueExpr); ok && x.isKey != nil && x.isKey(x.st.Resolve(kv.Key)) {
									s = s.Set("cell", x.eval(kv.Value, s))
								}
							}
						}
						vals[i] = ""
					}
				}
			case token.XOR_ASSIGN:
				vals[i] = xorAdd(x.eval(v.Lhs[i], s), x.eval(r, s))
			default:
				vals[i] = "?"
			}
		}
		for i, l := range v.Lhs {
			if vals[i] != "" {
				s = x.assignTo(l, vals[i], s)
			}
		}
	case *ast.DeclStmt:
		if gd, ok := v.Decl.(*ast.GenDecl); ok && gd.Tok == token.VAR {
			for _, sp := range gd.Specs {
				vs, ok := sp.(*ast.ValueSpec)
				if !ok {
					continue
				}
				for i, nm := range vs.Names {
					val := "{}"
					if i < len(vs.Values) {
						val = x.eval(vs.Values[i], s)
					}
					s = x.assignTo(nm, val, s)
				}
			}
		}
	case *ast.IncDecStmt:
		s = x.assignTo(v.X, "?", s)
	}
	return s
}

// scanned marks variables whose address is passed to a Scan as holding symbol
// sym (used by the entry: `Scan(&hash)` after SELECT hash … WHERE id=?).
func (x *xorTrack) scanned(call *ast.CallExpr, sym string, s kit.S) kit.S {
	for _, a := range call.Args {
		if u, ok := ast.Unparen(a).(*ast.UnaryExpr); ok && u.Op == token.AND {
			s = x.assignTo(u.X, "{"+sym+"}", s)
		}
	}
	return s
}

// xorWords renders a value for reports.
func xorWords(v string) string {
	r := strings.NewReplacer("D", "delta", "H", "stored hash", "O", "value cached by an earlier path", ",", " ^ ", "{}", "0", "{", "", "}", "")
	return r.Replace(v)
}
