package props

import (
	"go/ast"
	"go/constant"
	"go/token"
	"go/types"
	"regexp"
	"strconv"
	"strings"

	"siotcheck/kit"
)

func init() {
	kit.Register(&kit.Prop{
		ID:    "C04",
		Title: "A crash at any instant loses no acknowledged write and corrupts nothing",
		Explanation: "What the code must do for SQLite to be able to give crash atomicity (DESIGN.md §3/C04), decided on every path: " +
			"R1 between Begin and Commit every statement of the writers, of the hash verifier and of the helpers they pass the transaction to executes on that transaction " +
			"(no statement on the database handle, no nil transaction argument); R2 every exit after Begin is committed or rolled back, nil only after Commit returned nil; " +
			"R3 the bus handlers acknowledge success only on the nil edge of the writer; R4 a new root edge and the meta root id are written in the same transaction; " +
			"R5 the data source name asks for WAL journalling, synchronous>=NORMAL and a busy timeout; R6 first-time initialisation (meta row, root, signing key) is guarded so that a restart does not repeat it. " +
			"Crash behaviour itself is SQLite's and is not decided.",
		Assumptions: []string{
			"SQLite in WAL mode with synchronous>=NORMAL keeps committed transactions atomic across process death (durability across power loss needs FULL; the property speaks of process death)",
			"database/sql: statements executed on a *sql.Tx (or a statement prepared from it) belong to the transaction",
			"torn pages, the WAL checkpoint and OS durability are not decided",
		},
		Run: runC04,
	})
}

func runC04(c *kit.Ctx) {
	m := newStoreModel(c)
	r1 := c.Rule("R1", "one transaction per batch: every statement on the tx", 20)
	r2 := c.Rule("R2", "commit/rollback typestate", 3)
	r3 := c.Rule("R3", "acknowledge only after commit", 2)
	r4 := c.Rule("R4", "root id written with its edge", 2)
	r5 := c.Rule("R5", "DSN pragmas", 3)
	r6 := c.Rule("R6", "idempotent initialisation guards", 3)
	r7 := c.Rule("R7", "only SQLite touches the store file and its journal", 1)
	r8 := c.Rule("R8", "a row the store inserts can be read back by the store", 4)

	c04R1(c, m, r1)
	c04OneTx(c, m, r1)
	checkTxTypestate(c, m, r2)
	checkHandlers(c, m, nil, r3, nil)
	c04R4(c, m, r4)
	c04R5(c, m, r5)
	c04R6(c, m, r6)
	c04R7(c, m, r7)
	c04Nullability(c, m, r8)
}

// c04OneTx: the batch of one message is written by ONE call of the function that
// owns the transaction.  Between a message handler and that function there may be
// a wrapper (pre-checks, de-duplication); neither the handler nor the wrapper may
// reach the transaction function twice for one batch (a loop over slices of the
// batch, a second call for the rest): a crash between the two commits would leave
// a part of a batch that was never acknowledged.
func c04OneTx(c *kit.Ctx, m *storeModel, r1 *kit.Rule) {
	for _, w := range m.writers {
		type level struct {
			g      *kit.Func
			callee *kit.Func
		}
		var levels []level
		if w.Entry != w.F {
			levels = append(levels, level{w.Entry, w.F})
		}
		for _, g := range c.P.Funcs("store") {
			if g.Body == nil || g.Lit != nil || g == w.Entry || g == w.F {
				continue
			}
			// a message handler, or a helper of one that receives the decoded batch
			var bp types.Object
			for _, p := range g.Params() {
				if kit.IsNamedType(p.Type(), dataPkg, "Points") {
					bp = p
				}
			}
			for _, call := range g.AllCalls(true) {
				if g.CalleeFunc(call) != w.Entry {
					continue
				}
				passes := false
				for _, a := range call.Args {
					if bp != nil && kit.ObjOf(g.Info(), a) == bp {
						passes = true
					}
				}
				if isMsgHandler(g) || passes {
					levels = append(levels, level{g, w.Entry})
					break
				}
			}
		}
		if len(levels) == 0 {
			r1.Ob(w.F, nil, w.Table+": one transaction per batch", "the handler reaches the transaction function once per message").
				Undecided("no message handler calls %s", w.Entry.Name)
			continue
		}
		for _, lv := range levels {
			g, callee := lv.g, lv.callee
			o := r1.Ob(g, nil, w.Table+": one transaction per batch in "+g.Name, "on every path "+callee.Name+" is called at most once for the batch")
			st := &kit.Std{F: g}
			st.ShouldInline = func(cf *kit.Func, call *ast.CallExpr) bool { return false }
			st.OnCall = func(call *ast.CallExpr, n ast.Node, s kit.S) []kit.S {
				if st.Cur().CalleeFunc(call) == callee {
					if s.Get("wr") == "" {
						return []kit.S{s.Set("wr", "1")}
					}
					return []kit.S{s.Set("wr", "2")}
				}
				return nil
			}
			res := c.P.Graph(g).Run(kit.NewS(), st.Client())
			if res.Overflow {
				c.Fatalf("R1 one-transaction overflow in %s", g.Name)
			}
			twice := false
			for _, e := range res.Exits {
				if e.State.Get("wr") == "2" {
					twice = true
				}
			}
			if twice {
				o.Violation("%s can call %s more than once for one batch: every call is its own transaction, so a crash between them leaves a part of a batch that was never acknowledged", g.Name, callee.Name)
			} else {
				o.OK("at most one call on every path")
			}
		}
	}
}

// c04R7: the committed-but-not-checkpointed part of the store lives in the
// companion files of the database file (<file>-wal, <file>-shm).  Nothing in
// package store may remove, rename, truncate or rewrite a path derived from the
// database file name; only the SQL driver owns those files.
func c04R7(c *kit.Ctx, m *storeModel, r7 *kit.Rule) {
	mutators := map[string]bool{"os.Remove": true, "os.RemoveAll": true, "os.Rename": true, "os.Truncate": true,
		"os.WriteFile": true, "os.Create": true, "os.OpenFile": true, "io/ioutil.WriteFile": true, "os.Link": true, "os.Symlink": true}
	// the opener and the parameter that reaches sql.Open's data source name
	var opener *kit.Func
	var open *ast.CallExpr
	for _, f := range c.P.Funcs("store") {
		for _, call := range f.AllCalls(false) {
			if kit.CallIs(f.Info(), call, "database/sql.Open") {
				opener, open = f.Root(), call
			}
		}
	}
	if opener == nil {
		c.Fatalf("R7: sql.Open not found")
	}
	info := opener.Info()
	// tainted objects: string parameters mentioned in the DSN expression, closed under assignment
	tainted := map[types.Object]bool{}
	mentions := func(e ast.Expr) bool {
		hit := false
		ast.Inspect(e, func(n ast.Node) bool {
			if id, ok := n.(*ast.Ident); ok && tainted[kit.ObjOf(info, id)] {
				hit = true
			}
			return true
		})
		return hit
	}
	params := map[types.Object]bool{}
	for _, p := range opener.Params() {
		if b, ok := p.Type().Underlying().(*types.Basic); ok && b.Kind() == types.String {
			params[p] = true
		}
	}
	// which parameters flow into the DSN: walk back from the DSN argument
	var dsnVars func(e ast.Expr, depth int)
	dsnVars = func(e ast.Expr, depth int) {
		if depth > 4 {
			return
		}
		ast.Inspect(e, func(n ast.Node) bool {
			id, ok := n.(*ast.Ident)
			if !ok {
				return true
			}
			o := kit.ObjOf(info, id)
			if params[o] {
				tainted[o] = true
			}
			if v, ok := o.(*types.Var); ok && !v.IsField() && !params[o] {
				ast.Inspect(opener.Body, func(x ast.Node) bool {
					if as, ok := x.(*ast.AssignStmt); ok {
						for i, l := range as.Lhs {
							if kit.ObjOf(info, l) == o && i < len(as.Rhs) {
								dsnVars(as.Rhs[i], depth+1)
							}
						}
					}
					return true
				})
			}
			return true
		})
	}
	if len(open.Args) >= 2 {
		dsnVars(open.Args[1], 0)
	}
	if len(tainted) == 0 {
		r7.Ob(opener, open, "database file name", "flows from a parameter").Undecided("cannot find the parameter that names the database file")
		return
	}
	for round := 0; round < 3; round++ {
		ast.Inspect(opener.Body, func(x ast.Node) bool {
			if as, ok := x.(*ast.AssignStmt); ok {
				for i, l := range as.Lhs {
					if i < len(as.Rhs) && mentions(as.Rhs[i]) {
						if o := kit.ObjOf(info, l); o != nil {
							tainted[o] = true
						}
					}
				}
			}
			return true
		})
	}
	examined := 0
	bad := ""
	for _, f := range c.P.Funcs("store") {
		if f.Body == nil {
			continue
		}
		for _, call := range f.AllCalls(false) {
			q := kit.QualName(kit.Callee(f.Info(), call))
			if !mutators[q] {
				continue
			}
			examined++
			if f.Root() != opener {
				continue
			}
			for _, a := range call.Args {
				if mentions(a) {
					bad = "`" + f.Str(call) + "` at " + f.At(call) + " modifies a file whose name is derived from the database file name"
				}
			}
		}
	}
	o := r7.Ob(opener, open, "store file ownership", "no remove/rename/truncate/rewrite of a path derived from the database file name in package store")
	if bad != "" {
		o.Violation("%s: after an unclean stop the write-ahead log holds every acknowledged write since the last checkpoint; deleting or rewriting it (or the main file) loses them", bad)
	} else {
		o.OK("%d file-system mutators in package store, none on the database path", examined)
	}
}

// siteOf returns the SQL site of a call.
func (m *storeModel) siteOf(call *ast.CallExpr) *kit.SQLSite {
	for _, s := range m.sql.Sites {
		if s.Call == call {
			return s
		}
	}
	return nil
}

func txParamOf(f *kit.Func) *types.Var {
	for _, p := range f.Params() {
		if kit.IsNamedType(p.Type(), "database/sql", "Tx") {
			return p
		}
	}
	return nil
}

func txParamIndex(f *kit.Func) int {
	for i, p := range f.Params() {
		if kit.IsNamedType(p.Type(), "database/sql", "Tx") {
			return i
		}
	}
	return -1
}

func siteKey(s *kit.SQLSite) string {
	k := s.Recv + "." + s.Method
	if len(s.Stmts) > 0 {
		st := s.Stmts[0]
		k += " " + st.Verb + " " + st.Table
		if len(st.Where) > 0 {
			k += " WHERE " + strings.Join(st.Where, ",")
		}
	}
	return k
}

func c04R1(c *kit.Ctx, m *storeModel, r1 *kit.Rule) {
	keyCount := map[string]int{}
	mk := func(f *kit.Func, n ast.Node, key string) *kit.Ob {
		k := f.Name + "|" + key
		keyCount[k]++
		if keyCount[k] > 1 {
			key += " #" + strconv.Itoa(keyCount[k])
		}
		return r1.Ob(f, n, key, "executes on the open transaction")
	}
	// (a) functions that begin a transaction
	for _, f := range c.P.Funcs("store") {
		if f.Body == nil || f.Lit != nil {
			continue
		}
		begin := beginCallOf(f)
		if begin == nil {
			continue
		}
		c.Analysed(f)
		info := f.Info()
		// the tx variable
		var txVar types.Object
		txVar = txVarOfBegin(f, begin)
		if txVar == nil {
			c.Fatalf("R1: cannot find the variable receiving Begin() in %s", f.Name)
		}
		isTx := func(e ast.Expr) bool { return e != nil && kit.ObjOf(info, e) == txVar }
		classify := func(fn *kit.Func, call *ast.CallExpr) (string, bool, bool) { // key, ok, relevant
			if s := m.siteOf(call); s != nil {
				switch s.Recv {
				case "tx":
					sel, _ := ast.Unparen(call.Fun).(*ast.SelectorExpr)
					return siteKey(s), sel != nil && isTx(sel.X), true
				case "stmt":
					ok := s.Prepared != nil && s.Prepared.Recv == "tx"
					if ok {
						sel, _ := ast.Unparen(s.Prepared.Call.Fun).(*ast.SelectorExpr)
						ok = sel != nil && isTx(sel.X)
					}
					return siteKey(s), ok, true
				case "db":
					return siteKey(s), false, true
				case "wrapper":
					return siteKey(s), isTx(s.TxArg), true
				}
			}
			// helper taking the transaction
			if cf := fn.CalleeFunc(call); cf != nil && cf.PkgRel() == "store" {
				if ti := txParamIndex(cf); ti >= 0 && ti < len(call.Args) {
					return "call " + cf.Name, isTx(call.Args[ti]), true
				}
			}
			return "", false, false
		}
		st := &kit.Std{F: f}
		st.ErrTag = func(call *ast.CallExpr, s kit.S) string {
			if call == begin {
				return "begin"
			}
			if kit.CallIs(info, call, qCommit) {
				return "commit"
			}
			return ""
		}
		st.OnErrEdge = func(tag string, isErr bool, s kit.S) (kit.S, bool) {
			if tag == "begin" {
				if isErr {
					return s.Set("tx", "none"), true
				}
				return s.Set("tx", "begun"), true
			}
			return s, true
		}
		verdict := map[*ast.CallExpr]*struct {
			key string
			ok  bool
			fn  *kit.Func
		}{}
		var order []*ast.CallExpr
		record := func(fn *kit.Func, call *ast.CallExpr) {
			if key, ok, rel := classify(fn, call); rel {
				if v := verdict[call]; v == nil {
					verdict[call] = &struct {
						key string
						ok  bool
						fn  *kit.Func
					}{key, ok, fn}
					order = append(order, call)
				}
			}
		}
		st.OnCall = func(call *ast.CallExpr, n ast.Node, s kit.S) []kit.S {
			if kit.CallIs(info, call, qCommit) || isRollback(f, call) {
				return []kit.S{s.Set("tx", "done")}
			}
			if s.Get("tx") != "begun" {
				// a statement of a transaction function executed before Begin or
				// after Commit/Rollback: what it reads is not the snapshot the
				// transaction writes against, what it writes is not atomic with it
				if site := m.siteOf(call); site != nil && len(site.Stmts) > 0 {
					if v := verdict[call]; v == nil {
						verdict[call] = &struct {
							key string
							ok  bool
							fn  *kit.Func
						}{siteKey(site) + " (outside the transaction)", false, f}
						order = append(order, call)
					}
				}
				return nil
			}
			record(f, call)
			// a local closure invoked while the transaction is open: its
			// statements (lexically) count as well
			if cf := f.CalleeFunc(call); cf != nil && cf.Lit != nil && !isRollback(f, call) {
				for _, inner := range cf.AllCalls(true) {
					record(cf, inner)
				}
			}
			return nil
		}
		res := c.P.Graph(f).Run(kit.NewS().Set("tx", "none"), st.Client())
		if res.Overflow {
			c.Fatalf("R1: overflow in %s", f.Name)
		}
		for _, call := range order {
			v := verdict[call]
			o := mk(f, call, v.key)
			if v.ok {
				o.OK("receiver/argument is the transaction begun in %s", f.Name)
			} else {
				o.Violation("while the transaction of %s is open, `%s` does not execute on it (runs on the database handle, a nil transaction, or another object): it is neither atomic with the batch nor isolated from it", f.Name, v.fn.Str(call))
			}
		}
	}
	// (b) helpers with a *sql.Tx parameter
	for _, f := range c.P.Funcs("store") {
		if f.Body == nil || f.Lit != nil {
			continue
		}
		txp := txParamOf(f)
		if txp == nil {
			continue
		}
		c.Analysed(f)
		info := f.Info()
		st := &kit.Std{F: f}
		st.Eval.Atom = func(e ast.Expr) (string, bool, bool) {
			a, b, op, ok := kit.CmpAtom(e)
			if !ok || (op != token.EQL && op != token.NEQ) {
				return "", false, false
			}
			if kit.IsNilIdent(info, a) {
				a, b = b, a
			}
			if kit.IsNilIdent(info, b) && kit.ObjOf(info, a) == txp {
				return "txnn", op == token.EQL, true
			}
			return "", false, false
		}
		type v struct {
			key string
			ok  bool
			why string
		}
		verdict := map[*ast.CallExpr]*v{}
		var order []*ast.CallExpr
		st.OnCall = func(call *ast.CallExpr, n ast.Node, s kit.S) []kit.S {
			set := func(key string, ok bool, why string) {
				cur := verdict[call]
				if cur == nil {
					verdict[call] = &v{key, ok, why}
					order = append(order, call)
				} else if !ok {
					cur.ok, cur.why = false, why
				}
			}
			if site := m.siteOf(call); site != nil {
				switch site.Recv {
				case "db":
					set(siteKey(site), s.Get("a:txnn") == "F", "runs on the database handle although the caller's transaction may be non-nil")
				case "tx":
					sel, _ := ast.Unparen(call.Fun).(*ast.SelectorExpr)
					set(siteKey(site), sel != nil && kit.ObjOf(info, sel.X) == txp, "receiver is not the transaction parameter")
				case "stmt":
					ok := site.Prepared != nil && site.Prepared.Recv == "tx"
					set(siteKey(site), ok, "statement was not prepared on the transaction parameter")
				case "wrapper":
					set(siteKey(site), site.TxArg != nil && kit.ObjOf(info, site.TxArg) == txp, "the transaction parameter is not passed on")
				}
				return nil
			}
			if cf := f.CalleeFunc(call); cf != nil && cf.PkgRel() == "store" {
				if ti := txParamIndex(cf); ti >= 0 && ti < len(call.Args) {
					set("call "+cf.Name, kit.ObjOf(info, call.Args[ti]) == txp, "the transaction parameter is not passed on")
				}
			}
			return nil
		}
		res := c.P.Graph(f).Run(kit.NewS(), st.Client())
		if res.Overflow {
			c.Fatalf("R1: overflow in %s", f.Name)
		}
		for _, call := range order {
			x := verdict[call]
			o := mk(f, call, x.key)
			if x.ok {
				o.OK("on the transaction parameter (database handle only where it is nil)")
			} else {
				o.Violation("in helper %s, `%s`: %s", f.Name, f.Str(call), x.why)
			}
		}
	}
}

// c04R4: in the edge writer, on every path on which an edge is inserted under
// the root sentinel, the meta root id is updated (on the tx, checked by R1)
// before Commit.
func c04R4(c *kit.Ctx, m *storeModel, r4 *kit.Rule) {
	ew := m.writer("edge_points")
	if ew == nil {
		c.Fatalf("edge writer not found")
	}
	f := ew.F
	info := f.Info()
	// which id parameter is the parent: the one bound to column `up` of INSERT INTO edges
	var parent *types.Var
	for _, s := range m.sql.Sites {
		if !ew.owns(s) || !s.HasVerb("INSERT", "edges") || len(s.Stmts) == 0 {
			continue
		}
		for i, col := range s.Stmts[0].Cols {
			if col == "up" && i < len(s.Args) {
				parent = ew.idParam(s, s.Args[i])
			}
		}
		if parent != nil {
			break
		}
	}
	if parent == nil {
		c.Fatalf("R4: cannot determine the parent-id parameter of %s from INSERT INTO edges", f.Name)
	}
	st := &kit.Std{F: f}
	// setters and small helpers are followed (the cached root id may be set through one)
	// (and the body function, when the writer hands the transaction to one)
	st.ShouldInline = func(cf *kit.Func, call *ast.CallExpr) bool { return txParamOf(cf) == nil || cf == ew.Body }
	st.Eval.Atom = func(e ast.Expr) (string, bool, bool) {
		isP := func(x ast.Expr) bool { return st.ObjOf(x) == types.Object(parent) }
		if neg, ok := eqAtom(e, isP, constStringIs(info, "root")); ok {
			return "proot", neg, true
		}
		return "", false, false
	}
	bad := map[*ast.CallExpr]kit.S{}
	st.OnCall = func(call *ast.CallExpr, n ast.Node, s kit.S) []kit.S {
		if site := m.siteOf(call); site != nil {
			if site.HasVerb("INSERT", "edges") {
				return []kit.S{s.Set("ins", "1")}
			}
			if site.HasVerb("UPDATE", "meta") && contains(site.Stmts[0].Cols, "root_id") {
				s = s.Set("meta", "1")
				if len(site.Args) == 1 {
					if o := kit.ObjOf(info, st.Resolve(site.Args[0])); o != nil {
						s = s.Set("metaobj", kit.VarID(o))
					}
				}
				return []kit.S{s}
			}
		}
		if kit.CallIs(info, call, qCommit) {
			if s.Get("ins") == "1" && s.Get("meta") != "1" {
				if _, dup := bad[call]; !dup {
					bad[call] = s
				}
			}
		}
		return nil
	}
	var metaArg ast.Expr
	for _, sx := range m.sql.Sites {
		if ew.owns(sx) && sx.HasVerb("UPDATE", "meta") && len(sx.Stmts) > 0 && contains(sx.Stmts[0].Cols, "root_id") && len(sx.Args) == 1 {
			metaArg = sx.Args[0]
		}
	}
	cacheBad := ""
	st.OnNode = func(n ast.Node, s kit.S) []kit.S {
		if as, ok := n.(*ast.AssignStmt); ok && m.rootField != nil {
			for i, l := range as.Lhs {
				if sel, ok := ast.Unparen(l).(*ast.SelectorExpr); ok && kit.ObjOf(info, sel) == types.Object(m.rootField) {
					same := metaArg == nil || i >= len(as.Rhs) || kit.SameExpr(info, st.Resolve(as.Rhs[i]), metaArg)
					if !same && s.Get("metaobj") != "" {
						// the statement ran in the body function: compare what both denote in the writer
						if o := kit.ObjOf(info, st.Resolve(as.Rhs[i])); o != nil && kit.VarID(o) == s.Get("metaobj") {
							same = true
						}
					}
					if !same {
						cacheBad = "the cached root id is set to `" + f.Str(st.Resolve(as.Rhs[i])) + "` while the store records `" + f.Str(metaArg) + "`"
					}
					s = s.Set("cached", "1")
				}
			}
		}
		return []kit.S{s}
	}
	res := c.P.Graph(f).Run(kit.NewS().Set("a:proot", "T"), st.Client())
	if res.Overflow {
		c.Fatalf("R4: overflow")
	}
	c.AddValuations(1)
	{
		oc := r4.Ob(f, ew.Commit, "cached root id follows the store", "every successful path that updated meta.root_id also updated the in-memory root id to the same value")
		for _, ex := range res.Exits {
			if ex.Return == nil || st.ReturnsNil(ex.Return, ex.State) == "nonnil" {
				continue
			}
			if ex.State.Get("meta") == "1" && ex.State.Get("cached") != "1" && cacheBad == "" {
				cacheBad = "a successful path updates meta.root_id but not the in-memory root id: until restart the instance answers root queries and the root-tombstone refusal with the old root"
			}
		}
		if cacheBad != "" {
			oc.Violation("%s", cacheBad)
		} else {
			oc.OK("assignment of the cached field on every such path")
		}
	}
	o := r4.Ob(f, ew.Commit, "root id with root edge", "with parent == \"root\": every path that inserts the edge updates meta.root_id before Commit")
	if len(bad) > 0 {
		for call := range bad {
			o.Violation("Commit at %s is reachable after INSERT INTO edges under the root sentinel without UPDATE meta SET root_id: after a crash the store would reopen with another root", f.At(call))
		}
		return
	}
	o.OK("UPDATE meta SET root_id precedes Commit on every inserting path")
}

// traceToParam follows `x` through simple struct-field/local assignments
// (edge.Up = parentID) to one of the parameters.
func traceToParam(f *kit.Func, e ast.Expr, params []*types.Var) *types.Var {
	info := f.Info()
	for depth := 0; depth < 4; depth++ {
		o := kit.ObjOf(info, e)
		for _, p := range params {
			if o == p {
				return p
			}
		}
		// find the unique assignment `e = rhs`
		var rhs ast.Expr
		n := 0
		ast.Inspect(f.Body, func(x ast.Node) bool {
			as, ok := x.(*ast.AssignStmt)
			if !ok || len(as.Lhs) != len(as.Rhs) {
				return true
			}
			for i, l := range as.Lhs {
				if kit.SameExpr(info, l, e) {
					rhs = as.Rhs[i]
					n++
				}
			}
			return true
		})
		if n != 1 {
			return nil
		}
		e = rhs
	}
	return nil
}

var pragmaRe = regexp.MustCompile(`_pragma=([a-z_]+)\(([^)]*)\)`)

func c04R5(c *kit.Ctx, m *storeModel, r5 *kit.Rule) {
	var opener *kit.Func
	var open *ast.CallExpr
	for _, f := range c.P.Funcs("store") {
		for _, call := range f.AllCalls(false) {
			if kit.CallIs(f.Info(), call, "database/sql.Open") {
				opener, open = f, call
			}
		}
	}
	if open == nil || len(open.Args) < 2 {
		c.Fatalf("R5: sql.Open call not found in package store")
	}
	c.Analysed(opener)
	tmpls := kit.StringTemplates(opener, open.Args[1])
	want := []struct {
		name string
		ok   func(v string) bool
		desc string
	}{
		{"journal_mode", func(v string) bool { return strings.EqualFold(v, "WAL") }, "journal_mode(WAL)"},
		{"synchronous", func(v string) bool {
			v = strings.ToUpper(v)
			return v == "NORMAL" || v == "FULL" || v == "EXTRA" || v == "1" || v == "2" || v == "3"
		}, "synchronous(NORMAL|FULL|EXTRA)"},
		{"busy_timeout", func(v string) bool { n, err := strconv.Atoi(v); return err == nil && n > 0 }, "busy_timeout(>0)"},
	}
	for _, w := range want {
		o := r5.Ob(opener, open, "pragma "+w.name, "data source name contains "+w.desc)
		if len(tmpls) == 0 {
			o.Undecided("cannot resolve the data source name")
			continue
		}
		allOK := true
		for _, t := range tmpls {
			found := false
			for _, mm := range pragmaRe.FindAllStringSubmatch(t, -1) {
				if mm[1] == w.name && w.ok(mm[2]) {
					found = true
				}
				if mm[1] == w.name && !w.ok(mm[2]) {
					found = false
					break
				}
			}
			if !found {
				allOK = false
			}
		}
		if allOK {
			o.OK("in every resolved DSN shape (%d)", len(tmpls))
		} else {
			o.Violation("the data source name `%s` lacks %s", trunc160(strings.Join(tmpls, " | ")), w.desc)
		}
	}
}

func trunc160(s string) string {
	if len(s) > 200 {
		return s[:200] + "…"
	}
	return s
}

// c04R6: initialisation guards.  In the opener (the function that calls
// sql.Open) and what it calls: under the scenario "the store file was already
// initialised" (meta row present, root id non-empty, key non-empty) none of
// the initialisers is reachable.
func c04R6(c *kit.Ctx, m *storeModel, r6 *kit.Rule) {
	// key field: scan destination of jwt_key
	var keyField *types.Var
	var metaSelect *kit.SQLSite
	for _, s := range m.sql.Sites {
		if !s.HasVerb("SELECT", "meta") || len(s.Stmts) != 1 {
			continue
		}
		for i, col := range s.Stmts[0].Cols {
			if col != "jwt_key" {
				continue
			}
			for _, call := range s.F.AllCalls(false) {
				if kit.CallIs(s.F.Info(), call, "database/sql.(*Rows).Scan", "database/sql.(*Row).Scan") && i < len(call.Args) {
					if u, ok := ast.Unparen(call.Args[i]).(*ast.UnaryExpr); ok && u.Op == token.AND {
						if v, ok := kit.ObjOf(s.F.Info(), u.X).(*types.Var); ok && v.IsField() {
							keyField = v
							metaSelect = s
						}
					}
				}
			}
		}
	}
	if keyField == nil || m.rootField == nil {
		c.Fatalf("R6: cannot find the fields caching meta.root_id / meta.jwt_key")
	}
	ew := m.writer("edge_points")
	// initialisers
	isRootInit := func(f *kit.Func, call *ast.CallExpr) bool {
		cf := f.CalleeFunc(call)
		if cf == nil || cf.Body == nil {
			return false
		}
		for _, inner := range cf.AllCalls(false) {
			if m.writerOf(cf, inner) == ew && len(inner.Args) >= 2 {
				if s, ok := kit.ConstString(cf.Info(), inner.Args[1]); ok && s == "root" {
					return true
				}
			}
		}
		return false
	}
	isKeyInit := func(f *kit.Func, call *ast.CallExpr) bool {
		cf := f.CalleeFunc(call)
		if cf == nil || cf.Body == nil {
			return false
		}
		for _, inner := range cf.AllCalls(false) {
			if s := m.siteOf(inner); s != nil && s.HasVerb("UPDATE", "meta") && len(s.Stmts) > 0 && contains(s.Stmts[0].Cols, "jwt_key") {
				return true
			}
		}
		return false
	}
	isMetaInsert := func(call *ast.CallExpr) bool {
		s := m.siteOf(call)
		return s != nil && s.HasVerb("INSERT", "meta")
	}
	// the effect itself (wherever it is executed: in the function or in a helper evaluated inline)
	rootEffect := func(cur *kit.Func, call *ast.CallExpr) bool {
		if m.writerOf(cur, call) == ew && len(call.Args) >= 2 {
			if s, ok := kit.ConstString(cur.Info(), call.Args[1]); ok && s == "root" {
				return true
			}
		}
		return false
	}
	keyEffect := func(cur *kit.Func, call *ast.CallExpr) bool {
		s := m.siteOf(call)
		return s != nil && s.HasVerb("UPDATE", "meta") && len(s.Stmts) > 0 && contains(s.Stmts[0].Cols, "jwt_key")
	}
	type target struct {
		name   string
		hit    func(f *kit.Func, call *ast.CallExpr) bool
		effect func(cur *kit.Func, call *ast.CallExpr) bool
	}
	targets := []target{
		{"root initialiser", isRootInit, rootEffect},
		{"signing-key initialiser", isKeyInit, keyEffect},
		{"meta row insert", func(f *kit.Func, call *ast.CallExpr) bool { return isMetaInsert(call) }, func(cur *kit.Func, call *ast.CallExpr) bool { return isMetaInsert(call) }},
	}
	// candidate functions: every declared function of store that contains a call of a target
	for _, tg := range targets {
		found := 0
		for _, f := range c.P.Funcs("store") {
			if f.Body == nil || f.Lit != nil {
				continue
			}
			var sites []*ast.CallExpr
			for _, call := range f.AllCalls(false) {
				if tg.hit(f, call) {
					sites = append(sites, call)
				}
			}
			if len(sites) == 0 {
				continue
			}
			// the wipe/reset path deliberately re-initialises: skip functions
			// that DELETE FROM the tables first
			wipes := false
			for _, call := range f.AllCalls(false) {
				if s := m.siteOf(call); s != nil && s.HasVerb("DELETE", "") {
					wipes = true
				}
			}
			if wipes {
				continue
			}
			found++
			c.Analysed(f)
			info := f.Info()
			st := &kit.Std{F: f}
			subst := func(x ast.Expr) (constant.Value, bool) {
				x = ast.Unparen(x)
				if sel, ok := x.(*ast.SelectorExpr); ok {
					if kit.ObjOf(info, sel) == m.rootField {
						return constant.MakeString("some-root-id"), true
					}
				}
				if call, ok := x.(*ast.CallExpr); ok && len(call.Args) == 1 {
					if b, ok := kit.Callee(info, call).(*types.Builtin); ok && b.Name() == "len" {
						if sel, ok := ast.Unparen(call.Args[0]).(*ast.SelectorExpr); ok && kit.ObjOf(info, sel) == keyField {
							return constant.MakeInt64(20), true
						}
					}
				}
				return nil, false
			}
			st.Fold = func(e ast.Expr, s kit.S) (bool, bool) { return foldSubst(info, e, subst) }
			// `for rows.Next()` over the meta SELECT: a row exists → first test true
			st.Eval.Atom = func(e ast.Expr) (string, bool, bool) { return "", false, false }
			firstNext := map[token.Pos]bool{}
			_ = firstNext
			st.Eval.OnUnknown = nil
			userFold := st.Fold
			st.Fold = func(e ast.Expr, s kit.S) (bool, bool) {
				if v, ok := userFold(e, s); ok {
					return v, ok
				}
				return false, false
			}
			// initialisers are evaluated inline: a guard that lives inside the initialiser
			// (ensureKey: `if len(key) > 0 { return nil }`) counts like one at the call
			st.ShouldInline = func(cf *kit.Func, call *ast.CallExpr) bool {
				return m.writerOf(st.Cur(), call) == nil && txParamOf(cf) == nil
			}
			reached := map[*ast.CallExpr]bool{}
			bySite := map[string]*ast.CallExpr{}
			st.OnCall = func(call *ast.CallExpr, n ast.Node, s kit.S) []kit.S {
				if st.Cur() == f && tg.hit(f, call) {
					k := strconv.Itoa(int(call.Pos()))
					bySite[k] = call
					s = s.Set("site", k)
					if tg.effect(f, call) || f.CalleeFunc(call) == nil || !st.ShouldInline(f.CalleeFunc(call), call) {
						reached[call] = true
					}
					return []kit.S{s}
				}
				if st.Cur() != f && tg.effect(st.Cur(), call) {
					if site := bySite[s.Get("site")]; site != nil {
						reached[site] = true
					}
				}
				return nil
			}
			st.OnBranch = nil
			cl := st.Client()
			// intercept the condition `rows.Next()` to force the first iteration
			origCond := cl.Cond
			cl.Cond = func(cond ast.Expr, s kit.S) (t, fl []kit.S) {
				if call, ok := ast.Unparen(cond).(*ast.CallExpr); ok && metaSelect != nil && metaSelect.F == f && kit.CallIs(info, call, "database/sql.(*Rows).Next") && !s.Has("next1") {
					return []kit.S{s.Set("next1", "done")}, nil
				}
				return origCond(cond, s)
			}
			res := c.P.Graph(f).Run(kit.NewS(), cl)
			if res.Overflow {
				c.Fatalf("R6: overflow in %s", f.Name)
			}
			c.AddValuations(1)
			for _, call := range sites {
				o := r6.Ob(f, call, tg.name, "unreachable when the store file is already initialised (meta row present, root id and key non-empty)")
				if reached[call] {
					o.Violation("%s `%s` is reachable on an already initialised store: a restart would repeat the initialisation (new root / new signing key / second meta row)", tg.name, f.Str(call))
				} else {
					o.OK("guarded: not reachable under the initialised-store scenario")
				}
			}
		}
		if found == 0 {
			r6.Ob(nil, nil, tg.name, "initialiser exists").Undecided("no call site of the %s found", tg.name)
		}
	}
	checkPersistedKeyInUse(c, m, keyField, r6)
	// liveness: each initialiser is guarded by its OWN emptiness condition only.  A
	// crash between two initialisation steps leaves a store where one piece is present
	// and another is missing; the next start must still create the missing one.
	type live struct {
		name    string
		hit     func(f *kit.Func, call *ast.CallExpr) bool
		effect  func(cur *kit.Func, call *ast.CallExpr) bool
		rootSet bool
		keyLen  int64
	}
	for _, lv := range []live{
		{"root initialiser", isRootInit, rootEffect, false, 20},
		{"signing-key initialiser", isKeyInit, keyEffect, true, 0},
	} {
		for _, f := range c.P.Funcs("store") {
			if f.Body == nil || f.Lit != nil {
				continue
			}
			var sites []*ast.CallExpr
			wipes := false
			for _, call := range f.AllCalls(false) {
				if lv.hit(f, call) {
					sites = append(sites, call)
				}
				if s := m.siteOf(call); s != nil && s.HasVerb("DELETE", "") {
					wipes = true
				}
			}
			if len(sites) == 0 || wipes {
				continue
			}
			info := f.Info()
			st := &kit.Std{F: f}
			subst := func(x ast.Expr) (constant.Value, bool) {
				x = ast.Unparen(x)
				if sel, ok := x.(*ast.SelectorExpr); ok && kit.ObjOf(info, sel) == types.Object(m.rootField) {
					if lv.rootSet {
						return constant.MakeString("some-root-id"), true
					}
					return constant.MakeString(""), true
				}
				if call, ok := x.(*ast.CallExpr); ok && len(call.Args) == 1 {
					if b, ok := kit.Callee(info, call).(*types.Builtin); ok && b.Name() == "len" {
						if sel, ok := ast.Unparen(call.Args[0]).(*ast.SelectorExpr); ok && kit.ObjOf(info, sel) == types.Object(keyField) {
							return constant.MakeInt64(lv.keyLen), true
						}
					}
				}
				return nil, false
			}
			st.Fold = func(e ast.Expr, s kit.S) (bool, bool) { return foldSubst(info, e, subst) }
			st.ShouldInline = func(cf *kit.Func, call *ast.CallExpr) bool {
				return m.writerOf(st.Cur(), call) == nil && txParamOf(cf) == nil
			}
			st.OnCall = func(call *ast.CallExpr, n ast.Node, s kit.S) []kit.S {
				// the initialisation counts when its effect is executed (in the function or in
				// an initialiser evaluated inline); a call that is not followed counts as is
				if lv.effect(st.Cur(), call) {
					return []kit.S{s.Set("init", "1")}
				}
				if st.Cur() == f && lv.hit(f, call) {
					if cf := f.CalleeFunc(call); cf == nil || !st.ShouldInline(cf, call) {
						return []kit.S{s.Set("init", "1")}
					}
				}
				return nil
			}
			res := c.P.Graph(f).Run(kit.NewS(), st.Client())
			if res.Overflow {
				c.Fatalf("R6 liveness: overflow in %s", f.Name)
			}
			c.AddValuations(1)
			what := map[bool]string{true: "the root exists but the signing key is missing", false: "the signing key exists but the root is missing"}[lv.rootSet]
			o := r6.Ob(f, sites[0], lv.name+" runs when needed", "when "+what+" (crash during first start), every successful start still runs the "+lv.name)
			missed := false
			for _, e := range res.Exits {
				if e.Return == nil || st.ReturnsNil(e.Return, e.State) == "nonnil" {
					continue
				}
				if e.State.Get("init") != "1" {
					missed = true
				}
			}
			if missed {
				o.Violation("when %s, %s can return successfully without running the %s: the condition guarding it depends on something else than its own missing piece, so a crash between the initialisation steps is never repaired", what, f.Name, lv.name)
			} else {
				o.OK("reached on every successful path of %s under that scenario", f.Name)
			}
		}
	}
}

// foldSubst evaluates a boolean leaf after substituting sub-expressions.
func foldSubst(info *types.Info, e ast.Expr, subst func(ast.Expr) (constant.Value, bool)) (bool, bool) {
	used := false
	var ev func(x ast.Expr) (constant.Value, bool)
	ev = func(x ast.Expr) (constant.Value, bool) {
		x = ast.Unparen(x)
		if v, ok := subst(x); ok {
			used = true
			return v, true
		}
		if tv, ok := info.Types[x]; ok && tv.Value != nil {
			return tv.Value, true
		}
		if x == ast.Expr(kit.EmptyStringLit) {
			return constant.MakeString(""), true
		}
		switch y := x.(type) {
		case *ast.CallExpr:
			// len(<string>)
			if b, ok := kit.Callee(info, y).(*types.Builtin); ok && b.Name() == "len" && len(y.Args) == 1 {
				if a, ok := ev(y.Args[0]); ok && a.Kind() == constant.String {
					return constant.MakeInt64(int64(len(constant.StringVal(a)))), true
				}
			}
		case *ast.BinaryExpr:
			a, ok1 := ev(y.X)
			b, ok2 := ev(y.Y)
			if !ok1 || !ok2 {
				return nil, false
			}
			switch y.Op {
			case token.EQL, token.NEQ, token.LSS, token.LEQ, token.GTR, token.GEQ:
				if (a.Kind() == constant.String) != (b.Kind() == constant.String) || a.Kind() == constant.Bool || b.Kind() == constant.Bool {
					return nil, false
				}
				return constant.MakeBool(constant.Compare(a, y.Op, b)), true
			}
		case *ast.UnaryExpr:
			if y.Op == token.NOT {
				if a, ok := ev(y.X); ok && a.Kind() == constant.Bool {
					return constant.MakeBool(!constant.BoolVal(a)), true
				}
			}
		}
		return nil, false
	}
	v, ok := ev(e)
	if !ok || !used || v.Kind() != constant.Bool {
		return false, false
	}
	return constant.BoolVal(v), true
}

// findKeyField returns the field that caches meta.jwt_key (scan destination).
func findKeyField(m *storeModel) *types.Var {
	var keyField *types.Var
	for _, s := range m.sql.Sites {
		if !s.HasVerb("SELECT", "meta") || len(s.Stmts) != 1 {
			continue
		}
		for i, col := range s.Stmts[0].Cols {
			if col != "jwt_key" {
				continue
			}
			for _, call := range s.F.AllCalls(false) {
				if kit.CallIs(s.F.Info(), call, "database/sql.(*Rows).Scan", "database/sql.(*Row).Scan") && i < len(call.Args) {
					if u, ok := ast.Unparen(call.Args[i]).(*ast.UnaryExpr); ok && u.Op == token.AND {
						if v, ok := kit.ObjOf(s.F.Info(), u.X).(*types.Var); ok && v.IsField() {
							keyField = v
						}
					}
				}
			}
		}
	}
	return keyField
}

// checkPersistedKeyInUse (shared by C04/R6 and C09/R8).
func checkPersistedKeyInUse(c *kit.Ctx, m *storeModel, keyField *types.Var, r *kit.Rule) {
	// the signing key used by the running instance is the one that was persisted:
	// the value bound to UPDATE meta SET jwt_key is the in-memory key field, or a
	// local that is also stored into that field on every successful path.
	for _, f := range c.P.Funcs("store") {
		if f.Body == nil || f.Lit != nil {
			continue
		}
		var site *kit.SQLSite
		for _, call := range f.AllCalls(false) {
			if sx := m.siteOf(call); sx != nil && sx.HasVerb("UPDATE", "meta") && len(sx.Stmts) > 0 && contains(sx.Stmts[0].Cols, "jwt_key") {
				site = sx
			}
		}
		if site == nil || len(site.Args) < 1 {
			continue
		}
		info := f.Info()
		o := r.Ob(f, site.Call, "persisted key is the key in use", "the value stored as meta.jwt_key is the in-memory signing key of this instance")
		arg := ast.Unparen(site.Args[0])
		if sel, ok := arg.(*ast.SelectorExpr); ok && kit.ObjOf(info, sel) == types.Object(keyField) {
			o.OK("bound from the key field itself")
			continue
		}
		v := kit.ObjOf(info, arg)
		if v == nil {
			o.Undecided("bound value `%s` is neither the key field nor a local", f.Str(arg))
			continue
		}
		st := &kit.Std{F: f}
		st.OnNode = func(n ast.Node, s kit.S) []kit.S {
			if as, ok := n.(*ast.AssignStmt); ok {
				for i, l := range as.Lhs {
					if sel, ok := ast.Unparen(l).(*ast.SelectorExpr); ok && kit.ObjOf(info, sel) == types.Object(keyField) && i < len(as.Rhs) {
						if kit.ObjOf(info, as.Rhs[i]) == v {
							s = s.Set("kf", "1")
						} else {
							s = s.Set("kf", "other")
						}
					}
				}
			}
			return []kit.S{s}
		}
		res := c.P.Graph(f).Run(kit.NewS(), st.Client())
		bad := false
		for _, ex := range res.Exits {
			if ex.Return == nil || st.ReturnsNil(ex.Return, ex.State) == "nonnil" {
				continue
			}
			if ex.State.Get("kf") != "1" {
				bad = true
			}
		}
		if bad {
			o.Violation("%s persists `%s` as the signing key but can return successfully without making it the in-memory key: until the next restart the instance signs and verifies tokens with a different (possibly empty) key than the one it stored", f.Name, f.Str(arg))
		} else {
			o.OK("local `%s` is stored into the key field on every successful path", f.Str(arg))
		}
	}
}
