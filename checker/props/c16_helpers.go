package props

import (
	"go/ast"
	"go/token"
	"go/types"

	"siotcheck/kit"
)

// Helpers of the COBS reader that the flow evaluates inline.

func c16IsIntExpr(info *types.Info, e ast.Expr) bool {
	t := info.TypeOf(e)
	if t == nil {
		return false
	}
	b, ok := t.Underlying().(*types.Basic)
	return ok && b.Info()&types.IsInteger != 0
}

// pureHelper: a same-package function (not the reader) whose body neither
// writes through its parameters nor calls anything but builtins: a scanner
// or a predicate.  Such calls are evaluated inline.
func (fl *c16Flow) pureHelper(cf *kit.Func) bool {
	if cf == nil || cf.Body == nil || cf == fl.rd.f || cf.Pkg != fl.rd.f.Pkg || cf.Lit != nil {
		return false
	}
	if v, ok := fl.pure[cf]; ok {
		return v
	}
	info := cf.Info()
	pure := true
	ast.Inspect(cf.Body, func(n ast.Node) bool {
		switch x := n.(type) {
		case *ast.FuncLit, *ast.GoStmt, *ast.DeferStmt, *ast.SendStmt:
			pure = false
		case *ast.CallExpr:
			if _, ok := kit.Callee(info, x).(*types.Builtin); ok {
				if b := kit.Callee(info, x).(*types.Builtin); b.Name() != "len" && b.Name() != "cap" {
					pure = false
				}
			} else if tv, ok := info.Types[x.Fun]; !ok || !tv.IsType() {
				pure = false
			}
		case *ast.AssignStmt:
			for _, l := range x.Lhs {
				switch ast.Unparen(l).(type) {
				case *ast.Ident:
				default:
					pure = false // writes through an index, field or pointer
				}
			}
		case *ast.IncDecStmt:
			if _, ok := ast.Unparen(x.X).(*ast.Ident); !ok {
				pure = false
			}
		}
		return pure
	})
	if fl.pure == nil {
		fl.pure = map[*kit.Func]bool{}
	}
	fl.pure[cf] = pure
	return pure
}

// predicateKnown: every decision of the helper is an integer comparison, a
// bool constant or a bool variable: the rule interprets all of them.
func (fl *c16Flow) predicateKnown(cf *kit.Func) bool {
	info := cf.Info()
	ok := true
	var leaf func(e ast.Expr)
	leaf = func(e ast.Expr) {
		e = ast.Unparen(e)
		switch x := e.(type) {
		case *ast.UnaryExpr:
			if x.Op == token.NOT {
				leaf(x.X)
				return
			}
		case *ast.BinaryExpr:
			if x.Op == token.LAND || x.Op == token.LOR {
				leaf(x.X)
				leaf(x.Y)
				return
			}
		case *ast.Ident:
			return
		}
		if tv, has := info.Types[e]; has && tv.Value != nil {
			return
		}
		if _, _, is := kit.IntCmp(info, e); is {
			return
		}
		ok = false
	}
	ast.Inspect(cf.Body, func(n ast.Node) bool {
		switch x := n.(type) {
		case *ast.IfStmt:
			leaf(x.Cond)
		case *ast.ForStmt, *ast.RangeStmt, *ast.SwitchStmt:
			ok = false
		case *ast.ReturnStmt:
			for _, r := range x.Results {
				if b, isB := info.TypeOf(r).Underlying().(*types.Basic); isB && b.Kind() == types.Bool {
					leaf(r)
				}
			}
		}
		return true
	})
	return ok
}

// rw rewrites an expression of an inlined helper in terms of the caller:
// parameters (and the receiver) are replaced by the arguments they are bound
// to, and the value variable of a range loop over a parameter by the element
// it stands for.  Only the shapes the atoms look at are rebuilt.
func (fl *c16Flow) rw(e ast.Expr) ast.Expr {
	st := fl.st
	if st == nil {
		return e
	}
	info := fl.rd.f.Info()
	var walk func(e ast.Expr) ast.Expr
	walk = func(e ast.Expr) ast.Expr {
		switch x := e.(type) {
		case *ast.ParenExpr:
			return &ast.ParenExpr{Lparen: x.Lparen, X: walk(x.X), Rparen: x.Rparen}
		case *ast.Ident:
			if r := st.Resolve(x); r != ast.Expr(x) {
				return r
			}
			// the value variable of `for k, v := range <param>`: <arg>[lo+k]
			if o := kit.ObjOf(info, x); o != nil {
				if el := fl.rangeElem(o); el != nil {
					return el
				}
				// a local defined once as an element: v := b[pos]
				if c16IsByteVar(o) {
					if d := ast.Unparen(c16Resolve(st.Cur(), x)); d != ast.Expr(x) {
						if ix, ok := d.(*ast.IndexExpr); ok {
							return walk(ix)
						}
					}
				}
			}
			return x
		case *ast.UnaryExpr:
			return &ast.UnaryExpr{OpPos: x.OpPos, Op: x.Op, X: walk(x.X)}
		case *ast.BinaryExpr:
			return &ast.BinaryExpr{X: walk(x.X), OpPos: x.OpPos, Op: x.Op, Y: walk(x.Y)}
		case *ast.SelectorExpr:
			if _, isSel := info.Selections[x]; isSel {
				return &ast.SelectorExpr{X: walk(x.X), Sel: x.Sel}
			}
			return x
		case *ast.IndexExpr:
			base, idx := walk(x.X), walk(x.Index)
			// (b[lo:hi])[i] is b[lo+i]
			if se, ok := ast.Unparen(base).(*ast.SliceExpr); ok && !se.Slice3 {
				if se.Low != nil {
					idx = &ast.BinaryExpr{X: &ast.ParenExpr{X: se.Low}, Op: token.ADD, Y: idx}
				}
				base = se.X
			}
			return &ast.IndexExpr{X: base, Lbrack: x.Lbrack, Index: idx, Rbrack: x.Rbrack}
		case *ast.CallExpr:
			if b, ok := kit.Callee(info, x).(*types.Builtin); ok && b.Name() == "len" && len(x.Args) == 1 {
				arg := walk(x.Args[0])
				// len of a view b[lo:hi] is hi - lo
				if se, ok := ast.Unparen(arg).(*ast.SliceExpr); ok && se.High != nil && !se.Slice3 {
					if se.Low == nil {
						return se.High
					}
					return &ast.BinaryExpr{X: se.High, Op: token.SUB, Y: &ast.ParenExpr{X: se.Low}}
				}
				return &ast.CallExpr{Fun: x.Fun, Lparen: x.Lparen, Args: []ast.Expr{arg}, Rparen: x.Rparen}
			}
			return x
		}
		return e
	}
	return walk(e)
}

// rangeElem: o is the value variable of a range loop (in the helper being
// evaluated) over an expression that resolves to a view of the caller's
// buffer or to the leftover bytes; the element expression <view base>[lo+key].
func (fl *c16Flow) rangeElem(o types.Object) ast.Expr {
	st := fl.st
	cur := st.Cur()
	info := fl.rd.f.Info()
	var found *ast.RangeStmt
	ast.Inspect(cur.Body, func(n ast.Node) bool {
		if rs, ok := n.(*ast.RangeStmt); ok && rs.Value != nil && kit.ObjOf(info, rs.Value) == o {
			found = rs
		}
		return found == nil
	})
	if found == nil || found.Key == nil {
		return nil
	}
	key, ok := found.Key.(*ast.Ident)
	if !ok || key.Name == "_" {
		return nil
	}
	x := ast.Unparen(st.Resolve(found.X))
	switch y := x.(type) {
	case *ast.SliceExpr:
		if y.Slice3 {
			return nil
		}
		var idx ast.Expr = key
		if y.Low != nil {
			idx = &ast.BinaryExpr{X: &ast.ParenExpr{X: y.Low}, Op: token.ADD, Y: key}
		}
		return &ast.IndexExpr{X: y.X, Index: idx}
	case *ast.Ident, *ast.CallExpr:
		return &ast.IndexExpr{X: y, Index: key}
	}
	return nil
}

func c16IsByteVar(o types.Object) bool {
	v, ok := o.(*types.Var)
	if !ok || v.IsField() {
		return false
	}
	b, ok := v.Type().Underlying().(*types.Basic)
	return ok && b.Kind() == types.Uint8
}

// inPackageCallers names the same-package functions that call the reader.
func (fl *c16Flow) inPackageCallers() string {
	f := fl.rd.f
	out := ""
	for _, g := range fl.c.P.Funcs(f.PkgRel()) {
		if g == f || g.Body == nil {
			continue
		}
		for _, call := range g.AllCalls(true) {
			if g.CalleeFunc(call) == f {
				if out != "" {
					out += ", "
				}
				out += g.Name
				break
			}
		}
	}
	return out
}
